/-
  C13, first sentence: more about the delta component of `Lww.merge` (continues the section "deltas" of
  Lemmas/Lww.lean; kept in a file of its own).
-/
import Emitter.Lemmas.Lww
import Emitter.Spec.Delta

namespace Emitter.Lww
open Emitter Emitter.Spec.Delta

/-- pointwise order on (add, remove) times -/
def tle (a b : Int × Int) : Prop := a.1 ≤ b.1 ∧ a.2 ≤ b.2

theorem tle_refl (a : Int × Int) : tle a a := ⟨Int.le_refl _, Int.le_refl _⟩
theorem tle_trans {a b c : Int × Int} (h1 : tle a b) (h2 : tle b c) : tle a c :=
  ⟨Int.le_trans h1.1 h2.1, Int.le_trans h1.2 h2.2⟩
theorem tle_antisymm {a b : Int × Int} (h1 : tle a b) (h2 : tle b a) : a = b :=
  Prod.ext (Int.le_antisymm h1.1 h2.1) (Int.le_antisymm h1.2 h2.2)
theorem tle_tmax_left (a b : Int × Int) : tle a (tmax a b) := by
  unfold tle tmax; simp only; omega
theorem tle_tmax_right (a b : Int × Int) : tle b (tmax a b) := by
  unfold tle tmax; simp only; omega
theorem tmax_le {a b c : Int × Int} (h1 : tle a c) (h2 : tle b c) : tle (tmax a b) c := by
  unfold tle tmax at *; simp only; omega
theorem tmax_eq_left {a b : Int × Int} (h : tle b a) : tmax a b = a := by
  unfold tle at h; unfold tmax; apply Prod.ext <;> simp only <;> omega

/-! ### the delta is the pointwise specification -/

theorem deltaMap_nil (s : Map) : deltaMap s [] = [] := rfl

theorem deltaMap_head (s : Map) (k : Bytes) (rt : Val) :
    (let sv := get s k
     let a := if sv.add < rt.add then rt.add else 0
     let d := if sv.del < rt.del then rt.del else 0
     if a = 0 ∧ d = 0 then none else some (k, (⟨a, d, rt.payload⟩ : Val))) = ((mergeOne s k rt).2).map (fun v => (k, v)) := by
  rw [mergeOne_snd]
  unfold mDelta Val.isZero
  simp only [Bool.and_eq_true, beq_iff_eq]
  rw [apply_ite (Option.map fun v => (k, v))]
  rfl

theorem deltaMap_cons (s : Map) (k : Bytes) (rt : Val) (rest : Map) :
    deltaMap s ((k, rt) :: rest) =
      match (mergeOne s k rt).2 with
      | some v => (k, v) :: deltaMap s rest
      | none => deltaMap s rest := by
  unfold deltaMap
  rw [List.filterMap_cons]
  have h := deltaMap_head s k rt
  simp only at h ⊢
  rw [h]
  cases (mergeOne s k rt).2 <;> rfl

theorem deltaMap_congr (s s' : Map) (r : Map) (h : ∀ e ∈ r, get s' e.1 = get s e.1) : deltaMap s' r = deltaMap s r := by
  induction r with
  | nil => rfl
  | cons e rest ih =>
    obtain ⟨k, rt⟩ := e
    rw [deltaMap_cons, deltaMap_cons, mergeOne_snd, mergeOne_snd, h (k, rt) List.mem_cons_self,
      ih (fun e he => h e (List.mem_cons_of_mem _ he))]

/-- `Merge` leaves in `other` exactly what the property asks for, entry by entry and in order: the model's
delta IS the pointwise specification computed against the state before the merge -/
theorem delta_eq_spec (s r : Map) (hr : NoDup r) : (merge s r).2 = deltaMap s r := by
  induction r generalizing s with
  | nil => rfl
  | cons e rest ih =>
    obtain ⟨k0, rt⟩ := e
    unfold NoDup at hr
    rw [List.map_cons, List.nodup_cons] at hr
    rw [merge_cons, deltaMap_cons]
    simp only
    have hc : deltaMap (mergeOne s k0 rt).1 rest = deltaMap s rest := by
      apply deltaMap_congr
      intro e he
      apply get_mergeOne_ne
      intro hk
      exact hr.1 (List.mem_map.2 ⟨e, he, hk⟩)
    rw [ih _ hr.2, hc]
    cases (mergeOne s k0 rt).2 <;> rfl

/-! ### membership in a duplicate-free map -/

theorem mem_iff_lookup (m : Map) (hm : NoDup m) (k : Bytes) (v : Val) : (k, v) ∈ m ↔ List.lookup k m = some v := by
  induction m with
  | nil => simp
  | cons e m ih =>
    obtain ⟨a, b⟩ := e
    unfold NoDup at hm
    rw [List.map_cons, List.nodup_cons] at hm
    rw [lookup_cons_eq, List.mem_cons]
    by_cases h : k = a
    · subst h
      rw [if_pos rfl]
      constructor
      · rintro (h | h)
        · rw [(Prod.mk.inj h).2]
        · exact absurd (List.mem_map_of_mem (f := Prod.fst) h) hm.1
      · intro h
        left
        rw [Option.some.inj h]
    · rw [if_neg h, ← ih hm.2]
      constructor
      · rintro (h' | h')
        · exact absurd (Prod.mk.inj h').1 h
        · exact h'
      · intro h'; exact Or.inr h'

/-- an entry of the delta: the key came with the payload, its times are the incoming ones where newer and 0
where not, it carries the incoming payload, and at least one time is kept -/
theorem delta_entry (s r : Map) (hr : NoDup r) (k : Bytes) (v : Val) :
    (k, v) ∈ (merge s r).2 ↔
      ∃ rv, (k, rv) ∈ r ∧
        v = ⟨if (get s k).add < rv.add then rv.add else 0, if (get s k).del < rv.del then rv.del else 0, rv.payload⟩ ∧
        ¬ (v.add = 0 ∧ v.del = 0) := by
  rw [mem_iff_lookup _ (delta_nodup s r hr), lookup_delta s r hr]
  constructor
  · intro h
    cases hl : List.lookup k r with
    | none => rw [hl] at h; exact absurd h (by simp)
    | some rv =>
      rw [hl, Option.bind_some, mergeOne_snd] at h
      refine ⟨rv, (mem_iff_lookup r hr k rv).2 hl, ?_⟩
      split at h
      · exact absurd h (by simp)
      · rename_i hz
        have hv := (Option.some.inj h).symm
        refine ⟨hv, ?_⟩
        intro hzero
        apply hz
        rw [← hv]
        unfold Val.isZero
        simp [hzero.1, hzero.2]
  · rintro ⟨rv, hmem, hv, hnz⟩
    rw [(mem_iff_lookup r hr k rv).1 hmem, Option.bind_some, mergeOne_snd]
    have hv' : v = mDelta (get s k) rv := hv
    rw [← hv']
    split
    · rename_i hz
      exfalso
      apply hnz
      unfold Val.isZero at hz
      simpa using hz
    · rfl

/-- with non-negative local times: a key is in the delta iff one of its incoming times is newer -/
theorem delta_mem_iff_newer (s r : Map) (hs : NonNeg s) (hr : NoDup r) (k : Bytes) :
    (∃ v, (k, v) ∈ (merge s r).2) ↔ (get s k).add < (get r k).add ∨ (get s k).del < (get r k).del := by
  rw [delta_mem_iff s r hs hr, tget_merge s r hs hr]
  have h := hs k
  unfold tget tmax
  simp only [ne_eq, Prod.mk.injEq]
  omega

/-- whatever came in, what is passed on has non-negative times -/
theorem delta_nonneg (s r : Map) (hs : NonNeg s) (hr : NoDup r) : NonNeg (merge s r).2 := by
  intro k
  have h := delta_times s r hs hr k
  have h0 := hs k
  unfold tget at h
  simp only [Prod.mk.injEq] at h
  rw [h.1, h.2]
  constructor <;> split <;> omega

/-! ### relaying the delta -/

/-- merging the delta instead of the payload into the state it was computed against gives the same state -/
theorem relay_self (s r : Map) (hs : NonNeg s) (hr : NoDup r) : Equiv (merge s (merge s r).2).1 (merge s r).1 := by
  intro k
  have h := relay_sufficient s r s hs hs hr k
  rw [tget_merge s _ hs (delta_nodup s r hr), tget_merge s r hs hr] at h ⊢
  rw [← tmax_assoc, tmax_self] at h
  rw [h, ← tmax_assoc, tmax_self]

/-- nothing new is withheld from onward relay: a replica `t` that has already absorbed everything `s` knew
ends in the same state whether it receives the delta or the original payload -/
theorem relay_downstream (s r t : Map) (hs : NonNeg s) (ht : NonNeg t) (hr : NoDup r)
    (hst : ∀ k, tle (tget s k) (tget t k)) : Equiv (merge t (merge s r).2).1 (merge t r).1 := by
  intro k
  have h := relay_sufficient s r t hs ht hr k
  have e1 : tmax (tget s k) (tget (merge t (merge s r).2).1 k) = tget (merge t (merge s r).2).1 k := by
    rw [tmax_comm]
    apply tmax_eq_left
    rw [tget_merge t _ ht (delta_nodup s r hr)]
    exact tle_trans (hst k) (tle_tmax_left _ _)
  have e2 : tmax (tget s k) (tget (merge t r).1 k) = tget (merge t r).1 k := by
    rw [tmax_comm]
    apply tmax_eq_left
    rw [tget_merge t r ht hr]
    exact tle_trans (hst k) (tle_tmax_left _ _)
  rw [e1, e2] at h
  exact h

/-- the delta, read as a payload, is exactly the new part of `r`: merged anywhere it contributes, per key,
the incoming time where it was newer than `s`'s and nothing where it was not -/
theorem relay_exact (s r t : Map) (hs : NonNeg s) (ht : NonNeg t) (hr : NoDup r) (k : Bytes) :
    tget (merge t (merge s r).2).1 k =
      tmax (tget t k) (if (get s k).add < (get r k).add then (get r k).add else 0,
                       if (get s k).del < (get r k).del then (get r k).del else 0) := by
  rw [tget_merge t _ ht (delta_nodup s r hr), delta_times s r hs hr]

/-! ### re-gossiping stops exactly when the payload was already absorbed -/

theorem delta_empty_iff_absorbed (s r : Map) (hs : NonNeg s) (hr : NoDup r) :
    (merge s r).2 = [] ↔ ∀ k, tle (tget r k) (tget s k) := by
  rw [delta_empty_iff s r hs hr]
  constructor
  · intro h k
    have := h k
    rw [tget_merge s r hs hr] at this
    have h0 := hs k
    unfold tmax tget at this
    unfold tle tget
    simp only [Prod.mk.injEq] at this ⊢
    omega
  · intro h k
    rw [tget_merge s r hs hr]
    exact tmax_eq_left (h k)

/-! ### the three sets -/

/-- every stored time of the three sets is ≥ 0 and no key occurs twice -/
def StateOk (s : State) : Prop := ∀ i, NonNeg (s.sel i) ∧ NoDup (s.sel i)

theorem state_merge_sel (s o : State) (i : SetId) :
    (s.merge o).1.sel i = (merge (s.sel i) (o.sel i)).1 := by
  cases i <;> rfl

theorem stateOk_empty : StateOk {} := by
  intro i; cases i <;> exact ⟨nonneg_nil, nodup_nil⟩

theorem stateOk_merge (s o : State) (hs : StateOk s) : StateOk (s.merge o).1 := by
  intro i
  rw [state_merge_sel]
  exact ⟨nonneg_merge _ _ (hs i).1, nodup_merge _ _ (hs i).2⟩

theorem state_tget_merge (s o : State) (hs : StateOk s) (ho : ∀ i, NoDup (o.sel i)) (i : SetId) (k : Bytes) :
    tget ((s.merge o).1.sel i) k = tmax (tget (s.sel i) k) (tget (o.sel i) k) := by
  rw [state_merge_sel, tget_merge _ _ (hs i).1 (ho i)]

theorem state_delta_sel (s o d : State) (h : (s.merge o).2 = some d) (i : SetId) :
    d.sel i = (merge (s.sel i) (o.sel i)).2 := by
  have : (s.merge o).2 = if (merge s.sub o.sub).2.length + (merge s.ban o.ban).2.length + (merge s.conn o.conn).2.length == 0
      then none else some ⟨(merge s.sub o.sub).2, (merge s.ban o.ban).2, (merge s.conn o.conn).2⟩ := rfl
  rw [this] at h
  split at h
  · exact absurd h (by simp)
  · rw [← Option.some.inj h]; cases i <;> rfl

/-- `State.Merge` returns nil iff no add or remove time of any of the three sets changed, iff the payload
had already been absorbed -/
theorem state_merge_none_iff_unchanged (s o : State) (hs : StateOk s) (ho : ∀ i, NoDup (o.sel i)) :
    ((s.merge o).2 = none ↔ ∀ i k, tget ((s.merge o).1.sel i) k = tget (s.sel i) k) ∧
    ((s.merge o).2 = none ↔ ∀ i k, tle (tget (o.sel i) k) (tget (s.sel i) k)) := by
  have e (i : SetId) := delta_empty_iff (s.sel i) (o.sel i) (hs i).1 (ho i)
  have a (i : SetId) := delta_empty_iff_absorbed (s.sel i) (o.sel i) (hs i).1 (ho i)
  rw [state_merge_none_iff]
  constructor
  · constructor
    · rintro ⟨h1, h2, h3⟩ i k
      rw [state_merge_sel]
      cases i
      · exact (e .sub).1 h1 k
      · exact (e .ban).1 h2 k
      · exact (e .conn).1 h3 k
    · intro h
      refine ⟨(e .sub).2 ?_, (e .ban).2 ?_, (e .conn).2 ?_⟩ <;> intro k
      · have := h .sub k; rwa [state_merge_sel] at this
      · have := h .ban k; rwa [state_merge_sel] at this
      · have := h .conn k; rwa [state_merge_sel] at this
  · constructor
    · rintro ⟨h1, h2, h3⟩ i k
      cases i
      · exact (a .sub).1 h1 k
      · exact (a .ban).1 h2 k
      · exact (a .conn).1 h3 k
    · intro h
      exact ⟨(a .sub).2 (h .sub), (a .ban).2 (h .ban), (a .conn).2 (h .conn)⟩

/-- the delta `State.Merge` returns is the pointwise specification, set by set -/
theorem state_delta_eq_spec (s o : State) (ho : ∀ i, NoDup (o.sel i)) : (s.merge o).2 = deltaState s o := by
  have : (s.merge o).2 = if (merge s.sub o.sub).2.length + (merge s.ban o.ban).2.length + (merge s.conn o.conn).2.length == 0
      then none else some ⟨(merge s.sub o.sub).2, (merge s.ban o.ban).2, (merge s.conn o.conn).2⟩ := rfl
  rw [this]
  unfold deltaState
  have h1 := delta_eq_spec s.sub o.sub (ho .sub)
  have h2 := delta_eq_spec s.ban o.ban (ho .ban)
  have h3 := delta_eq_spec s.conn o.conn (ho .conn)
  rw [h1, h2, h3]
  simp only [List.isEmpty_iff_length_eq_zero, Bool.and_eq_true, beq_iff_eq]
  split <;> rename_i h
  · rw [if_pos (by omega)]
  · rw [if_neg (by omega)]

/-- what the swarm relays after a merge satisfies the invariants whatever the incoming payload held -/
theorem stateOk_delta (s o d : State) (hs : StateOk s) (ho : ∀ i, NoDup (o.sel i)) (h : (s.merge o).2 = some d) :
    StateOk d := by
  intro i
  rw [state_delta_sel s o d h i]
  exact ⟨delta_nonneg _ _ (hs i).1 (ho i), delta_nodup _ _ (ho i)⟩

/-! ### the live state only grows -/

theorem merge_grows (s r : Map) (hs : NonNeg s) (hr : NoDup r) (k : Bytes) : tle (tget s k) (tget (merge s r).1 k) := by
  rw [tget_merge s r hs hr]; exact tle_tmax_left _ _

theorem add_grows (s : Map) (k : Bytes) (now : Int) (p : Bytes) (hs : NonNeg s) (k' : Bytes) :
    tle (tget s k') (tget (add s k now p) k') := by
  rw [add_as_merge s k now p hs k']
  exact merge_grows s _ hs (nodup_singleton _ _) k'

theorem del_grows (s : Map) (k : Bytes) (now : Int) (hs : NonNeg s) (k' : Bytes) :
    tle (tget s k') (tget (del s k now) k') := by
  rw [del_as_merge s k now hs k']
  exact merge_grows s _ hs (nodup_singleton _ _) k'

end Emitter.Lww
