/-
  Lemmas for C10: the inductive invariant of the Write/Flush small-step system.
-/
import Emitter.Model.Delivery
import Emitter.Lemmas.Mqtt

namespace Emitter.Delivery
open Emitter

/-! ### lists of tagged packets -/

theorem flat_nil : flat [] = [] := rfl
theorem flat_append (a b : List Item) : flat (a ++ b) = flat a ++ flat b := by simp [flat]
theorem flat_single (t : Tid) (p : Bytes) : flat [(t, p)] = p := by simp [flat]
theorem proj_nil (t : Tid) : proj t [] = [] := rfl
theorem proj_append (t : Tid) (a b : List Item) : proj t (a ++ b) = proj t a ++ proj t b := by simp [proj]
theorem proj_single_self (t : Tid) (p : Bytes) : proj t [(t, p)] = [p] := by simp [proj]
theorem proj_single_ne (t u : Tid) (p : Bytes) (h : u ≠ t) : proj u [(t, p)] = [] := by
  have : (t == u) = false := by simp; exact fun e => h e.symm
  simp [proj, this]

theorem mem_proj {x : Item} {l : List Item} (h : x ∈ l) : x.2 ∈ proj x.1 l := by
  simp only [proj, List.mem_map, List.mem_filter]
  exact ⟨x, ⟨h, by simp⟩, rfl⟩

theorem flat_eq_nil {l : List Item} (hne : ∀ x ∈ l, x.2 ≠ []) (h : flat l = []) : l = [] := by
  cases l with
  | nil => rfl
  | cons x xs =>
    exfalso
    have h1 : x.2 = [] := by
      simp only [flat, List.map_cons, List.flatten_cons, List.append_eq_nil_iff] at h
      exact h.1
    exact hne x (by simp) h1

theorem length_le_flat {l : List Item} (hne : ∀ x ∈ l, x.2 ≠ []) : l.length ≤ (flat l).length := by
  induction l with
  | nil => simp
  | cons x xs ih =>
    have hx : x.2 ≠ [] := hne x (by simp)
    have hpos : 0 < x.2.length := List.length_pos_iff.mpr hx
    have := ih (fun y hy => hne y (by simp [hy]))
    simp only [flat, List.map_cons, List.flatten_cons, List.length_append, List.length_cons] at *
    omega

@[simp] theorem upd_same (f : Tid → Thread) (t : Tid) (th : Thread) : upd f t th t = th := by simp [upd]
theorem upd_other (f : Tid → Thread) (t : Tid) (th : Thread) {u : Tid} (h : u ≠ t) : upd f t th u = f u := by
  simp [upd, h]

/-! ### the invariant -/

/-- every packet of every program is a non-empty byte string (an MQTT packet has ≥ 2 bytes) -/
def NonEmptyProgs (progs : Tid → List Bytes) : Prop := ∀ t, ∀ p ∈ progs t, p ≠ []

/-- `sl` / `ql` are the whole packets (tagged with their writer) that make up the socket
stream / the write queue -/
structure Inv (progs : Tid → List Bytes) (s : State) (sl ql : List Item) : Prop where
  stream : s.stream = flat sl
  queue : s.queue = flat ql
  nonempty : ∀ x ∈ ql, x.2 ≠ []
  prog : ∀ t, (s.threads t).sent ++ (s.threads t).todo = progs t
  order : ∀ t, proj t (sl ++ ql) ++ inflight (s.threads t) = (s.threads t).sent
  directq : ∀ t p, (s.threads t).pc = .direct p → proj t ql = []

theorem inv_init (progs : Tid → List Bytes) : Inv progs (init progs) [] [] := by
  constructor <;> simp [init, flat, proj, inflight]

theorem inflight_mem_prog {progs : Tid → List Bytes} {s : State} {sl ql : List Item}
    (inv : Inv progs s sl ql) (t : Tid) (p : Bytes) (h : p ∈ inflight (s.threads t)) : p ∈ progs t := by
  rw [← inv.prog t, ← inv.order t]
  simp [h]

theorem inv_step {progs : Tid → List Bytes} (hne : NonEmptyProgs progs) {s s' : State} {sl ql : List Item}
    (inv : Inv progs s sl ql) (a : Action) (h : step? s a = some s') :
    ∃ sl' ql', Inv progs s' sl' ql' := by
  cases a with
  | call t limited =>
    simp only [step?] at h
    split at h
    · rename_i p rest hpc htd
      simp only [Option.some.injEq] at h
      subst h
      refine ⟨sl, ql, ⟨inv.stream, inv.queue, inv.nonempty, ?_, ?_, ?_⟩⟩
      · intro u
        by_cases hu : u = t
        · subst hu
          have := inv.prog u
          rw [htd] at this
          simp [← this]
        · simp only [upd_other _ _ _ hu]; exact inv.prog u
      · intro u
        by_cases hu : u = t
        · subst hu
          have := inv.order u
          simp only [inflight, hpc, List.append_nil] at this
          cases limited <;> simp [inflight, this]
        · simp only [upd_other _ _ _ hu]; exact inv.order u
      · intro u q hq
        by_cases hu : u = t
        · subst hu
          cases limited <;> simp at hq
        · simp only [upd_other _ _ _ hu] at hq; exact inv.directq u q hq
    · simp at h
  | enqueue t =>
    simp only [step?] at h
    split at h
    · -- limited path: enqueue and return
      rename_i p hpc
      simp only [Option.some.injEq] at h
      subst h
      have hp : p ≠ [] := hne t p (inflight_mem_prog inv t p (by simp [inflight, hpc]))
      refine ⟨sl, ql ++ [(t, p)], ⟨inv.stream, ?_, ?_, ?_, ?_, ?_⟩⟩
      · simp [flat_append, flat_single, inv.queue]
      · intro x hx
        rcases List.mem_append.mp hx with hx | hx
        · exact inv.nonempty x hx
        · simp at hx; subst hx; exact hp
      · intro u
        by_cases hu : u = t
        · subst hu; simpa using inv.prog u
        · simp only [upd_other _ _ _ hu]; exact inv.prog u
      · intro u
        by_cases hu : u = t
        · subst hu
          have := inv.order u
          simp only [inflight, hpc] at this
          simp [inflight, ← List.append_assoc, proj_append, proj_single_self] at this ⊢
          exact this
        · simp only [upd_other _ _ _ hu, ← List.append_assoc, proj_append _ (sl ++ ql), proj_single_ne t u p hu,
            List.append_nil]
          exact inv.order u
      · intro u q hq
        by_cases hu : u = t
        · subst hu; simp at hq
        · simp only [upd_other _ _ _ hu] at hq
          simp [proj_append, proj_single_ne t u p hu, inv.directq u q hq]
    · -- flush-on-write path: enqueue, then call Flush
      rename_i p hpc
      simp only [Option.some.injEq] at h
      subst h
      have hp : p ≠ [] := hne t p (inflight_mem_prog inv t p (by simp [inflight, hpc]))
      refine ⟨sl, ql ++ [(t, p)], ⟨inv.stream, ?_, ?_, ?_, ?_, ?_⟩⟩
      · simp [flat_append, flat_single, inv.queue]
      · intro x hx
        rcases List.mem_append.mp hx with hx | hx
        · exact inv.nonempty x hx
        · simp at hx; subst hx; exact hp
      · intro u
        by_cases hu : u = t
        · subst hu; simpa using inv.prog u
        · simp only [upd_other _ _ _ hu]; exact inv.prog u
      · intro u
        by_cases hu : u = t
        · subst hu
          have := inv.order u
          simp only [inflight, hpc] at this
          simp [inflight, ← List.append_assoc, proj_append, proj_single_self] at this ⊢
          exact this
        · simp only [upd_other _ _ _ hu, ← List.append_assoc, proj_append _ (sl ++ ql), proj_single_ne t u p hu,
            List.append_nil]
          exact inv.order u
      · intro u q hq
        by_cases hu : u = t
        · subst hu; simp at hq
        · simp only [upd_other _ _ _ hu] at hq
          simp [proj_append, proj_single_ne t u p hu, inv.directq u q hq]
    · simp at h
  | len t =>
    simp only [step?] at h
    split at h
    · -- Write reads Len()
      rename_i p hpc
      simp only [Option.some.injEq] at h
      subst h
      refine ⟨sl, ql, ⟨inv.stream, inv.queue, inv.nonempty, ?_, ?_, ?_⟩⟩
      · intro u
        by_cases hu : u = t
        · subst hu; simpa using inv.prog u
        · simp only [upd_other _ _ _ hu]; exact inv.prog u
      · intro u
        by_cases hu : u = t
        · subst hu
          have := inv.order u
          simp only [inflight, hpc] at this
          by_cases hq : s.queue = [] <;> simp [inflight, hq, this]
        · simp only [upd_other _ _ _ hu]; exact inv.order u
      · intro u q hq
        by_cases hu : u = t
        · subst hu
          by_cases hq0 : s.queue = []
          · have : ql = [] := flat_eq_nil inv.nonempty (by rw [← inv.queue]; exact hq0)
            simp [this, proj]
          · simp [hq0] at hq
        · simp only [upd_other _ _ _ hu] at hq; exact inv.directq u q hq
    · -- Flush reads Len()
      rename_i hpc
      simp only [Option.some.injEq] at h
      subst h
      refine ⟨sl, ql, ⟨inv.stream, inv.queue, inv.nonempty, ?_, ?_, ?_⟩⟩
      · intro u
        by_cases hu : u = t
        · subst hu; simpa using inv.prog u
        · simp only [upd_other _ _ _ hu]; exact inv.prog u
      · intro u
        by_cases hu : u = t
        · subst hu
          have := inv.order u
          simp only [inflight, hpc] at this
          by_cases hq : s.queue = [] <;> simp [inflight, hq, this]
        · simp only [upd_other _ _ _ hu]; exact inv.order u
      · intro u q hq
        by_cases hu : u = t
        · subst hu
          by_cases hq0 : s.queue = [] <;> simp [hq0] at hq
        · simp only [upd_other _ _ _ hu] at hq; exact inv.directq u q hq
    · simp at h
  | sock t =>
    simp only [step?] at h
    split at h
    · rename_i p hpc
      simp only [Option.some.injEq] at h
      subst h
      have hd : proj t ql = [] := inv.directq t p hpc
      refine ⟨sl ++ [(t, p)], ql, ⟨?_, inv.queue, inv.nonempty, ?_, ?_, ?_⟩⟩
      · simp [flat_append, flat_single, inv.stream]
      · intro u
        by_cases hu : u = t
        · subst hu; simpa using inv.prog u
        · simp only [upd_other _ _ _ hu]; exact inv.prog u
      · intro u
        by_cases hu : u = t
        · subst hu
          have := inv.order u
          simp only [inflight, hpc, proj_append, hd, List.append_nil] at this
          simp only [upd_same, inflight, List.append_nil]
          rw [proj_append, proj_append, proj_single_self, hd, List.append_nil]
          exact this
        · have := inv.order u
          simp only [proj_append] at this
          simp only [upd_other _ _ _ hu, proj_append, proj_single_ne t u p hu, List.append_nil]
          exact this
      · intro u q hq
        by_cases hu : u = t
        · subst hu; simp at hq
        · simp only [upd_other _ _ _ hu] at hq; exact inv.directq u q hq
    · simp at h
  | flush t =>
    simp only [step?] at h
    split at h
    · rename_i hpc
      simp only [Option.some.injEq] at h
      subst h
      refine ⟨sl ++ ql, [], ⟨?_, rfl, ?_, ?_, ?_, ?_⟩⟩
      · simp [flat_append, inv.stream, inv.queue]
      · intro x hx; simp at hx
      · intro u
        by_cases hu : u = t
        · subst hu; simpa using inv.prog u
        · simp only [upd_other _ _ _ hu]; exact inv.prog u
      · intro u
        by_cases hu : u = t
        · subst hu
          have := inv.order u
          simp only [inflight, hpc] at this
          simp [inflight, this]
        · simp only [upd_other _ _ _ hu, List.append_nil]; exact inv.order u
      · intro u q _; rfl
    · simp at h
  | tick t =>
    simp only [step?] at h
    split at h
    · rename_i hpc
      simp only [Option.some.injEq] at h
      subst h
      refine ⟨sl, ql, ⟨inv.stream, inv.queue, inv.nonempty, ?_, ?_, ?_⟩⟩
      · intro u
        by_cases hu : u = t
        · subst hu; simpa using inv.prog u
        · simp only [upd_other _ _ _ hu]; exact inv.prog u
      · intro u
        by_cases hu : u = t
        · subst hu
          have := inv.order u
          simp only [inflight, hpc] at this
          simp [inflight, this]
        · simp only [upd_other _ _ _ hu]; exact inv.order u
      · intro u q hq
        by_cases hu : u = t
        · subst hu; simp at hq
        · simp only [upd_other _ _ _ hu] at hq; exact inv.directq u q hq
    · simp at h

theorem inv_reachable {progs : Tid → List Bytes} (hne : NonEmptyProgs progs) {s : State}
    (h : Reachable progs s) : ∃ sl ql, Inv progs s sl ql := by
  induction h with
  | init => exact ⟨[], [], inv_init progs⟩
  | step a _ hs ih =>
    obtain ⟨sl, ql, inv⟩ := ih
    exact inv_step hne inv a hs

/-! ### consequences -/

theorem item_mem_prog {progs : Tid → List Bytes} {s : State} {sl ql : List Item}
    (inv : Inv progs s sl ql) (x : Item) (hx : x ∈ sl ++ ql) : x.2 ∈ progs x.1 := by
  have h1 := mem_proj hx
  rw [← inv.prog x.1, ← inv.order x.1]
  simp [h1]

theorem framing_lemma {progs : Tid → List Bytes} (hne : NonEmptyProgs progs) {s : State}
    (h : Reachable progs s) :
    ∃ items : List Item, s.stream = flat items ∧ ∀ x ∈ items, x.2 ∈ progs x.1 := by
  obtain ⟨sl, ql, inv⟩ := inv_reachable hne h
  exact ⟨sl, inv.stream, fun x hx => item_mem_prog inv x (by simp [hx])⟩

theorem order_lemma {progs : Tid → List Bytes} (hne : NonEmptyProgs progs) {s : State}
    (h : Reachable progs s) :
    ∃ sl ql : List Item, s.stream = flat sl ∧ s.queue = flat ql ∧
      ∀ t, proj t (sl ++ ql) ++ inflight (s.threads t) ++ (s.threads t).todo = progs t := by
  obtain ⟨sl, ql, inv⟩ := inv_reachable hne h
  refine ⟨sl, ql, inv.stream, inv.queue, fun t => ?_⟩
  rw [inv.order t, inv.prog t]

theorem no_loss_lemma {progs : Tid → List Bytes} (hne : NonEmptyProgs progs) {s : State}
    (h : Reachable progs s) (hq : Quiescent s) (he : s.queue = []) :
    ∃ sl : List Item, s.stream = flat sl ∧ ∀ t, proj t sl = progs t := by
  obtain ⟨sl, ql, inv⟩ := inv_reachable hne h
  have : ql = [] := flat_eq_nil inv.nonempty (by rw [← inv.queue]; exact he)
  subst this
  refine ⟨sl, inv.stream, fun t => ?_⟩
  have h1 := inv.order t
  have h2 := inv.prog t
  obtain ⟨hpc, htd⟩ := hq t
  simp only [inflight, hpc, List.append_nil] at h1
  rw [htd, List.append_nil] at h2
  rw [h1, h2]

/-- in a quiescent state a `Flush()` call can always run to completion, stays inside the
reachable states, keeps the system quiescent and leaves the queue empty -/
theorem flushCall_lemma {progs : Tid → List Bytes} {s : State} (h : Reachable progs s) (hq : Quiescent s)
    (t : Tid) :
    ∃ s', flushCall s t = some s' ∧ Reachable progs s' ∧ Quiescent s' ∧ s'.queue = [] := by
  obtain ⟨hpc, htd⟩ := hq t
  -- tick
  have e1 : step? s (.tick t) = some { s with threads := upd s.threads t { s.threads t with pc := .fl } } := by
    simp [step?, hpc]
  let s1 : State := { s with threads := upd s.threads t { s.threads t with pc := .fl } }
  have r1 : Reachable progs s1 := Reachable.step _ h e1
  by_cases hq0 : s.queue = []
  · -- nothing queued: Flush returns after Len()
    let s2 : State := { s1 with threads := upd s1.threads t { s1.threads t with pc := .idle } }
    have e2 : step? s1 (.len t) = some s2 := by simp [step?, s1, s2, hq0]
    refine ⟨s2, ?_, Reachable.step _ r1 e2, ?_, hq0⟩
    · simp only [flushCall, e1, Option.bind_some]
      show (step? s1 (.len t)).bind _ = _
      rw [e2]
      simp [s2]
    · intro u
      by_cases hu : u = t
      · subst hu; simp [s2, s1, htd]
      · simp only [s2, s1, upd_other _ _ _ hu]; exact hq u
  · let s2 : State := { s1 with threads := upd s1.threads t { s1.threads t with pc := .flw } }
    have e2 : step? s1 (.len t) = some s2 := by simp [step?, s1, s2, hq0]
    let s3 : State := { stream := s2.stream ++ s2.queue, queue := [], threads := upd s2.threads t { s2.threads t with pc := .idle } }
    have e3 : step? s2 (.flush t) = some s3 := by simp [step?, s2, s3]
    refine ⟨s3, ?_, Reachable.step _ (Reachable.step _ r1 e2) e3, ?_, rfl⟩
    · simp only [flushCall, e1, Option.bind_some]
      show (step? s1 (.len t)).bind _ = _
      rw [e2]
      simp only [Option.bind_some]
      have : (s2.threads t).pc = .flw := by simp [s2]
      rw [this]
      exact e3
    · intro u
      by_cases hu : u = t
      · subst hu; simp [s3, s2, s1, htd]
      · simp only [s3, s2, s1, upd_other _ _ _ hu]; exact hq u

/-! ### counting: with finitely many publishers the interleaving has exactly as many packets as were published -/

/-- sum of `f 0 … f (n-1)` -/
def total (n : Nat) (f : Nat → Nat) : Nat := ((List.range n).map f).sum

theorem total_succ (n : Nat) (f : Nat → Nat) : total (n + 1) f = total n f + f n := by
  simp [total, List.range_succ]

theorem total_add (n : Nat) (f g : Nat → Nat) : total n (fun t => f t + g t) = total n f + total n g := by
  induction n with
  | zero => simp [total]
  | succ n ih => rw [total_succ, total_succ, total_succ, ih]; omega

theorem total_indicator (n a : Nat) (h : a < n) : total n (fun t => if a = t then 1 else 0) = 1 := by
  induction n with
  | zero => omega
  | succ n ih =>
    rw [total_succ]
    by_cases ha : a = n
    · subst ha
      have : total a (fun t => if a = t then 1 else 0) = 0 := by
        clear ih h
        have : ∀ m, m ≤ a → total m (fun t => if a = t then 1 else 0) = 0 := by
          intro m
          induction m with
          | zero => intro _; simp [total]
          | succ m ihm =>
            intro hm
            rw [total_succ, ihm (by omega)]
            have : a ≠ m := by omega
            simp [this]
        exact this a (Nat.le_refl a)
      simp [this]
    · rw [ih (by omega)]; simp [ha]

theorem length_eq_total (n : Nat) (l : List Item) (h : ∀ x ∈ l, x.1 < n) :
    l.length = total n (fun t => (proj t l).length) := by
  induction l with
  | nil =>
    have : (fun t => (proj t ([] : List Item)).length) = fun _ => 0 := by funext t; simp [proj]
    rw [this]
    clear h
    induction n with
    | zero => simp [total]
    | succ n ih => rw [total_succ, ← ih]; rfl
  | cons x xs ih =>
    have hx : x.1 < n := h x (by simp)
    have e : (fun t => (proj t (x :: xs)).length) =
        fun t => (if x.1 = t then 1 else 0) + (proj t xs).length := by
      funext t
      by_cases ht : x.1 = t
      · simp [proj, ht]; omega
      · have : (x.1 == t) = false := by simp [ht]
        simp [proj, this, ht]
    rw [e, total_add, total_indicator n x.1 hx, ← ih (fun y hy => h y (by simp [hy]))]
    simp; omega


theorem no_loss_count_lemma {progs : Tid → List Bytes} (hne : NonEmptyProgs progs) (n : Nat)
    (hfin : ∀ t, n ≤ t → progs t = []) {s : State}
    (h : Reachable progs s) (hq : Quiescent s) (he : s.queue = []) :
    ∃ sl : List Item, s.stream = flat sl ∧ (∀ t, proj t sl = progs t) ∧
      sl.length = total n (fun t => (progs t).length) := by
  obtain ⟨sl, hs, hp⟩ := no_loss_lemma hne h hq he
  refine ⟨sl, hs, hp, ?_⟩
  have hown : ∀ x ∈ sl, x.1 < n := by
    intro x hx
    have hm := mem_proj hx
    rw [hp x.1] at hm
    by_cases hlt : x.1 < n
    · exact hlt
    · rw [hfin x.1 (Nat.le_of_not_lt hlt)] at hm; simp at hm
  rw [length_eq_total n sl hown]
  have : (fun t => (proj t sl).length) = fun t => (progs t).length := by
    funext t; rw [hp t]
  rw [this]

/-! ### WebSocket transport -/

structure WsInv (progs : Tid → List Bytes) (s : WsState) (items : List Item) : Prop where
  frames : s.frames = items.map (·.2)
  prog : ∀ t, (s.threads t).sent ++ (s.threads t).todo = progs t
  order : ∀ t, proj t items = (s.threads t).sent

theorem ws_inv_reachable {progs : Tid → List Bytes} {s : WsState} (h : WsReachable progs s) :
    ∃ items, WsInv progs s items := by
  induction h with
  | init => exact ⟨[], by constructor <;> simp [wsInit, proj]⟩
  | step t _ hs ih =>
    rename_i s0 s1
    obtain ⟨items, inv⟩ := ih
    simp only [wsStep?] at hs
    split at hs
    · rename_i p rest htd
      simp only [Option.some.injEq] at hs
      subst hs
      refine ⟨items ++ [(t, p)], ⟨?_, ?_, ?_⟩⟩
      · simp [inv.frames]
      · intro u
        by_cases hu : u = t
        · subst hu
          have := inv.prog u
          rw [htd] at this
          simp [← this]
        · simp only [upd_other _ _ _ hu]; exact inv.prog u
      · intro u
        by_cases hu : u = t
        · subst hu; simp [proj_append, proj_single_self, inv.order u]
        · simp only [upd_other _ _ _ hu, proj_append, proj_single_ne t u p hu, List.append_nil]
          exact inv.order u
    · simp at hs

theorem ws_lemma {progs : Tid → List Bytes} {s : WsState} (h : WsReachable progs s) :
    ∃ items : List Item, s.frames = items.map (·.2) ∧
      ∀ t, proj t items ++ (s.threads t).todo = progs t := by
  obtain ⟨items, inv⟩ := ws_inv_reachable h
  exact ⟨items, inv.frames, fun t => by rw [inv.order t, inv.prog t]⟩

/-! ### the byte stream decodes into exactly the packets that were written -/

theorem encodeWire_ne_nil (p : Mqtt.Packet) : Mqtt.encodeWire p ≠ [] := by
  cases p <;> simp [Mqtt.encodeWire, Mqtt.wire]

theorem decodeAll_encode (max : Nat) (pkts : List Mqtt.Packet)
    (hwf : ∀ p ∈ pkts, Mqtt.wellFormed p = true ∧ (Mqtt.parts p).2.2.length ≤ max) :
    ∀ fuel, pkts.length ≤ fuel →
      decodeAll max fuel ((pkts.map Mqtt.encodeWire).flatten) = .ok (pkts.map Mqtt.normal) := by
  induction pkts with
  | nil => intro fuel _; cases fuel <;> simp [decodeAll]
  | cons p ps ih =>
    intro fuel hf
    obtain ⟨hw, hm⟩ := hwf p (by simp)
    have ih' := ih (fun q hq => hwf q (by simp [hq]))
    cases fuel with
    | zero => simp at hf
    | succ fuel =>
      have hdec := Mqtt.decode_encodeWire p hw ((ps.map Mqtt.encodeWire).flatten) max hm
      simp only [List.map_cons, List.flatten_cons]
      cases hb : Mqtt.encodeWire p ++ (ps.map Mqtt.encodeWire).flatten with
      | nil =>
        exfalso
        have := encodeWire_ne_nil p
        simp only [List.append_eq_nil_iff] at hb
        exact this hb.1
      | cons b bs =>
        rw [hb] at hdec
        simp only [decodeAll, hdec]
        rw [ih' fuel (by simp at hf; omega)]
        rfl

theorem exists_packets (max : Nat) (l : List Item)
    (h : ∀ x ∈ l, ∃ q, Mqtt.wellFormed q = true ∧ (Mqtt.parts q).2.2.length ≤ max ∧ x.2 = Mqtt.encodeWire q) :
    ∃ pkts : List Mqtt.Packet, l.map (·.2) = pkts.map Mqtt.encodeWire ∧
      ∀ q ∈ pkts, Mqtt.wellFormed q = true ∧ (Mqtt.parts q).2.2.length ≤ max := by
  induction l with
  | nil => exact ⟨[], rfl, by simp⟩
  | cons x xs ih =>
    obtain ⟨q, hw, hm, he⟩ := h x (by simp)
    obtain ⟨pkts, hp, hall⟩ := ih (fun y hy => h y (by simp [hy]))
    refine ⟨q :: pkts, by simp [he, hp], ?_⟩
    intro r hr
    rcases List.mem_cons.mp hr with hr | hr
    · subst hr; exact ⟨hw, hm⟩
    · exact hall r hr

/-- every program packet is the wire form of a well-formed MQTT packet whose body the
subscriber's size limit admits -/
def MqttProgs (max : Nat) (progs : Tid → List Bytes) : Prop :=
  ∀ t, ∀ b ∈ progs t, ∃ q, Mqtt.wellFormed q = true ∧ (Mqtt.parts q).2.2.length ≤ max ∧ b = Mqtt.encodeWire q

theorem MqttProgs.nonEmpty {max : Nat} {progs : Tid → List Bytes} (h : MqttProgs max progs) : NonEmptyProgs progs := by
  intro t p hp
  obtain ⟨q, _, _, he⟩ := h t p hp
  rw [he]; exact encodeWire_ne_nil q

theorem framing_mqtt_lemma {max : Nat} {progs : Tid → List Bytes} (hm : MqttProgs max progs) {s : State}
    (h : Reachable progs s) :
    ∃ pkts : List Mqtt.Packet, decodeAll max s.stream.length s.stream = .ok (pkts.map Mqtt.normal) ∧
      s.stream = (pkts.map Mqtt.encodeWire).flatten := by
  have hne := hm.nonEmpty
  obtain ⟨items, hs, hmem⟩ := framing_lemma hne h
  obtain ⟨pkts, hp, hall⟩ := exists_packets max items (fun x hx => hm x.1 x.2 (hmem x hx))
  have hflat : s.stream = (pkts.map Mqtt.encodeWire).flatten := by rw [hs, flat, hp]
  refine ⟨pkts, ?_, hflat⟩
  have hlen : items.length ≤ (flat items).length := length_le_flat (fun x hx => hne x.1 x.2 (hmem x hx))
  have hl : pkts.length = items.length := by
    have := congrArg List.length hp
    simpa using this.symm
  have := decodeAll_encode max pkts hall s.stream.length (by rw [hs, hl]; exact hlen)
  rw [← hflat] at this
  exact this

end Emitter.Delivery
