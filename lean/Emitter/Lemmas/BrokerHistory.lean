/-
  The history-level statement of C02: the broker model refines the set `A` of acknowledged, not
  yet removed subscriptions (`Emitter/Spec/Subscriptions.lean`) — for every history of accepts,
  requests (subscribe / unsubscribe / publish / link / presence / connect / disconnect) and ban
  list changes, by any number of clients, in any order, under every authorizer.
-/
import Emitter.Lemmas.Broker
import Emitter.Spec.Subscriptions
namespace Emitter.Broker
open Emitter Emitter.Trie Emitter.Security

/-! ### the model side of a history -/

/-- one event on the broker model -/
def applyEv (auth : Auth) (b : B) : Spec.Ev → B × Out
  | .accept n g => (accept b n g, [])
  | .req n r => step auth b n r
  | .ban keys => ({ b with banned := keys }, [])

def run (auth : Auth) (b : B) (evs : List Spec.Ev) : B := evs.foldl (fun b e => (applyEv auth b e).1) b

/-- the refinement relation: the spec state describes the same open connections and the same
(connection, filter) pairs as the per-connection bookkeeping of the model -/
structure Refines (b : B) (S : Spec.SpecState) : Prop where
  banned : S.banned = b.banned
  nodup : S.alive.Nodup
  alive : ∀ n, n ∈ S.alive ↔ ∃ c ∈ b.conns, c.name = n ∧ c.alive = true
  pairs : ∀ n σ, (n, σ) ∈ S.A ↔ ∃ c ∈ b.conns, c.name = n ∧ hasCounter c σ

/-! ### spec-side membership lemmas -/

theorem Spec.mem_insertPair (A : List (String × Path)) (n : String) (σ : Path) (p : String × Path) :
    p ∈ Spec.insertPair A n σ ↔ p ∈ A ∨ p = (n, σ) := by
  unfold Spec.insertPair
  split
  · rename_i hc
    have hm : (n, σ) ∈ A := by simpa using hc
    constructor
    · exact Or.inl
    · rintro (h | rfl)
      · exact h
      · exact hm
  · simp

theorem Spec.mem_removePair (A : List (String × Path)) (n : String) (σ : Path) (p : String × Path) :
    p ∈ Spec.removePair A n σ ↔ p ∈ A ∧ p ≠ (n, σ) := by
  simp [Spec.removePair]

/-! ### what a step does to the connections: everything but the requesting one is untouched -/

/-- `b'` differs from `b` only in the record of the connection `c` (found under its name), whose
connection id is unchanged, which is open afterwards iff `al`, and which then holds exactly the
filters satisfying `P` -/
structure Eff (b b' : B) (c : Conn) (al : Bool) (P : Path → Prop) : Prop where
  others : ∀ x : Conn, x.name ≠ c.name → (x ∈ b'.conns ↔ x ∈ b.conns)
  self : ∃ c', b'.conn? c.name = some c' ∧ c'.guid = c.guid ∧ c'.alive = al ∧ ∀ p, hasCounter c' p ↔ P p
  banned : b'.banned = b.banned
  mode : b'.mode = b.mode

theorem Eff.refl {b : B} {c : Conn} (hc : b.conn? c.name = some c) : Eff b b c c.alive (hasCounter c) :=
  ⟨fun _ _ => Iff.rfl, ⟨c, hc, rfl, rfl, fun _ => Iff.rfl⟩, rfl, rfl⟩

theorem Eff.of_conns {b b' b'' : B} {c : Conn} {al : Bool} {P : Path → Prop} (h : Eff b b' c al P)
    (hc : b''.conns = b'.conns) (hb : b''.banned = b'.banned) (hm : b''.mode = b'.mode) : Eff b b'' c al P := by
  refine ⟨?_, ?_, hb.trans h.banned, hm.trans h.mode⟩
  · intro x hx; rw [hc]; exact h.others x hx
  · obtain ⟨c', h1, h2⟩ := h.self
    refine ⟨c', ?_, h2⟩
    unfold B.conn? at h1 ⊢
    rw [hc]; exact h1

theorem Eff.mono {b b' : B} {c : Conn} {al : Bool} {P Q : Path → Prop} (h : Eff b b' c al P)
    (hpq : ∀ p, P p ↔ Q p) : Eff b b' c al Q := by
  refine ⟨h.others, ?_, h.banned, h.mode⟩
  obtain ⟨c', h1, h2, h3, h4⟩ := h.self
  exact ⟨c', h1, h2, h3, fun p => (h4 p).trans (hpq p)⟩

theorem others_setConn (b : B) (c' : Conn) (x : Conn) (hx : x.name ≠ c'.name) :
    x ∈ (b.setConn c').conns ↔ x ∈ b.conns := by
  rw [mem_setConn]
  constructor
  · rintro (⟨rfl, _⟩ | ⟨h, _⟩)
    · exact absurd rfl hx
    · exact h
  · intro h; exact Or.inr ⟨h, hx⟩

/-- replacing the record of `c` by `c'` (same name, same id) -/
theorem eff_setConn {b : B} {c c' : Conn} (hc : b.conn? c.name = some c) (hn : c'.name = c.name)
    (hg : c'.guid = c.guid) : Eff b (b.setConn c') c c'.alive (hasCounter c') := by
  refine ⟨?_, ?_, rfl, rfl⟩
  · intro x hx; exact others_setConn b c' x (by rw [hn]; exact hx)
  · refine ⟨c', ?_, hg, rfl, fun _ => Iff.rfl⟩
    rw [← hn]
    exact conn?_setConn ⟨c, conn?_mem hc, hn.symm⟩

theorem Eff.trans {b b₁ b₂ : B} {c c₁ : Conn} {al₁ al₂ : Bool} {P₁ P₂ : Path → Prop}
    (h₁ : Eff b b₁ c al₁ P₁) (h₂ : Eff b₁ b₂ c₁ al₂ P₂) (hn : c₁.name = c.name) (hg : c₁.guid = c.guid) :
    Eff b b₂ c al₂ P₂ := by
  refine ⟨?_, ?_, h₂.banned.trans h₁.banned, h₂.mode.trans h₁.mode⟩
  · intro x hx
    rw [h₂.others x (by rw [hn]; exact hx), h₁.others x hx]
  · obtain ⟨c', e1, e2, e3⟩ := h₂.self
    exact ⟨c', by rw [← hn]; exact e1, e2.trans hg, e3⟩

theorem eff_subscribeConn {b : B} {c : Conn} (hc : b.conn? c.name = some c) (σ : Path) (ch : Bytes) :
    Eff b (subscribeConn b c σ ch).1 c c.alive (fun p => hasCounter c p ∨ p = σ) := by
  rw [subscribeConn_eq]
  by_cases hany : c.counters.any (·.ssid == σ) = true
  · simp only [hany, if_true]
    have hh : hasCounter c σ := (any_ssid_iff c σ).1 hany
    refine (Eff.refl hc).mono (fun p => ⟨Or.inl, ?_⟩)
    rintro (h | rfl)
    · exact h
    · exact hh
  · simp only [hany]
    have h0 : Eff b (b.setConn { c with counters := c.counters ++ [⟨σ, ch, 1⟩] }) c c.alive
        (hasCounter { c with counters := c.counters ++ [⟨σ, ch, 1⟩] }) :=
      eff_setConn (c' := { c with counters := c.counters ++ [⟨σ, ch, 1⟩] }) hc rfl rfl
    refine Eff.mono (P := hasCounter { c with counters := c.counters ++ [⟨σ, ch, 1⟩] }) ?_
      (fun p => hasCounter_append c σ p ch 1)
    exact h0.of_conns rfl rfl rfl

theorem unsubscribeConn_banned (b : B) (c : Conn) (σ : Path) (ch : Bytes) :
    (unsubscribeConn b c σ ch).1.banned = b.banned := (unsubscribeConn_frame b c σ ch).2.2.2

theorem eff_unsubscribeConn {b : B} {c : Conn} (hc : b.conn? c.name = some c)
    (h1 : ∀ ctr ∈ c.counters, ctr.count = 1) (σ : Path) (ch : Bytes) :
    Eff b (unsubscribeConn b c σ ch).1 c c.alive (fun p => p ≠ σ ∧ hasCounter c p) := by
  have h0 : Eff b (b.setConn { c with counters := c.counters.filter (·.ssid != σ) }) c c.alive
      (hasCounter { c with counters := c.counters.filter (·.ssid != σ) }) :=
    eff_setConn (c' := { c with counters := c.counters.filter (·.ssid != σ) }) hc rfl rfl
  exact (h0.of_conns (unsubscribeConn_conns b c σ ch h1) (unsubscribeConn_banned b c σ ch)
      (unsubscribeConn_frame b c σ ch).2.2.1).mono
    (fun p => hasCounter_filter c σ p)

/-! ### close -/

theorem unsubscribeConn_conns' (b : B) (c : Conn) (σ : Path) (ch : Bytes) :
    (unsubscribeConn b c σ ch).1.conns = (b.setConn { c with counters := (dec c.counters σ).1 }).conns := by
  unfold unsubscribeConn
  rcases dec c.counters σ with ⟨cs, last⟩
  cases last <;> rfl

theorem others_closeF (name : String) (x : Conn) (hx : x.name ≠ name) : ∀ (cs : List Counter) (acc : B × Out),
    (x ∈ (cs.foldl (closeF name) acc).1.conns ↔ x ∈ acc.1.conns)
  | [], _ => Iff.rfl
  | ctr :: rest, acc => by
      rw [List.foldl_cons, others_closeF name x hx rest (closeF name acc ctr)]
      unfold closeF
      cases hcur : acc.1.conn? name with
      | none => exact Iff.rfl
      | some cur =>
          dsimp only
          rw [unsubscribeConn_conns']
          exact others_setConn _ _ x (by show x.name ≠ cur.name; rw [conn?_name hcur]; exact hx)

theorem closeF_banned (name : String) : ∀ (cs : List Counter) (acc : B × Out),
    (cs.foldl (closeF name) acc).1.banned = acc.1.banned ∧ (cs.foldl (closeF name) acc).1.mode = acc.1.mode
  | [], _ => ⟨rfl, rfl⟩
  | ctr :: rest, acc => by
      rw [List.foldl_cons, (closeF_banned name rest (closeF name acc ctr)).1,
        (closeF_banned name rest (closeF name acc ctr)).2]
      unfold closeF
      cases hcur : acc.1.conn? name with
      | none => exact ⟨rfl, rfl⟩
      | some cur => exact ⟨unsubscribeConn_banned _ _ _ _, (unsubscribeConn_frame _ _ _ _).2.2.1⟩

theorem lastWill_banned (auth : Auth) (b : B) (c : Conn) : (lastWill auth b c).1.banned = b.banned := by
  unfold lastWill
  dsimp only
  split
  · rfl
  split
  · rfl
  split
  · rfl
  split
  · rfl
  split <;> rfl

theorem eff_close (auth : Auth) {b : B} {c : Conn} (h : Sync b) (hc : b.conn? c.name = some c)
    (ha : c.alive = true) : Eff b (closeConn auth b c).1 c false (fun _ => False) := by
  obtain ⟨_, s2, _, _⟩ := closeConn_spec auth b c.name c h hc ha
  refine ⟨?_, ⟨_, s2, rfl, rfl, fun p => by simp [hasCounter]⟩, ?_, ?_⟩
  · intro x hx
    rw [closeConn_eq]
    dsimp only
    generalize hF : (c.counters.foldl (closeF c.name) ({ b with open_ := b.open_ - 1 }, [])) = F
    have hfold := others_closeF c.name x hx c.counters ({ b with open_ := b.open_ - 1 }, [])
    rw [hF] at hfold
    have hnm : ((F.1.conn? c.name).getD c).name = c.name := by
      cases hq : F.1.conn? c.name with
      | none => rfl
      | some q => exact conn?_name hq
    rw [others_setConn _ _ x (by show x.name ≠ ((F.1.conn? c.name).getD c).name; rw [hnm]; exact hx),
      (lastWill_frame auth F.1 _).2.1]
    exact hfold
  · rw [closeConn_eq]
    show (lastWill auth _ _).1.banned = b.banned
    rw [lastWill_banned]
    exact (closeF_banned c.name c.counters ({ b with open_ := b.open_ - 1 }, [])).1
  · rw [closeConn_eq]
    show (lastWill auth _ _).1.mode = b.mode
    rw [(lastWill_frame auth _ _).2.2.2]
    exact (closeF_banned c.name c.counters ({ b with open_ := b.open_ - 1 }, [])).2

/-! ### every request has, on the model, the effect the specification says -/

/-- the filters the requesting connection holds after a request with this effect -/
def Spec.Effect.holds (e : Spec.Effect) (c : Conn) (p : Path) : Prop :=
  match e with
  | .none => hasCounter c p
  | .add σ => hasCounter c p ∨ p = σ
  | .remove σ => p ≠ σ ∧ hasCounter c p
  | .closeAll => False

def Spec.Effect.alive : Spec.Effect → Bool
  | .closeAll => false
  | _ => true

theorem Spec.granted_none {auth : Auth} {banned : List Bytes} {ch : Channel} {perm : UInt8}
    (h : Spec.granted auth banned ch perm = none) :
    ch.ctype = chInvalid ∨ auth banned ch perm = none ∨
      ∃ g, auth banned ch perm = some g ∧ g.has permExtend = true := by
  unfold Spec.granted at h
  by_cases h1 : ch.ctype = chInvalid
  · exact Or.inl h1
  · rw [if_neg (by simpa using h1)] at h
    cases hg : auth banned ch perm with
    | none => exact Or.inr (Or.inl rfl)
    | some g =>
        rw [hg] at h
        dsimp only at h
        cases hx : g.has permExtend with
        | true => exact Or.inr (Or.inr ⟨g, rfl, hx⟩)
        | false => rw [hx] at h; simp at h

theorem Spec.granted_some {auth : Auth} {banned : List Bytes} {ch : Channel} {perm : UInt8} {σ : Path}
    (h : Spec.granted auth banned ch perm = some σ) :
    ch.ctype ≠ chInvalid ∧ ∃ g, auth banned ch perm = some g ∧ g.has permExtend = false ∧
      σ = g.contract :: ch.query := by
  unfold Spec.granted at h
  by_cases h1 : ch.ctype = chInvalid
  · rw [if_pos (by simp [h1])] at h; cases h
  · rw [if_neg (by simpa using h1)] at h
    refine ⟨h1, ?_⟩
    cases hg : auth banned ch perm with
    | none => rw [hg] at h; cases h
    | some g =>
        rw [hg] at h
        dsimp only at h
        cases hx : g.has permExtend with
        | true => rw [hx] at h; simp at h
        | false =>
            rw [hx] at h
            simp only [Bool.false_eq_true, if_false, Option.some.injEq] at h
            exact ⟨g, rfl, hx, h.symm⟩

theorem Eff.refl' {b : B} {c : Conn} (hc : b.conn? c.name = some c) (ha : c.alive = true) :
    Eff b b c true (hasCounter c) := ha ▸ Eff.refl hc

theorem eff_setConn_same {b : B} {c c' : Conn} (hc : b.conn? c.name = some c) (hn : c'.name = c.name)
    (hg : c'.guid = c.guid) (hal : c'.alive = true) (hcs : c'.counters = c.counters) :
    Eff b (b.setConn c') c true (hasCounter c) := by
  have h := eff_setConn hc hn hg
  rw [hal] at h
  exact h.mono (fun p => by unfold hasCounter; rw [hcs])

theorem step_eff_subscribe (auth : Auth) (b : B) (c : Conn) (mid : UInt16) (topic : Bytes) (qos : UInt8)
    (hc : b.conn? c.name = some c) (ha : c.alive = true) :
    Eff b (step auth b c.name (.subscribe mid topic qos)).1 c
      (Spec.effect auth b.banned (.subscribe mid topic qos)).alive
      ((Spec.effect auth b.banned (.subscribe mid topic qos)).holds c) := by
  cases hg : Spec.granted auth b.banned (parseChannel (fixTopic topic)) permRead with
  | none =>
      obtain ⟨st, hst⟩ := reject_subscribe auth b c.name c mid topic qos hc ha (Spec.granted_none hg)
      simp only [Spec.effect, hg, hst]
      exact Eff.refl' hc ha
  | some σ =>
      obtain ⟨hv, g, hauth, hx, rfl⟩ := Spec.granted_some hg
      rw [step_subscribe_eq auth b c.name c mid topic qos g hc ha hv hauth hx]
      simp only [Spec.effect, hg]
      have e := eff_subscribeConn hc (g.contract :: (parseChannel (fixTopic topic)).query)
        (parseChannel (fixTopic topic)).channel
      rw [ha] at e
      exact e

theorem step_eff_unsubscribe (auth : Auth) (b : B) (c : Conn) (mid : UInt16) (topic : Bytes)
    (h : Sync b) (hc : b.conn? c.name = some c) (ha : c.alive = true) :
    Eff b (step auth b c.name (.unsubscribe mid topic)).1 c
      (Spec.effect auth b.banned (.unsubscribe mid topic)).alive
      ((Spec.effect auth b.banned (.unsubscribe mid topic)).holds c) := by
  cases hg : Spec.granted auth b.banned (parseChannel topic) permRead with
  | none =>
      obtain ⟨st, hst⟩ := reject_unsubscribe auth b c.name c mid topic hc ha (Spec.granted_none hg)
      simp only [Spec.effect, hg, hst]
      exact Eff.refl' hc ha
  | some σ =>
      obtain ⟨hv, g, hauth, hx, rfl⟩ := Spec.granted_some hg
      rw [step_unsubscribe_eq auth b c.name c mid topic g hc ha hv hauth hx]
      simp only [Spec.effect, hg]
      have e := eff_unsubscribeConn hc (h.ctrs c (conn?_mem hc)).2 (g.contract :: (parseChannel topic).query)
        (parseChannel topic).channel
      rw [ha] at e
      exact e

theorem step_eff_connect (auth : Auth) (b : B) (c : Conn) (un : Bytes) (wf wr : Bool) (wt wm : Bytes)
    (hc : b.conn? c.name = some c) (ha : c.alive = true) :
    Eff b (step auth b c.name (.connect un wf wr wt wm)).1 c true (hasCounter c) := by
  simp only [step, hc]; rw [if_neg (by simp [ha])]
  exact eff_setConn_same hc rfl rfl ha rfl

theorem step_eff_publish (auth : Auth) (b : B) (c : Conn) (qos : UInt8) (retain : Bool) (mid : UInt16)
    (topic payload : Bytes) (hc : b.conn? c.name = some c) (ha : c.alive = true) :
    Eff b (step auth b c.name (.publish qos retain mid topic payload)).1 c true (hasCounter c) := by
  simp only [step, hc]; rw [if_neg (by simp [ha])]
  generalize (if topic.length ≤ 2 then ((c.links.find? (·.1 == topic)).map (·.2)).getD [] else topic) = t
  split
  · exact Eff.refl' hc ha
  split
  · exact Eff.refl' hc ha
  split
  · exact Eff.refl' hc ha
  split
  · exact Eff.refl' hc ha
  split
  · exact (Eff.refl' hc ha).of_conns rfl rfl rfl
  · exact Eff.refl' hc ha

theorem step_eff_close (auth : Auth) (b : B) (c : Conn) (h : Sync b)
    (hc : b.conn? c.name = some c) (ha : c.alive = true) :
    Eff b (step auth b c.name .close).1 c false (fun _ => False) := by
  rw [step_close_eq auth b c.name c hc ha]
  exact eff_close auth h hc ha

theorem eff_subscribeConn' {b : B} {c : Conn} (hc : b.conn? c.name = some c) (ha : c.alive = true)
    (σ : Path) (ch : Bytes) :
    Eff b (subscribeConn b c σ ch).1 c true (fun p => hasCounter c p ∨ p = σ) := by
  have e := eff_subscribeConn hc σ ch
  rw [ha] at e
  exact e

theorem eff_unsubscribeConn' {b : B} {c : Conn} (hc : b.conn? c.name = some c) (ha : c.alive = true)
    (h1 : ∀ ctr ∈ c.counters, ctr.count = 1) (σ : Path) (ch : Bytes) :
    Eff b (unsubscribeConn b c σ ch).1 c true (fun p => p ≠ σ ∧ hasCounter c p) := by
  have e := eff_unsubscribeConn hc h1 σ ch
  rw [ha] at e
  exact e

theorem step_eff_link (auth : Auth) (b : B) (c : Conn) (mid : UInt16) (nm key channel : Bytes) (sub : Bool)
    (hc : b.conn? c.name = some c) (ha : c.alive = true) :
    Eff b (step auth b c.name (.link mid nm key channel sub)).1 c
      (Spec.effect auth b.banned (.link mid nm key channel sub)).alive
      ((Spec.effect auth b.banned (.link mid nm key channel sub)).holds c) := by
  generalize hE : Spec.effect auth b.banned (.link mid nm key channel sub) = E
  simp only [Spec.effect, Spec.granted] at hE
  simp only [step, hc]; rw [if_neg (by simp [ha])]
  split
  · rename_i h1
    simp only [Bool.not_eq_true'] at h1
    simp only [h1, Bool.false_and, Bool.false_eq_true, if_false] at hE
    subst hE
    exact Eff.refl' hc ha
  rename_i h1
  split
  · rename_i h2
    simp only [h2, if_true, ite_self] at hE
    subst hE
    exact Eff.refl' hc ha
  rename_i h2
  dsimp only
  generalize ((nm, (parseChannel (key ++ [sep] ++ channel)).toBytes) :: c.links.filter (fun x => x.1 != nm)) = lk
  have hset : Eff b (b.setConn { c with links := lk }) c true (hasCounter c) :=
    eff_setConn_same hc rfl rfl ha rfl
  simp only [Bool.not_eq_true', Bool.not_eq_false] at h1
  split
  · rename_i g hg
    change auth b.banned _ _ = some g at hg
    simp only [h1, Bool.true_and, h2, if_false, hg, Bool.false_eq_true] at hE
    split
    · rename_i h3
      simp only [Bool.and_eq_true, Bool.not_eq_true'] at h3
      simp only [h3.1, h3.2, if_true, Bool.false_eq_true, if_false] at hE
      subst hE
      have hc1 : (b.setConn { c with links := lk }).conn? c.name = some { c with links := lk } :=
        conn?_setConn (c := { c with links := lk }) ⟨c, conn?_mem hc, rfl⟩
      have e := eff_subscribeConn' (c := { c with links := lk }) hc1 ha
        (g.contract :: (parseChannel (key ++ [sep] ++ channel)).query) (parseChannel (key ++ [sep] ++ channel)).channel
      exact hset.trans e rfl rfl
    · rename_i h3
      have : E = .none := by
        rw [← hE]
        cases sub
        · simp
        · cases hx : g.has permExtend
          · simp [hx] at h3
          · simp
      subst this
      exact hset
  · rename_i hg
    change auth b.banned _ _ = none at hg
    simp only [hg, ite_self] at hE
    subst hE
    exact hset

theorem Spec.granted_invalid {auth : Auth} {banned : List Bytes} {ch : Channel} {perm : UInt8}
    (h : (ch.ctype == chInvalid) = true) : Spec.granted auth banned ch perm = none := by
  unfold Spec.granted; rw [if_pos h]

theorem Spec.granted_authnone {auth : Auth} {banned : List Bytes} {ch : Channel} {perm : UInt8}
    (h : auth banned ch perm = none) : Spec.granted auth banned ch perm = none := by
  unfold Spec.granted; rw [h]; split <;> rfl

theorem Spec.granted_extend {auth : Auth} {banned : List Bytes} {ch : Channel} {perm : UInt8} {g : Grant}
    (h : auth banned ch perm = some g) (hx : g.has permExtend = true) :
    Spec.granted auth banned ch perm = none := by
  unfold Spec.granted; rw [h]; dsimp only; rw [if_pos hx]; split <;> rfl

theorem Spec.granted_ok {auth : Auth} {banned : List Bytes} {ch : Channel} {perm : UInt8} {g : Grant}
    (hv : ¬ (ch.ctype == chInvalid) = true) (h : auth banned ch perm = some g) (hx : ¬ g.has permExtend = true) :
    Spec.granted auth banned ch perm = some (g.contract :: ch.query) := by
  unfold Spec.granted; rw [if_neg hv, h]; dsimp only; rw [if_neg hx]

theorem step_eff_presence (auth : Auth) (b : B) (c : Conn) (mid : UInt16) (key channel : Bytes) (status : Bool)
    (changes : Option Bool) (h : Sync b) (hc : b.conn? c.name = some c) (ha : c.alive = true) :
    Eff b (step auth b c.name (.presence mid key channel status changes)).1 c
      (Spec.effect auth b.banned (.presence mid key channel status changes)).alive
      ((Spec.effect auth b.banned (.presence mid key channel status changes)).holds c) := by
  generalize hE : Spec.effect auth b.banned (.presence mid key channel status changes) = E
  simp only [Spec.effect] at hE
  simp only [step, hc]; rw [if_neg (by simp [ha])]
  generalize (if channel.getLast? == some sep then channel else channel ++ [sep]) = chn at hE ⊢
  have h1c := (h.ctrs c (conn?_mem hc)).2
  split
  · rename_i h1
    have hgr : Spec.granted auth b.banned (parseChannel (key ++ [sep] ++ chn)) permPresence = none :=
      Spec.granted_invalid h1
    simp only [hgr] at hE
    subst hE
    exact Eff.refl' hc ha
  rename_i h1
  split
  · rename_i hg
    have hgr : Spec.granted auth b.banned (parseChannel (key ++ [sep] ++ chn)) permPresence = none :=
      Spec.granted_authnone hg
    simp only [hgr] at hE
    subst hE
    exact Eff.refl' hc ha
  rename_i g hg
  split
  · rename_i hx
    have hgr : Spec.granted auth b.banned (parseChannel (key ++ [sep] ++ chn)) permPresence = none :=
      Spec.granted_extend hg hx
    simp only [hgr] at hE
    subst hE
    exact Eff.refl' hc ha
  rename_i hx
  have hgr : Spec.granted auth b.banned (parseChannel (key ++ [sep] ++ chn)) permPresence =
      some (g.contract :: (parseChannel (key ++ [sep] ++ chn)).query) := Spec.granted_ok h1 hg hx
  simp only [hgr] at hE
  split <;> (dsimp only [Option.getD_some]; split)
  · subst hE; exact eff_subscribeConn' hc ha _ _
  · subst hE; exact eff_unsubscribeConn' hc ha h1c _ _
  · subst hE; exact Eff.refl' hc ha
  · subst hE; exact eff_subscribeConn' hc ha _ _
  · subst hE; exact eff_unsubscribeConn' hc ha h1c _ _
  · subst hE; exact Eff.refl' hc ha

/-- every request of an open connection changes the model exactly as `Spec.effect` says -/
theorem step_eff (auth : Auth) (b : B) (c : Conn) (r : Req) (h : Sync b)
    (hc : b.conn? c.name = some c) (ha : c.alive = true) :
    Eff b (step auth b c.name r).1 c (Spec.effect auth b.banned r).alive
      ((Spec.effect auth b.banned r).holds c) := by
  cases r with
  | connect un wf wr wt wm => exact step_eff_connect auth b c un wf wr wt wm hc ha
  | subscribe mid topic qos => exact step_eff_subscribe auth b c mid topic qos hc ha
  | unsubscribe mid topic => exact step_eff_unsubscribe auth b c mid topic h hc ha
  | publish qos retain mid topic payload => exact step_eff_publish auth b c qos retain mid topic payload hc ha
  | link mid nm key channel sub => exact step_eff_link auth b c mid nm key channel sub hc ha
  | presence mid key channel status changes => exact step_eff_presence auth b c mid key channel status changes h hc ha
  | close => exact step_eff_close auth b c h hc ha

/-! ### one step preserves the refinement -/

theorem Refines.self_pairs {b : B} {S : Spec.SpecState} (hs : Sync b) (hr : Refines b S) {c : Conn}
    (hc : c ∈ b.conns) (σ : Path) : (c.name, σ) ∈ S.A ↔ hasCounter c σ := by
  rw [hr.pairs]
  constructor
  · rintro ⟨c', hc', hn, hp⟩
    rw [← eq_of_name_eq hs.names hc' hc hn]; exact hp
  · intro hp; exact ⟨c, hc, rfl, hp⟩

theorem Refines.self_alive {b : B} {S : Spec.SpecState} (hs : Sync b) (hr : Refines b S) {c : Conn}
    (hc : c ∈ b.conns) : c.name ∈ S.alive ↔ c.alive = true := by
  rw [hr.alive]
  constructor
  · rintro ⟨c', hc', hn, hp⟩
    rw [← eq_of_name_eq hs.names hc' hc hn]; exact hp
  · intro hp; exact ⟨c, hc, rfl, hp⟩

theorem refines_of_eff {b b' : B} {S S' : Spec.SpecState} {c : Conn} {al : Bool} {P : Path → Prop}
    (hs' : Sync b') (hr : Refines b S) (he : Eff b b' c al P)
    (hb : S'.banned = S.banned) (hnd : S'.alive.Nodup)
    (hal : ∀ n, n ∈ S'.alive ↔ (n = c.name ∧ al = true) ∨ (n ≠ c.name ∧ n ∈ S.alive))
    (hA : ∀ n σ, (n, σ) ∈ S'.A ↔ (n = c.name ∧ P σ) ∨ (n ≠ c.name ∧ (n, σ) ∈ S.A)) :
    Refines b' S' := by
  obtain ⟨c', hc', _, hal', hP⟩ := he.self
  have hm' := conn?_mem hc'
  have hn' := conn?_name hc'
  refine ⟨by rw [hb, hr.banned, he.banned], hnd, ?_, ?_⟩
  · intro n
    rw [hal]
    constructor
    · rintro (⟨rfl, ht⟩ | ⟨hne, hin⟩)
      · exact ⟨c', hm', hn', by rw [hal', ht]⟩
      · obtain ⟨x, hx, hxn, hxa⟩ := (hr.alive n).1 hin
        exact ⟨x, (he.others x (by rw [hxn]; exact hne)).2 hx, hxn, hxa⟩
    · rintro ⟨x, hx, hxn, hxa⟩
      by_cases hne : n = c.name
      · left
        have : x = c' := eq_of_name_eq hs'.names hx hm' (by rw [hxn, hn', hne])
        subst this
        exact ⟨hne, by rw [← hal', hxa]⟩
      · right
        have hx0 := (he.others x (by rw [hxn]; exact hne)).1 hx
        exact ⟨hne, (hr.alive n).2 ⟨x, hx0, hxn, hxa⟩⟩
  · intro n σ
    rw [hA]
    constructor
    · rintro (⟨rfl, ht⟩ | ⟨hne, hin⟩)
      · exact ⟨c', hm', hn', (hP σ).2 ht⟩
      · obtain ⟨x, hx, hxn, hxa⟩ := (hr.pairs n σ).1 hin
        exact ⟨x, (he.others x (by rw [hxn]; exact hne)).2 hx, hxn, hxa⟩
    · rintro ⟨x, hx, hxn, hxa⟩
      by_cases hne : n = c.name
      · left
        have : x = c' := eq_of_name_eq hs'.names hx hm' (by rw [hxn, hn', hne])
        subst this
        exact ⟨hne, (hP σ).1 hxa⟩
      · right
        have hx0 := (he.others x (by rw [hxn]; exact hne)).1 hx
        exact ⟨hne, (hr.pairs n σ).2 ⟨x, hx0, hxn, hxa⟩⟩

theorem refines_step (auth : Auth) {b : B} {S : Spec.SpecState} (hs : Sync b) (hr : Refines b S)
    (name : String) (r : Req) : Refines (step auth b name r).1 (Spec.step auth S name r) := by
  cases hc : b.conn? name with
  | none =>
      rw [step_none auth b name r hc]
      have hna : name ∉ S.alive := by
        rw [hr.alive]
        rintro ⟨c, hm, hn, _⟩
        unfold B.conn? at hc
        rw [List.find?_eq_none] at hc
        exact hc c hm (by simp [hn])
      have : Spec.step auth S name r = S := by
        unfold Spec.step; rw [if_pos (by simpa using hna)]
      rw [this]; exact hr
  | some c =>
    have hname := conn?_name hc
    subst hname
    have hm := conn?_mem hc
    cases ha : c.alive with
    | false =>
        rw [dead_silent auth b c.name c r hc ha]
        have hna : c.name ∉ S.alive := by
          rw [hr.self_alive hs hm, ha]; simp
        have : Spec.step auth S c.name r = S := by
          unfold Spec.step; rw [if_pos (by simpa using hna)]
        rw [this]; exact hr
    | true =>
        have hin : c.name ∈ S.alive := (hr.self_alive hs hm).2 ha
        have he := step_eff auth b c r hs hc ha
        have hs' := sync_step auth b c.name r hs
        unfold Spec.step
        rw [if_neg (by simpa using hin),
          show Spec.effect auth S.banned r = Spec.effect auth b.banned r by rw [hr.banned]]
        generalize Spec.effect auth b.banned r = E at he ⊢
        cases E with
        | none =>
            refine refines_of_eff hs' hr he rfl hr.nodup ?_ ?_
            · intro n
              by_cases hn : n = c.name
              · subst hn; simp [hin, Spec.Effect.alive]
              · simp [hn]
            · intro n σ
              by_cases hn : n = c.name
              · subst hn; simp [hr.self_pairs hs hm, Spec.Effect.holds]
              · simp [hn]
        | add τ =>
            refine refines_of_eff hs' hr he rfl hr.nodup ?_ ?_
            · intro n
              by_cases hn : n = c.name
              · subst hn; simp [hin, Spec.Effect.alive]
              · simp [hn]
            · intro n σ
              show (n, σ) ∈ Spec.insertPair S.A c.name τ ↔ _
              rw [Spec.mem_insertPair]
              by_cases hn : n = c.name
              · subst hn; simp [hr.self_pairs hs hm, Spec.Effect.holds]
              · simp [hn]
        | remove τ =>
            refine refines_of_eff hs' hr he rfl hr.nodup ?_ ?_
            · intro n
              by_cases hn : n = c.name
              · subst hn; simp [hin, Spec.Effect.alive]
              · simp [hn]
            · intro n σ
              show (n, σ) ∈ Spec.removePair S.A c.name τ ↔ _
              rw [Spec.mem_removePair]
              by_cases hn : n = c.name
              · subst hn; simp [hr.self_pairs hs hm, Spec.Effect.holds, and_comm]
              · simp [hn]
        | closeAll =>
            refine refines_of_eff hs' hr he rfl ?_ ?_ ?_
            · exact List.Pairwise.filter _ hr.nodup
            · intro n
              show n ∈ S.alive.filter (· != c.name) ↔ _
              by_cases hn : n = c.name
              · subst hn; simp [Spec.Effect.alive]
              · simp [hn]
            · intro n σ
              show (n, σ) ∈ S.A.filter (·.1 != c.name) ↔ _
              by_cases hn : n = c.name
              · subst hn; simp [Spec.Effect.holds]
              · simp [hn]

/-! ### accept, ban, frames -/

theorem refines_accept (auth : Auth) {b : B} {S : Spec.SpecState} (hr : Refines b S) (name : String) (guid : Bytes)
    (hn : ∀ c ∈ b.conns, c.name ≠ name) :
    Refines (accept b name guid) (Spec.apply auth S (.accept name guid)) := by
  have hmem : ∀ x, x ∈ (accept b name guid).conns ↔ x ∈ b.conns ∨ x = { name := name, guid := guid } := by
    intro x; simp [accept]
  have hna : name ∉ S.alive := by
    rw [hr.alive]; rintro ⟨c, hc, hcn, _⟩; exact hn c hc hcn
  refine ⟨hr.banned, ?_, ?_, ?_⟩
  · show (S.alive ++ [name]).Nodup
    rw [List.nodup_append]
    refine ⟨hr.nodup, by simp, ?_⟩
    intro a ha x hx
    simp only [List.mem_singleton] at hx
    subst hx
    rintro rfl
    exact hna ha
  · intro n
    show n ∈ S.alive ++ [name] ↔ _
    rw [List.mem_append, List.mem_singleton, hr.alive]
    constructor
    · rintro (⟨c, hc, h1, h2⟩ | rfl)
      · exact ⟨c, (hmem c).2 (Or.inl hc), h1, h2⟩
      · exact ⟨{ name := n, guid := guid }, (hmem _).2 (Or.inr rfl), rfl, rfl⟩
    · rintro ⟨c, hc, h1, h2⟩
      rcases (hmem c).1 hc with hc | rfl
      · exact Or.inl ⟨c, hc, h1, h2⟩
      · exact Or.inr h1.symm
  · intro n σ
    show (n, σ) ∈ S.A ↔ _
    rw [hr.pairs]
    constructor
    · rintro ⟨c, hc, h1, h2⟩
      exact ⟨c, (hmem c).2 (Or.inl hc), h1, h2⟩
    · rintro ⟨c, hc, h1, h2⟩
      rcases (hmem c).1 hc with hc | rfl
      · exact ⟨c, hc, h1, h2⟩
      · obtain ⟨ctr, hm, _⟩ := h2; cases hm

theorem Refines.congr {b b' : B} {S : Spec.SpecState} (hr : Refines b S) (hc : b'.conns = b.conns)
    (hb : b'.banned = b.banned) : Refines b' S :=
  ⟨by rw [hb]; exact hr.banned, hr.nodup, by rw [hc]; exact hr.alive, by rw [hc]; exact hr.pairs⟩

theorem refines_ban {b : B} {S : Spec.SpecState} (hr : Refines b S) (keys : List Bytes) :
    Refines { b with banned := keys } { S with banned := keys } :=
  ⟨rfl, hr.nodup, hr.alive, hr.pairs⟩

/-- a request creates no connection and changes no name, connection id or matcher mode -/
theorem step_frame (auth : Auth) (b : B) (name : String) (r : Req) (hs : Sync b) :
    (step auth b name r).1.mode = b.mode ∧ (step auth b name r).1.banned = b.banned ∧
    ∀ x ∈ (step auth b name r).1.conns, ∃ y ∈ b.conns, y.name = x.name ∧ y.key = x.key := by
  cases hc : b.conn? name with
  | none =>
      rw [step_none auth b name r hc]
      exact ⟨rfl, rfl, fun x hx => ⟨x, hx, rfl, rfl⟩⟩
  | some c =>
    have hname := conn?_name hc
    subst hname
    cases ha : c.alive with
    | false =>
        rw [dead_silent auth b c.name c r hc ha]
        exact ⟨rfl, rfl, fun x hx => ⟨x, hx, rfl, rfl⟩⟩
    | true =>
        have he := step_eff auth b c r hs hc ha
        have hs' := sync_step auth b c.name r hs
        refine ⟨he.mode, he.banned, ?_⟩
        intro x hx
        by_cases hxn : x.name = c.name
        · obtain ⟨c', hc', hg, _⟩ := he.self
          have : x = c' := eq_of_name_eq hs'.names hx (conn?_mem hc') (by rw [hxn, conn?_name hc'])
          subst this
          exact ⟨c, conn?_mem hc, hxn.symm, by unfold Conn.key; rw [hg]⟩
        · exact ⟨x, (he.others x hxn).1 hx, rfl, rfl⟩

/-! ### histories -/

/-- the accepts of `evs` are pairwise new and new with respect to the connections of `b` -/
def Fresh (b : B) (evs : List Spec.Ev) : Prop :=
  (Spec.acceptNames evs).Nodup ∧ (Spec.acceptKeys evs).Nodup ∧
  (∀ c ∈ b.conns, c.name ∉ Spec.acceptNames evs) ∧ (∀ c ∈ b.conns, c.key ∉ Spec.acceptKeys evs)

theorem run_cons (auth : Auth) (b : B) (e : Spec.Ev) (es : List Spec.Ev) :
    run auth b (e :: es) = run auth (applyEv auth b e).1 es := rfl

theorem Spec.run_cons (auth : Auth) (S : Spec.SpecState) (e : Spec.Ev) (es : List Spec.Ev) :
    Spec.run auth S (e :: es) = Spec.run auth (Spec.apply auth S e) es := rfl

/-- the refinement, from any related pair of states, along any history with new accepts -/
theorem run_refines (auth : Auth) : ∀ (evs : List Spec.Ev) (b : B) (S : Spec.SpecState),
    Sync b → Refines b S → Fresh b evs →
    Sync (run auth b evs) ∧ Refines (run auth b evs) (Spec.run auth S evs) ∧ (run auth b evs).mode = b.mode
  | [], _, _, hs, hr, _ => ⟨hs, hr, rfl⟩
  | .accept n g :: es, b, S, hs, hr, ⟨f1, f2, f3, f4⟩ => by
      rw [run_cons, Spec.run_cons]
      simp only [Spec.acceptNames, Spec.acceptKeys, List.nodup_cons, List.mem_cons, not_or] at f1 f2 f3 f4
      have hn : ∀ c ∈ b.conns, c.name ≠ n := fun c hc => (f3 c hc).1
      have hk : ∀ c ∈ b.conns, c.key ≠ Hash.hashOf g := fun c hc => (f4 c hc).1
      have hmem : ∀ x, x ∈ (accept b n g).conns ↔ x ∈ b.conns ∨ x = { name := n, guid := g } := by
        intro x; simp [accept]
      refine run_refines auth es (accept b n g) _ (sync_accept b n g hs hn hk) (refines_accept auth hr n g hn)
        ⟨f1.2, f2.2, ?_, ?_⟩
      · intro c hc
        rcases (hmem c).1 hc with hc | rfl
        · exact (f3 c hc).2
        · exact f1.1
      · intro c hc
        rcases (hmem c).1 hc with hc | rfl
        · exact (f4 c hc).2
        · exact f2.1
  | .req n r :: es, b, S, hs, hr, ⟨f1, f2, f3, f4⟩ => by
      rw [run_cons, Spec.run_cons]
      obtain ⟨hm, _, hfr⟩ := step_frame auth b n r hs
      have hf' : Fresh (step auth b n r).1 es := by
        refine ⟨f1, f2, ?_, ?_⟩
        · intro x hx
          obtain ⟨y, hy, h1, _⟩ := hfr x hx
          rw [← h1]; exact f3 y hy
        · intro x hx
          obtain ⟨y, hy, _, h2⟩ := hfr x hx
          rw [← h2]; exact f4 y hy
      obtain ⟨i1, i2, i3⟩ := run_refines auth es (step auth b n r).1 _ (sync_step auth b n r hs)
        (refines_step auth hs hr n r) hf'
      exact ⟨i1, i2, i3.trans hm⟩
  | .ban keys :: es, b, S, hs, hr, hf => by
      rw [run_cons, Spec.run_cons]
      exact run_refines auth es { b with banned := keys } _ (hs.congr rfl rfl) (refines_ban hr keys) hf

/-- a broker that has served nothing yet: no connection, an empty subscription index (any
matcher mode, ban list, retention period, message store) -/
def Pristine (b : B) : Prop := b.conns = [] ∧ b.trie = {}

theorem sync_pristine {b : B} (h : Pristine b) : Sync b := by
  obtain ⟨hc, ht⟩ := h
  refine ⟨by rw [ht]; exact wf_empty, by rw [hc]; exact List.nodup_nil, ?_, ?_, ?_, ?_, by rw [ht]; rfl⟩
  · intro c₁ h₁; rw [hc] at h₁; cases h₁
  · intro p k
    rw [ht, hc]
    constructor
    · intro hh; cases hh
    · rintro ⟨c, hc, _⟩; cases hc
  · intro c h1; rw [hc] at h1; cases h1
  · intro c h1; rw [hc] at h1; cases h1

/-- the specification state a pristine broker starts from: nobody connected, `A` empty -/
def Spec.init (b₀ : B) : Spec.SpecState := { banned := b₀.banned }

theorem refines_pristine {b : B} (h : Pristine b) : Refines b (Spec.init b) := by
  obtain ⟨hc, _⟩ := h
  refine ⟨rfl, List.nodup_nil, ?_, ?_⟩
  · intro n; rw [hc]; simp [Spec.init]
  · intro n σ; rw [hc]; simp [Spec.init]

theorem fresh_of_wellFormed {b : B} (h : Pristine b) {evs : List Spec.Ev} (hwf : Spec.wellFormed evs = true) :
    Fresh b evs := by
  obtain ⟨hc, _⟩ := h
  simp only [Spec.wellFormed, Bool.and_eq_true, decide_eq_true_eq] at hwf
  refine ⟨hwf.1, hwf.2, ?_, ?_⟩ <;> (intro c h1; rw [hc] at h1; cases h1)

/-- **the model refines the set of acknowledged, not yet removed subscriptions, for every
history**: after any well-formed history from a pristine broker, a connection holds a filter in
the model's bookkeeping (and hence, by `Sync`, in the subscription index) iff the pair is in the
specification's set `A`; the open connections are the same on both sides -/
theorem history_refines (auth : Auth) (b₀ : B) (h0 : Pristine b₀) (evs : List Spec.Ev)
    (hwf : Spec.wellFormed evs = true) :
    Sync (run auth b₀ evs) ∧ (run auth b₀ evs).mode = b₀.mode ∧
    Refines (run auth b₀ evs) (Spec.run auth (Spec.init b₀) evs) := by
  obtain ⟨h1, h2, h3⟩ := run_refines auth evs b₀ _ (sync_pristine h0) (refines_pristine h0)
    (fresh_of_wellFormed h0 hwf)
  exact ⟨h1, h3, h2⟩

/-- the refinement relation spelled out connection by connection -/
theorem Refines.spelled {b : B} {S : Spec.SpecState} (hs : Sync b) (hr : Refines b S) :
    (∀ c ∈ b.conns, (c.name ∈ S.alive ↔ c.alive = true) ∧
        ∀ σ, (hasCounter c σ ↔ (c.name, σ) ∈ S.A) ∧ ((c.alive = true ∧ hasCounter c σ) ↔ (c.name, σ) ∈ S.A)) ∧
    (∀ n, (n ∈ S.alive ∨ ∃ σ, (n, σ) ∈ S.A) → ∃ c ∈ b.conns, c.name = n ∧ c.alive = true) := by
  have hlive : ∀ c ∈ b.conns, ∀ σ, hasCounter c σ → c.alive = true := by
    intro c hc σ ⟨ctr, hm, _⟩
    cases ha : c.alive with
    | true => rfl
    | false => rw [hs.dead c hc ha] at hm; cases hm
  constructor
  · intro c hc
    refine ⟨hr.self_alive hs hc, fun σ => ⟨(hr.self_pairs hs hc σ).symm, ?_⟩⟩
    rw [hr.self_pairs hs hc σ]
    exact ⟨fun h => h.2, fun h => ⟨hlive c hc σ h, h⟩⟩
  · rintro n (hn | ⟨σ, hn⟩)
    · exact (hr.alive n).1 hn
    · obtain ⟨c, hc, h1, h2⟩ := (hr.pairs n σ).1 hn
      exact ⟨c, hc, h1, hlive c hc σ h2⟩

/-- `history_refines` with the refinement relation spelled out: after every well-formed history
the invariant `Sync` holds, and connection by connection the model's bookkeeping, the
subscription index and the specification's set `A` describe the same subscriptions -/
theorem history_refines_spelled (auth : Auth) (b₀ : B) (h0 : Pristine b₀) (evs : List Spec.Ev)
    (hwf : Spec.wellFormed evs = true) :
    let b := run auth b₀ evs
    let S := Spec.run auth (Spec.init b₀) evs
    Sync b ∧ b.mode = b₀.mode ∧ S.banned = b.banned ∧
    (∀ c ∈ b.conns, (c.name ∈ S.alive ↔ c.alive = true) ∧
        ∀ σ, (hasCounter c σ ↔ (c.name, σ) ∈ S.A) ∧
             ((c.alive = true ∧ hasCounter c σ) ↔ (c.name, σ) ∈ S.A) ∧
             ((σ, c.key) ∈ b.trie.root.abs ↔ (c.name, σ) ∈ S.A)) ∧
    (∀ n, (n ∈ S.alive ∨ ∃ σ, (n, σ) ∈ S.A) → ∃ c ∈ b.conns, c.name = n ∧ c.alive = true) := by
  intro b S
  obtain ⟨hs, hm, hr⟩ := history_refines auth b₀ h0 evs hwf
  obtain ⟨s1, s2⟩ := hr.spelled hs
  refine ⟨hs, hm, hr.banned, ?_, s2⟩
  intro c hc
  refine ⟨(s1 c hc).1, fun σ => ⟨((s1 c hc).2 σ).1, ((s1 c hc).2 σ).2, ?_⟩⟩
  rw [hs.self_pairs hc σ]
  exact ((s1 c hc).2 σ).2

/-! ### publish -/

/-- the outputs that are PUBLISH deliveries -/
def isPub : String × Pkt → Bool
  | (_, .pub _ _) => true
  | _ => false

theorem nodup_of_map {α β : Type} (f : α → β) {l : List α} (h : (l.map f).Nodup) : l.Nodup := by
  unfold List.Nodup at h ⊢
  rw [List.pairwise_map] at h
  exact h.imp (fun hab heq => hab (congrArg f heq))

theorem nodup_map_inj {α β : Type} (f : α → β) (hf : ∀ a b, f a = f b → a = b) {l : List α} (h : l.Nodup) :
    (l.map f).Nodup := by
  unfold List.Nodup at h ⊢
  rw [List.pairwise_map]
  exact h.imp (fun hab heq => hab (hf _ _ heq))

theorem holdsMatching_iff (m : Mode) (S : Spec.SpecState) (n : String) (ssid : Path) :
    Spec.holdsMatching m S n ssid = true ↔ ∃ f, (n, f) ∈ S.A ∧ matchesMode m f ssid = true := by
  unfold Spec.holdsMatching
  rw [List.any_eq_true]
  constructor
  · rintro ⟨⟨n', f⟩, hm, hc⟩
    simp only [Bool.and_eq_true, beq_iff_eq] at hc
    obtain ⟨rfl, hmt⟩ := hc
    exact ⟨f, hm, hmt⟩
  · rintro ⟨f, hm, hmt⟩
    exact ⟨(n, f), hm, by simp [hmt]⟩

theorem mem_receivers (m : Mode) (S : Spec.SpecState) (ssid : Path) (ex : Option String) (n : String) :
    n ∈ Spec.receivers m S ssid ex ↔
      n ∈ S.alive ∧ (∃ f, (n, f) ∈ S.A ∧ matchesMode m f ssid = true) ∧ ex ≠ some n := by
  unfold Spec.receivers
  rw [List.mem_filter, Bool.and_eq_true, holdsMatching_iff, bne_iff_ne]

/-- who receives, in terms of the specification state -/
theorem deliver_refined {b : B} {S : Spec.SpecState} (hs : Sync b) (hr : Refines b S) (ssid : Path)
    (pkt : Pkt) (ex : Option Conn) (hex : ∀ x, ex = some x → x ∈ b.conns) :
    (deliver b ssid (ex.map (·.key)) pkt).Perm
      ((Spec.receivers b.mode S ssid (ex.map (·.name))).map (fun n => (n, pkt))) := by
  have hn1 : (deliver b ssid (ex.map (·.key)) pkt).Nodup := nodup_of_map Prod.fst (deliver_once b hs ssid _ pkt)
  have hn2 : ((Spec.receivers b.mode S ssid (ex.map (·.name))).map (fun n => (n, pkt))).Nodup := by
    refine nodup_map_inj _ (fun a b h => (Prod.mk.inj h).1) ?_
    unfold Spec.receivers
    exact List.Pairwise.filter _ hr.nodup
  rw [List.perm_ext_iff_of_nodup hn1 hn2]
  rintro ⟨n, p⟩
  rw [deliver_spec b hs, List.mem_map]
  have hexcl : ∀ c ∈ b.conns, (ex.map (·.key) ≠ some c.key ↔ ex.map (·.name) ≠ some c.name) := by
    intro c hc
    cases ex with
    | none => simp
    | some x =>
        have hx := hex x rfl
        simp only [Option.map_some, ne_eq, Option.some.injEq]
        constructor
        · intro h1 h2; exact h1 (by rw [eq_of_name_eq hs.names hx hc h2])
        · intro h1 h2; exact h1 (hs.keys _ hx _ hc h2)
  constructor
  · rintro ⟨rfl, c, hc, rfl, ha, ⟨f, hf, hmt⟩, hx⟩
    refine ⟨c.name, ?_, rfl⟩
    rw [mem_receivers]
    exact ⟨(hr.self_alive hs hc).2 ha, ⟨f, (hr.self_pairs hs hc f).2 hf, hmt⟩, (hexcl c hc).1 hx⟩
  · rintro ⟨n', hn', he⟩
    obtain ⟨rfl, rfl⟩ := Prod.mk.inj he
    rw [mem_receivers] at hn'
    obtain ⟨h1, ⟨f, hf, hmt⟩, h3⟩ := hn'
    obtain ⟨c, hc, rfl, ha⟩ := (hr.alive _).1 h1
    exact ⟨rfl, c, hc, rfl, ha, ⟨f, (hr.self_pairs hs hc f).1 hf, hmt⟩, (hexcl c hc).2 h3⟩

theorem deliver_congr {b b' : B} (ht : b'.trie = b.trie) (hc : b'.conns = b.conns) (hm : b'.mode = b.mode)
    (ssid : Path) (excl : Option Sub) (pkt : Pkt) : deliver b' ssid excl pkt = deliver b ssid excl pkt := by
  unfold deliver; rw [ht, hc, hm]

theorem filter_isPub_deliver (b : B) (ssid : Path) (excl : Option Sub) (t p : Bytes) (rest : Out)
    (hrest : ∀ e ∈ rest, isPub e = false) :
    (deliver b ssid excl (.pub t p) ++ rest).filter isPub = deliver b ssid excl (.pub t p) := by
  rw [List.filter_append, List.filter_eq_self.2, List.filter_eq_nil_iff.2, List.append_nil]
  · intro e he; rw [hrest e he]; simp
  · rintro ⟨n, q⟩ he
    have := deliver_snd he
    simp only at this
    subst this; rfl

/-- **exact delivery, after every history**: for an accepted PUBLISH in a state related to the
specification state `S`, the PUBLISH packets the step emits are, as a multiset, one packet —
channel (key and options stripped) and payload unchanged — for every open connection holding in
`A` a filter that matches the channel, except the publisher when it excluded itself -/
theorem publish_refined (auth : Auth) {b : B} {S : Spec.SpecState} (hs : Sync b) (hr : Refines b S)
    (name : String) (c : Conn) (qos : UInt8) (retain : Bool) (mid : UInt16) (topic payload : Bytes) (g : Grant)
    (hc : b.conn? name = some c) (ha : c.alive = true)
    (hst : (parseChannel (resolve c topic)).ctype = chStatic)
    (hauth : auth b.banned (parseChannel (resolve c topic)) permWrite = some g) (hx : g.has permExtend = false) :
    ((step auth b name (.publish qos retain mid topic payload)).2.filter isPub).Perm
      ((Spec.receivers b.mode S (g.contract :: (parseChannel (resolve c topic)).query)
          (if (parseChannel (resolve c topic)).exclude then some name else none)).map
        (fun n => (n, Pkt.pub (parseChannel (resolve c topic)).channel payload))) := by
  obtain ⟨h1, h2, h3⟩ := publish_exact auth b name c qos retain mid topic payload g hc ha hst hauth hx
  have hmode := (step_frame auth b name (.publish qos retain mid topic payload) hs).1
  rw [h3, deliver_congr h1 h2 hmode, filter_isPub_deliver]
  · have hname := conn?_name hc
    have := deliver_refined hs hr (g.contract :: (parseChannel (resolve c topic)).query)
      (.pub (parseChannel (resolve c topic)).channel payload)
      (if (parseChannel (resolve c topic)).exclude then some c else none)
      (by intro x hx; split at hx
          · cases hx; exact conn?_mem hc
          · cases hx)
    rw [← hname]
    cases hex : (parseChannel (resolve c topic)).exclude <;> simpa [hex] using this
  · intro e he
    split at he
    · simp only [List.mem_singleton] at he; subst he; rfl
    · cases he

/-! ### removed subscriptions -/

theorem Spec.apply_mem_A (auth : Auth) (S : Spec.SpecState) (e : Spec.Ev) (p : String × Path)
    (h : p ∈ (Spec.apply auth S e).A) : p ∈ S.A ∨ Spec.adds auth S e = some p := by
  cases e with
  | accept n g => exact Or.inl h
  | ban keys => exact Or.inl h
  | req name r =>
      simp only [Spec.apply, Spec.step] at h
      by_cases hal : S.alive.contains name = true
      · rw [if_neg (by rw [hal]; simp)] at h
        simp only [Spec.adds, hal, if_true]
        cases hE : Spec.effect auth S.banned r with
        | none => rw [hE] at h; exact Or.inl h
        | add σ =>
            rw [hE] at h
            rcases (Spec.mem_insertPair _ _ _ _).1 h with h | rfl
            · exact Or.inl h
            · exact Or.inr rfl
        | remove σ => rw [hE] at h; exact Or.inl ((Spec.mem_removePair _ _ _ _).1 h).1
        | closeAll => rw [hE] at h; exact Or.inl (List.mem_filter.1 h).1
      · rw [if_pos (by simpa using hal)] at h
        exact Or.inl h

theorem Spec.removes_spec (auth : Auth) (S : Spec.SpecState) (e : Spec.Ev) (p : String × Path)
    (h : Spec.removes auth S e p = true) : p ∉ (Spec.apply auth S e).A := by
  cases e with
  | accept n g => simp [Spec.removes] at h
  | ban keys => simp [Spec.removes] at h
  | req name r =>
      simp only [Spec.removes, Bool.and_eq_true, beq_iff_eq] at h
      obtain ⟨⟨hal, hn⟩, hm⟩ := h
      simp only [Spec.apply, Spec.step]
      rw [if_neg (by rw [hal]; simp)]
      obtain ⟨n, σ⟩ := p
      simp only at hn hm
      subst hn
      cases hE : Spec.effect auth S.banned r with
      | none => rw [hE] at hm; cases hm
      | add τ => rw [hE] at hm; cases hm
      | remove τ =>
          rw [hE] at hm
          simp only [beq_iff_eq] at hm
          subst hm
          intro hin
          exact ((Spec.mem_removePair _ _ _ _).1 hin).2 rfl
      | closeAll =>
          intro hin
          have := (List.mem_filter.1 hin).2
          simp at this

theorem Spec.run_not_mem (auth : Auth) : ∀ (es : List Spec.Ev) (S : Spec.SpecState) (p : String × Path),
    p ∉ S.A → Spec.everAdds auth S es p = false → p ∉ (Spec.run auth S es).A
  | [], _, _, h, _ => h
  | e :: es, S, p, h, hno => by
      simp only [Spec.everAdds, Bool.or_eq_false_iff] at hno
      rw [Spec.run_cons]
      apply Spec.run_not_mem auth es _ p _ hno.2
      intro hin
      rcases Spec.apply_mem_A auth S e p hin with h1 | h1
      · exact h h1
      · rw [h1] at hno; simp at hno

theorem Spec.run_append (auth : Auth) (S : Spec.SpecState) (h₁ h₂ : List Spec.Ev) :
    Spec.run auth S (h₁ ++ h₂) = Spec.run auth (Spec.run auth S h₁) h₂ := by
  unfold Spec.run; rw [List.foldl_append]

/-- on the specification: a removed pair stays out of `A` until an event adds it again -/
theorem Spec.removed_stays (auth : Auth) (S₀ : Spec.SpecState) (h₁ : List Spec.Ev) (e : Spec.Ev) (h₂ : List Spec.Ev)
    (p : String × Path) (hrem : Spec.removes auth (Spec.run auth S₀ h₁) e p = true)
    (hno : Spec.everAdds auth (Spec.run auth S₀ (h₁ ++ [e])) h₂ p = false) :
    p ∉ (Spec.run auth S₀ (h₁ ++ e :: h₂)).A := by
  have : h₁ ++ e :: h₂ = (h₁ ++ [e]) ++ h₂ := by simp
  rw [this, Spec.run_append]
  apply Spec.run_not_mem auth h₂ _ p _ hno
  rw [Spec.run_append]
  exact Spec.removes_spec auth _ e p hrem

/-! ### the history-level theorems about publishing and removal -/

/-- `publish_refined` after a well-formed history from a pristine broker -/
theorem publish_history_exact (auth : Auth) (b₀ : B) (h0 : Pristine b₀) (evs : List Spec.Ev)
    (hwf : Spec.wellFormed evs = true)
    (name : String) (c : Conn) (qos : UInt8) (retain : Bool) (mid : UInt16) (topic payload : Bytes) (g : Grant)
    (hc : (run auth b₀ evs).conn? name = some c) (ha : c.alive = true)
    (hst : (parseChannel (resolve c topic)).ctype = chStatic)
    (hauth : auth (run auth b₀ evs).banned (parseChannel (resolve c topic)) permWrite = some g)
    (hx : g.has permExtend = false) :
    ((step auth (run auth b₀ evs) name (.publish qos retain mid topic payload)).2.filter isPub).Perm
      ((Spec.receivers b₀.mode (Spec.run auth (Spec.init b₀) evs) (g.contract :: (parseChannel (resolve c topic)).query)
          (if (parseChannel (resolve c topic)).exclude then some name else none)).map
        (fun n => (n, Pkt.pub (parseChannel (resolve c topic)).channel payload))) := by
  obtain ⟨hs, hm, hr⟩ := history_refines auth b₀ h0 evs hwf
  rw [← hm]
  exact publish_refined auth hs hr name c qos retain mid topic payload g hc ha hst hauth hx

/-- the same, read per receiver: `n` gets the packet `p` iff `p` is the published message, `n` is
open, holds in `A` a matching filter and is not the self-excluded publisher; and nobody gets it twice -/
theorem publish_history_iff (auth : Auth) (b₀ : B) (h0 : Pristine b₀) (evs : List Spec.Ev)
    (hwf : Spec.wellFormed evs = true)
    (name : String) (c : Conn) (qos : UInt8) (retain : Bool) (mid : UInt16) (topic payload : Bytes) (g : Grant)
    (hc : (run auth b₀ evs).conn? name = some c) (ha : c.alive = true)
    (hst : (parseChannel (resolve c topic)).ctype = chStatic)
    (hauth : auth (run auth b₀ evs).banned (parseChannel (resolve c topic)) permWrite = some g)
    (hx : g.has permExtend = false) :
    let S := Spec.run auth (Spec.init b₀) evs
    let ch := parseChannel (resolve c topic)
    let out := (step auth (run auth b₀ evs) name (.publish qos retain mid topic payload)).2.filter isPub
    (∀ n p, (n, p) ∈ out ↔
      p = .pub ch.channel payload ∧ n ∈ S.alive ∧
      (∃ f, (n, f) ∈ S.A ∧ matchesMode b₀.mode f (g.contract :: ch.query) = true) ∧
      ¬ (ch.exclude = true ∧ n = name)) ∧
    (out.map Prod.fst).Nodup := by
  intro S ch out
  have hp := publish_history_exact auth b₀ h0 evs hwf name c qos retain mid topic payload g hc ha hst hauth hx
  obtain ⟨_, _, hr⟩ := history_refines auth b₀ h0 evs hwf
  constructor
  · intro n p
    show (n, p) ∈ out ↔ _
    rw [hp.mem_iff, List.mem_map]
    constructor
    · rintro ⟨n', hn', he⟩
      obtain ⟨rfl, rfl⟩ := Prod.mk.inj he
      obtain ⟨h1, h2, h3⟩ := (mem_receivers _ _ _ _ _).1 hn'
      refine ⟨rfl, h1, h2, ?_⟩
      rintro ⟨he1, rfl⟩
      rw [he1] at h3
      exact h3 rfl
    · rintro ⟨rfl, h1, h2, h3⟩
      refine ⟨n, (mem_receivers _ _ _ _ _).2 ⟨h1, h2, ?_⟩, rfl⟩
      intro he
      split at he
      · rename_i hex
        exact h3 ⟨hex, (Option.some.inj he).symm⟩
      · cases he
  · have hnd : ((Spec.receivers b₀.mode S (g.contract :: ch.query) (if ch.exclude then some name else none)).map
        (fun n => (n, Pkt.pub ch.channel payload))).map Prod.fst |>.Nodup := by
      rw [List.map_map]
      have : (Prod.fst ∘ fun n => (n, Pkt.pub ch.channel payload)) = (id : String → String) := rfl
      rw [this, List.map_id]
      unfold Spec.receivers
      exact List.Pairwise.filter _ hr.nodup
    exact ((hp.map Prod.fst).nodup_iff).2 hnd

/-- **a removed subscription never receives**: after an accepted unsubscribe of the filter `σ`
by `n`, or after `n`'s connection ended, and as long as no later event adds `(n, σ)` again, the
pair is not in `A`, the model's connection record does not hold `σ`, the subscription index has no
entry for it, and an accepted publish is not delivered to `n` unless `n` holds ANOTHER filter
that matches the channel -/
theorem removed_never_receives (auth : Auth) (b₀ : B) (h0 : Pristine b₀) (h₁ : List Spec.Ev) (e : Spec.Ev)
    (h₂ : List Spec.Ev) (hwf : Spec.wellFormed (h₁ ++ e :: h₂) = true) (n : String) (σ : Path)
    (hrem : Spec.removes auth (Spec.run auth (Spec.init b₀) h₁) e (n, σ) = true)
    (hno : Spec.everAdds auth (Spec.run auth (Spec.init b₀) (h₁ ++ [e])) h₂ (n, σ) = false) :
    let b := run auth b₀ (h₁ ++ e :: h₂)
    let S := Spec.run auth (Spec.init b₀) (h₁ ++ e :: h₂)
    (n, σ) ∉ S.A ∧
    (∀ x ∈ b.conns, x.name = n → ¬ hasCounter x σ ∧ (σ, x.key) ∉ b.trie.root.abs) ∧
    ∀ (name : String) (c : Conn) (qos : UInt8) (retain : Bool) (mid : UInt16) (topic payload : Bytes) (g : Grant),
      b.conn? name = some c → c.alive = true → (parseChannel (resolve c topic)).ctype = chStatic →
      auth b.banned (parseChannel (resolve c topic)) permWrite = some g → g.has permExtend = false →
      (∀ f, f ≠ σ → (n, f) ∈ S.A → matchesMode b₀.mode f (g.contract :: (parseChannel (resolve c topic)).query) = false) →
      ∀ p, (n, p) ∉ (step auth b name (.publish qos retain mid topic payload)).2.filter isPub := by
  intro b S
  have hout : (n, σ) ∉ S.A := Spec.removed_stays auth (Spec.init b₀) h₁ e h₂ (n, σ) hrem hno
  obtain ⟨hs, hm, hr⟩ := history_refines auth b₀ h0 (h₁ ++ e :: h₂) hwf
  refine ⟨hout, ?_, ?_⟩
  · intro x hx hxn
    have h1 : ¬ hasCounter x σ := by
      intro hh
      exact hout ((hr.pairs n σ).2 ⟨x, hx, hxn, hh⟩)
    exact ⟨h1, fun hh => h1 ((hs.self_pairs hx σ).1 hh).2⟩
  · intro name c qos retain mid topic payload g hc ha hst hauth hx hoth p hp
    have := ((publish_history_iff auth b₀ h0 (h₁ ++ e :: h₂) hwf name c qos retain mid topic payload g
      hc ha hst hauth hx).1 n p).1 hp
    obtain ⟨_, _, ⟨f, hf, hmt⟩, _⟩ := this
    by_cases hfe : f = σ
    · subst hfe; exact hout hf
    · rw [hoth f hfe hf] at hmt; cases hmt

/-! ### C08 / C18 corollaries -/

theorem Spec.adds_alive (auth : Auth) (S : Spec.SpecState) (e : Spec.Ev) (p : String × Path)
    (h : Spec.adds auth S e = some p) : p.1 ∈ S.alive := by
  cases e with
  | accept n g => cases h
  | ban keys => cases h
  | req name r =>
      simp only [Spec.adds] at h
      split at h
      · rename_i hal
        split at h
        · cases h; simpa using hal
        · cases h
      · cases h

theorem Spec.apply_mem_alive (auth : Auth) (S : Spec.SpecState) (e : Spec.Ev) (n : String)
    (h : n ∈ (Spec.apply auth S e).alive) : n ∈ S.alive ∨ n ∈ Spec.acceptNames [e] := by
  cases e with
  | accept n' g =>
      rcases List.mem_append.1 h with h | h
      · exact Or.inl h
      · right; simpa [Spec.acceptNames] using h
  | ban keys => exact Or.inl h
  | req name r =>
      left
      simp only [Spec.apply, Spec.step] at h
      split at h
      · exact h
      · split at h
        · exact h
        · exact h
        · exact h
        · exact (List.mem_filter.1 h).1

theorem Spec.acceptNames_cons (e : Spec.Ev) (es : List Spec.Ev) :
    Spec.acceptNames (e :: es) = Spec.acceptNames [e] ++ Spec.acceptNames es := by
  cases e <;> rfl

theorem Spec.acceptNames_append (h₁ h₂ : List Spec.Ev) :
    Spec.acceptNames (h₁ ++ h₂) = Spec.acceptNames h₁ ++ Spec.acceptNames h₂ := by
  induction h₁ with
  | nil => rfl
  | cons e es ih => rw [List.cons_append, Spec.acceptNames_cons, ih, Spec.acceptNames_cons e es, List.append_assoc]

/-- on the specification: a connection that is not open and has no pair stays so as long as
its name is not accepted (again) -/
theorem Spec.closed_stays (auth : Auth) (name : String) : ∀ (es : List Spec.Ev) (S : Spec.SpecState),
    name ∉ S.alive → (∀ σ, (name, σ) ∉ S.A) → name ∉ Spec.acceptNames es →
    name ∉ (Spec.run auth S es).alive ∧ ∀ σ, (name, σ) ∉ (Spec.run auth S es).A
  | [], _, h1, h2, _ => ⟨h1, h2⟩
  | e :: es, S, h1, h2, h3 => by
      rw [Spec.acceptNames_cons, List.mem_append, not_or] at h3
      rw [Spec.run_cons]
      apply Spec.closed_stays auth name es _ _ _ h3.2
      · intro hin
        rcases Spec.apply_mem_alive auth S e name hin with h | h
        · exact h1 h
        · exact h3.1 h
      · intro σ hin
        rcases Spec.apply_mem_A auth S e (name, σ) hin with h | h
        · exact h2 σ h
        · exact h1 (Spec.adds_alive auth S e _ h)

/-- on the specification: only open connections hold pairs -/
theorem Spec.apply_pairs_alive (auth : Auth) (S : Spec.SpecState) (e : Spec.Ev)
    (h : ∀ p ∈ S.A, p.1 ∈ S.alive) : ∀ p ∈ (Spec.apply auth S e).A, p.1 ∈ (Spec.apply auth S e).alive := by
  cases e with
  | accept n g => intro p hp; exact List.mem_append.2 (Or.inl (h p hp))
  | ban keys => exact h
  | req name r =>
      simp only [Spec.apply, Spec.step]
      by_cases hal : S.alive.contains name = true
      · rw [if_neg (by rw [hal]; simp)]
        cases Spec.effect auth S.banned r with
        | none => exact h
        | add σ =>
            intro p hp
            rcases (Spec.mem_insertPair _ _ _ _).1 hp with hp | rfl
            · exact h p hp
            · simpa using hal
        | remove σ => intro p hp; exact h p ((Spec.mem_removePair _ _ _ _).1 hp).1
        | closeAll =>
            intro p hp
            obtain ⟨h1, h2⟩ := List.mem_filter.1 hp
            exact List.mem_filter.2 ⟨h p h1, h2⟩
      · rw [if_pos (by simpa using hal)]; exact h

theorem Spec.run_pairs_alive (auth : Auth) : ∀ (es : List Spec.Ev) (S : Spec.SpecState),
    (∀ p ∈ S.A, p.1 ∈ S.alive) → ∀ p ∈ (Spec.run auth S es).A, p.1 ∈ (Spec.run auth S es).alive
  | [], _, h => h
  | e :: es, S, h => by
      rw [Spec.run_cons]
      exact Spec.run_pairs_alive auth es _ (Spec.apply_pairs_alive auth S e h)

theorem Spec.close_spec (auth : Auth) (S : Spec.SpecState) (name : String) (h : ∀ p ∈ S.A, p.1 ∈ S.alive) :
    name ∉ (Spec.apply auth S (.req name .close)).alive ∧ ∀ σ, (name, σ) ∉ (Spec.apply auth S (.req name .close)).A := by
  simp only [Spec.apply, Spec.step, Spec.effect]
  by_cases hal : S.alive.contains name = true
  · rw [if_neg (by rw [hal]; simp)]
    constructor
    · intro h; have := (List.mem_filter.1 h).2; simp at this
    · intro σ h; have := (List.mem_filter.1 h).2; simp at this
  · rw [if_pos (by simpa using hal)]
    have hna : name ∉ S.alive := by simpa using hal
    exact ⟨hna, fun σ hin => hna (h _ hin)⟩

/-- **C08 at history level**: once a connection has ended, for the rest of the history it is
not open, `A` holds no pair of it, its record holds no filter and the subscription index has no
entry under its key -/
theorem close_history_clean (auth : Auth) (b₀ : B) (h0 : Pristine b₀) (h₁ h₂ : List Spec.Ev) (name : String)
    (hwf : Spec.wellFormed (h₁ ++ .req name .close :: h₂) = true) (hacc : name ∈ Spec.acceptNames h₁) :
    let b := run auth b₀ (h₁ ++ .req name .close :: h₂)
    let S := Spec.run auth (Spec.init b₀) (h₁ ++ .req name .close :: h₂)
    name ∉ S.alive ∧ (∀ σ, (name, σ) ∉ S.A) ∧
    ∀ x ∈ b.conns, x.name = name → x.alive = false ∧ x.counters = [] ∧ ∀ σ, (σ, x.key) ∉ b.trie.root.abs := by
  intro b S
  obtain ⟨hs, _, hr⟩ := history_refines auth b₀ h0 _ hwf
  have hno : name ∉ Spec.acceptNames h₂ := by
    have hnd : (Spec.acceptNames (h₁ ++ .req name .close :: h₂)).Nodup := by
      simp only [Spec.wellFormed, Bool.and_eq_true, decide_eq_true_eq] at hwf; exact hwf.1
    rw [Spec.acceptNames_append, Spec.acceptNames_cons, List.nodup_append] at hnd
    intro hin
    exact hnd.2.2 name hacc name (List.mem_append.2 (Or.inr hin)) rfl
  have hS : name ∉ (Spec.run auth (Spec.init b₀) (h₁ ++ .req name .close :: h₂)).alive ∧
      ∀ σ, (name, σ) ∉ (Spec.run auth (Spec.init b₀) (h₁ ++ .req name .close :: h₂)).A := by
    rw [Spec.run_append, Spec.run_cons]
    have hinv := Spec.run_pairs_alive auth h₁ (Spec.init b₀) (by intro p hp; cases hp)
    obtain ⟨c1, c2⟩ := Spec.close_spec auth (Spec.run auth (Spec.init b₀) h₁) name hinv
    exact Spec.closed_stays auth name h₂ _ c1 c2 hno
  refine ⟨hS.1, hS.2, ?_⟩
  intro x hx hxn
  have hdead : x.alive = false := by
    cases ha : x.alive with
    | false => rfl
    | true => exact absurd ((hr.self_alive hs hx).2 ha) (by rw [hxn]; exact hS.1)
  refine ⟨hdead, hs.dead x hx hdead, ?_⟩
  intro σ hin
  have := ((hs.self_pairs hx σ).1 hin).1
  rw [hdead] at this; cases this

/-- **C18 at history level**: the connections a presence status request lists (those the
subscription index returns for the channel) are exactly the open connections holding in `A` a
filter that matches it … -/
theorem status_refined {b : B} {S : Spec.SpecState} (hs : Sync b) (hr : Refines b S) (ssid : Path)
    (c : Conn) (hc : c ∈ b.conns) :
    (c.alive && ((b.trie.root.lookup b.mode ssid).eraseDups).contains c.key) = true ↔
      c.name ∈ Spec.receivers b.mode S ssid none := by
  rw [receivers_spec b hs ssid c hc, mem_receivers]
  constructor
  · rintro ⟨ha, f, hf, hm⟩
    exact ⟨(hr.self_alive hs hc).2 ha, ⟨f, (hr.self_pairs hs hc f).2 hf, hm⟩, by simp⟩
  · rintro ⟨ha, ⟨f, hf, hm⟩, _⟩
    exact ⟨(hr.self_alive hs hc).1 ha, f, (hr.self_pairs hs hc f).1 hf, hm⟩

/-- … and a presence notification about `ssid` goes, once each, to exactly the open connections
holding in `A` a presence-change subscription on the channel or on a parent of it -/
theorem notify_refined {b : B} {S : Spec.SpecState} (hs : Sync b) (hr : Refines b S) (event : String)
    (c : Conn) (ssid : Path) (channel : Bytes) :
    (notify b event c ssid channel).Perm
      ((Spec.receivers b.mode S (presenceSsid ssid) none).map
        (fun n => (n, Pkt.json (strBytes "emitter/presence/") (notifyFields event c channel)))) := by
  rw [notify_eq]
  exact deliver_refined hs hr (presenceSsid ssid) _ none (by intro x hx; cases hx)

theorem status_history (auth : Auth) (b₀ : B) (h0 : Pristine b₀) (evs : List Spec.Ev)
    (hwf : Spec.wellFormed evs = true) (ssid : Path) (c : Conn) (hc : c ∈ (run auth b₀ evs).conns) :
    (c.alive && (((run auth b₀ evs).trie.root.lookup b₀.mode ssid).eraseDups).contains c.key) = true ↔
      c.name ∈ Spec.receivers b₀.mode (Spec.run auth (Spec.init b₀) evs) ssid none := by
  obtain ⟨hs, hm, hr⟩ := history_refines auth b₀ h0 evs hwf
  rw [← hm]
  exact status_refined hs hr ssid c hc

theorem notify_history (auth : Auth) (b₀ : B) (h0 : Pristine b₀) (evs : List Spec.Ev)
    (hwf : Spec.wellFormed evs = true) (event : String) (c : Conn) (ssid : Path) (channel : Bytes) :
    (notify (run auth b₀ evs) event c ssid channel).Perm
      ((Spec.receivers b₀.mode (Spec.run auth (Spec.init b₀) evs) (presenceSsid ssid) none).map
        (fun n => (n, Pkt.json (strBytes "emitter/presence/") (notifyFields event c channel)))) := by
  obtain ⟨hs, hm, hr⟩ := history_refines auth b₀ h0 evs hwf
  rw [← hm]
  exact notify_refined hs hr event c ssid channel

end Emitter.Broker
