import Emitter.Lemmas.Security
import Emitter.Lemmas.Lww
namespace Emitter.Security
open Emitter

/-! ### C11: key generation -/

/-- only a valid, unexpired master key of the allowed contract (with matching signature and
master id) can mint keys -/
theorem createKey_requires_master (e : Env) (masterStr channel : Bytes) (access : UInt8) (expires : Int) (salt : UInt16)
    (k : Key) (h : createKey e masterStr channel access expires salt = .ok k) :
    ∃ mk, e.decrypt masterStr = some mk ∧ mk.isMaster = true ∧ mk.isExpired e.now = false ∧ e.contractOk mk = true := by
  sorry

/-- a created key never has the master permission and never a permission that was not
requested; it keeps the parent's contract, signature and master id; it carries the requested
expiry field; its length is 24 -/
theorem createKey_fields (e : Env) (masterStr channel : Bytes) (access : UInt8) (expires : Int) (salt : UInt16)
    (k mk : Key) (hd : e.decrypt masterStr = some mk) (hl : mk.length = 24)
    (h : createKey e masterStr channel access expires salt = .ok k) :
    k.permissions = access &&& (0xFF ^^^ permMaster) ∧
    k.hasPermission permMaster = false ∧
    k.permissions &&& access = k.permissions ∧
    k.contract = mk.contract ∧ k.signature = mk.signature ∧ k.master = mk.master ∧
    k.expireField = (Key.setExpires (List.replicate 24 (0 : UInt8)) expires).expireField ∧
    k.length = 24 := by
  sorry

/-- the target of a created key is `SetTarget(channel)`: same bit path and hash as setting the
target on any other 24-byte key -/
theorem createKey_target (e : Env) (masterStr channel : Bytes) (access : UInt8) (expires : Int) (salt : UInt16)
    (k : Key) (h : createKey e masterStr channel access expires salt = .ok k) :
    ∃ k0, Key.setTarget (List.replicate 24 0) channel = .ok k0 ∧ k.targetPath = k0.targetPath ∧ k.target = k0.target := by
  sorry

/-- extension: the parent must authorize Extend on the (static) channel -/
theorem extendKey_requires_extend (e : Env) (keyStr channelName connId : Bytes) (access : UInt8) (expires : Int)
    (k : Key) (target : Bytes) (h : extendKey e keyStr channelName connId access expires = .ok (k, target)) :
    ∃ parent ch, ch.ctype = chStatic ∧ authorize e ch permExtend = some parent ∧ ch.key = keyStr := by
  sorry

/-- an extended key has only permissions that were requested AND held by the parent, never
extend; same contract, signature, master id; it targets exactly the sub-channel named after
the requesting connection -/
theorem extendKey_subset (e : Env) (keyStr channelName connId : Bytes) (access : UInt8) (expires : Int)
    (k parent : Key) (target : Bytes) (ch : Channel)
    (hp : authorize e ch permExtend = some parent) (hl : parent.length = 24)
    (hch : ch = parseChannel (keyStr ++ [sep] ++ (if hasSuffix channelName [35, 47] then channelName.take (channelName.length - 2) else channelName)))
    (h : extendKey e keyStr channelName connId access expires = .ok (k, target)) :
    k.permissions = (parent.permissions &&& (0xFF ^^^ permExtend)) &&& access ∧
    k.hasPermission permExtend = false ∧
    k.permissions &&& parent.permissions = k.permissions ∧ k.permissions &&& access = k.permissions ∧
    k.contract = parent.contract ∧ k.signature = parent.signature ∧ k.master = parent.master ∧
    target = ch.channel ++ connId ++ [sep] ++ (if hasSuffix channelName [35, 47] then [35, 47] else []) ∧
    (∃ k0, Key.setTarget (List.replicate 24 0) target = .ok k0 ∧ k.targetPath = k0.targetPath ∧ k.target = k0.target) := by
  sorry

/-- `Request.access()`: the permission mask of a type string contains a bit only if its letter
occurs, and never the master bit -/
theorem accessOf_no_master (ty : Bytes) : accessOf ty &&& permMaster = 0 := by
  sorry

/-! ### C14: banning -/

/-- an acknowledged ban puts the key in the ban set, … -/
theorem keyban_ban (e : Env) (secret target : Bytes) (h : (keyban e secret target true).2 = 200) :
    target ∈ (keyban e secret target true).1 := by
  sorry

/-- … an acknowledged unban takes it out, … -/
theorem keyban_unban (e : Env) (secret target : Bytes) (h : (keyban e secret target false).2 = 200) :
    target ∉ (keyban e secret target false).1 := by
  sorry

/-- … other keys are never affected, and a refused request changes nothing -/
theorem keyban_others (e : Env) (secret target other : Bytes) (want : Bool) (hne : other ≠ target) :
    (other ∈ (keyban e secret target want).1 ↔ other ∈ e.banned) := by
  sorry

theorem keyban_refused_noop (e : Env) (secret target : Bytes) (want : Bool) (h : (keyban e secret target want).2 ≠ 200) :
    (keyban e secret target want).1 = e.banned := by
  sorry

/-- only an unexpired master key can ban, and only keys of its own contract -/
theorem keyban_requires_master (e : Env) (secret target : Bytes) (want : Bool) (h : (keyban e secret target want).2 = 200) :
    ∃ sk tk, e.decrypt secret = some sk ∧ sk.isMaster = true ∧ sk.isExpired e.now = false ∧
      e.decrypt target = some tk ∧ tk.contract = sk.contract := by
  sorry

/-- from the moment a ban is acknowledged every operation presenting the key is refused -/
theorem banned_key_refused (e : Env) (secret target : Bytes) (h : (keyban e secret target true).2 = 200)
    (ch : Channel) (hk : ch.key = target) (perm : UInt8) :
    authorize { e with banned := (keyban e secret target true).1 } ch perm = none := by
  sorry

/-- from the moment an unban is acknowledged the key is decided by the key alone -/
theorem unbanned_key_decided_by_key (e : Env) (secret target : Bytes) (h : (keyban e secret target false).2 = 200)
    (ch : Channel) (hk : ch.key = target) (perm : UInt8) :
    authorize { e with banned := (keyban e secret target false).1 } ch perm = authorize { e with banned := [] } ch perm := by
  sorry

/-- any sequence of acknowledged toggles: the key is banned afterwards iff the last toggle was a ban -/
theorem toggles_last_wins (e : Env) (secret target : Bytes) (ts : List Bool) (last : Bool)
    (hok : ∀ b (e' : Env), e'.cipher = e.cipher → e'.now = e.now → (keyban e' secret target b).2 = 200) :
    let final := (ts ++ [last]).foldl (fun bn w => (keyban { e with banned := bn } secret target w).1) e.banned
    (target ∈ final ↔ last = true) := by
  sorry

end Emitter.Security

namespace Emitter.Lww
open Emitter

/-- a restart keeps the store, drops the cache: coherent, and `Has` answers from the store -/
theorem coherent_restart (d : Durable) : d.restart.coherent := by
  sorry

theorem restart_has (d : Durable) (k : Bytes) : (d.restart.has k).1 = (get d.db k).isAdded := by
  sorry

/-- a ban merged into another broker takes effect whether or not that broker had looked the
key up before (any cache content, as long as it is coherent) -/
theorem merged_ban_effective (d : Durable) (hc : d.coherent) (hn : NonNeg d.db) (k : Bytes) (t : Int) (p : Bytes)
    (ht : 0 < t) (hnew : (get d.db k).del ≤ t) :
    ((d.merge [(k, ⟨t, 0, p⟩)]).1.has k).1 = true := by
  sorry

end Emitter.Lww
