import Emitter.Lemmas.Security
import Emitter.Lemmas.Lww
namespace Emitter.Security
open Emitter

/-! ### bit facts on permission bytes -/

theorem u8_or_and (a b c : UInt8) : (a ||| b) &&& c = (a &&& c) ||| (b &&& c) := by
  rw [← UInt8.toBitVec_inj]
  simp only [UInt8.toBitVec_and, UInt8.toBitVec_or]
  exact BitVec.and_or_distrib_right

theorem u8_and_mask_self (a m : UInt8) : (a &&& m) &&& a = a &&& m := by
  rw [UInt8.and_comm, ← UInt8.and_assoc, UInt8.and_self]

theorem u8_and_and_self (a m : UInt8) : (a &&& m) &&& m = a &&& m := by
  rw [UInt8.and_assoc, UInt8.and_self]

theorem u8_sub_parent (p m a : UInt8) : ((p &&& m) &&& a) &&& p = (p &&& m) &&& a := by
  rw [UInt8.and_comm, ← UInt8.and_assoc, ← UInt8.and_assoc, UInt8.and_self]

theorem u8_clear_master (a : UInt8) : (a &&& (0xFF ^^^ permMaster)) &&& permMaster = 0 := by
  rw [UInt8.and_assoc]
  have : ((0xFF ^^^ permMaster) &&& permMaster) = 0 := by decide
  rw [this, UInt8.and_zero]

theorem u8_clear_extend (p a : UInt8) : ((p &&& (0xFF ^^^ permExtend)) &&& a) &&& permExtend = 0 := by
  rw [UInt8.and_assoc, UInt8.and_comm a, ← UInt8.and_assoc, UInt8.and_assoc p]
  have : ((0xFF ^^^ permExtend) &&& permExtend) = 0 := by decide
  rw [this, UInt8.and_zero, UInt8.zero_and]

/-! ### 24-byte keys: what the setters touch -/

theorem setAt_b (k : Key) (i : Nat) (v : Bytes) (j : Nat) (h : i + v.length ≤ k.length) :
    (k.setAt i v).b j = if i ≤ j ∧ j < i + v.length then v.getD (j - i) 0 else k.b j := by
  split
  next hc => exact setAt_b_in k i v j (by omega) hc.1 hc.2
  next hc => exact setAt_b_out k i v j h (by omega)

theorem setAt_b24 (k : Key) (i : Nat) (v : Bytes) (j n : Nat) (hk : k.length = 24) (hv : v.length = n)
    (h : i + n ≤ 24) :
    (k.setAt i v).b j = if i ≤ j ∧ j < i + n then v.getD (j - i) 0 else k.b j := by
  subst hv; exact setAt_b k i v j (by omega)

theorem len24_setAt (k : Key) (i : Nat) (v : Bytes) (hk : k.length = 24) (h : i + v.length ≤ 24) :
    (k.setAt i v).length = 24 := by
  rw [setAt_length k i v (by omega), hk]

theorem len24_setPermissions (k : Key) (p : UInt8) (hk : k.length = 24) : (k.setPermissions p).length = 24 :=
  len24_setAt k 15 [p] hk (by simp)

theorem len24_setExpires (k : Key) (t : Int) (hk : k.length = 24) : (k.setExpires t).length = 24 :=
  len24_setAt k 20 _ hk (by simp [putBe32])

theorem setPermissions_b (k : Key) (p : UInt8) (j : Nat) (hk : k.length = 24) :
    (k.setPermissions p).b j = if j = 15 then p else k.b j := by
  unfold Key.setPermissions
  rw [setAt_b k 15 [p] j (by simp [hk])]
  by_cases h : j = 15
  · subst h; simp
  · have : ¬ (15 ≤ j ∧ j < 15 + ([p] : Bytes).length) := by simp; omega
    rw [if_neg this, if_neg h]

theorem setPermissions_permissions (k : Key) (p : UInt8) (hk : k.length = 24) :
    (k.setPermissions p).permissions = p := by
  unfold Key.permissions; rw [setPermissions_b k p 15 hk, if_pos rfl]

theorem setExpires_b_out (k : Key) (t : Int) (j : Nat) (hk : k.length = 24) (hj : j < 20) :
    (k.setExpires t).b j = k.b j := by
  unfold Key.setExpires
  exact setAt_b_out k 20 _ j (by simp [putBe32, hk]) (Or.inl hj)

theorem setExpires_expireField (k1 k2 : Key) (t : Int) (h1 : k1.length = 24) (h2 : k2.length = 24) :
    (k1.setExpires t).expireField = (k2.setExpires t).expireField := by
  unfold Key.expireField Key.setExpires
  simp only []
  rw [setAt_b_in k1 20 _ 20 (by omega) (by omega) (by simp [putBe32]),
    setAt_b_in k1 20 _ 21 (by omega) (by omega) (by simp [putBe32]),
    setAt_b_in k1 20 _ 22 (by omega) (by omega) (by simp [putBe32]),
    setAt_b_in k1 20 _ 23 (by omega) (by omega) (by simp [putBe32]),
    setAt_b_in k2 20 _ 20 (by omega) (by omega) (by simp [putBe32]),
    setAt_b_in k2 20 _ 21 (by omega) (by omega) (by simp [putBe32]),
    setAt_b_in k2 20 _ 22 (by omega) (by omega) (by simp [putBe32]),
    setAt_b_in k2 20 _ 23 (by omega) (by omega) (by simp [putBe32])]

/-- the level list `SetTarget` works on (trailing "#" removed) -/
def tgtParts (ch : Bytes) : List Bytes :=
  if (splitSlash (trimRightSlash ch)).getLast? == some hashSym then (splitSlash (trimRightSlash ch)).dropLast
  else splitSlash (trimRightSlash ch)

def tgtPath (ch : Bytes) : Nat :=
  (if (splitSlash (trimRightSlash ch)).getLast? == some hashSym then 0 else 2 ^ 23) + bitPathOf (tgtParts ch) 0

theorem setTarget_def (k : Key) (ch : Bytes) :
    k.setTarget ch =
      if ch.getLast? != some sep then .err "target-invalid" else
      if (tgtParts ch).length > 23 then .err "target-too-long" else
      .ok ((k.setAt 12 [UInt8.ofNat (tgtPath ch / 65536), UInt8.ofNat (tgtPath ch / 256), UInt8.ofNat (tgtPath ch)]).setAt 16
        (putBe32 (Hash.hashOf (joinSlash (tgtParts ch))))) := rfl

/-- `SetTarget` on a key either fails (for reasons that depend on the channel alone) or
rewrites bytes 12..14 and 16..19 with values that depend on the channel alone. -/
theorem setTarget_shape (k : Key) (ch : Bytes) (k' : Key) (h : k.setTarget ch = .ok k') :
    ∃ v3 v4 : Bytes, v3.length = 3 ∧ v4.length = 4 ∧ k' = (k.setAt 12 v3).setAt 16 v4 ∧
      ∀ k2 : Key, k2.setTarget ch = .ok ((k2.setAt 12 v3).setAt 16 v4) := by
  rw [setTarget_def] at h
  by_cases hc1 : (ch.getLast? != some sep) = true
  · rw [if_pos hc1] at h; cases h
  · rw [if_neg hc1] at h
    by_cases hc2 : (tgtParts ch).length > 23
    · rw [if_pos hc2] at h; cases h
    · rw [if_neg hc2] at h
      cases h
      refine ⟨_, _, rfl, rfl, rfl, ?_⟩
      intro k2
      rw [setTarget_def, if_neg hc1, if_neg hc2]

theorem setAt2_b (k : Key) (hk : k.length = 24) (v3 v4 : Bytes) (h3 : v3.length = 3) (h4 : v4.length = 4) (j : Nat) :
    ((k.setAt 12 v3).setAt 16 v4).b j =
      if 12 ≤ j ∧ j < 15 then v3.getD (j - 12) 0 else if 16 ≤ j ∧ j < 20 then v4.getD (j - 16) 0 else k.b j := by
  have hl := len24_setAt k 12 v3 hk (by omega)
  rw [setAt_b _ 16 v4 j (by omega), setAt_b k 12 v3 j (by omega), h3, h4]
  by_cases c1 : 16 ≤ j ∧ j < 16 + 4
  · rw [if_pos c1, if_neg (by omega), if_pos (by omega)]
  · rw [if_neg c1]
    by_cases c2 : 12 ≤ j ∧ j < 12 + 3
    · rw [if_pos c2, if_pos (by omega)]
    · rw [if_neg c2, if_neg (by omega), if_neg (by omega)]

/-- what `SetTarget` does to two 24-byte keys: same target fields, everything else untouched -/
theorem setTarget_rel (k1 k2 : Key) (h1 : k1.length = 24) (h2 : k2.length = 24) (ch : Bytes) (k1' : Key)
    (h : k1.setTarget ch = .ok k1') :
    k1'.length = 24 ∧ (∀ i, i < 12 ∨ i = 15 ∨ 20 ≤ i → k1'.b i = k1.b i) ∧
    ∃ k2', k2.setTarget ch = .ok k2' ∧ k1'.targetPath = k2'.targetPath ∧ k1'.target = k2'.target := by
  obtain ⟨v3, v4, h3, h4, rfl, hall⟩ := setTarget_shape k1 ch k1' h
  refine ⟨?_, ?_, _, hall k2, ?_, ?_⟩
  · exact len24_setAt _ 16 v4 (len24_setAt k1 12 v3 h1 (by omega)) (by omega)
  · intro i hi
    rw [setAt2_b k1 h1 v3 v4 h3 h4, if_neg (by omega), if_neg (by omega)]
  · unfold Key.targetPath
    simp [setAt2_b, h1, h2, h3, h4]
  · unfold Key.target
    simp [setAt2_b, h1, h2, h3, h4]

/-! ### C11: key generation -/

/-- the stages of the key `CreateKey` builds before `SetTarget` -/
def pk4 (mk : Key) (salt : UInt16) : Key :=
  Key.setAt (Key.setAt (Key.setAt (Key.setAt (List.replicate 24 0) 0 (putBe16 salt)) 2 (putBe16 mk.master)) 4
    (putBe32 mk.contract)) 8 (putBe32 mk.signature)

def pk6 (mk : Key) (access : UInt8) (expires : Int) (salt : UInt16) : Key :=
  Key.setExpires (Key.setPermissions (pk4 mk salt) access) expires

/-- the key `CreateKey` hands to `SetTarget` -/
def preKey (mk : Key) (access : UInt8) (expires : Int) (salt : UInt16) : Key :=
  Key.setPermissions (pk6 mk access expires salt) ((pk6 mk access expires salt).permissions &&& (0xFF ^^^ permMaster))

theorem createKey_ok (e : Env) (masterStr channel : Bytes) (access : UInt8) (expires : Int) (salt : UInt16)
    (k : Key) (h : createKey e masterStr channel access expires salt = .ok k) :
    ∃ mk, e.decrypt masterStr = some mk ∧ mk.isMaster = true ∧ mk.isExpired e.now = false ∧ e.contractOk mk = true ∧
      (preKey mk access expires salt).setTarget channel = .ok k := by
  unfold createKey at h
  cases hd : e.decrypt masterStr with
  | none => rw [hd] at h; cases h
  | some mk =>
    rw [hd] at h
    dsimp only at h
    by_cases h1 : (!mk.isMaster || mk.isExpired e.now) = true
    · rw [if_pos h1] at h; cases h
    · rw [if_neg h1] at h
      by_cases h2 : (mk.contract != e.contractId) = true
      · rw [if_pos h2] at h; cases h
      · rw [if_neg h2] at h
        by_cases h3 : (!e.contractOk mk) = true
        · rw [if_pos h3] at h; cases h
        · rw [if_neg h3] at h
          refine ⟨mk, rfl, ?_, ?_, ?_, h⟩
          · cases hm : mk.isMaster <;> simp_all
          · cases hm : mk.isExpired e.now <;> simp_all
          · simpa using h3

theorem pk4_facts (mk : Key) (salt : UInt16) :
    (pk4 mk salt).length = 24 ∧ (pk4 mk salt).contract = mk.contract ∧
    (pk4 mk salt).signature = mk.signature ∧ (pk4 mk salt).master = mk.master := by
  have l0 : (List.replicate 24 (0 : UInt8)).length = 24 := by simp
  have l1 := len24_setAt _ 0 (putBe16 salt) l0 (by simp [putBe16])
  have l2 := len24_setAt _ 2 (putBe16 mk.master) l1 (by simp [putBe16])
  have l3 := len24_setAt _ 4 (putBe32 mk.contract) l2 (by simp [putBe32])
  have l4 := len24_setAt _ 8 (putBe32 mk.signature) l3 (by simp [putBe32])
  refine ⟨l4, ?_, ?_, ?_⟩
  · unfold Key.contract pk4
    rw [setAt_b24 _ 8 _ 4 4 l3 rfl (by omega), setAt_b24 _ 8 _ 5 4 l3 rfl (by omega),
      setAt_b24 _ 8 _ 6 4 l3 rfl (by omega), setAt_b24 _ 8 _ 7 4 l3 rfl (by omega),
      setAt_b24 _ 4 _ 4 4 l2 rfl (by omega), setAt_b24 _ 4 _ 5 4 l2 rfl (by omega),
      setAt_b24 _ 4 _ 6 4 l2 rfl (by omega), setAt_b24 _ 4 _ 7 4 l2 rfl (by omega)]
    simp only [putBe32]
    exact be32_putBe32 _
  · unfold Key.signature pk4
    rw [setAt_b24 _ 8 _ 8 4 l3 rfl (by omega), setAt_b24 _ 8 _ 9 4 l3 rfl (by omega),
      setAt_b24 _ 8 _ 10 4 l3 rfl (by omega), setAt_b24 _ 8 _ 11 4 l3 rfl (by omega)]
    simp only [putBe32]
    exact be32_putBe32 _
  · unfold Key.master pk4
    rw [setAt_b24 _ 8 _ 2 4 l3 rfl (by omega), setAt_b24 _ 8 _ 3 4 l3 rfl (by omega),
      setAt_b24 _ 4 _ 2 4 l2 rfl (by omega), setAt_b24 _ 4 _ 3 4 l2 rfl (by omega),
      setAt_b24 _ 2 _ 2 2 l1 rfl (by omega), setAt_b24 _ 2 _ 3 2 l1 rfl (by omega)]
    simp only [putBe16]
    exact be16_putBe16 _

theorem preKey_facts (mk : Key) (access : UInt8) (expires : Int) (salt : UInt16) :
    (preKey mk access expires salt).length = 24 ∧
    (preKey mk access expires salt).permissions = access &&& (0xFF ^^^ permMaster) ∧
    (preKey mk access expires salt).contract = mk.contract ∧
    (preKey mk access expires salt).signature = mk.signature ∧
    (preKey mk access expires salt).master = mk.master ∧
    (preKey mk access expires salt).expireField = (Key.setExpires (List.replicate 24 (0 : UInt8)) expires).expireField := by
  obtain ⟨l4, hc, hs, hm⟩ := pk4_facts mk salt
  have l5 := len24_setPermissions _ access l4
  have l6 : (pk6 mk access expires salt).length = 24 := len24_setExpires _ expires l5
  have l7 : (preKey mk access expires salt).length = 24 := len24_setPermissions _ _ l6
  have hb : ∀ j, j < 12 → (preKey mk access expires salt).b j = (pk4 mk salt).b j := by
    intro j hj
    unfold preKey
    rw [setPermissions_b _ _ j l6, if_neg (by omega)]
    unfold pk6
    rw [setExpires_b_out _ _ j l5 (by omega), setPermissions_b _ _ j l4, if_neg (by omega)]
  refine ⟨l7, ?_, ?_, ?_, ?_, ?_⟩
  · unfold preKey
    rw [setPermissions_permissions _ _ l6]
    have hp : (pk6 mk access expires salt).permissions = access := by
      unfold Key.permissions pk6
      rw [setExpires_b_out _ _ 15 l5 (by omega), setPermissions_b _ _ 15 l4, if_pos rfl]
    rw [hp]
  · rw [← hc]; unfold Key.contract
    rw [hb 4 (by omega), hb 5 (by omega), hb 6 (by omega), hb 7 (by omega)]
  · rw [← hs]; unfold Key.signature
    rw [hb 8 (by omega), hb 9 (by omega), hb 10 (by omega), hb 11 (by omega)]
  · rw [← hm]; unfold Key.master
    rw [hb 2 (by omega), hb 3 (by omega)]
  · have : (preKey mk access expires salt).expireField = (pk6 mk access expires salt).expireField := by
      unfold Key.expireField preKey
      rw [setPermissions_b _ _ 20 l6, setPermissions_b _ _ 21 l6, setPermissions_b _ _ 22 l6,
        setPermissions_b _ _ 23 l6]
      simp
    rw [this]
    unfold pk6
    exact setExpires_expireField _ _ expires l5 (by simp)

theorem fields_of_b (k k' : Key) (h : ∀ i, i < 12 ∨ i = 15 ∨ 20 ≤ i → k'.b i = k.b i) :
    k'.permissions = k.permissions ∧ k'.contract = k.contract ∧ k'.signature = k.signature ∧
    k'.master = k.master ∧ k'.expireField = k.expireField := by
  unfold Key.permissions Key.contract Key.signature Key.master Key.expireField
  rw [h 15 (by omega), h 4 (by omega), h 5 (by omega), h 6 (by omega), h 7 (by omega), h 8 (by omega),
    h 9 (by omega), h 10 (by omega), h 11 (by omega), h 2 (by omega), h 3 (by omega), h 20 (by omega),
    h 21 (by omega), h 22 (by omega), h 23 (by omega)]
  exact ⟨rfl, rfl, rfl, rfl, rfl⟩

theorem hasPermission_false (k : Key) (flag : UInt8) (h0 : k.permissions &&& flag = 0) (hf : flag ≠ 0) :
    k.hasPermission flag = false := by
  unfold Key.hasPermission
  rw [h0, beq_eq_false_iff_ne]
  exact fun h => hf h.symm

/-- only a valid, unexpired master key of the allowed contract (with matching signature and
master id) can mint keys -/
theorem createKey_requires_master (e : Env) (masterStr channel : Bytes) (access : UInt8) (expires : Int) (salt : UInt16)
    (k : Key) (h : createKey e masterStr channel access expires salt = .ok k) :
    ∃ mk, e.decrypt masterStr = some mk ∧ mk.isMaster = true ∧ mk.isExpired e.now = false ∧ e.contractOk mk = true := by
  obtain ⟨mk, h1, h2, h3, h4, _⟩ := createKey_ok e masterStr channel access expires salt k h
  exact ⟨mk, h1, h2, h3, h4⟩

/-- a created key never has the master permission and never a permission that was not
requested; it keeps the parent's contract, signature and master id; it carries the requested
expiry field; its length is 24 -/
theorem createKey_fields (e : Env) (masterStr channel : Bytes) (access : UInt8) (expires : Int) (salt : UInt16)
    (k mk : Key) (hd : e.decrypt masterStr = some mk) (hl : mk.length = 24)
    (h : createKey e masterStr channel access expires salt = .ok k) :
    k.permissions = access &&& (0xFF ^^^ permMaster) ∧
    k.hasPermission permMaster = false ∧
    k.permissions &&& access = k.permissions ∧
    k.contract = mk.contract ∧ k.signature = mk.signature ∧ k.master = mk.master ∧
    k.expireField = (Key.setExpires (List.replicate 24 (0 : UInt8)) expires).expireField ∧
    k.length = 24 := by
  have _ := hl
  obtain ⟨mk', h1, _, _, _, ht⟩ := createKey_ok e masterStr channel access expires salt k h
  rw [hd] at h1; cases h1
  obtain ⟨pl, pp, pc, ps, pm, pe⟩ := preKey_facts mk access expires salt
  obtain ⟨kl, kb, _⟩ := setTarget_rel _ (List.replicate 24 0) pl (by simp) channel k ht
  obtain ⟨fp, fc, fs, fm, fe⟩ := fields_of_b _ k kb
  have hperm : k.permissions = access &&& (0xFF ^^^ permMaster) := by rw [fp, pp]
  refine ⟨hperm, ?_, ?_, by rw [fc, pc], by rw [fs, ps], by rw [fm, pm], by rw [fe, pe], kl⟩
  · exact hasPermission_false k permMaster (by rw [hperm]; exact u8_clear_master access) (by decide)
  · rw [hperm]; exact u8_and_mask_self _ _

/-- the target of a created key is `SetTarget(channel)`: same bit path and hash as setting the
target on any other 24-byte key -/
theorem createKey_target (e : Env) (masterStr channel : Bytes) (access : UInt8) (expires : Int) (salt : UInt16)
    (k : Key) (h : createKey e masterStr channel access expires salt = .ok k) :
    ∃ k0, Key.setTarget (List.replicate 24 0) channel = .ok k0 ∧ k.targetPath = k0.targetPath ∧ k.target = k0.target := by
  obtain ⟨mk, _, _, _, _, ht⟩ := createKey_ok e masterStr channel access expires salt k h
  exact (setTarget_rel _ (List.replicate 24 0) (preKey_facts mk access expires salt).1 (by simp) channel k ht).2.2

theorem takeWhile_append_sep (a b : Bytes) :
    (a ++ sep :: b).takeWhile (· != sep) = a.takeWhile (· != sep) := by
  induction a with
  | nil => simp
  | cons c a ih =>
    simp only [List.cons_append, List.takeWhile_cons]
    split
    · rw [ih]
    · rfl

theorem takeWhile_no_sep (a : Bytes) (h : sep ∉ a) : a.takeWhile (· != sep) = a := by
  induction a with
  | nil => rfl
  | cons c a ih =>
    have hc : (c != sep) = true := by
      simp only [bne_iff_ne, ne_eq]; intro hh; exact h (by simp [hh])
    simp only [List.takeWhile_cons, hc, if_true]
    rw [ih (fun hh => h (List.mem_cons_of_mem _ hh))]

theorem parseKey_fst (text k rest : Bytes) (h : parseKey text = some (k, rest)) :
    k = text.takeWhile (· != sep) := by
  unfold parseKey at h
  simp only [] at h
  split at h
  · simp only [Option.some.injEq, Prod.mk.injEq] at h; exact h.1.symm
  · cases h

/-- a channel that parses (type not invalid) carries as its key the text before the first '/' -/
theorem parseChannel_key (text : Bytes) (h : (parseChannel text).ctype ≠ chInvalid) :
    (parseChannel text).key = text.takeWhile (· != sep) := by
  unfold parseChannel at h ⊢
  cases hk : parseKey text with
  | none => rw [hk] at h; exact absurd rfl h
  | some kr =>
    obtain ⟨k, rest⟩ := kr
    have := parseKey_fst text k rest hk
    subst this
    simp only []
    cases parseChanLoop rest {} with
    | none => rfl
    | some r =>
      obtain ⟨q, clen, ty, used⟩ := r
      simp only []
      split
      · rfl
      · cases parseOptions ((rest.drop used).length + 1) (rest.drop used) <;> rfl

/-- the key `ExtendKey` hands to `SetTarget` -/
def extPre (parent : Key) (access : UInt8) (expires : Int) : Key :=
  Key.setExpires
    (Key.setPermissions (Key.setPermissions parent (parent.permissions &&& (0xFF ^^^ permExtend)))
      ((Key.setPermissions parent (parent.permissions &&& (0xFF ^^^ permExtend))).permissions &&& access)) expires

theorem extendKey_ok (e : Env) (keyStr channelName connId : Bytes) (access : UInt8) (expires : Int)
    (k : Key) (target : Bytes) (h : extendKey e keyStr channelName connId access expires = .ok (k, target)) :
    (parseChannel (keyStr ++ [sep] ++ (if hasSuffix channelName [35, 47] then channelName.take (channelName.length - 2) else channelName))).ctype = chStatic ∧
    ∃ parent, authorize e (parseChannel (keyStr ++ [sep] ++ (if hasSuffix channelName [35, 47] then channelName.take (channelName.length - 2) else channelName))) permExtend = some parent ∧
      target = (parseChannel (keyStr ++ [sep] ++ (if hasSuffix channelName [35, 47] then channelName.take (channelName.length - 2) else channelName))).channel ++ connId ++ [sep] ++ (if hasSuffix channelName [35, 47] then [35, 47] else []) ∧
      (extPre parent access expires).setTarget target = .ok k := by
  unfold extendKey at h
  simp only [] at h
  generalize parseChannel (keyStr ++ [sep] ++ (if hasSuffix channelName [35, 47] then channelName.take (channelName.length - 2) else channelName)) = ch at h ⊢
  by_cases h1 : (ch.ctype != chStatic) = true
  · rw [if_pos h1] at h; cases h
  · rw [if_neg h1] at h
    refine ⟨by simpa using h1, ?_⟩
    cases ha : authorize e ch permExtend with
    | none => rw [ha] at h; cases h
    | some parent =>
      rw [ha] at h
      simp only [] at h
      refine ⟨parent, rfl, ?_⟩
      generalize hT : ch.channel ++ connId ++ [sep] ++ (if hasSuffix channelName [35, 47] then [35, 47] else []) = T at h ⊢
      change (match (extPre parent access expires).setTarget T with
        | .ok k' => Outcome.ok (k', T)
        | .err x => .err x
        | .panic w => .panic w) = _ at h
      cases hs : (extPre parent access expires).setTarget T with
      | ok k' => rw [hs] at h; simp only [Outcome.ok.injEq, Prod.mk.injEq] at h; exact ⟨h.2.symm, by rw [← h.2, hs, h.1]⟩
      | err x => rw [hs] at h; cases h
      | panic w => rw [hs] at h; cases h

theorem extPre_facts (parent : Key) (access : UInt8) (expires : Int) (hl : parent.length = 24) :
    (extPre parent access expires).length = 24 ∧
    (extPre parent access expires).permissions = (parent.permissions &&& (0xFF ^^^ permExtend)) &&& access ∧
    ∀ j, j < 15 → (extPre parent access expires).b j = parent.b j := by
  have l1 := len24_setPermissions parent (parent.permissions &&& (0xFF ^^^ permExtend)) hl
  have l2 := len24_setPermissions _ ((Key.setPermissions parent (parent.permissions &&& (0xFF ^^^ permExtend))).permissions &&& access) l1
  have l3 : (extPre parent access expires).length = 24 := len24_setExpires _ expires l2
  refine ⟨l3, ?_, ?_⟩
  · have hp1 := setPermissions_permissions parent (parent.permissions &&& (0xFF ^^^ permExtend)) hl
    have hp2 := setPermissions_permissions _
      ((Key.setPermissions parent (parent.permissions &&& (0xFF ^^^ permExtend))).permissions &&& access) l1
    have hp3 : (extPre parent access expires).permissions =
        (Key.setPermissions (Key.setPermissions parent (parent.permissions &&& (0xFF ^^^ permExtend)))
          ((Key.setPermissions parent (parent.permissions &&& (0xFF ^^^ permExtend))).permissions &&& access)).permissions := by
      unfold extPre; exact setExpires_b_out _ _ 15 l2 (by omega)
    rw [hp3, hp2, hp1]
  · intro j hj
    unfold extPre
    rw [setExpires_b_out _ _ j l2 (by omega), setPermissions_b _ _ j l1, if_neg (by omega),
      setPermissions_b _ _ j hl, if_neg (by omega)]

/-- extension: the parent must authorize Extend on the (static) channel; the channel that is
authorized carries as its key the part of `keyStr` before its first '/' (unconditional form) -/
theorem extendKey_requires_extend_gen (e : Env) (keyStr channelName connId : Bytes) (access : UInt8) (expires : Int)
    (k : Key) (target : Bytes) (h : extendKey e keyStr channelName connId access expires = .ok (k, target)) :
    ∃ parent ch, ch.ctype = chStatic ∧ authorize e ch permExtend = some parent ∧
      ch.key = keyStr.takeWhile (· != sep) := by
  obtain ⟨hs, parent, ha, _, _⟩ := extendKey_ok e keyStr channelName connId access expires k target h
  refine ⟨parent, _, hs, ha, ?_⟩
  rw [parseChannel_key _ (by rw [hs]; decide), List.append_assoc]
  exact takeWhile_append_sep _ _

/-- extension: the parent must authorize Extend on the (static) channel.

AMENDED: hypothesis `hs : sep ∉ keyStr` added. `ExtendKey` parses `keyStr ++ "/" ++ channel`, so a
key string that itself contains '/' is cut at its first '/': the channel that gets authorized
carries that prefix as its key, not `keyStr`, and `keyStr` itself (longer than 32 bytes) does not
decrypt. Counterexample to the statement without `hs`: `keyStr = K ++ "/a"` with `K` a valid
32-character extend key for "#/", `channelName = "b/"`: `extendKey` succeeds (target "a/b/<conn>/")
but no channel with key `keyStr` can be authorized. `extendKey_requires_extend_gen` is the form
without the hypothesis. -/
theorem extendKey_requires_extend (e : Env) (keyStr channelName connId : Bytes) (access : UInt8) (expires : Int)
    (k : Key) (target : Bytes) (hs : sep ∉ keyStr)
    (h : extendKey e keyStr channelName connId access expires = .ok (k, target)) :
    ∃ parent ch, ch.ctype = chStatic ∧ authorize e ch permExtend = some parent ∧ ch.key = keyStr := by
  obtain ⟨parent, ch, h1, h2, h3⟩ := extendKey_requires_extend_gen e keyStr channelName connId access expires k target h
  exact ⟨parent, ch, h1, h2, by rw [h3, takeWhile_no_sep _ hs]⟩

/-- an extended key has only permissions that were requested AND held by the parent, never
extend; same contract, signature, master id; it targets exactly the sub-channel named after
the requesting connection -/
theorem extendKey_subset (e : Env) (keyStr channelName connId : Bytes) (access : UInt8) (expires : Int)
    (k parent : Key) (target : Bytes) (ch : Channel)
    (hp : authorize e ch permExtend = some parent) (hl : parent.length = 24)
    (hch : ch = parseChannel (keyStr ++ [sep] ++ (if hasSuffix channelName [35, 47] then channelName.take (channelName.length - 2) else channelName)))
    (h : extendKey e keyStr channelName connId access expires = .ok (k, target)) :
    k.permissions = (parent.permissions &&& (0xFF ^^^ permExtend)) &&& access ∧
    k.hasPermission permExtend = false ∧
    k.permissions &&& parent.permissions = k.permissions ∧ k.permissions &&& access = k.permissions ∧
    k.contract = parent.contract ∧ k.signature = parent.signature ∧ k.master = parent.master ∧
    target = ch.channel ++ connId ++ [sep] ++ (if hasSuffix channelName [35, 47] then [35, 47] else []) ∧
    (∃ k0, Key.setTarget (List.replicate 24 0) target = .ok k0 ∧ k.targetPath = k0.targetPath ∧ k.target = k0.target) := by
  obtain ⟨_, parent', ha, htgt, hst⟩ := extendKey_ok e keyStr channelName connId access expires k target h
  rw [← hch] at ha htgt
  rw [hp] at ha; cases ha
  obtain ⟨xl, xp, xb⟩ := extPre_facts parent access expires hl
  obtain ⟨_, kb, hk0⟩ := setTarget_rel _ (List.replicate 24 0) xl (by simp) target k hst
  have hb : ∀ j, j < 12 → k.b j = parent.b j := fun j hj => by rw [kb j (by omega), xb j (by omega)]
  have hperm : k.permissions = (parent.permissions &&& (0xFF ^^^ permExtend)) &&& access := by
    rw [← xp]; exact kb 15 (by omega)
  refine ⟨hperm, ?_, ?_, ?_, ?_, ?_, ?_, htgt, hk0⟩
  · exact hasPermission_false k permExtend (by rw [hperm]; exact u8_clear_extend _ _) (by decide)
  · rw [hperm]; exact u8_sub_parent _ _ _
  · rw [hperm, u8_and_and_self]
  · unfold Key.contract; rw [hb 4 (by omega), hb 5 (by omega), hb 6 (by omega), hb 7 (by omega)]
  · unfold Key.signature; rw [hb 8 (by omega), hb 9 (by omega), hb 10 (by omega), hb 11 (by omega)]
  · unfold Key.master; rw [hb 2 (by omega), hb 3 (by omega)]

theorem accessOf_aux (ty : Bytes) (acc : UInt8) (h : acc &&& permMaster = 0) :
    (ty.foldl (fun acc c =>
    if c == 114 then acc ||| permRead else if c == 119 then acc ||| permWrite
    else if c == 115 then acc ||| permStore else if c == 108 then acc ||| permLoad
    else if c == 112 then acc ||| permPresence else if c == 101 then acc ||| permExtend
    else if c == 120 then acc ||| permExecute else acc) acc) &&& permMaster = 0 := by
  induction ty generalizing acc with
  | nil => exact h
  | cons c cs ih =>
    rw [List.foldl_cons]
    apply ih
    have step : ∀ f : UInt8, f &&& permMaster = 0 → (acc ||| f) &&& permMaster = 0 := by
      intro f hf; rw [u8_or_and, h, hf]; rfl
    split
    · exact step _ (by decide)
    split
    · exact step _ (by decide)
    split
    · exact step _ (by decide)
    split
    · exact step _ (by decide)
    split
    · exact step _ (by decide)
    split
    · exact step _ (by decide)
    split
    · exact step _ (by decide)
    exact h

/-- `Request.access()`: the permission mask of a type string contains a bit only if its letter
occurs, and never the master bit -/
theorem accessOf_no_master (ty : Bytes) : accessOf ty &&& permMaster = 0 :=
  accessOf_aux ty 0 (by decide)

/-! ### C14: banning -/

theorem keyban_cases (e : Env) (secret target : Bytes) (want : Bool) :
    ((keyban e secret target want).2 = 401 ∧ (keyban e secret target want).1 = e.banned) ∨
    (∃ sk tk, e.decrypt secret = some sk ∧ sk.isMaster = true ∧ sk.isExpired e.now = false ∧
      e.decrypt target = some tk ∧ tk.contract = sk.contract ∧
      keyban e secret target want =
        (if want && !e.banned.contains target then (target :: e.banned, 200)
          else if !want && e.banned.contains target then (e.banned.filter (· != target), 200)
          else (e.banned, 200))) := by
  unfold keyban
  cases hs : e.decrypt secret with
  | none => left; exact ⟨rfl, rfl⟩
  | some sk =>
    dsimp only
    by_cases h1 : (sk.isExpired e.now || !sk.isMaster) = true
    · left; rw [if_pos h1]; exact ⟨rfl, rfl⟩
    · rw [if_neg h1]
      cases ht : e.decrypt target with
      | none => left; exact ⟨rfl, rfl⟩
      | some tk =>
        dsimp only
        by_cases h2 : (tk.contract != sk.contract) = true
        · left; rw [if_pos h2]; exact ⟨rfl, rfl⟩
        · rw [if_neg h2]
          right
          refine ⟨sk, tk, rfl, ?_, ?_, rfl, ?_, rfl⟩
          · cases h : sk.isMaster <;> simp_all
          · cases h : sk.isExpired e.now <;> simp_all
          · simpa using h2

/-- an acknowledged ban puts the key in the ban set, … -/
theorem keyban_ban (e : Env) (secret target : Bytes) (h : (keyban e secret target true).2 = 200) :
    target ∈ (keyban e secret target true).1 := by
  rcases keyban_cases e secret target true with ⟨h401, _⟩ | ⟨sk, tk, _, _, _, _, _, hk⟩
  · rw [h401] at h; exact absurd h (by decide)
  · rw [hk]
    cases hc : e.banned.contains target
    · simp
    · have : target ∈ e.banned := by simpa using hc
      simpa using this

/-- … an acknowledged unban takes it out, … -/
theorem keyban_unban (e : Env) (secret target : Bytes) (h : (keyban e secret target false).2 = 200) :
    target ∉ (keyban e secret target false).1 := by
  rcases keyban_cases e secret target false with ⟨h401, _⟩ | ⟨sk, tk, _, _, _, _, _, hk⟩
  · rw [h401] at h; exact absurd h (by decide)
  · rw [hk]
    cases hc : e.banned.contains target
    · have : target ∉ e.banned := by simpa using hc
      simpa using this
    · simp

/-- … other keys are never affected, and a refused request changes nothing -/
theorem keyban_others (e : Env) (secret target other : Bytes) (want : Bool) (hne : other ≠ target) :
    (other ∈ (keyban e secret target want).1 ↔ other ∈ e.banned) := by
  rcases keyban_cases e secret target want with ⟨_, hb⟩ | ⟨sk, tk, _, _, _, _, _, hk⟩
  · rw [hb]
  · rw [hk]
    cases want <;> cases hc : e.banned.contains target <;> simp [hne]

theorem keyban_refused_noop (e : Env) (secret target : Bytes) (want : Bool) (h : (keyban e secret target want).2 ≠ 200) :
    (keyban e secret target want).1 = e.banned := by
  rcases keyban_cases e secret target want with ⟨_, hb⟩ | ⟨sk, tk, _, _, _, _, _, hk⟩
  · exact hb
  · exfalso; apply h; rw [hk]
    cases want <;> cases hc : e.banned.contains target <;> simp

/-- only an unexpired master key can ban, and only keys of its own contract -/
theorem keyban_requires_master (e : Env) (secret target : Bytes) (want : Bool) (h : (keyban e secret target want).2 = 200) :
    ∃ sk tk, e.decrypt secret = some sk ∧ sk.isMaster = true ∧ sk.isExpired e.now = false ∧
      e.decrypt target = some tk ∧ tk.contract = sk.contract := by
  rcases keyban_cases e secret target want with ⟨h401, _⟩ | ⟨sk, tk, h1, h2, h3, h4, h5, _⟩
  · rw [h401] at h; exact absurd h (by decide)
  · exact ⟨sk, tk, h1, h2, h3, h4, h5⟩

/-- from the moment a ban is acknowledged every operation presenting the key is refused -/
theorem banned_key_refused (e : Env) (secret target : Bytes) (h : (keyban e secret target true).2 = 200)
    (ch : Channel) (hk : ch.key = target) (perm : UInt8) :
    authorize { e with banned := (keyban e secret target true).1 } ch perm = none := by
  apply banned_refused
  have := keyban_ban e secret target h
  simpa [hk] using this

theorem authorize_not_banned (e : Env) (bn : List Bytes) (ch : Channel) (perm : UInt8) (h : ch.key ∉ bn) :
    authorize { e with banned := bn } ch perm = authorize { e with banned := [] } ch perm := by
  have hc : bn.contains ch.key = false := by simpa using h
  unfold authorize Env.decrypt Env.contractOk
  simp only [hc, List.contains_nil]

/-- from the moment an unban is acknowledged the key is decided by the key alone -/
theorem unbanned_key_decided_by_key (e : Env) (secret target : Bytes) (h : (keyban e secret target false).2 = 200)
    (ch : Channel) (hk : ch.key = target) (perm : UInt8) :
    authorize { e with banned := (keyban e secret target false).1 } ch perm = authorize { e with banned := [] } ch perm := by
  apply authorize_not_banned
  rw [hk]; exact keyban_unban e secret target h

/-- any sequence of acknowledged toggles: the key is banned afterwards iff the last toggle was a ban -/
theorem toggles_last_wins (e : Env) (secret target : Bytes) (ts : List Bool) (last : Bool)
    (hok : ∀ b (e' : Env), e'.cipher = e.cipher → e'.now = e.now → (keyban e' secret target b).2 = 200) :
    let final := (ts ++ [last]).foldl (fun bn w => (keyban { e with banned := bn } secret target w).1) e.banned
    (target ∈ final ↔ last = true) := by
  intro final
  have hf : final = (keyban { e with banned := ts.foldl (fun bn w => (keyban { e with banned := bn } secret target w).1) e.banned } secret target last).1 := by
    simp only [final, List.foldl_append, List.foldl_cons, List.foldl_nil]
  rw [hf]
  generalize ts.foldl (fun bn w => (keyban { e with banned := bn } secret target w).1) e.banned = mid
  have h200 := hok last { e with banned := mid } rfl rfl
  cases last
  · have := keyban_unban _ secret target h200
    simp [this]
  · have := keyban_ban _ secret target h200
    simp [this]

end Emitter.Security

namespace Emitter.Lww
open Emitter

/-- a restart keeps the store, drops the cache: coherent, and `Has` answers from the store -/
theorem coherent_restart (d : Durable) : d.restart.coherent := by
  intro k v h
  exact absurd h (by simp [Durable.restart])

theorem restart_has (d : Durable) (k : Bytes) : (d.restart.has k).1 = (get d.db k).isAdded :=
  (durable_has_truth d.restart k (coherent_restart d)).1

/-- a ban merged into another broker takes effect whether or not that broker had looked the
key up before (any cache content, as long as it is coherent) -/
theorem merged_ban_effective (d : Durable) (hc : d.coherent) (hn : NonNeg d.db) (k : Bytes) (t : Int) (p : Bytes)
    (ht : 0 < t) (hnew : (get d.db k).del ≤ t) :
    ((d.merge [(k, ⟨t, 0, p⟩)]).1.has k).1 = true := by
  rw [(durable_has_truth _ k (coherent_merge d _ hc)).1, (durable_merge_refines d _).1, isAdded_iff]
  have h := tget_merge d.db [(k, ⟨t, 0, p⟩)] hn (nodup_singleton k _) k
  have h2 : tget [(k, (⟨t, 0, p⟩ : Val))] k = (t, 0) := by
    unfold tget; rw [get_cons, if_pos rfl]
  rw [h2] at h
  unfold tget tmax at h
  simp only [Prod.mk.injEq] at h
  have := hn k
  omega

end Emitter.Lww
