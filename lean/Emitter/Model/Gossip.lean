/-
  Model of the path a gossip payload takes between `cluster.Swarm` and the wire (C13, second sentence):

  * `gossipSender` of github.com/weaveworks/mesh (gossip.go): one per connection ("link"); `Send` accumulates
    into the `gossip` field, `Broadcast(src, ·)` into `broadcasts[src]`, both with `pending = pending.Merge(new)`;
    `pick` takes the `gossip` field first, else one entry of the `broadcasts` map (Go map order: any).
  * a heap of payload objects, because the objects are shared: `Swarm.Notify` hands the same object to the
    sender of every connection, `Swarm.Gossip()` hands out the live replicated state.
  * the payload type's `Merge`, as a parameter (`Impl`), with two instances:
      `implDelta`  — internal/service/cluster/swarm.go before the repair of defect D4: the `*event.State` itself is
                     the payload; `State.Merge(other)` folds `other` into the receiver, turns `other` into the
                     delta and returns `other`, or `nil` when nothing was new;
      `implUnion`  — after the repair: a `payload` wrapper whose `Merge` returns the union of copies of both
                     operands and modifies neither.
  Ghost state (`Link.ghost`) records, per bucket, which objects were queued since the bucket was last picked and
  the value each had at that moment; it is written by `put` / `pick` only and never read by the code under test.
-/
import Emitter.Model.Lww

namespace Emitter.Gossip
open Emitter Emitter.Lww

abbrev Ref := Nat
abbrev Peer := Nat
/-- a bucket of one `gossipSender`: `none` = the `gossip` field (`Send`), `some src` = `broadcasts[src]` -/
abbrev Bucket := Option Peer

/-- a heap cell: an `*event.State` and whether its sets are `crdt.Durable` (the live state of a broker is) -/
structure Obj where
  st : State
  durable : Bool := false

abbrev Heap := List Obj

/-- how a call into the payload's `Merge` ends -/
inductive Res (α : Type) where
  | ok (a : α)
  | panic          -- failed type assertion / method call on a nil interface
  | hang           -- the same mutex locked twice

/-- what the swarm hands to the library (`D`) and how the library combines and encodes it -/
structure Impl (D : Type) where
  wrap : Ref → D
  /-- `p.Merge(o)`: the heap afterwards and the returned interface (`none` = nil) -/
  merge : Heap → D → D → Res (Heap × Option D)
  /-- `Encode()` followed by `DecodeState` on the receiving side -/
  read : Heap → D → Option State

/-! ### instance (i): the replicated state itself is the payload -/

/-- `(*event.State).Merge(other)` on heap objects `p` (receiver) and `o` -/
def mergeDelta (h : Heap) (p o : Ref) : Res (Heap × Option Ref) :=
  match h[p]?, h[o]? with
  | some P, some O =>
      if O.durable then .panic                 -- `other.(*Volatile)` in Volatile.Merge / Durable.Merge
      else if p = o then .hang                  -- `s.lock.Lock(); r.lock.Lock()`: one mutex, twice
      else
        let m := P.st.merge O.st
        let h1 := h.set p { P with st := m.1 }
        -- `other` keeps only what was new (all three sets are empty when `nil` is returned)
        let h2 := h1.set o { O with st := m.2.getD {} }
        .ok (h2, m.2.map (fun _ => o))
  | _, _ => .panic

def implDelta : Impl Ref where
  wrap := id
  merge := mergeDelta
  read := fun h r => h[r]?.map (·.st)

/-! ### instance (ii): the `payload` wrapper of the repaired swarm.go -/

inductive Pay where
  | ref (r : Ref)          -- `&payload{state: st}` around an object the swarm (or another link) also holds
  | own (s : State)        -- `&payload{state: union}`: a fresh state nobody else refers to

def Pay.read (h : Heap) : Pay → Option State
  | .ref r => h[r]?.map (·.st)
  | .own s => some s

/-- `(*payload).Merge(other)`: decode(encode p) merged with decode(encode other); no operand is written -/
def mergeUnion (h : Heap) (p o : Pay) : Res (Heap × Option Pay) :=
  match p.read h, o.read h with
  | some a, some b => .ok (h, some (.own (a.merge b).1))
  | _, _ => .panic

def implUnion : Impl Pay where
  wrap := .ref
  merge := mergeUnion
  read := Pay.read

/-! ### the sender, one per link -/

structure Link (D : Type) where
  /-- `none`: bucket empty / key absent; `some none`: key present holding a nil interface -/
  bk : Bucket → Option (Option D) := fun _ => none
  /-- ghost: objects queued on the bucket since its last pick, with their value when queued -/
  ghost : Bucket → List (Ref × State) := fun _ => []

structure World (D : Type) where
  heap : Heap := []
  links : Nat → Link D := fun _ => {}

def fupd {α β : Type} [DecidableEq α] (f : α → β) (a : α) (v : β) : α → β := fun x => if x = a then v else f x

inductive Call where
  | put (l : Nat) (b : Bucket) (r : Ref)     -- `Send(r)` on link l (b = none) / `Broadcast(src, r)` (b = some src)
  | pick (l : Nat) (b : Bucket)              -- `pick()` on link l taking bucket b (the choice among map entries is the caller's)
  | grow (r : Ref) (v : State)               -- the swarm itself updates one of its objects (the live state)

inductive Event where
  | emitted (l : Nat) (b : Bucket) (sent : Option State) (queued : List (Ref × State)) (heap : Heap)
  | panicked (l : Nat) (b : Bucket)
  | hung (l : Nat) (b : Bucket)

variable {D : Type}

/-- `Send` / `Broadcast` -/
def put (I : Impl D) (w : World D) (l : Nat) (b : Bucket) (r : Ref) : World D × List Event :=
  match w.heap[r]? with
  | none => (w, [])
  | some O =>
    let L := w.links l
    let g := fupd L.ghost b (L.ghost b ++ [(r, O.st)])
    match L.bk b with
    | none => ({ w with links := fupd w.links l { bk := fupd L.bk b (some (some (I.wrap r))), ghost := g } }, [])
    | some none => (w, [.panicked l b])        -- `d.Merge(data)` with `d` a nil interface
    | some (some p) =>
      match I.merge w.heap p (I.wrap r) with
      | .ok (h, res) =>
          -- `s.gossip = nil` is an empty bucket; `s.broadcasts[src] = nil` is an entry
          let stored : Option (Option D) := if b.isNone && res.isNone then none else some res
          ({ heap := h, links := fupd w.links l { bk := fupd L.bk b stored, ghost := g } }, [])
      | .panic => (w, [.panicked l b])
      | .hang => (w, [.hung l b])

/-- `pick` may take bucket `b`: it is there, and the `gossip` field goes first -/
def legal (L : Link D) (b : Bucket) : Bool :=
  (L.bk b).isSome && (b.isNone || (L.bk none).isNone)

def pick (I : Impl D) (w : World D) (l : Nat) (b : Bucket) : World D × List Event :=
  let L := w.links l
  if legal L b then
    match L.bk b with
    | some d =>
        ({ w with links := fupd w.links l { bk := fupd L.bk b none, ghost := fupd L.ghost b [] } },
         [.emitted l b (d.bind (I.read w.heap)) (L.ghost b) w.heap])
    | none => (w, [])
  else (w, [])

def grow (w : World D) (r : Ref) (v : State) : World D :=
  match w.heap[r]? with
  | some O => { w with heap := w.heap.set r { O with st := v } }
  | none => w

def step (I : Impl D) (w : World D) : Call → World D × List Event
  | .put l b r => put I w l b r
  | .pick l b => pick I w l b
  | .grow r v => (grow w r v, [])

def run (I : Impl D) (w : World D) : List Call → World D × List Event
  | [] => (w, [])
  | c :: cs =>
      let r1 := step I w c
      let r2 := run I r1.1 cs
      (r2.1, r1.2 ++ r2.2)

/-! ### what the swarm produces (used by the driver; the sender statements do not depend on it) -/

/-- scripted clock: every reading returns `cur` and advances it by `tick` -/
structure Clock where
  cur : Int := 1
  tick : Int := 0

def Clock.read (c : Clock) : Int × Clock := (c.cur, { c with cur := c.cur + c.tick })

/-- `Volatile.Add` reads the clock once; `Durable.Add` compares against one reading and stores a second one -/
def addAt (m : Map) (k : Bytes) (cmp store : Int) (p : Bytes) : Map :=
  let t := get m k
  if t.add < cmp then set m k { t with add := store, payload := p } else m

def delAt (m : Map) (k : Bytes) (cmp store : Int) : Map :=
  let t := get m k
  if t.del < cmp then set m k { t with del := store } else m

def localAdd (durable : Bool) (m : Map) (k p : Bytes) (c : Clock) : Map × Clock :=
  let (t1, c1) := c.read
  if durable then
    if (get m k).add < t1 then
      let (t2, c2) := c1.read
      (addAt m k t1 t2 p, c2)
    else (m, c1)
  else (addAt m k t1 t1 p, c1)

def localDel (durable : Bool) (m : Map) (k : Bytes) (c : Clock) : Map × Clock :=
  let (t1, c1) := c.read
  if durable then
    if (get m k).del < t1 then
      let (t2, c2) := c1.read
      (delAt m k t1 t2, c2)
    else (m, c1)
  else (delAt m k t1 t1, c1)

/-- `Swarm.Notify(ev, enabled)`: the live state after, and the one-operation state that is broadcast -/
def notify (live : Obj) (i : SetId) (k p : Bytes) (on : Bool) (c : Clock) : Obj × State × Clock :=
  if on then
    let (m, c1) := localAdd live.durable (live.st.sel i) k p c
    let (o, c2) := localAdd false [] k p c1
    ({ live with st := live.st.upd i m }, ({} : State).upd i o, c2)
  else
    let (m, c1) := localDel live.durable (live.st.sel i) k c
    let (o, c2) := localDel false [] k c1
    ({ live with st := live.st.upd i m }, ({} : State).upd i o, c2)

end Emitter.Gossip
