/-
  Model of internal/network/mqtt/mqtt.go: EncodeTo for the 14 packet types (including the
  fixed 64 KiB pooled buffer, whose overflow is a Go panic) and DecodePacket over a byte stream.
-/
import Emitter.Model.Base
import Emitter.Generated.Mqtt

namespace Emitter.Mqtt
open Emitter

structure Header where
  dup : Bool
  qos : UInt8
  retain : Bool
deriving Repr, DecidableEq, Inhabited

structure Connect where
  protoName : Bytes
  version : UInt8
  usernameFlag : Bool
  passwordFlag : Bool
  willRetain : Bool
  willQos : UInt8
  willFlag : Bool
  cleanSession : Bool
  keepAlive : UInt16
  clientId : Bytes
  willTopic : Bytes
  willMessage : Bytes
  username : Bytes
  password : Bytes
deriving Repr, DecidableEq

structure TopicQos where
  topic : Bytes
  qos : UInt8
deriving Repr, DecidableEq

inductive Packet where
  | connect (c : Connect)
  | connack (rc : UInt8)
  | publish (h : Header) (topic : Bytes) (mid : UInt16) (payload : Bytes)
  | puback (mid : UInt16)
  | pubrec (mid : UInt16)
  | pubrel (h : Header) (mid : UInt16)
  | pubcomp (mid : UInt16)
  | subscribe (h : Header) (mid : UInt16) (subs : List TopicQos)
  | suback (mid : UInt16) (qos : List UInt8)
  | unsubscribe (h : Header) (mid : UInt16) (topics : List TopicQos)
  | unsuback (mid : UInt16)
  | pingreq
  | pingresp
  | disconnect
deriving Repr, DecidableEq

def maxHeaderSize : Nat := Generated.mqttMaxHeaderSize
def maxMessageSize : Nat := Generated.mqttMaxMessageSize
/-- room behind the 6 header bytes of the pooled 64 KiB buffer -/
def bodyRoom : Nat := maxMessageSize - maxHeaderSize

def b2u (b : Bool) : UInt8 := if b then 1 else 0

/-- `encodeLength` + the blit loop of `writeHeader`: base-128 digits, low digit first,
continuation bit on all but the last. The argument is a uint32 in Go, so there are at most
five digits; `fuel` makes the recursion structural. -/
def encLenF : Nat → Nat → Bytes
  | 0, _ => []
  | fuel + 1, n => if n < 128 then [UInt8.ofNat n] else UInt8.ofNat (n % 128 + 128) :: encLenF fuel (n / 128)

def encLen (n : Nat) : Bytes := encLenF 5 n

def noHeader : Header := { dup := false, qos := 0, retain := false }

/-- first byte of `writeHeader` (`h = nil` is `noHeader`) -/
def firstByte (ty : UInt8) (h : Header) : UInt8 :=
  (ty <<< 4) ||| (b2u h.dup <<< 3) ||| (h.qos <<< 1) ||| b2u h.retain

def writeString (v : Bytes) : Bytes := putBe16 (UInt16.ofNat v.length) ++ v

/-- header + body on the wire -/
def wire (ty : UInt8) (h : Header) (body : Bytes) : Bytes :=
  firstByte ty h :: encLen body.length ++ body

def tyConnect : UInt8 := Generated.mqttTypeConnect
def tyConnack : UInt8 := Generated.mqttTypeConnack
def tyPublish : UInt8 := Generated.mqttTypePublish
def tyPuback : UInt8 := Generated.mqttTypePuback
def tyPubrec : UInt8 := Generated.mqttTypePubrec
def tyPubrel : UInt8 := Generated.mqttTypePubrel
def tyPubcomp : UInt8 := Generated.mqttTypePubcomp
def tySubscribe : UInt8 := Generated.mqttTypeSubscribe
def tySuback : UInt8 := Generated.mqttTypeSuback
def tyUnsubscribe : UInt8 := Generated.mqttTypeUnsubscribe
def tyUnsuback : UInt8 := Generated.mqttTypeUnsuback
def tyPingreq : UInt8 := Generated.mqttTypePingreq
def tyPingresp : UInt8 := Generated.mqttTypePingresp
def tyDisconnect : UInt8 := Generated.mqttTypeDisconnect

def connectFlags (c : Connect) : UInt8 :=
  (b2u c.usernameFlag <<< 7) ||| (b2u c.passwordFlag <<< 6) ||| (b2u c.willRetain <<< 5) |||
  (c.willQos <<< 3) ||| (b2u c.willFlag <<< 2) ||| (b2u c.cleanSession <<< 1)

def connectBody (c : Connect) : Bytes :=
  writeString c.protoName ++ [c.version] ++ [connectFlags c] ++ putBe16 c.keepAlive ++
  writeString c.clientId ++
  (if c.willFlag then writeString c.willTopic ++ writeString c.willMessage else []) ++
  (if c.usernameFlag then writeString c.username else []) ++
  (if c.passwordFlag then writeString c.password else [])

def subsBody : List TopicQos → Bytes
  | [] => []
  | t :: ts => writeString t.topic ++ [t.qos] ++ subsBody ts

def topicsBody : List TopicQos → Bytes
  | [] => []
  | t :: ts => writeString t.topic ++ topicsBody ts

/-- type code, header and body of a packet as `EncodeTo` lays them out -/
def parts : Packet → UInt8 × Header × Bytes
  | .connect c => (tyConnect, noHeader, connectBody c)
  | .connack rc => (tyConnack, noHeader, [0, rc])
  | .publish h topic mid payload =>
      (tyPublish, h, writeString topic ++ (if h.qos > 0 then putBe16 mid else []) ++ payload)
  | .puback mid => (tyPuback, noHeader, putBe16 mid)
  | .pubrec mid => (tyPubrec, noHeader, putBe16 mid)
  | .pubrel h mid => (tyPubrel, h, putBe16 mid)
  | .pubcomp mid => (tyPubcomp, noHeader, putBe16 mid)
  | .subscribe h mid subs => (tySubscribe, h, putBe16 mid ++ subsBody subs)
  | .suback mid qos => (tySuback, noHeader, putBe16 mid ++ qos)
  | .unsubscribe h mid topics => (tyUnsubscribe, h, putBe16 mid ++ topicsBody topics)
  | .unsuback mid => (tyUnsuback, noHeader, putBe16 mid)
  | .pingreq => (tyPingreq, noHeader, [])
  | .pingresp => (tyPingresp, noHeader, [])
  | .disconnect => (tyDisconnect, noHeader, [])

/-- the bytes of a packet on the wire, with no buffer limit (this is also what the MQTT 3.1.1
grammar prescribes for the packet value) -/
def encodeWire (p : Packet) : Bytes :=
  match p with
  | .pingreq => [0xc0, 0]
  | .pingresp => [0xd0, 0]
  | .disconnect => [0xe0, 0]
  | p => let (ty, h, body) := parts p; wire ty h body

/-- `EncodeTo`: the body is assembled behind the 6 header bytes of a pooled 64 KiB buffer; a
body that does not fit makes some slice expression panic (at the latest `array.Slice`), except
for PUBLISH, whose size check (after the D9 repair it accounts for the header room) refuses it. -/
def encode (p : Packet) : Outcome Bytes :=
  match p with
  | .pingreq | .pingresp | .disconnect => .ok (encodeWire p)
  | .publish h topic _ payload =>
      let length := 2 + topic.length + payload.length + (if h.qos > 0 then 2 else 0)
      if length > bodyRoom then .err "too-large" else .ok (encodeWire p)
  | p =>
      if (parts p).2.2.length > bodyRoom then .panic "slice bounds out of range" else .ok (encodeWire p)

/-! ## decoding -/

/-- the length loop of `decodeHeader` (uint32 arithmetic, no bound on the number of digits) -/
def decodeLen : Bytes → UInt32 → UInt32 → Outcome (UInt32 × Bytes)
  | [], _, _ => .err "eof"
  | b :: rest, mult, len =>
      let len := len + (b &&& 0x7f).toUInt32 * mult
      if (b &&& 0x80) != 0 then decodeLen rest (mult * 128) len else .ok (len, rest)

def headerOf (ty first : UInt8) : Header :=
  if ty == tyPublish || ty == tySubscribe || ty == tyUnsubscribe || ty == tyPubrel then
    { dup := (first &&& 0x08) > 0, qos := (first &&& 0x06) >>> 1, retain := (first &&& 0x01) > 0 }
  else noHeader

/-- `readUint16(b, &bookmark)`: indexes without a bounds check -/
def readU16 (data : Bytes) (pos : Nat) : Outcome (UInt16 × Nat) :=
  match data[pos]?, data[pos + 1]? with
  | some a, some b => .ok (be16 a b, pos + 2)
  | _, _ => .panic "index out of range"

/-- `readString` -/
def readString (data : Bytes) (pos : Nat) : Outcome (Bytes × Nat) :=
  match readU16 data pos with
  | .ok (l, pos) =>
      if l.toNat + pos > data.length then .err "bad-packet"
      else .ok ((data.drop pos).take l.toNat, pos + l.toNat)
  | .err e => .err e
  | .panic w => .panic w

def readByte (data : Bytes) (pos : Nat) : Outcome (UInt8 × Nat) :=
  match data[pos]? with
  | some a => .ok (a, pos + 1)
  | none => .panic "index out of range"

def decodeConnect (data : Bytes) : Outcome Packet := do
  let (proto, p) ← readString data 0
  let (ver, p) ← readByte data p
  let (flags, p) ← readByte data p
  let (ka, p) ← readU16 data p
  let (cid, p) ← readString data p
  let uf := (flags &&& 0x80) > 0
  let pf := (flags &&& 0x40) > 0
  let wr := (flags &&& 0x20) > 0
  let wq := (flags >>> 3) &&& 3        -- after the D8 repair
  let wf := (flags &&& 0x04) > 0
  let cs := (flags &&& 0x02) > 0
  let (wt, wm, p) ← (if wf then do
      let (wt, p) ← readString data p
      let (wm, p) ← readString data p
      pure (wt, wm, p) else pure ([], [], p) : Outcome (Bytes × Bytes × Nat))
  let (un, p) ← (if uf then readString data p else pure ([], p) : Outcome (Bytes × Nat))
  let (pw, _) ← (if pf then readString data p else pure ([], p) : Outcome (Bytes × Nat))
  pure (.connect { protoName := proto, version := ver, usernameFlag := uf, passwordFlag := pf,
                   willRetain := wr, willQos := wq, willFlag := wf, cleanSession := cs, keepAlive := ka,
                   clientId := cid, willTopic := wt, willMessage := wm, username := un, password := pw })

/-- the topic loops of decodeSubscribe / decodeUnsubscribe; `fuel` is the number of bytes left
(every iteration consumes at least two) -/
def decodeSubs (data : Bytes) (withQos : Bool) : Nat → Nat → Outcome (List TopicQos)
  | 0, _ => .ok []
  | fuel + 1, pos =>
      if pos < data.length then
        match readString data pos with
        | .ok (t, p) =>
            if withQos then
              match readByte data p with
              | .ok (q, p) => (decodeSubs data withQos fuel p).map (fun r => { topic := t, qos := q } :: r)
              | .err e => .err e
              | .panic w => .panic w
            else (decodeSubs data withQos fuel p).map (fun r => { topic := t, qos := 0 } :: r)
        | .err e => .err e
        | .panic w => .panic w
      else .ok []

def decodeBody (ty : UInt8) (h : Header) (data : Bytes) : Outcome Packet :=
  if ty == tyConnect then decodeConnect data
  else if ty == tyConnack then (readByte data 1).map (fun r => .connack r.1)
  else if ty == tyPublish then do
    let (topic, p) ← readString data 0
    let (mid, p) ← (if h.qos > 0 then readU16 data p else pure (0, p) : Outcome (UInt16 × Nat))
    if p > data.length then .panic "slice bounds out of range" else
    pure (.publish h topic mid (data.drop p))
  else if ty == tyPuback then (readU16 data 0).map (fun r => .puback r.1)
  else if ty == tyPubrec then (readU16 data 0).map (fun r => .pubrec r.1)
  else if ty == tyPubrel then (readU16 data 0).map (fun r => .pubrel h r.1)
  else if ty == tyPubcomp then (readU16 data 0).map (fun r => .pubcomp r.1)
  else if ty == tySubscribe then do
    let (mid, p) ← readU16 data 0
    let subs ← decodeSubs data true data.length p
    pure (.subscribe h mid subs)
  else if ty == tySuback then do
    let (mid, p) ← readU16 data 0
    pure (.suback mid (data.drop p))
  else if ty == tyUnsubscribe then do
    let (mid, p) ← readU16 data 0
    let ts ← decodeSubs data false data.length p
    pure (.unsubscribe h mid ts)
  else if ty == tyUnsuback then (readU16 data 0).map (fun r => .unsuback r.1)
  else .err "invalid-type"

/-- `DecodePacket(rdr, max)`: returns the packet and the unread rest of the stream. -/
def decode (stream : Bytes) (max : Nat) : Outcome (Packet × Bytes) :=
  match stream with
  | [] => .err "eof"
  | first :: rest =>
      let ty := (first &&& 0xf0) >>> 4
      let h := headerOf ty first
      match decodeLen rest 1 0 with
      | .err e => .err e
      | .panic w => .panic w
      | .ok (len, rest) =>
          if ty == tyPingreq then .ok (.pingreq, rest)
          else if ty == tyPingresp then .ok (.pingresp, rest)
          else if ty == tyDisconnect then .ok (.disconnect, rest)
          else if len.toNat > max then .err "too-large"
          else if rest.length < len.toNat then .err "eof"
          else (decodeBody ty h (rest.take len.toNat)).map (fun p => (p, rest.drop len.toNat))

/-! ## what MQTT 3.1.1 calls a well-formed packet value, and its decoded normal form -/

def strOk (b : Bytes) : Bool := b.length < 65536

def Header.ok (h : Header) : Bool := h.qos < 4

def wellFormed : Packet → Bool
  | .connect c => strOk c.protoName && strOk c.clientId && strOk c.willTopic && strOk c.willMessage &&
      strOk c.username && strOk c.password && c.willQos < 4
  | .publish h t _ p => h.ok && strOk t && 2 + t.length + 2 + p.length < 268435456
  | .pubrel h _ => h.ok
  | .subscribe h _ subs => h.ok && subs.all (fun t => strOk t.topic) && (subsBody subs).length + 2 < 268435456
  | .suback _ qos => qos.length + 2 < 268435456
  | .unsubscribe h _ ts => h.ok && ts.all (fun t => strOk t.topic) && (topicsBody ts).length + 2 < 268435456
  | _ => true

/-- what a decoder must return for a well-formed packet: the packet with the fields that are
absent on the wire left empty. -/
def normal : Packet → Packet
  | .connect c => .connect { c with
      willTopic := if c.willFlag then c.willTopic else [],
      willMessage := if c.willFlag then c.willMessage else [],
      username := if c.usernameFlag then c.username else [],
      password := if c.passwordFlag then c.password else [] }
  | .publish h t mid p => .publish h t (if h.qos > 0 then mid else 0) p
  | .unsubscribe h mid ts => .unsubscribe h mid (ts.map (fun t => { t with qos := 0 }))
  | p => p

end Emitter.Mqtt
