/-
  Model of internal/provider/storage (ssd.go: Store, lookup, Query; memory.go is the same code
  over an in-memory badger) together with the id predicates of internal/message/id.go
  (NewPrefix, HasPrefix, Match) and Frame.Sort / Frame.Limit of internal/message/message.go.

  badger is a parameter: an ordered key-value store with one visible version per key, entries
  whose `ExpiresAt` is non-zero and `≤ now` are invisible to iterators, `Seek k` positions the
  iterator on the first visible key `≥ k`.  The store is therefore a list of entries kept in
  strictly increasing key order (`insert`), "now" is an input.
-/
import Emitter.Model.Message
import Emitter.Generated.Mqtt
import Emitter.Generated.Security

namespace Emitter.Storage
open Emitter Emitter.Message

structure Entry where
  key : Bytes
  msg : Msg
  /-- `uint64(m.Expires().Unix())` -/
  expiresAt : Int
deriving Repr, DecidableEq

abbrev Store := List Entry

/-- one key, one visible version: a second `SetEntry` under the same key shadows the first -/
def insert (e : Entry) : Store → Store
  | [] => [e]
  | x :: xs =>
      if bytesLt e.key x.key then e :: x :: xs
      else if bytesLt x.key e.key then x :: insert e xs
      else e :: xs

def retainedTTL : UInt32 := UInt32.ofNat Generated.msgRetainedTTL
def replyCap : Nat := Generated.mqttMaxMessageSize
def maxTime : Int := Generated.secMaxTime
def wildcard : UInt32 := Generated.ssidWildcard
def multiWildcard : UInt32 := Generated.ssidMultiWild

/-- `SSD.Store`: the retained marker is replaced by the configured retention, the entry is
written under the message id and expires at `id.Time() + TTL`. `ID.Time()` slices `id[4:8]`. -/
def store (retain : UInt32) (s : Store) (m : Msg) : Outcome Store :=
  if m.id.length < 8 then .panic "slice bounds out of range" else
  let ttl := if m.ttl == retainedTTL then retain else m.ttl
  .ok (insert { key := m.id, msg := { m with ttl := ttl }, expiresAt := idTime m.id + (ttl.toNat : Int) } s)

/-- badger's `isDeletedOrExpired`, negated -/
def live (now : Int) (e : Entry) : Bool := e.expiresAt == 0 || decide (now < e.expiresAt)

/-- `Iterator.Seek` on the visible entries -/
def seek (target : Bytes) (l : List Entry) : List Entry := l.dropWhile (fun e => bytesLt e.key target)

def isWild (w : UInt32) : Bool := w == wildcard || w == multiWildcard

/-- `ID.HasPrefix(ssid, cutoff)` (callers guarantee `2 ≤ ssid.length`, see `lookup`) -/
def hasPrefix (id : Bytes) (ssid : Ssid) (cutoff : Int) : Bool :=
  word id 0 == (ssid.getD 0 0 ^^^ ssid.getD 1 0) && decide (cutoff ≤ idTime id)

/-- the word loop of `ID.Match` -/
def levelsMatch : Ssid → Ssid → Bool
  | [], _ => true
  | _ :: _, [] => false
  | q :: qs, w :: ws => (q == w || isWild q) && levelsMatch qs ws

/-- `ID.Match(query, from, until)`; the length test is Go `int` arithmetic -/
def idMatch (id : Bytes) (q : Ssid) (from_ until_ : Int) : Bool :=
  if ((q.length * 4 : Nat) : Int) > (id.length : Int) - (fixed : Int) then false
  else levelsMatch q (idSsid id) && decide (from_ ≤ idTime id) && decide (idTime id ≤ until_)

structure Query where
  ssid : Ssid
  from_ : Int
  until_ : Int
  start : Bytes
  limit : Int
deriving Repr

/-- `window`: a zero `until` means "no upper end" -/
def window (from_ until_ : Int) : Int × Int := (from_, if until_ == 0 then maxTime else until_)

/-- what `lookup` charges for one message against the reply-size cap -/
def msgLen (m : Msg) : Nat := m.payload.length + m.id.length + m.channel.length

/-- the `for` loop of `SSD.lookup`: `n` = `len(matches)`, `size` = `matchesSize` -/
def scan (ssid : Ssid) (from_ until_ : Int) (limit : Nat) : List Entry → Nat → Nat → List Msg
  | [], _, _ => []
  | e :: rest, n, size =>
      if !(hasPrefix e.key ssid from_) || limit ≤ n then []
      else if !(idMatch e.key ssid from_ until_) then scan ssid from_ until_ limit rest n size
      else if size + msgLen e.msg > replyCap then []
      else e.msg :: scan ssid from_ until_ limit rest (n + 1) (size + msgLen e.msg)

/-- Which continuation code is in the tree: `false` = the pinned code (`Seek(StartFromID)`,
then `Next()` whatever key the seek found), `true` = after notes/patches/C06-continuation-skip.patch
(`Next()` only when the key found *is* `StartFromID`). Flip when the patch is applied. -/
def continuationRepaired : Bool := true

/-- the repaired step: `if it.Valid() && bytes.Equal(it.Item().Key(), StartFromID) { it.Next() }` -/
def stepOverIfEqual (x : Bytes) : List Entry → List Entry
  | e :: rest => if e.key == x then rest else e :: rest
  | [] => []

/-- where the iteration starts: at the window end, or behind the first visible key
`≥ StartFromID` -/
def startPos (repaired : Bool) (q : Query) (vis : List Entry) : List Entry :=
  if q.start.isEmpty then seek (newPrefix q.ssid q.until_) vis
  else if repaired then stepOverIfEqual q.start (seek q.start vis)
  else (seek q.start vis).drop 1

/-- `SSD.lookup`. `make(Frame, 0, limit)` panics for a negative limit; `NewPrefix` / `HasPrefix`
index `ssid[1]`. -/
def lookupWith (repaired : Bool) (q : Query) (now : Int) (s : Store) : Outcome (List Msg) :=
  if q.limit < 0 then .panic "makeslice: cap out of range" else
  let vis := s.filter (live now)
  if q.ssid.length < 2 then
    if q.start.isEmpty then .panic "index out of range"
    else if (startPos repaired q vis).isEmpty then .ok [] else .panic "index out of range"
  else .ok (scan q.ssid q.from_ q.until_ q.limit.toNat (startPos repaired q vis) 0 0)

def lookup := lookupWith continuationRepaired

/-- `Frame.Sort` as a stable sort (sort.Slice fixes only the order of distinct times) -/
def sortByTime (l : List Msg) : List Msg := l.mergeSort (fun a b => decide (idTime a.id ≤ idTime b.id))

/-- `Frame.Limit(n)`: sort, keep the last n; `(*f)[size-n:]` panics for a negative n -/
def frameLimit (n : Int) (f : List Msg) : Outcome (List Msg) :=
  let s := sortByTime f
  if (s.length : Int) > n then
    if n < 0 then .panic "slice bounds out of range" else .ok (s.drop (s.length - n.toNat))
  else .ok s

/-- `SSD.Query` without a cluster (`survey == nil`) -/
def queryWith (repaired : Bool) (ssid : Ssid) (from_ until_ : Int) (start : Bytes) (limit : Int) (now : Int)
    (s : Store) : Outcome (List Msg) :=
  let w := window from_ until_
  match lookupWith repaired { ssid := ssid, from_ := w.1, until_ := w.2, start := start, limit := limit } now s with
  | .ok m => frameLimit limit m
  | .err e => .err e
  | .panic p => .panic p

def query := queryWith continuationRepaired

/-! ### histories of stores -/

/-- one `Store` call of the broker: a message whose id was made by `NewID` for channel `ssid`
at clock second `unix` (sequence number `seq`, process nonce `uniq`) -/
structure Put where
  ssid : Ssid
  unix : Int
  seq : UInt32
  uniq : UInt32
  channel : Bytes
  payload : Bytes
  ttl : UInt32
deriving Repr

/-- the entry a put leaves in the store -/
def Put.entry (retain : UInt32) (p : Put) (id : Bytes) : Entry :=
  let ttl := if p.ttl == retainedTTL then retain else p.ttl
  { key := id, msg := { id := id, channel := p.channel, payload := p.payload, ttl := ttl },
    expiresAt := idTime id + (ttl.toNat : Int) }

def applyPut (retain : UInt32) (s : Store) (p : Put) : Store :=
  match newId p.ssid p.unix p.seq p.uniq with
  | .ok id =>
      match store retain s { id := id, channel := p.channel, payload := p.payload, ttl := p.ttl } with
      | .ok s' => s'
      | _ => s
  | _ => s     -- NewID panics for an ssid shorter than two words: nothing is stored

/-- the store after a history of puts -/
def runPuts (retain : UInt32) (ps : List Put) : Store := ps.foldl (applyPut retain) []

end Emitter.Storage
