/-
  Model of internal/security/hash/murmur.go (murmur3-32, seed 37, byte-swapped result).
-/
import Emitter.Model.Base
namespace Emitter.Hash
open Emitter

def rotl32 (x : UInt32) (r : UInt32) : UInt32 := (x <<< r) ||| (x >>> (32 - r))

def c1 : UInt32 := 0xcc9e2d51
def c2 : UInt32 := 0x1b873593

def mixK (k : UInt32) : UInt32 := (rotl32 (k * c1) 15) * c2

def body : Bytes → UInt32 → UInt32 × Bytes
  | a :: b :: c :: d :: rest, h =>
      let k := a.toUInt32 ||| (b.toUInt32 <<< 8) ||| (c.toUInt32 <<< 16) ||| (d.toUInt32 <<< 24)
      let h := h ^^^ mixK k
      let h := rotl32 h 13
      body rest (h * 5 + 0xe6546b64)
  | tail, h => (h, tail)

def tail (t : Bytes) (h : UInt32) : UInt32 :=
  match t with
  | [a] => h ^^^ mixK a.toUInt32
  | [a, b] => h ^^^ mixK (a.toUInt32 ^^^ (b.toUInt32 <<< 8))
  | [a, b, c] => h ^^^ mixK (a.toUInt32 ^^^ (b.toUInt32 <<< 8) ^^^ (c.toUInt32 <<< 16))
  | _ => h

/-- `hash.Of(data)` -/
def hashOf (data : Bytes) : UInt32 :=
  let (h, t) := body data 37
  let h := tail t h
  let h := h ^^^ (UInt32.ofNat data.length)
  let h := h ^^^ (h >>> 16)
  let h := h * 0x85ebca6b
  let h := h ^^^ (h >>> 13)
  let h := h * 0xc2b2ae35
  let h := h ^^^ (h >>> 16)
  (h <<< 24) ||| (((h >>> 8) <<< 16) &&& (0xFF0000 : UInt32)) ||| (((h >>> 16) <<< 8) &&& (0xFF00 : UInt32)) ||| (h >>> 24)

end Emitter.Hash
