/-
  Model of internal/message/subtrie.go (+ the Subscribers set of sub.go): the subscription trie
  with both lookup strategies, share groups, counting and pruning of empty branches.
  Subscribers are identified by the 32-bit key `hash.OfString(ID())` under which the Go code
  stores them (`Subscribers map[uint32]Subscriber`).
-/
import Emitter.Model.Base
import Emitter.Generated.Message

namespace Emitter.Trie
open Emitter

abbrev Word := UInt32
abbrev Sub := UInt32
abbrev Path := List Word

def wildcard : Word := Generated.ssidWildcard
def multiWildcard : Word := Generated.ssidMultiWild
def shareWord : Word := Generated.ssidShare

mutual
inductive Node where
  | mk (subs : List Sub) (kids : Kids) : Node
inductive Kids where
  | nil : Kids
  | cons (w : Word) (n : Node) (rest : Kids) : Kids
end

def Node.empty : Node := .mk [] .nil

def Node.subs : Node → List Sub
  | .mk s _ => s
def Node.kids : Node → Kids
  | .mk _ k => k

def Kids.find? : Kids → Word → Option Node
  | .nil, _ => none
  | .cons w n rest, x => if w == x then some n else rest.find? x

def Kids.isNil : Kids → Bool
  | .nil => true
  | _ => false

/-- a node that `orphan()` removes: no subscribers and no children -/
def Node.isEmpty : Node → Bool
  | .mk subs kids => subs.isEmpty && kids.isNil

/-! ## Subscribe: walk/create the path, `AddUnique` at the end; returns whether it was new -/

def Node.fresh : Path → Sub → Node
  | [], s => .mk [s] .nil
  | w :: ws, s => .mk [] (.cons w (Node.fresh ws s) .nil)

mutual
def Node.insert : Node → Path → Sub → Node × Bool
  | .mk subs kids, [], s => if subs.contains s then (.mk subs kids, false) else (.mk (s :: subs) kids, true)
  | .mk subs kids, w :: ws, s => let r := kids.insertAt w ws s; (.mk subs r.1, r.2)
def Kids.insertAt : Kids → Word → Path → Sub → Kids × Bool
  | .nil, w, ws, s => (.cons w (Node.fresh ws s) .nil, true)
  | .cons w' n rest, w, ws, s =>
      if w' == w then let r := n.insert ws s; (.cons w' r.1 rest, r.2)
      else let r := rest.insertAt w ws s; (.cons w' n r.1, r.2)
end

/-! ## Unsubscribe: walk the path (no change if it does not exist), `Remove`, then `orphan()`:
a node left without subscribers and children is unlinked, and so on upwards (never the root) -/

mutual
def Node.remove : Node → Path → Sub → Node × Bool
  | .mk subs kids, [], s => if subs.contains s then (.mk (subs.erase s) kids, true) else (.mk subs kids, false)
  | .mk subs kids, w :: ws, s => let r := kids.removeAt w ws s; (.mk subs r.1, r.2)
def Kids.removeAt : Kids → Word → Path → Sub → Kids × Bool
  | .nil, _, _, _ => (.nil, false)
  | .cons w' n rest, w, ws, s =>
      if w' == w then
        let r := n.remove ws s
        if r.1.isEmpty then (rest, r.2) else (.cons w' r.1 rest, r.2)
      else let r := rest.removeAt w ws s; (.cons w' n r.1, r.2)
end

/-! ## Lookups (results are sets of subscriber keys, here lists possibly with repetitions) -/

mutual
/-- `lookupEmitter`: subscribers of every node on the way; exact and `+` branches -/
def Node.lookupE : Node → Path → List Sub
  | .mk subs _, [] => subs
  | .mk subs kids, w :: ws => subs ++ kids.lookupE w ws
def Kids.lookupE : Kids → Word → Path → List Sub
  | .nil, _, _ => []
  | .cons w' n rest, w, ws =>
      (if w' == w || w' == wildcard then n.lookupE ws else []) ++ rest.lookupE w ws
end

mutual
/-- `lookupMqtt`: subscribers at the end of the query; exact and `+` branches; the
subscribers of a `#` child whenever at least one more level follows -/
def Node.lookupM : Node → Path → List Sub
  | .mk subs _, [] => subs
  | .mk _ kids, w :: ws => kids.lookupM w ws
def Kids.lookupM : Kids → Word → Path → List Sub
  | .nil, _, _ => []
  | .cons w' n rest, w, ws =>
      (if w' == w || w' == wildcard then n.lookupM ws else []) ++
      (if w' == multiWildcard then n.subs else []) ++ rest.lookupM w ws
end

inductive Mode where
  | emitter | mqtt
deriving Repr, DecidableEq

def Node.lookup (m : Mode) (n : Node) (q : Path) : List Sub :=
  match m with
  | .emitter => n.lookupE q
  | .mqtt => n.lookupM q

/-- candidates of every share group below `root/contract/$share`: (group word, matching members) -/
def Kids.groups (m : Mode) : Kids → Path → List (Word × List Sub)
  | .nil, _ => []
  | .cons g n rest, q => (g, n.lookup m q) :: rest.groups m q

def shareGroups (m : Mode) (root : Node) (ssid : Path) : List (Word × List Sub) :=
  match ssid with
  | [] => []
  | c :: q =>
      match root.kids.find? c with
      | some cn =>
          match cn.kids.find? shareWord with
          | some sn => sn.kids.groups m q
          | none => []
      | none => []

/-- `Trie.Lookup` with the random choice as a parameter: `pick` receives the candidates of one
group (non-empty) and returns one of them -/
def lookupAll (m : Mode) (pick : List Sub → Sub) (root : Node) (ssid : Path) : List Sub :=
  let direct := root.lookup m ssid
  let picks := ((shareGroups m root ssid).filter (fun g => !g.2.isEmpty)).map (fun g => pick g.2)
  direct ++ picks

/-! ## the trie with its counter -/

structure T where
  root : Node := Node.empty
  count : Nat := 0

def T.subscribe (t : T) (p : Path) (s : Sub) : T :=
  let r := t.root.insert p s
  { root := r.1, count := if r.2 then t.count + 1 else t.count }

def T.unsubscribe (t : T) (p : Path) (s : Sub) : T :=
  let r := t.root.remove p s
  { root := r.1, count := if r.2 then t.count - 1 else t.count }

mutual
def Node.size : Node → Nat
  | .mk _ kids => 1 + kids.size
def Kids.size : Kids → Nat
  | .nil => 0
  | .cons _ n rest => n.size + rest.size
end

/-! ## abstraction: the set of (filter, subscriber) pairs, and the matching relations -/

mutual
def Node.abs : Node → List (Path × Sub)
  | .mk subs kids => subs.map (fun s => ([], s)) ++ kids.abs
def Kids.abs : Kids → List (Path × Sub)
  | .nil => []
  | .cons w n rest => (n.abs).map (fun ps => (w :: ps.1, ps.2)) ++ rest.abs
end

/-- emitter mode: the filter is a level-wise prefix of the channel, `+` matches any one level -/
def matchesE : Path → Path → Bool
  | [], _ => true
  | f :: fs, c :: cs => (f == c || f == wildcard) && matchesE fs cs
  | _ :: _, [] => false

/-- mqtt mode: same depth, `+` matches one level, a trailing `#` one or more further levels -/
def matchesM : Path → Path → Bool
  | [], [] => true
  | [], _ :: _ => false
  | _ :: _, [] => false
  | f :: fs, c :: cs => ((f == c || f == wildcard) && matchesM fs cs) || (f == multiWildcard && fs.isEmpty)

def matchesMode : Mode → Path → Path → Bool
  | .emitter => matchesE
  | .mqtt => matchesM

/-! `distinct`: no two children of a node carry the same word (a Go map), everywhere -/
mutual
def Node.distinct : Node → Bool
  | .mk _ kids => kids.distinct
def Kids.distinct : Kids → Bool
  | .nil => true
  | .cons w n rest => (rest.find? w).isNone && n.distinct && rest.distinct
end

/-! `pruned`: every node other than the root has a subscriber or a child (what `orphan` maintains) -/
mutual
def Node.pruned : Node → Bool
  | .mk _ kids => kids.pruned
def Kids.pruned : Kids → Bool
  | .nil => true
  | .cons _ n rest => !n.isEmpty && n.pruned && rest.pruned
end

/-! `nodupSubs`: the subscriber set of every node has no repetition (a Go map keyed by the id hash) -/
mutual
def Node.nodupSubs : Node → Bool
  | .mk subs kids => subs.eraseDups.length == subs.length && kids.nodupSubs
def Kids.nodupSubs : Kids → Bool
  | .nil => true
  | .cons _ n rest => n.nodupSubs && rest.nodupSubs
end

end Emitter.Trie
