/-
  C12 — small model of "what a decrypted channel key grants" and of `Service.Authorize` as far as
  key tampering is concerned:
    internal/security/key.go        (field accessors, IsExpired, HasPermission, ValidateChannel)
    internal/provider/contract      (contract.Validate, SingleContractProvider.Get)
    internal/broker/service.go      (Service.Authorize, without the ban list: no cluster)
  on top of the cipher model (Emitter.Model.Cipher). Self-contained on purpose (the full channel /
  authorize model of C03 lives elsewhere); core Lean only, executable.

  Key layout (24 bytes): 0-1 salt, 2-3 master id, 4-7 contract id, 8-11 contract signature,
  12-14 target bit-path, 15 permissions, 16-19 target hash, 20-23 expiry.
-/
import Emitter.Model.Cipher
import Emitter.Model.Hash

namespace Emitter.KeyTamper
open Emitter Emitter.Cipher

/-- `timeOffset` of security/key.go (2010-01-01 as unix seconds) -/
def timeOffset : Int := 1262304000

/-- the literal `1325880984` of `ValidateChannel` ("Key target was `#/`"); `fact_hash_empty`
shows that it is the murmur hash of the empty string -/
def hashEmpty : UInt32 := 1325880984

/-! ## permission bits (security/key.go) -/
def allowMaster : UInt8 := 1
def allowRead : UInt8 := 2
def allowWrite : UInt8 := 4
def allowStore : UInt8 := 8
def allowLoad : UInt8 := 16
def allowPresence : UInt8 := 32
def allowExtend : UInt8 := 64
def allowExecute : UInt8 := 128

/-- the contract the broker holds for the license (`SingleContractProvider.owner`) -/
structure Contract where
  id : UInt32
  master : UInt16
  sign : UInt32
  allowed : Bool := true      -- `State == ContractStateAllowed`
deriving Repr, DecidableEq

/-! ## key fields. `k[i]` on a key shorter than 24 bytes is a Go panic; `authorize` guards the
length once (and `authorize_total` shows the guard never fires), the accessors read with a
default so that they are total. -/

def kb (k : Bytes) (i : Nat) : UInt8 := k.getD i 0
def keySalt (k : Bytes) : UInt16 := be16 (kb k 0) (kb k 1)
def keyMaster (k : Bytes) : UInt16 := be16 (kb k 2) (kb k 3)
def keyContract (k : Bytes) : UInt32 := be32 (kb k 4) (kb k 5) (kb k 6) (kb k 7)
def keySignature (k : Bytes) : UInt32 := be32 (kb k 8) (kb k 9) (kb k 10) (kb k 11)
/-- `uint32(k[12])<<16 | uint32(k[13])<<8 | uint32(k[14])` (disjoint bit ranges: `|` is `+`) -/
def keyPath (k : Bytes) : Nat := (kb k 12).toNat * 65536 + (kb k 13).toNat * 256 + (kb k 14).toNat
def keyPerms (k : Bytes) : UInt8 := kb k 15
def keyTarget (k : Bytes) : UInt32 := be32 (kb k 16) (kb k 17) (kb k 18) (kb k 19)
def keyExpire (k : Bytes) : Nat := (be32 (kb k 20) (kb k 21) (kb k 22) (kb k 23)).toNat

/-- `IsExpired` at wall-clock second `now`: the stored value 0 means "never"; otherwise the key
expires at `timeOffset + value`. -/
def expired (now : Int) (k : Bytes) : Bool :=
  keyExpire k != 0 && decide (timeOffset + (keyExpire k : Int) < now)

/-- `HasPermission(flag)` -/
def hasPermission (k : Bytes) (flag : UInt8) : Bool := (keyPerms k &&& flag) == flag

/-- `contract.Validate(key)` -/
def validate (c : Contract) (k : Bytes) : Bool :=
  c.master == keyMaster k && c.sign == keySignature k && c.id == keyContract k && c.allowed

/-! ## channels (already parsed; `parseChannel` itself belongs to C03) -/

/-- the two things `ValidateChannel` reads from a parsed channel: `ch.Channel` (the channel
string with its trailing `/`, without key and options) and `ch.Target()` = `Query[0]` -/
structure Chan where
  name : Bytes
  target : UInt32
deriving Repr, DecidableEq

/-- `Query[0]` of a well-formed channel is the hash of its first part -/
def chanOf (name : Bytes) : Chan := { name := name, target := Hash.hashOf (name.takeWhile (· != 47)) }

/-- `strings.Split(s, "/")` -/
def splitSlash : Bytes → List Bytes
  | [] => [[]]
  | c :: rest =>
      if c == 47 then [] :: splitSlash rest
      else match splitSlash rest with
        | p :: ps => (c :: p) :: ps
        | [] => [[c]]

/-- `strings.Join(parts, "/")` -/
def joinSlash : List Bytes → Bytes
  | [] => []
  | [p] => p
  | p :: ps => p ++ 47 :: joinSlash ps

/-- the `for i := 0; i < 23` loop: depth = 23 - (index of the lowest set bit among bits 0..22) -/
def maxDepthOf (path : Nat) : Nat :=
  match (List.range 23).find? (fun i => path.testBit i) with
  | some i => 23 - i
  | none => 0

/-- the `for idx, part := range parts` loop: `none` = a `+` where the key demands a concrete
part. `targetPath >> (22 - uint32(idx))` with idx > 22 is a shift by ≥ 2³² - … , i.e. 0. -/
def maskParts (path : Nat) : Nat → List Bytes → Option (List Bytes)
  | _, [] => some []
  | idx, p :: ps =>
      if idx ≤ 22 && path.testBit (22 - idx) then
        if p == [43] then none else (maskParts path (idx + 1) ps).map (p :: ·)
      else (maskParts path (idx + 1) ps).map (([43] : Bytes) :: ·)

/-- `Key.ValidateChannel(ch)` (as of /repo c7be5f6: a key for an exact target refuses a channel
with a trailing `#`) -/
def validateChannel (k : Bytes) (ch : Chan) : Bool :=
  if ch.name.isEmpty then false else
  let target := keyTarget k
  let path := keyPath k
  if path == 0 then (target == hashEmpty || target == ch.target) else
  let topic := if ch.name.getLast? == some 47 then ch.name.dropLast else ch.name
  let parts := splitSlash topic
  let wc := parts.getLast? == some [35]
  let parts := if wc then parts.dropLast else parts
  let md := maxDepthOf path
  let md := if md == 0 then parts.length else md
  let exact := path.testBit 23
  if parts.length < md || (exact && (wc || parts.length != md)) then false else
  match maskParts path 0 parts with
  | none => false
  | some ps => Hash.hashOf (joinSlash (ps.take md)) == target

/-- what a decrypted key lets its holder do: the conjunction `Service.Authorize` evaluates after
`DecryptKey` (expiry, contract lookup by id, `Validate`, permission, channel) -/
def grants (c : Contract) (now : Int) (k : Bytes) (ch : Chan) (flag : UInt8) : Bool :=
  !expired now k && keyContract k == c.id && validate c k && hasPermission k flag && validateChannel k ch

/-- `Service.Authorize(channel, permission)` for a channel whose key part is the string `s`
(no cluster, hence no ban list; the channel itself is well formed) -/
def authorize (cs : CipherSpec) (c : Contract) (now : Int) (s : Bytes) (ch : Chan) (flag : UInt8) : Outcome Bool :=
  match decryptKey cs s with
  | .ok k => if k.length < 24 then .panic "index out of range" else .ok (grants c now k ch flag)
  | .err _ => .ok false
  | .panic w => .panic w

/-! ## tampering at the level of the 24 cipher bytes -/

/-- license v2 / v3: the cipher is an XOR stream -/
def isStream : CipherSpec → Bool
  | .xtea _ => false
  | _ => true

/-- the 24 cipher bytes behind a key string (what the attacker sees after base64-decoding) -/
def rawOf (s : Bytes) : Outcome Bytes := decodeKey s

/-- XOR a mask into the cipher bytes of a key string and re-encode: needs no secret -/
def xorString (s mask : Bytes) : Bytes :=
  match decodeKey s with
  | .ok raw => b64Encode (xorBytes raw mask)
  | _ => s

/-- the mask that sets permission bits `bits` (byte 15) and touches nothing else -/
def permMask (bits : UInt8) : Bytes := List.replicate 15 0 ++ [bits]

/-- the mask that rewrites bytes 12..23 (bit-path, permissions, target hash, expiry) from the
publicly known old values `old` to `new`, and leaves bytes 0..11 alone -/
def tailMask (old new : Bytes) : Bytes := List.replicate 12 0 ++ xorBytes old new

/-- the string the broker issues for key `k` (`EncryptKey`) -/
def issued (cs : CipherSpec) (k : Bytes) : Bytes := b64Encode (encryptRaw cs k)

/-- bytes 12..23 of a key that is valid for every permission on every channel, forever:
no bit-path, all permission bits, target hash of `#/`, no expiry -/
def universalTail : Bytes := [0, 0, 0, 0xFF, 0x4F, 0x07, 0x56, 0x98, 0, 0, 0, 0]

/-- the i-th 8-byte block -/
def block (raw : Bytes) (i : Nat) : Bytes := (raw.drop (8 * i)).take 8

/-- the cut-and-paste of two issued strings, as a string -/
def spliceString (e1 e2 : Bytes) : Bytes :=
  match decodeKey e1, decodeKey e2 with
  | .ok r1, .ok r2 => b64Encode (block r1 0 ++ block r2 1 ++ block r1 2)
  | _, _ => e1

/-- C12 for one cipher (one license secret) and one way of modifying a key string. `attack` is a
function of the key string alone: it is not given `cs`, i.e. it works "without knowledge of the
license secret" exactly when the same `attack` is used for every `cs`. -/
def NoEscalationBy (cs : CipherSpec) (attack : Bytes → Bytes) : Prop :=
  ∀ (ct : Contract) (now : Int) (k : Bytes), k.length = 24 →
    ∀ (ch : Chan) (g : UInt8), authorize cs ct now (attack (issued cs k)) ch g = .ok true →
      authorize cs ct now (issued cs k) ch g = .ok true

/-! ### concrete witnesses used by the refutation theorems -/

def witnessContract : Contract := { id := 7, master := 1, sign := 9 }
/-- read-only key on `#/` of `witnessContract`, never expires -/
def witnessWeak : Bytes := [0, 0, 0, 1, 0, 0, 0, 7, 0, 0, 0, 9, 0, 0, 0, 2, 0x4F, 0x07, 0x56, 0x98, 0, 0, 0, 0]
/-- the same with read + write -/
def witnessStrong : Bytes := [0, 0, 0, 1, 0, 0, 0, 7, 0, 0, 0, 9, 0, 0, 0, 6, 0x4F, 0x07, 0x56, 0x98, 0, 0, 0, 0]
def witnessChan : Chan := { name := [97, 47], target := 0 }

def spliceA : Bytes := [0, 9, 0, 1, 0, 0, 0, 7]
/-- read-only, target hash 5 -/
def spliceM1 : Bytes := [0, 0, 0, 9, 0, 0, 0, 2]
def spliceC1 : Bytes := [0, 0, 0, 5, 0, 0, 0, 0]
/-- read + write, target hash 6 -/
def spliceM2 : Bytes := [0, 0, 0, 9, 0, 0, 0, 6]
def spliceC2 : Bytes := [0, 0, 0, 6, 0, 0, 0, 0]
def spliceChan : Chan := { name := [97, 47], target := 5 }

/-- the 8-bit mask of single permissions a string is authorized for on a channel (the probe
observable of the correspondence check) -/
def grantMask (cs : CipherSpec) (c : Contract) (now : Int) (s : Bytes) (ch : Chan) : Outcome UInt8 :=
  (List.range 8).foldlM (fun acc i =>
    match authorize cs c now s ch (UInt8.ofNat (2 ^ i)) with
    | .ok true => .ok (acc ||| UInt8.ofNat (2 ^ i))
    | .ok false => .ok acc
    | .err e => .err e
    | .panic w => .panic w) (0 : UInt8)

end Emitter.KeyTamper
