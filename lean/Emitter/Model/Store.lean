/-
  Model of internal/provider/storage/ssd.go (Store / storeFrame / encodeFrame / loadMessage and the
  full scan a history query amounts to) over an ABSTRACT durable key-value store. badger, the
  file system and the OS page cache are a parameter (`KV`) whose assumed behaviour is spelled out
  as `KV.Laws`; `listKV` is the executable instance the driver runs (sorted association list).
  snappy is a parameter too (`Zip`).
-/
import Emitter.Model.Message
import Emitter.Generated.Storage

namespace Emitter.Store
open Emitter Emitter.Message

/-- `badger.Entry` as `encodeFrame` fills it -/
structure Entry where
  key : Bytes
  value : Bytes
  expiresAt : Nat
deriving Repr, DecidableEq

def retainedTTL : UInt32 := UInt32.ofNat Generated.msgRetainedTTL
def defaultRetain : UInt32 := UInt32.ofNat Generated.storeDefaultRetain

/-- `configUint32(config, "retain", defaultRetain)`: a positive number is taken, anything else
gives the default -/
def configRetain (r : Nat) : UInt32 := if r > 0 then UInt32.ofNat r else defaultRetain

/-- first statement of `SSD.Store`: a retained message gets the configured retention -/
def storedMsg (retain : UInt32) (m : Msg) : Msg :=
  if m.ttl = retainedTTL then { m with ttl := retain } else m

/-- `m.Expires().Unix()`; `ID.Time()` slices `id[4:8]`, which panics for a shorter id -/
def expires (m : Msg) : Outcome Int :=
  if m.id.length < 8 then .panic "slice bounds out of range" else .ok (idTime m.id + (m.ttl.toNat : Int))

/-- snappy block compression: a parameter -/
structure Zip where
  enc : Bytes → Bytes
  dec : Bytes → Option Bytes

/-- what is assumed of snappy -/
def Zip.Ok (z : Zip) : Prop := ∀ b, z.dec (z.enc b) = some b

def Zip.id : Zip := ⟨fun b => b, some⟩

/-- `SSD.Store` up to the transaction: `encodeFrame(Frame{*m})[0]` (key = id, value = compressed
encoding, `ExpiresAt = uint64(Expires().Unix())`) -/
def entryOf (z : Zip) (retain : UInt32) (m : Msg) : Outcome Entry :=
  let m' := storedMsg retain m
  match expires m' with
  | .ok t => .ok { key := m'.id, value := z.enc (encodeMsg m'), expiresAt := t.toNat }
  | .err e => .err e
  | .panic w => .panic w

/-- the expiry `Store` hands to the database (as a number; `entryOf_ok_iff`) -/
def expiryOf (retain : UInt32) (m : Msg) : Nat := (idTime m.id + ((storedMsg retain m).ttl.toNat : Int)).toNat

/-- `loadMessage`: `item.ValueCopy` + `message.DecodeMessage` (trailing bytes are ignored) -/
def loadMsg (z : Zip) (e : Entry) : Outcome Msg :=
  match z.dec e.value with
  | some b =>
      match decodeMsg b with
      | .ok (m, _) => .ok m
      | .err k => .err k
      | .panic w => .panic w
  | none => .err "snappy: corrupt input"

/-- badger: `isDeletedOrExpired` — `ExpiresAt = 0` never expires, otherwise live while
`now < ExpiresAt` -/
def live (e : Entry) (now : Nat) : Bool := e.expiresAt == 0 || now < e.expiresAt

/-- one message as a history query reports it, with the expiry the store holds for it -/
structure Found where
  msg : Msg
  expiresAt : Nat
deriving Repr, DecidableEq

/-- the record a history query must return for a stored message -/
def foundOf (retain : UInt32) (m : Msg) : Found := ⟨storedMsg retain m, expiryOf retain m⟩

/-- the loop of `lookup` over the items an iterator yields: an entry that does not decode is
skipped (`continue`), a panic in the decoder would propagate -/
def loadAll (z : Zip) : List Entry → Outcome (List Found)
  | [] => .ok []
  | e :: es =>
      match loadMsg z e with
      | .ok m =>
          match loadAll z es with
          | .ok r => .ok (⟨m, e.expiresAt⟩ :: r)
          | .err k => .err k
          | .panic w => .panic w
      | .err _ => loadAll z es
      | .panic w => .panic w

/-! ## the durable store as a parameter -/

/-- What survives the process: `Disk` is the content of the directory (files + page cache).
`get` is the abstraction function (the newest durable version of a key, expired or not),
`commit d e` the directory after `db.Update(SetEntry e)` returned `nil`, `torn d e d'` the
directories the process can leave behind when it is killed INSIDE that `Update`, `maint d d'`
every other way the directory changes: open and log replay, `Close`, memtable flush, compaction,
value-log GC, and a kill at any instant inside one of those. `scan d now` is what a forward
iterator of a fresh read transaction yields after the directory was opened at unix time `now`
(it is a total function: the store always opens). -/
structure KV where
  Disk : Type
  empty : Disk
  inv : Disk → Prop
  get : Disk → Bytes → Option Entry
  commit : Disk → Entry → Disk
  torn : Disk → Entry → Disk → Prop
  maint : Disk → Disk → Prop
  scan : Disk → Nat → List Entry

/-- the assumptions about badger + OS (for process kills; power loss is outside) -/
structure KV.Laws (K : KV) : Prop where
  inv_empty : K.inv K.empty
  inv_commit : ∀ d e, K.inv d → K.inv (K.commit d e)
  inv_torn : ∀ d e d', K.inv d → K.torn d e d' → K.inv d'
  inv_maint : ∀ d d', K.inv d → K.maint d d' → K.inv d'
  get_empty : ∀ k, K.get K.empty k = none
  /-- `Update` returned ⇒ the entry is durable (and nothing else changed) -/
  get_commit : ∀ d e k, K.inv d → K.get (K.commit d e) k = if k = e.key then some e else K.get d k
  /-- a transaction is atomic under a kill -/
  torn_atomic : ∀ d e d', K.inv d → K.torn d e d' →
    (∀ k, K.get d' k = K.get d k) ∨ (∀ k, K.get d' k = K.get (K.commit d e) k)
  /-- open / replay / close / flush / compaction / GC, complete or killed, lose and invent nothing -/
  get_maint : ∀ d d' k, K.inv d → K.maint d d' → K.get d' k = K.get d k
  /-- reopen returns exactly the durable entries that have not expired … -/
  mem_scan : ∀ d now e, K.inv d → (e ∈ K.scan d now ↔ (K.get d e.key = some e ∧ live e now = true))
  /-- … in key order -/
  scan_sorted : ∀ d now, K.inv d → (K.scan d now).Pairwise (fun a b => bytesLt a.key b.key = true)

/-- the history query the property observes: open the directory at time `now`, iterate, decode -/
def query (K : KV) (z : Zip) (d : K.Disk) (now : Nat) : Outcome (List Found) := loadAll z (K.scan d now)

/-! ## the store protocol: what happens to the directory over the life of several processes -/

inductive Ev where
  /-- a `Store(m)` call that returned `nil` (acknowledged) -/
  | acked (m : Msg)
  /-- the process died inside `Store(m)` (or the call returned an error / panicked): unacknowledged -/
  | died (m : Msg)
  /-- anything else: clean stop, kill while idle / opening / closing, restart, background work -/
  | maint
deriving Repr

/-- the key an event can write -/
def Ev.key? : Ev → Option Bytes
  | .acked m => some m.id
  | .died m => some m.id
  | .maint => none

def Ev.msg? : Ev → Option Msg
  | .acked m => some m
  | .died m => some m
  | .maint => none

/-- the messages handed to `Store` in a history -/
def msgs (evs : List Ev) : List Msg := evs.filterMap Ev.msg?

inductive Step (K : KV) (z : Zip) (retain : UInt32) : K.Disk → Ev → K.Disk → Prop
  | acked {d m e} : entryOf z retain m = .ok e → Step K z retain d (.acked m) (K.commit d e)
  | died {d m e d'} : entryOf z retain m = .ok e → K.torn d e d' → Step K z retain d (.died m) d'
  /-- killed before the transaction started, or `Store` panicked before it -/
  | diedEarly {d m} : Step K z retain d (.died m) d
  | maint {d d'} : K.maint d d' → Step K z retain d .maint d'

/-- `Run d evs d'`: the directory `d` becomes `d'` over the chronological event list `evs` -/
inductive Run (K : KV) (z : Zip) (retain : UInt32) : K.Disk → List Ev → K.Disk → Prop
  | nil {d} : Run K z retain d [] d
  | cons {d ev d₁ evs d₂} : Step K z retain d ev d₁ → Run K z retain d₁ evs d₂ → Run K z retain d (ev :: evs) d₂

/-! ## the list instance (what the driver executes) -/

def lget : List Entry → Bytes → Option Entry
  | [], _ => none
  | e :: es, k => if k = e.key then some e else lget es k

/-- sorted insertion, replacing an entry with the same key -/
def linsert (e : Entry) : List Entry → List Entry
  | [] => [e]
  | h :: t =>
      if bytesLt h.key e.key then h :: linsert e t
      else if h.key = e.key then e :: t
      else e :: h :: t

def Sorted (l : List Entry) : Prop := l.Pairwise (fun a b => bytesLt a.key b.key = true)

def listKV : KV where
  Disk := List Entry
  empty := []
  inv := Sorted
  get := lget
  commit := fun d e => linsert e d
  torn := fun d e d' => d' = d ∨ d' = linsert e d
  maint := fun d d' => d' = d
  scan := fun d now => d.filter (fun e => live e now)

/-! ## finding C15.reopen-fails-once-after-kill: the store as found does not always open

badger v3.2103 truncates a memtable file to length 0 before it unlinks it (`z.MmapFile.Delete`)
and creates one before it sizes it (`z.OpenMmapFile`). A kill in between leaves a zero-length
`.mem` file; `openMemTables` then takes the "new file" signal of `logFile.open` for an error and
`badger.Open` fails — re-initialising the file on the way, so that the next open succeeds. No
entry is involved: the file is empty by construction. -/

/-- the directory as found: the durable entries, and whether a kill left a zero-length `.mem` file -/
structure DirB where
  entries : List Entry
  zeroMem : Bool

/-- `badger.Open` as found -/
def DirB.open (d : DirB) : Option (List Entry) × DirB :=
  if d.zeroMem then (none, { d with zeroMem := false }) else (some d.entries, d)

/-- `Store(m)` on the list instance (nothing happens when `Store` panics before the transaction) -/
def commitMsg (z : Zip) (retain : UInt32) (d : List Entry) (m : Msg) : List Entry :=
  match entryOf z retain m with
  | .ok e => linsert e d
  | _ => d

/-- one event on the list instance; the flag says whether a write that was in flight at a kill
had reached the directory -/
def execEv (z : Zip) (retain : UInt32) (d : List Entry) : Ev × Bool → List Entry
  | (.acked m, _) => commitMsg z retain d m
  | (.died m, true) => commitMsg z retain d m
  | (.died _, false) => d
  | (.maint, _) => d

def exec (z : Zip) (retain : UInt32) (d : List Entry) (evs : List (Ev × Bool)) : List Entry :=
  evs.foldl (execEv z retain) d

end Emitter.Store
