/-
  Model of internal/security/cipher (base64.go, xtea.go, salsa.go, shuffle.go) and of the
  parts of encoding/base64 (RawURLEncoding.EncodeToString) and x/crypto/salsa20/salsa they call.
  Core Lean only, executable.
-/
import Emitter.Model.Base
import Emitter.Generated.Cipher

namespace Emitter.Cipher
open Emitter

/-! ## base64 (URL alphabet, no padding) -/

/-- the URL-safe alphabet of encoding/base64 (`RawURLEncoding`, standard library) -/
def alphabet : Bytes :=
  [65, 66, 67, 68, 69, 70, 71, 72, 73, 74, 75, 76, 77, 78, 79, 80, 81, 82, 83, 84, 85, 86, 87, 88, 89, 90,
   97, 98, 99, 100, 101, 102, 103, 104, 105, 106, 107, 108, 109, 110, 111, 112, 113, 114, 115, 116, 117,
   118, 119, 120, 121, 122, 48, 49, 50, 51, 52, 53, 54, 55, 56, 57, 45, 95]

def encChar (i : Nat) : UInt8 := alphabet.getD i 0

/-- `decodeMap[c]` of base64.go: the 256-entry table as `init()` leaves it (regenerated from the
running code on every check) -/
def decodeMap (c : UInt8) : UInt8 := Generated.base64DecodeMap.getD c.toNat 0xFF

/-- what the table should be: index in the alphabet, 0xFF for every other byte -/
def decodeMapSpec (c : UInt8) : UInt8 :=
  let i := alphabet.idxOf c
  if i < 64 then UInt8.ofNat i else 0xFF

/-- encoding/base64 `Encode` for RawURLEncoding: 3 bytes → 4 chars, tail 1 → 2 chars, 2 → 3 chars.
`val = a<<16 | b<<8 | c`, sextets `val>>18&0x3F` …: stated arithmetically (see `be32`). -/
def b64Encode : Bytes → Bytes
  | a :: b :: c :: rest =>
      let v := a.toNat * 65536 + b.toNat * 256 + c.toNat
      encChar (v / 262144 % 64) :: encChar (v / 4096 % 64) ::
      encChar (v / 64 % 64) :: encChar (v % 64) :: b64Encode rest
  | [a, b] =>
      let v := a.toNat * 65536 + b.toNat * 256
      [encChar (v / 262144 % 64), encChar (v / 4096 % 64), encChar (v / 64 % 64)]
  | [a] =>
      let v := a.toNat * 65536
      [encChar (v / 262144 % 64), encChar (v / 4096 % 64)]
  | [] => []

/-- `decodeKey(dst, src)` of base64.go. The Go code decodes in place (dst aliases src); group g
reads src[4g..4g+3] before it writes dst[3g..3g+2] and 3g+2 < 4(g+1), so the aliasing never
clobbers unread input and the function is modelled as pure. `idx` is the offset of the group,
kept only to reproduce the error position.
`val = d0<<18 | d1<<12 | d2<<6 | d3`, bytes `val>>16, val>>8, val`: stated arithmetically. -/
def decodeKeyAux : Bytes → Nat → Outcome Bytes
  | a :: b :: c :: d :: rest, idx =>
      let da := decodeMap a; let db := decodeMap b; let dc := decodeMap c; let dd := decodeMap d
      if da == 0xFF then .err s!"b64@{idx}" else
      if db == 0xFF then .err s!"b64@{idx+1}" else
      if dc == 0xFF then .err s!"b64@{idx+2}" else
      if dd == 0xFF then .err s!"b64@{idx+3}" else
      let v := da.toNat * 262144 + db.toNat * 4096 + dc.toNat * 64 + dd.toNat
      match decodeKeyAux rest (idx + 4) with
      | .ok r => .ok (UInt8.ofNat (v / 65536) :: UInt8.ofNat (v / 256) :: UInt8.ofNat v :: r)
      | e => e
  | [a, b, c], idx =>
      let da := decodeMap a; let db := decodeMap b; let dc := decodeMap c
      if da == 0xFF then .err s!"b64@{idx}" else
      if db == 0xFF then .err s!"b64@{idx+1}" else
      if dc == 0xFF then .err s!"b64@{idx+2}" else
      let v := da.toNat * 262144 + db.toNat * 4096 + dc.toNat * 64
      .ok [UInt8.ofNat (v / 65536), UInt8.ofNat (v / 256)]
  | [a, b], idx =>
      let da := decodeMap a; let db := decodeMap b
      if da == 0xFF then .err s!"b64@{idx}" else
      if db == 0xFF then .err s!"b64@{idx+1}" else
      let v := da.toNat * 262144 + db.toNat * 4096
      .ok [UInt8.ofNat (v / 65536)]
  | [_], idx => .err s!"b64@{idx}"
  | [], _ => .ok []

def decodeKey (src : Bytes) : Outcome Bytes := decodeKeyAux src 0

/-! ## XTEA (xtea.go) -/

structure XteaKey where
  k0 : UInt32
  k1 : UInt32
  k2 : UInt32
  k3 : UInt32
deriving Repr, DecidableEq

def XteaKey.sel (k : XteaKey) (i : UInt32) : UInt32 :=
  match (i &&& 3).toNat with
  | 0 => k.k0
  | 1 => k.k1
  | 2 => k.k2
  | _ => k.k3

def xteaRounds : Nat := Generated.xteaRounds
def xteaDelta : UInt32 := Generated.xteaDelta
def xteaSum : UInt32 := Generated.xteaSum

def mix (v s k : UInt32) : UInt32 := (((v <<< 4) ^^^ (v >>> 5)) + v) ^^^ (s + k)

/-- one encipher round: (y, z, sum) ↦ (y', z', sum') -/
def encRound (k : XteaKey) (st : UInt32 × UInt32 × UInt32) : UInt32 × UInt32 × UInt32 :=
  let (y, z, sum) := st
  let y := y + mix z sum (k.sel sum)
  let sum := sum + xteaDelta
  let z := z + mix y sum (k.sel (sum >>> 11))
  (y, z, sum)

def decRound (k : XteaKey) (st : UInt32 × UInt32 × UInt32) : UInt32 × UInt32 × UInt32 :=
  let (y, z, sum) := st
  let z := z - mix y sum (k.sel (sum >>> 11))
  let sum := sum - xteaDelta
  let y := y - mix z sum (k.sel sum)
  (y, z, sum)

def iter {α} (f : α → α) : Nat → α → α
  | 0, a => a
  | n + 1, a => iter f n (f a)

def encBlock (k : XteaKey) (y z : UInt32) : UInt32 × UInt32 :=
  let r := iter (encRound k) xteaRounds (y, z, 0)
  (r.1, r.2.1)

def decBlock (k : XteaKey) (y z : UInt32) : UInt32 × UInt32 :=
  let r := iter (decRound k) xteaRounds (y, z, xteaSum)
  (r.1, r.2.1)

/-- apply a block function to every 8-byte block (big-endian words); a trailing partial block
cannot occur (callers pass 24 bytes; anything else is handled by the caller's outcome). -/
def mapBlocks (f : UInt32 → UInt32 → UInt32 × UInt32) : Bytes → Bytes
  | a :: b :: c :: d :: e :: f' :: g :: h :: rest =>
      let r := f (be32 a b c d) (be32 e f' g h)
      putBe32 r.1 ++ putBe32 r.2 ++ mapBlocks f rest
  | tail => tail

/-- XOR bytes 2.. with the two salt bytes, alternating (the whitening loops of xtea.go). -/
def whitenTail (s0 s1 : UInt8) : Bytes → Bytes
  | a :: b :: rest => (a ^^^ s0) :: (b ^^^ s1) :: whitenTail s0 s1 rest
  | tail => tail

def whiten : Bytes → Bytes
  | s0 :: s1 :: rest => s0 :: s1 :: whitenTail s0 s1 rest
  | bs => bs

/-! ## Salsa20 (x/crypto/salsa20/salsa: `HSalsa20`, `XORKeyStream` for one block) -/

def rotl (x : UInt32) (r : UInt32) : UInt32 := (x <<< r) ||| (x >>> (32 - r))

def le32 (bs : Bytes) (i : Nat) : UInt32 :=
  (bs.getD i 0).toUInt32 ||| ((bs.getD (i+1) 0).toUInt32 <<< 8) |||
  ((bs.getD (i+2) 0).toUInt32 <<< 16) ||| ((bs.getD (i+3) 0).toUInt32 <<< 24)

def putLe32 (x : UInt32) : Bytes := [x.toUInt8, (x >>> 8).toUInt8, (x >>> 16).toUInt8, (x >>> 24).toUInt8]

def qr (x : Array UInt32) (a b c d : Nat) : Array UInt32 :=
  let x := x.set! b (x[b]! ^^^ rotl (x[a]! + x[d]!) 7)
  let x := x.set! c (x[c]! ^^^ rotl (x[b]! + x[a]!) 9)
  let x := x.set! d (x[d]! ^^^ rotl (x[c]! + x[b]!) 13)
  x.set! a (x[a]! ^^^ rotl (x[d]! + x[c]!) 18)

def doubleRound (x : Array UInt32) : Array UInt32 :=
  let x := qr x 0 4 8 12
  let x := qr x 5 9 13 1
  let x := qr x 10 14 2 6
  let x := qr x 15 3 7 11
  let x := qr x 0 1 2 3
  let x := qr x 5 6 7 4
  let x := qr x 10 11 8 9
  qr x 15 12 13 14

def sigma : Bytes := strBytes "expand 32-byte k"

def salsaInit (inp key : Bytes) : Array UInt32 :=
  #[le32 sigma 0, le32 key 0, le32 key 4, le32 key 8, le32 key 12, le32 sigma 4,
    le32 inp 0, le32 inp 4, le32 inp 8, le32 inp 12, le32 sigma 8,
    le32 key 16, le32 key 20, le32 key 24, le32 key 28, le32 sigma 12]

/-- `salsa.HSalsa20(out, in, k, Sigma)` -/
def hsalsa20 (inp key : Bytes) : Bytes :=
  let x := iter doubleRound 10 (salsaInit inp key)
  ([0, 5, 10, 15, 6, 7, 8, 9].map (fun i => putLe32 x[i]!)).flatten

/-- first 64-byte keystream block of `salsa.XORKeyStream(_, _, counter, key)` -/
def salsaBlock (counter key : Bytes) : Bytes :=
  let j := salsaInit counter key
  let x := iter doubleRound 10 j
  ((List.range 16).map (fun i => putLe32 (x[i]! + j[i]!))).flatten

def xorBytes : Bytes → Bytes → Bytes
  | a :: as, b :: bs => (a ^^^ b) :: xorBytes as bs
  | as, [] => as
  | [], _ => []

/-! ## the three key ciphers -/

inductive CipherSpec where
  | xtea (k : XteaKey)
  | salsa (key nonce : Bytes)       -- license v2: 32-byte key, 24-byte nonce
  | shuffle (key nonce : Bytes)     -- license v3: 32-byte key, 16-byte nonce
deriving Repr

/-- keystream of `Salsa.box` (does not depend on the data) -/
def salsaKeystream (key nonce : Bytes) : Bytes :=
  let sub := hsalsa20 (nonce.take 16) key
  salsaBlock ((nonce.drop 16).take 8 ++ List.replicate 8 0) sub

/-- keystream of `Shuffle.crypt` for salt bytes s0 s1 -/
def shuffleKeystream (key nonce : Bytes) (s0 s1 : UInt8) : Bytes :=
  let n := whitenTail s0 s1 nonce   -- nonce[i] ^= salt[i mod 2] for all 16 bytes
  let sub := hsalsa20 n key
  salsaBlock n sub

/-- `Shuffle.crypt` with an arbitrary keystream function of the salt (the theorems quantify over it) -/
def shuffleCrypt (ks : UInt8 → UInt8 → Bytes) : Bytes → Bytes
  | s0 :: s1 :: rest => s0 :: s1 :: xorBytes rest (ks s0 s1)
  | bs => bs

/-- the cipher-specific transformation of the 24 raw key bytes on encryption -/
def encryptRaw : CipherSpec → Bytes → Bytes
  | .xtea k, bs => mapBlocks (encBlock k) (whiten bs)
  | .salsa key nonce, bs => xorBytes bs (salsaKeystream key nonce)
  | .shuffle key nonce, bs => shuffleCrypt (shuffleKeystream key nonce) bs

def decryptRaw : CipherSpec → Bytes → Bytes
  | .xtea k, bs => whiten (mapBlocks (decBlock k) bs)
  | .salsa key nonce, bs => xorBytes bs (salsaKeystream key nonce)
  | .shuffle key nonce, bs => shuffleCrypt (shuffleKeystream key nonce) bs

/-- `EncryptKey`. Xtea indexes `k[0..23]` (a shorter key panics, extra bytes are ignored);
Salsa/Shuffle `copy` the key into a zeroed 24-byte buffer. -/
def encryptKey (c : CipherSpec) (k : Bytes) : Outcome Bytes :=
  match c with
  | .xtea _ =>
      if k.length < 24 then .panic "index out of range" else
      .ok (b64Encode (encryptRaw c (k.take 24)))
  | _ =>
      let buf := (k ++ List.replicate 24 0).take 24
      .ok (b64Encode (encryptRaw c buf))

/-- `DecryptKey`: length check, in-place base64 decode, cipher. -/
def decryptKey (c : CipherSpec) (s : Bytes) : Outcome Bytes :=
  if s.length != 32 then .err "invalid-key" else
  match decodeKey s with
  | .ok raw => .ok (decryptRaw c raw)
  | .err e => .err e
  | .panic w => .panic w

end Emitter.Cipher
