/-
  Model of internal/event/crdt (map.go, volatile.go, durable.go) and internal/event/state.go:
  last-write-wins maps with add bias, delta-returning merge, the replicated State (three maps)
  and the durable backend's read cache.
-/
import Emitter.Model.Base

namespace Emitter.Lww
open Emitter

/-- `crdt.Value`: add time, remove time, payload -/
structure Val where
  add : Int
  del : Int
  payload : Bytes
deriving Repr, DecidableEq

def Val.zero : Val := ⟨0, 0, []⟩

/-- `Value.IsAdded`: added, and the latest add is not older than the latest remove (add bias) -/
def Val.isAdded (v : Val) : Bool := v.add != 0 && v.add ≥ v.del
/-- `Value.IsRemoved` -/
def Val.isRemoved (v : Val) : Bool := v.add < v.del
def Val.isZero (v : Val) : Bool := v.add == 0 && v.del == 0

/-- a map as an association list; `NoDupKeys` is a separate invariant -/
abbrev Map := List (Bytes × Val)

def get (m : Map) (k : Bytes) : Val := (m.lookup k).getD Val.zero

def set (m : Map) (k : Bytes) (v : Val) : Map := (k, v) :: m.filter (fun e => e.1 != k)

/-- `Add(item, value)` at clock reading `now` -/
def add (m : Map) (k : Bytes) (now : Int) (p : Bytes) : Map :=
  let t := get m k
  if t.add < now then set m k { t with add := now, payload := p } else m

/-- `Del(item)` at clock reading `now` -/
def del (m : Map) (k : Bytes) (now : Int) : Map :=
  let t := get m k
  if t.del < now then set m k { t with del := now } else m

def has (m : Map) (k : Bytes) : Bool := (get m k).isAdded

/-- one iteration of the loop of `Volatile.Merge` / `Durable.Merge`: the new local map and
what is left of the incoming entry in the delta (`none` = removed from the delta) -/
def mergeOne (s : Map) (k : Bytes) (rt : Val) : Map × Option Val :=
  let st := get s k
  let addNew := decide (st.add < rt.add)
  let delNew := decide (st.del < rt.del)
  let d : Val := ⟨if addNew then rt.add else 0, if delNew then rt.del else 0, rt.payload⟩
  if d.isZero then (s, none)
  else (set s k ⟨if addNew then rt.add else st.add, if delNew then rt.del else st.del, rt.payload⟩, some d)

/-- `Merge(other)`: merges every entry of `r` and turns `r` into the delta -/
def merge (s : Map) : Map → Map × Map
  | [] => (s, [])
  | (k, rt) :: rest =>
      let (s1, d) := mergeOne s k rt
      let (s2, ds) := merge s1 rest
      (s2, match d with | some v => (k, v) :: ds | none => ds)

/-! ## State: the three replicated sets -/

structure State where
  sub : Map := []
  ban : Map := []
  conn : Map := []
deriving Repr

inductive SetId where
  | sub | ban | conn
deriving Repr, DecidableEq

def State.sel (s : State) : SetId → Map
  | .sub => s.sub
  | .ban => s.ban
  | .conn => s.conn

def State.upd (s : State) (i : SetId) (m : Map) : State :=
  match i with
  | .sub => { s with sub := m }
  | .ban => { s with ban := m }
  | .conn => { s with conn := m }

/-- `State.Merge(other)`: merged state and the delta, `none` when nothing was new -/
def State.merge (s o : State) : State × Option State :=
  let (a, da) := Lww.merge s.sub o.sub
  let (b, db) := Lww.merge s.ban o.ban
  let (c, dc) := Lww.merge s.conn o.conn
  (⟨a, b, c⟩, if da.length + db.length + dc.length == 0 then none else some ⟨da, db, dc⟩)

/-! ## Durable backend: the same map behind a read cache -/

structure Durable where
  db : Map := []
  cache : Map := []      -- entries present = cached
deriving Repr

/-- `Durable.fetch`: cache first; on a miss read the store and cache what was found -/
def Durable.fetch (d : Durable) (k : Bytes) : Val × Durable :=
  match d.cache.lookup k with
  | some v => (v, d)
  | none =>
      match d.db.lookup k with
      | some v => (v, { d with cache := (k, v) :: d.cache })
      | none => (Val.zero, d)

/-- `Durable.store` (after the D6 repair it evicts the cached copy) -/
def Durable.store (d : Durable) (k : Bytes) (v : Val) : Durable :=
  { db := set d.db k v, cache := d.cache.filter (fun e => e.1 != k) }

def Durable.add (d : Durable) (k : Bytes) (now : Int) (p : Bytes) : Durable :=
  let t := get d.db k
  if t.add < now then d.store k { t with add := now, payload := p } else d

def Durable.del (d : Durable) (k : Bytes) (now : Int) : Durable :=
  let t := get d.db k
  if t.del < now then d.store k { t with del := now } else d

def Durable.has (d : Durable) (k : Bytes) : Bool × Durable :=
  let (v, d') := d.fetch k
  (v.isAdded, d')

def Durable.mergeOne (d : Durable) (k : Bytes) (rt : Val) : Durable × Option Val :=
  let r := Lww.mergeOne d.db k rt
  match r.2 with
  | some dv => (d.store k (get r.1 k), some dv)
  | none => (d, none)

def Durable.merge (d : Durable) : Map → Durable × Map
  | [] => (d, [])
  | (k, rt) :: rest =>
      let (d1, dv) := d.mergeOne k rt
      let (d2, ds) := Durable.merge d1 rest
      (d2, match dv with | some v => (k, v) :: ds | none => ds)

/-- a restart of the broker on the same state directory: the store is kept, the cache is gone -/
def Durable.restart (d : Durable) : Durable := { db := d.db, cache := [] }

/-- the cache only ever holds what the store holds -/
def Durable.coherent (d : Durable) : Prop := ∀ k v, d.cache.lookup k = some v → d.db.lookup k = some v

end Emitter.Lww
