/-
  Model of one broker at the level of decoded MQTT requests: internal/broker/conn.go
  (onReceive, CanSubscribe / CanUnsubscribe, GetLink, Close), internal/service/pubsub
  (OnSubscribe, OnUnsubscribe, OnPublish, Publish, OnLastWill), internal/service/link,
  internal/service/presence (requests and notifications), internal/service/keyban,
  internal/message/sub.go Counters, over the trie model and the security model.

  Authorization is a parameter (`B.auth`), so the theorems hold for every authorizer; the
  driver instantiates it with `Security.authorize` for the broker's license.
-/
import Emitter.Model.Trie
import Emitter.Model.Security
import Emitter.Model.Hash

namespace Emitter.Broker
open Emitter Emitter.Trie Emitter.Security

/-- what reaches a client socket -/
inductive Pkt where
  | connack (rc : UInt8)
  | pub (topic payload : Bytes)
  | suback (mid : UInt16) (qos : List UInt8)
  | unsuback (mid : UInt16)
  | puback (mid : UInt16)
  /-- a JSON response / notification on an `emitter/…` topic, canonicalised to sorted key=value text -/
  | json (topic : Bytes) (fields : String)
deriving Repr, DecidableEq

/-- `message.Counter` -/
structure Counter where
  ssid : Path
  channel : Bytes
  count : Nat
deriving Repr, DecidableEq

structure Conn where
  name : String
  guid : Bytes
  username : Bytes := []
  hasConnect : Bool := false
  willFlag : Bool := false
  willRetain : Bool := false
  willTopic : Bytes := []
  willMessage : Bytes := []
  counters : List Counter := []
  links : List (Bytes × Bytes) := []
  alive : Bool := true
deriving Repr

/-- the key under which the trie stores the connection: `hash.OfString(conn.ID())` -/
def Conn.key (c : Conn) : Sub := Hash.hashOf c.guid

structure Stored where
  ssid : Path
  channel : Bytes
  payload : Bytes
  ttl : Nat
deriving Repr, DecidableEq

/-- result of `Authorize`: the decrypted key's contract and permissions -/
structure Grant where
  contract : UInt32
  perms : UInt8
deriving Repr, DecidableEq

def Grant.has (g : Grant) (flag : UInt8) : Bool := (g.perms &&& flag) == flag

structure B where
  mode : Mode := .emitter
  trie : T := {}
  conns : List Conn := []
  store : List Stored := []
  banned : List Bytes := []
  /-- number of open connections as `Service.connections` counts them -/
  open_ : Int := 0
  retain : Nat := 2592000

abbrev Auth := List Bytes → Channel → UInt8 → Option Grant      -- banned keys ↦ channel ↦ permission

abbrev Out := List (String × Pkt)

def B.conn? (b : B) (name : String) : Option Conn := b.conns.find? (·.name == name)
def B.setConn (b : B) (c : Conn) : B := { b with conns := b.conns.map (fun x => if x.name == c.name then c else x) }
def B.connOfKey (b : B) (k : Sub) : Option Conn := b.conns.find? (fun c => c.alive && c.key == k)

/-! ## Counters (keyed by the ssid itself, after the D1 repair) -/

/-- `IncrementOnce`: true iff this is the first subscription for the ssid -/
def incOnce (cs : List Counter) (ssid : Path) (channel : Bytes) : List Counter × Bool :=
  if cs.any (·.ssid == ssid) then (cs, false) else (cs ++ [⟨ssid, channel, 1⟩], true)

/-- `Decrement`: true iff the counter existed and reached zero (it is then removed) -/
def dec (cs : List Counter) (ssid : Path) : List Counter × Bool :=
  match cs.find? (·.ssid == ssid) with
  | none => (cs, false)
  | some c =>
      if c.count ≤ 1 then (cs.filter (·.ssid != ssid), true)
      else (cs.map (fun x => if x.ssid == ssid then { x with count := x.count - 1 } else x), false)

/-! ## canonical JSON fields -/

def strOf (b : Bytes) : String := String.fromUTF8! (ByteArray.mk b.toArray)

def presenceSsid (ssid : Path) : Path := Generated.ssidSystem :: Generated.ssidPresence :: ssid

def emitterTopic (name : String) : Bytes := strBytes s!"emitter/{name}/"

def errPkt (mid : UInt16) (status : Nat) : Pkt :=
  .json (strBytes "emitter/error/") (if mid == 0 then s!"status={status}" else s!"req={mid},status={status}")

/-! ## delivery -/

/-- `pubsub.Publish(m, filter)`: one packet to every live connection the lookup returns
(`exclude`: the publisher's key when it asked for `me=0`). Share groups are not used at this
level. Receivers are listed in connection order (the harness compares per client). -/
def deliver (b : B) (ssid : Path) (exclude : Option Sub) (p : Pkt) : Out :=
  let keys := (b.trie.root.lookup b.mode ssid).eraseDups
  b.conns.filterMap (fun c =>
    if c.alive && keys.contains c.key && exclude != some c.key then some (c.name, p) else none)

/-- a presence notification for a subscription event, dispatched on the presence ssid -/
def notify (b : B) (event : String) (c : Conn) (ssid : Path) (channel : Bytes) : Out :=
  let un := if c.username.isEmpty then "" else s!",who.username={strOf c.username}"
  deliver b (presenceSsid ssid) none
    (.json (strBytes "emitter/presence/") s!"channel={strOf channel},event={event},who.id={strOf c.guid}{un}")

/-! ## pubsub.Subscribe / Unsubscribe for a connection -/

/-- `pubsub.Subscribe(conn, ev)`: CanSubscribe, trie, notification -/
def subscribeConn (b : B) (c : Conn) (ssid : Path) (channel : Bytes) : B × Out :=
  let (cs, first) := incOnce c.counters ssid channel
  if !first then (b, []) else
  let c' := { c with counters := cs }
  let b' := { (b.setConn c') with trie := b.trie.subscribe ssid c.key }
  (b', notify b' "subscribe" c' ssid channel)

/-- `pubsub.Unsubscribe(conn, ev)` -/
def unsubscribeConn (b : B) (c : Conn) (ssid : Path) (channel : Bytes) : B × Out :=
  let (cs, last) := dec c.counters ssid
  if !last then (b.setConn { c with counters := cs }, []) else
  let c' := { c with counters := cs }
  let present := (b.trie.root.lookup b.mode ssid).contains c.key
  let b' := { (b.setConn c') with trie := if present then b.trie.unsubscribe ssid c.key else b.trie }
  -- the notification is dispatched after the trie update: a watcher that just left does not get it
  (b', notify b' "unsubscribe" c' ssid channel)

/-! ## history -/

/-- `ID.HasPrefix` + `ID.Match`: the storage key prefix is `contract ^ firstLevel`, so the
contract and the first channel level are compared literally; deeper levels may be wildcards -/
def ssidMatches (q s : Path) : Bool :=
  q.length ≤ s.length && q.take 2 == s.take 2 &&
  (q.zip s).all (fun (a, x) => a == x || a == Trie.wildcard || a == Trie.multiWildcard)

/-- `store.Query(ssid, window, limit)` restricted to what a single-second session can observe:
the `limit` most recently stored messages whose ssid has the query as a level-wise prefix -/
def queryStore (b : B) (ssid : Path) (limit : Nat) : List Stored :=
  let ms := b.store.filter (fun m => ssidMatches ssid m.ssid)
  ms.drop (ms.length - limit)

/-- `bytes.ReplaceAll(t, "#", "#/")` -/
def repHash : Bytes → Bytes
  | [] => []
  | c :: rest => if c == 35 then 35 :: 47 :: repHash rest else c :: repHash rest

/-- `bytes.ReplaceAll(t, "//", "/")` (non-overlapping, left to right) -/
def repSlashes : Bytes → Bytes
  | 47 :: 47 :: rest => 47 :: repSlashes rest
  | c :: rest => c :: repSlashes rest
  | [] => []

/-- the topic normalisation of `OnSubscribe` -/
def fixTopic (t : Bytes) : Bytes := repSlashes (repHash t)

/-! ## requests -/

inductive Req where
  | connect (username : Bytes) (willFlag willRetain : Bool) (willTopic willMessage : Bytes)
  | subscribe (mid : UInt16) (topic : Bytes) (qos : UInt8)
  | unsubscribe (mid : UInt16) (topic : Bytes)
  | publish (qos : UInt8) (retain : Bool) (mid : UInt16) (topic payload : Bytes)
  | link (mid : UInt16) (name key channel : Bytes) (sub : Bool)
  | presence (mid : UInt16) (key channel : Bytes) (status : Bool) (changes : Option Bool)
  | close
deriving Repr

def ttlOf (retain : Bool) (ch : Channel) : Nat :=
  let t0 : Nat := if retain then Generated.msgRetainedTTL else 0
  match ch.ttl with
  | some t => if t > 0 then (if t > Generated.msgRetainedTTL then Generated.msgRetainedTTL else t.toNat) else t0   -- clamped (D15 repair)
  | none => t0

/-- `SSD.Store`: RetainedTTL ↦ the configured retention -/
def storeMsg (b : B) (m : Stored) : B :=
  { b with store := b.store ++ [{ m with ttl := if m.ttl == Generated.msgRetainedTTL then b.retain else m.ttl }] }

def isShortcut (n : Bytes) : Bool := (n.length == 1 || n.length == 2) && n.all isAlnum

/-- `OnLastWill` -/
def lastWill (auth : Auth) (b : B) (c : Conn) : B × Out :=
  if !c.hasConnect || !c.willFlag then (b, []) else
  let ch := parseChannel c.willTopic
  if ch.ctype != chStatic then (b, []) else
  match auth b.banned ch permWrite with
  | none => (b, [])
  | some g =>
      if g.has permExtend then (b, []) else
      let ssid := g.contract :: ch.query
      let ttl := ttlOf c.willRetain ch          -- same ttl handling as a publish (D15 repair)
      let b := if ttl > 0 && g.has permStore then storeMsg b ⟨ssid, ch.channel, c.willMessage, ttl⟩ else b
      (b, deliver b ssid none (.pub ch.channel c.willMessage))

/-- `Conn.Close()` -/
def closeConn (auth : Auth) (b : B) (c : Conn) : B × Out :=
  let b := { b with open_ := b.open_ - 1 }
  -- unsubscribe every counter
  let (b, out) := c.counters.foldl (fun (acc : B × Out) ctr =>
      match acc.1.conn? c.name with
      | some cur => let r := unsubscribeConn acc.1 cur ctr.ssid ctr.channel; (r.1, acc.2 ++ r.2)
      | none => acc) (b, [])
  let c' := (b.conn? c.name).getD c
  let (b, wout) := lastWill auth b c'
  (b.setConn { c' with alive := false }, out ++ wout)

def step (auth : Auth) (b : B) (name : String) (r : Req) : B × Out :=
  match b.conn? name with
  | none => (b, [])
  | some c =>
  if !c.alive then (b, []) else
  match r with
  | .connect un wf wr wt wm =>
      (b.setConn { c with username := un, hasConnect := true, willFlag := wf, willRetain := wr, willTopic := wt, willMessage := wm },
       [(name, .connack 0)])
  | .subscribe mid topic qos =>
      let ch := parseChannel (fixTopic topic)
      if ch.ctype == chInvalid then (b, [(name, errPkt mid 400), (name, .suback mid [0x80])]) else
      match auth b.banned ch permRead with
      | none => (b, [(name, errPkt mid 401), (name, .suback mid [0x80])])
      | some g =>
          if g.has permExtend then (b, [(name, errPkt mid 401), (name, .suback mid [0x80])]) else
          let ssid := g.contract :: ch.query
          let (b, nout) := subscribeConn b c ssid ch.channel
          let limit : Nat := match ch.last with | some v => v.toNat | none => 1
          let hist := if g.has permLoad then (queryStore b ssid limit).map (fun m => (name, Pkt.pub m.channel m.payload)) else []
          (b, nout ++ hist ++ [(name, .suback mid [qos])])
  | .unsubscribe mid topic =>
      let ch := parseChannel topic
      if ch.ctype == chInvalid then (b, [(name, errPkt mid 400), (name, .unsuback mid)]) else
      match auth b.banned ch permRead with
      | none => (b, [(name, errPkt mid 401), (name, .unsuback mid)])
      | some g =>
          if g.has permExtend then (b, [(name, errPkt mid 401), (name, .unsuback mid)]) else
          let (b, nout) := unsubscribeConn b c (g.contract :: ch.query) ch.channel
          (b, nout ++ [(name, .unsuback mid)])
  | .publish qos retain mid topic payload =>
      let ack : Out := if qos > 0 then [(name, .puback mid)] else []
      let topic := if topic.length ≤ 2 then ((c.links.find? (·.1 == topic)).map (·.2)).getD [] else topic
      let ch := parseChannel topic
      if ch.ctype == chInvalid then (b, [(name, errPkt mid 400)] ++ ack) else
      if ch.ctype != chStatic then (b, [(name, errPkt mid 403)] ++ ack) else
      match auth b.banned ch permWrite with
      | none => (b, [(name, errPkt mid 401)] ++ ack)
      | some g =>
          if g.has permExtend then (b, [(name, errPkt mid 401)] ++ ack) else
          let ssid := g.contract :: ch.query
          let ttl := ttlOf retain ch
          let b := if ttl > 0 && g.has permStore then storeMsg b ⟨ssid, ch.channel, payload, ttl⟩ else b
          let excl := if ch.exclude then some c.key else none
          (b, deliver b ssid excl (.pub ch.channel payload) ++ ack)
  | .link mid nm key channel sub =>
      let topic := emitterTopic "link"
      if !isShortcut nm then (b, [(name, .json topic s!"req={mid},status=400"), (name, .puback mid)]) else
      let ch := parseChannel (key ++ [sep] ++ channel)
      if ch.ctype == chInvalid then (b, [(name, .json topic s!"req={mid},status=400"), (name, .puback mid)]) else
      let c := { c with links := (nm, ch.toBytes) :: c.links.filter (·.1 != nm) }
      let b := b.setConn c
      let (b, nout) := match auth b.banned ch permRead with
        | some g => if sub && !g.has permExtend then subscribeConn b c (g.contract :: ch.query) ch.channel else (b, [])
        | none => (b, [])
      (b, nout ++ [(name, .json topic s!"channel={strOf ch.safeString},name={strOf nm},req={mid},status=200"), (name, .puback mid)])
  | .presence mid key channel status changes =>
      let topic := emitterTopic "presence"
      let channel := if channel.getLast? == some sep then channel else channel ++ [sep]
      let ch := parseChannel (key ++ [sep] ++ channel)
      if ch.ctype == chInvalid then (b, [(name, .json topic s!"req={mid},status=400"), (name, .puback mid)]) else
      match auth b.banned ch permPresence with
      | none => (b, [(name, .json topic s!"req={mid},status=401"), (name, .puback mid)])
      | some g =>
          if g.has permExtend then (b, [(name, .json topic s!"req={mid},status=401"), (name, .puback mid)]) else
          let ssid := g.contract :: ch.query
          let (b, nout) := match changes with
            | some true => subscribeConn b c (presenceSsid ssid) ch.channel
            | some false => unsubscribeConn b ((b.conn? name).getD c) (presenceSsid ssid) ch.channel
            | none => (b, [])
          if status then
            let keys := (b.trie.root.lookup b.mode ssid).eraseDups
            let who := (b.conns.filter (fun x => x.alive && keys.contains x.key)).map (fun x =>
              strOf x.guid ++ (if x.username.isEmpty then "" else "/" ++ strOf x.username))
            let whoS := ";".intercalate (who.toArray.qsort (· < ·)).toList
            (b, nout ++ [(name, .json topic s!"channel={strOf channel},event=status,req={mid},status=200,who=[{whoS}]"), (name, .puback mid)])
          else (b, nout ++ [(name, .json topic s!"channel=,event=,req={mid},status=200,who=[]"), (name, .puback mid)])
  | .close => closeConn auth b c

/-- a new connection is accepted -/
def accept (b : B) (name : String) (guid : Bytes) : B :=
  { b with conns := b.conns ++ [{ name := name, guid := guid }], open_ := b.open_ + 1 }

end Emitter.Broker
