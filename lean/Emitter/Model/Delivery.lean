/-
  Model of the delivery path to one subscriber socket (C10):
    internal/network/listener/conn.go   Conn.Write / enqueue / Len / Flush
    internal/network/websocket          websocketTransport.Write
    internal/broker/conn.go             Conn.Send  (one Write call per packet, no lock of its own)

  A small-step system.  Any number of threads (publisher goroutines, the subscriber's own
  goroutine writing acknowledgements, the 1 s flush timer) share one `listener.Conn`, i.e. a
  write queue (`bytes.Buffer`) and a socket.  The atomic steps are exactly the lock-bracketed
  regions of conn.go (regenerated as facts, see Generated/Locks.lean and Props/C10.lean) plus
  "one `socket.Write` call is atomic":

      Write(p):   Limit()?  --true-->  enqueue(p)                       [Lock .. Unlock]
                            --false--> Len()      [RLock .. RUnlock]
                                         > 0  --> enqueue(p)            [Lock .. Unlock]
                                                  Flush()
                                         = 0  --> socket.Write(p)       [no lock]
      Flush():    Len() = 0 --> return                                  [RLock .. RUnlock]
                  else  Lock; socket.Write(queue); Reset; Unlock        [one region]

  The scheduler (which thread moves) and the rate limiter (the Boolean each `Limit()` call
  returns) are arbitrary: they are the `Action` argument of `step?`.
-/
import Emitter.Model.Base
import Emitter.Model.Mqtt

namespace Emitter.Delivery
open Emitter

abbrev Tid := Nat

/-- where a thread stands inside `Conn.Write` / `Conn.Flush` -/
inductive Pc where
  | idle                 -- not inside a call
  | enq (p : Bytes)      -- `Limit()` said true: about to `enqueue(p)` and return
  | chk (p : Bytes)      -- `Limit()` said false: about to read `Len()`
  | enqf (p : Bytes)     -- saw `Len() > 0`: about to `enqueue(p)`, then call `Flush()`
  | direct (p : Bytes)   -- saw `Len() = 0`: about to `socket.Write(p)`
  | fl                   -- inside `Flush()`: about to read `Len()`
  | flw                  -- inside `Flush()`: saw `Len() > 0`, about to run the locked region
deriving DecidableEq, Repr, Inhabited

structure Thread where
  sent : List Bytes := []   -- packets for which `Write` has been called, in call order
  todo : List Bytes := []   -- the rest of the thread's program
  pc : Pc := .idle
deriving Repr, Inhabited

structure State where
  stream : Bytes := []          -- every byte the socket has accepted so far, in order
  queue : Bytes := []           -- `Conn.writer`
  threads : Tid → Thread

def upd (f : Tid → Thread) (t : Tid) (th : Thread) : Tid → Thread := fun u => if u = t then th else f u

/-- scheduler choice (which thread performs its next atomic step) and limiter verdict -/
inductive Action where
  | call (t : Tid) (limited : Bool)  -- `t` calls `Write` with its next packet; `Limit()` returns `limited`
  | enqueue (t : Tid)                -- the locked region of `enqueue`
  | len (t : Tid)                    -- the read-locked region of `Len`
  | sock (t : Tid)                   -- the direct `socket.Write(p)`
  | flush (t : Tid)                  -- the locked region of `Flush`
  | tick (t : Tid)                   -- an idle thread calls `Flush()` (the periodic timer)
deriving DecidableEq, Repr

/-- one atomic step; `none` when the action is not enabled -/
def step? (s : State) : Action → Option State
  | .call t limited =>
      let th := s.threads t
      match th.pc, th.todo with
      | .idle, p :: rest =>
          let th' : Thread := { sent := th.sent ++ [p], todo := rest, pc := if limited then .enq p else .chk p }
          some { s with threads := upd s.threads t th' }
      | _, _ => none
  | .enqueue t =>
      let th := s.threads t
      match th.pc with
      | .enq p => some { s with queue := s.queue ++ p, threads := upd s.threads t { th with pc := .idle } }
      | .enqf p => some { s with queue := s.queue ++ p, threads := upd s.threads t { th with pc := .fl } }
      | _ => none
  | .len t =>
      let th := s.threads t
      match th.pc with
      | .chk p => some { s with threads := upd s.threads t { th with pc := if s.queue = [] then .direct p else .enqf p } }
      | .fl => some { s with threads := upd s.threads t { th with pc := if s.queue = [] then .idle else .flw } }
      | _ => none
  | .sock t =>
      let th := s.threads t
      match th.pc with
      | .direct p => some { s with stream := s.stream ++ p, threads := upd s.threads t { th with pc := .idle } }
      | _ => none
  | .flush t =>
      let th := s.threads t
      match th.pc with
      | .flw => some { stream := s.stream ++ s.queue, queue := [], threads := upd s.threads t { th with pc := .idle } }
      | _ => none
  | .tick t =>
      let th := s.threads t
      match th.pc with
      | .idle => some { s with threads := upd s.threads t { th with pc := .fl } }
      | _ => none

/-- every thread at the start of its program, nothing written -/
def init (progs : Tid → List Bytes) : State :=
  { threads := fun t => { todo := progs t } }

/-- all states the system can reach: any scheduler, any limiter verdicts, any number of steps -/
inductive Reachable (progs : Tid → List Bytes) : State → Prop where
  | init : Reachable progs (init progs)
  | step {s s' : State} (a : Action) : Reachable progs s → step? s a = some s' → Reachable progs s'

/-- the packet a thread has handed to `Write` that is neither queued nor on the socket yet -/
def inflight (th : Thread) : List Bytes :=
  match th.pc with
  | .enq p | .chk p | .enqf p | .direct p => [p]
  | _ => []

/-! ### packets tagged with the thread that wrote them (the abstraction the invariant talks about) -/

abbrev Item := Tid × Bytes

/-- the bytes a list of whole packets occupies on the wire -/
def flat (l : List Item) : Bytes := (l.map (·.2)).flatten

/-- the packets of thread `t` among `l`, in order of appearance -/
def proj (t : Tid) (l : List Item) : List Bytes := (l.filter (fun x => x.1 == t)).map (·.2)

/-- all threads have returned from all their calls and have nothing left to write -/
def Quiescent (s : State) : Prop := ∀ t, (s.threads t).pc = .idle ∧ (s.threads t).todo = []

/-- one uninterrupted `Flush()` call by thread `t` -/
def flushCall (s : State) (t : Tid) : Option State :=
  (step? s (.tick t)).bind fun s1 =>
  (step? s1 (.len t)).bind fun s2 =>
  match (s2.threads t).pc with
  | .flw => step? s2 (.flush t)
  | _ => some s2

/-! ### the WebSocket transport: `Write` holds the transport mutex from `NextWriter` to `Close`,
so a whole call is one atomic step and every call produces exactly one frame -/

structure WsState where
  frames : List Bytes := []
  threads : Tid → Thread

def wsInit (progs : Tid → List Bytes) : WsState := { threads := fun t => { todo := progs t } }

def wsStep? (s : WsState) (t : Tid) : Option WsState :=
  let th := s.threads t
  match th.todo with
  | p :: rest => some { frames := s.frames ++ [p], threads := upd s.threads t { th with sent := th.sent ++ [p], todo := rest } }
  | [] => none

inductive WsReachable (progs : Tid → List Bytes) : WsState → Prop where
  | init : WsReachable progs (wsInit progs)
  | step {s s' : WsState} (t : Tid) : WsReachable progs s → wsStep? s t = some s' → WsReachable progs s'

/-! ### the subscriber side: split a byte stream into MQTT packets with the codec model's decoder -/

/-- decode packets until the stream is exhausted (`fuel` bounds the number of packets) -/
def decodeAll (max : Nat) : Nat → Bytes → Outcome (List Mqtt.Packet)
  | _, [] => .ok []
  | 0, _ :: _ => .err "fuel"
  | fuel + 1, b :: bs =>
      match Mqtt.decode (b :: bs) max with
      | .ok (p, rest) => (decodeAll max fuel rest).map (p :: ·)
      | .err e => .err e
      | .panic w => .panic w

end Emitter.Delivery
