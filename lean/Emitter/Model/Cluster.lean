/-
  Model of the cluster side of a broker (internal/service/cluster: swarm.go, peer.go,
  memberlist.go; internal/event: state.go, events.go; the callbacks wired in
  internal/broker/service.go: OnSubscribe = pubsub.Subscribe, OnUnsubscribe = pubsub.Unsubscribe,
  OnMessage = onPeerMessage) and of the gossip transport as the property describes it
  (weaveworks/mesh gossip.go `gossipSender`, gossip_channel.go relay of returned deltas,
  periodic and on-connect full-state `Gossip()`, per-link FIFO, links and peers going away).

  The code is transcribed as it is. Branches on which routing provably stops following the
  replicated state raise a named flag (`C05.*`); the theorems of Props/C05.lean are about
  flag-free runs, the flags are the recorded findings.

  `mergeStep` is `Swarm.merge` AFTER the D5 repair (counters are driven by the inactive↔active
  transition of the local state). `mergeLegacy` is the unrepaired function (counters driven by
  the times left in the delta); it is kept for the refutation witnesses only.
-/
import Emitter.Model.Lww
import Emitter.Model.Trie

namespace Emitter.Cluster
open Emitter Emitter.Lww

abbrev PeerName := Nat        -- mesh.PeerName (uint64)
abbrev ConnId := Nat          -- security.ID (uint64), the connection's local id
abbrev Ssid := List UInt32    -- message.Ssid: contract :: hashed channel levels
abbrev Flag := String

/-! ## `event.Subscription.Key()` = peer(8, big endian) ++ conn(8) ++ ssid words (4 each) -/

def be64 (n : Nat) : Bytes :=
  [UInt8.ofNat (n / 72057594037927936), UInt8.ofNat (n / 281474976710656), UInt8.ofNat (n / 1099511627776),
   UInt8.ofNat (n / 4294967296), UInt8.ofNat (n / 16777216), UInt8.ofNat (n / 65536), UInt8.ofNat (n / 256), UInt8.ofNat n]

def rdNat (bs : Bytes) : Nat := bs.foldl (fun acc b => acc * 256 + b.toNat) 0

def ssidBytes : Ssid → Bytes
  | [] => []
  | w :: ws => putBe32 w ++ ssidBytes ws

/-- as many whole 32-bit words as the bytes hold (`(len-16)/4`, trailing bytes ignored) -/
def rdWords : Bytes → Ssid
  | a :: b :: c :: d :: rest => be32 a b c d :: rdWords rest
  | _ => []

def encKey (p : PeerName) (c : ConnId) (σ : Ssid) : Bytes := be64 p ++ be64 c ++ ssidBytes σ

structure SubKey where
  peer : PeerName
  conn : ConnId
  ssid : Ssid
deriving Repr, DecidableEq

/-- `decodeSubscription` on the key: a key shorter than 16 bytes (recovered panic) or without
a single ssid word is an error, the entry is skipped by every iteration -/
def decKey (k : Bytes) : Option SubKey :=
  if k.length < 16 then none
  else if (rdWords (k.drop 16)).isEmpty then none
  else some ⟨rdNat (k.take 8), rdNat ((k.drop 8).take 8), rdWords (k.drop 16)⟩

/-- the entry belongs to peer `p` and carries ssid `σ` -/
def keyIs (k : Bytes) (p : PeerName) (σ : Ssid) : Bool :=
  match decKey k with
  | some sk => sk.peer == p && sk.ssid == σ
  | none => false

def keyPeer (k : Bytes) (p : PeerName) : Bool :=
  match decKey k with
  | some sk => sk.peer == p
  | none => false

/-! ## `message.Counters` as used by `Peer.subs` (keyed by the ssid, after the D1 repair) -/

abbrev Counters := List (Ssid × Nat)

def cget (cs : Counters) (σ : Ssid) : Nat := (cs.lookup σ).getD 0

def cset (cs : Counters) (σ : Ssid) (n : Nat) : Counters := (σ, n) :: cs.filter (fun e => e.1 != σ)

def cdel (cs : Counters) (σ : Ssid) : Counters := cs.filter (fun e => e.1 != σ)

/-- `Increment`: get-or-create, `Counter++`, true iff it is now 1 -/
def cinc (cs : Counters) (σ : Ssid) : Counters × Bool := (cset cs σ (cget cs σ + 1), cget cs σ == 0)

/-- `Decrement`: false when there is no counter; otherwise `Counter--`, the counter is removed
and true returned when it reaches 0 -/
def cdec (cs : Counters) (σ : Ssid) : Counters × Bool :=
  match cs.lookup σ with
  | none => (cs, false)
  | some n => if n ≤ 1 then (cdel cs σ, true) else (cset cs σ (n - 1), false)

/-! ## one broker -/

/-- a `*Peer` object held by the memberlist -/
structure PeerRec where
  /-- `IsActive()`: `activity + 30 > now`; driven by the schedule (touch / expire) -/
  active : Bool := true
  /-- identity of the object: a peer that is removed and created again is a new object, and
  routes that still point to the old object never send (its activity is 0 for ever) -/
  gen : Nat := 0
  subs : Counters := []
deriving Repr

abbrev Members := List (PeerName × PeerRec)

def mget (ms : Members) (p : PeerName) : Option PeerRec := ms.lookup p
def mset (ms : Members) (p : PeerName) (r : PeerRec) : Members :=
  ms.map (fun e => if e.1 == p then (p, r) else e)

/-- a remote entry of the subscription trie: filter, peer name, peer object -/
abbrev Route := Ssid × PeerName × Nat

structure Broker where
  self : PeerName
  /-- subscription subset of the replicated `event.State` -/
  state : Map := []
  members : Members := []
  nextGen : Nat := 0
  /-- the remote (`SubscriberRemote`) part of the trie -/
  routes : List Route := []
  /-- live local subscriptions: the direct (`SubscriberDirect`) part of the trie -/
  locals : List (ConnId × Ssid) := []
deriving Repr

def hasRoute (rs : List Route) (σ : Ssid) (p : PeerName) : Bool := rs.any (fun r => r.1 == σ && r.2.1 == p)

/-- `pubsub.Subscribe(peer, ev)` = `trie.Subscribe(ssid, peer)`: `AddUnique` keeps the object
that is already stored under the peer's id -/
def routeAdd (rs : List Route) (σ : Ssid) (p : PeerName) (g : Nat) : List Route :=
  if hasRoute rs σ p then rs else (σ, p, g) :: rs

/-- `pubsub.Unsubscribe(peer, ev)`: the exact (ssid, id) entry is removed if present -/
def routeDel (rs : List Route) (σ : Ssid) (p : PeerName) : List Route :=
  rs.filter (fun r => !(r.1 == σ && r.2.1 == p))

/-- `State.SubscriptionsOf(peer)`: (conn, ssid) of every ACTIVE entry whose key carries the peer -/
def activeOf (s : Map) (p : PeerName) : List (ConnId × Ssid) :=
  s.filterMap (fun e =>
    if e.2.isAdded then
      match decKey e.1 with
      | some sk => if sk.peer == p then some (sk.conn, sk.ssid) else none
      | none => none
    else none)

/-- number of active entries of peer `p` with ssid `σ` -/
def cnt (s : Map) (p : PeerName) (σ : Ssid) : Nat :=
  (s.filter (fun e => e.2.isAdded && keyIs e.1 p σ)).length

/-- `findPeer`: `members.GetOrAdd`, and `onPeerOnline` for a peer that was created: every active
entry of that peer is put into the trie directly, the peer's counters are not touched.
`before` tells which entries were active before the merge that is being walked: an entry that
was active already will never be counted (flag). -/
def findPeer (b : Broker) (before : Bytes → Bool) (p : PeerName) : Broker × List Flag :=
  match mget b.members p with
  | some _ => (b, [])
  | none =>
      let g := b.nextGen
      let act := activeOf b.state p
      let rs := act.foldl (fun rs e => routeAdd rs e.2 p g) b.routes
      ({ b with members := b.members ++ [(p, { active := true, gen := g, subs := [] })], nextGen := g + 1, routes := rs },
       if b.state.any (fun e => e.2.isAdded && keyPeer e.1 p && before e.1) then ["C05.online-bypasses-counters"] else [])

/-- `peer.onSubscribe(...) && peer.IsActive()` → `OnSubscribe(peer, ev)` -/
def onAdded (b : Broker) (p : PeerName) (σ : Ssid) : Broker × List Flag :=
  match mget b.members p with
  | none => (b, [])
  | some r =>
      let c := cinc r.subs σ
      let b1 := { b with members := mset b.members p { r with subs := c.1 } }
      if c.2 then
        if r.active then ({ b1 with routes := routeAdd b1.routes σ p r.gen }, [])
        else (b1, ["C05.inactive-peer-transition"])
      else (b1, [])

/-- `peer.onUnsubscribe(...) && peer.IsActive()` → `OnUnsubscribe(peer, ev)` -/
def onRemoved (b : Broker) (p : PeerName) (σ : Ssid) : Broker × List Flag :=
  match mget b.members p with
  | none => (b, [])
  | some r =>
      let c := cdec r.subs σ
      let b1 := { b with members := mset b.members p { r with subs := c.1 } }
      if c.2 then
        if r.active then ({ b1 with routes := routeDel b1.routes σ p }, [])
        else (b1, ["C05.inactive-peer-transition"])
      else (b1, [])

/-- the body of the loop of `Swarm.merge` for one entry of the delta (after the D5 repair):
`before` = was the entry active before `state.Merge`, `has b.state k` = is it active now -/
def walkOne (before : Bytes → Bool) (acc : Broker × List Flag) (k : Bytes) : Broker × List Flag :=
  match decKey k with
  | none => acc
  | some sk =>
      if sk.peer == acc.1.self then acc            -- skip ourselves
      else
        let f := findPeer acc.1 before sk.peer
        let bf := before k
        let af := has f.1.state k
        if !bf && af then
          let r := onAdded f.1 sk.peer sk.ssid
          (r.1, acc.2 ++ f.2 ++ r.2)
        else if bf && !af then
          let r := onRemoved f.1 sk.peer sk.ssid
          (r.1, acc.2 ++ f.2 ++ r.2)
        else (f.1, acc.2 ++ f.2)

def walk (before : Bytes → Bool) (b : Broker) (ks : List Bytes) : Broker × List Flag :=
  ks.foldl (walkOne before) (b, [])

structure MergeRes where
  broker : Broker
  /-- what `OnGossip` / `OnGossipBroadcast` return for further propagation (`nil` if nothing was new) -/
  delta : Option Map
  flags : List Flag

/-- `Swarm.merge(buf)` for a payload that carries subscription entries `r` (D5 repaired).
The delta is a Go map: the order in which its entries are walked is not determined; `ord`
stands for that order (the theorems hold for every permutation). -/
def mergeStepOrd (ord : List Bytes → List Bytes) (b : Broker) (r : Map) : MergeRes :=
  let m := Lww.merge b.state r
  let w := walk (fun k => has b.state k) { b with state := m.1 } (ord (m.2.map Prod.fst))
  { broker := w.1, delta := if m.2.isEmpty then none else some m.2, flags := w.2 }

/-- the walk orders the events of the cluster model can name (the order only matters once a
flagged branch has desynchronised a counter; the correspondence run then takes the one that
explains the implementation's answer) -/
inductive WalkOrder where
  | forward | reverse | addsFirst | removesFirst
deriving Repr, DecidableEq

def WalkOrder.apply (o : WalkOrder) (isAdd : Bytes → Bool) (ks : List Bytes) : List Bytes :=
  match o with
  | .forward => ks
  | .reverse => ks.reverse
  | .addsFirst => ks.filter isAdd ++ ks.filter (fun k => !isAdd k)
  | .removesFirst => ks.filter (fun k => !isAdd k) ++ ks.filter isAdd

def mergeStep (o : WalkOrder) (b : Broker) (r : Map) : MergeRes :=
  mergeStepOrd (o.apply (fun k => has (Lww.merge b.state r).1 k && !has b.state k)) b r

/-! ### the unrepaired `Swarm.merge` (defect D5), for the refutation witnesses -/

def walkOneLegacy (acc : Broker × List Flag) (e : Bytes × Val) : Broker × List Flag :=
  match decKey e.1 with
  | none => acc
  | some sk =>
      if sk.peer == acc.1.self then acc
      else
        let f := findPeer acc.1 (fun _ => false) sk.peer
        let a := if e.2.isAdded then onAdded f.1 sk.peer sk.ssid else (f.1, [])
        let r := if e.2.isRemoved then onRemoved a.1 sk.peer sk.ssid else (a.1, [])
        (r.1, acc.2 ++ a.2 ++ r.2)

def mergeLegacy (b : Broker) (r : Map) : MergeRes :=
  let m := Lww.merge b.state r
  let w := m.2.foldl walkOneLegacy ({ b with state := m.1 }, [])
  { broker := w.1, delta := if m.2.isEmpty then none else some m.2, flags := w.2 }

/-! ### `Swarm.Notify(ev, on)` for a subscription of a local connection -/

structure NotifyRes where
  broker : Broker
  /-- the one-operation state object that is broadcast -/
  payload : Map
  flags : List Flag

/-- `pubsub.Subscribe(conn, ev)`: `CanSubscribe` (first subscription of this connection to the
ssid), trie, `NotifySubscribe` → `cluster.Notify(ev, true)` at clock reading `now` -/
def localSub (b : Broker) (c : ConnId) (σ : Ssid) (now : Int) : NotifyRes :=
  if b.locals.contains (c, σ) then { broker := b, payload := [], flags := [] }
  else
    let k := encKey b.self c σ
    let s := Lww.add b.state k now []
    { broker := { b with locals := (c, σ) :: b.locals, state := s },
      payload := [(k, ⟨now, 0, []⟩)],
      flags := if has s k then [] else ["C05.clock-not-advancing"] }

/-- `pubsub.Unsubscribe(conn, ev)`: `CanUnsubscribe`, trie, `cluster.Notify(ev, false)` -/
def localUnsub (b : Broker) (c : ConnId) (σ : Ssid) (now : Int) : NotifyRes :=
  if !b.locals.contains (c, σ) then { broker := b, payload := [], flags := [] }
  else
    let k := encKey b.self c σ
    let s := Lww.del b.state k now
    { broker := { b with locals := b.locals.filter (fun e => e != (c, σ)), state := s },
      payload := [(k, ⟨0, now, []⟩)],
      flags := if has s k then ["C05.clock-not-advancing"] else [] }

/-! ### memberlist activity and garbage collection -/

/-- `members.Touch(p)`: get-or-ADD (without `onPeerOnline`) and mark active -/
def touch (b : Broker) (p : PeerName) : Broker :=
  if p == b.self then b else
  match mget b.members p with
  | some r => { b with members := mset b.members p { r with active := true } }
  | none => { b with members := b.members ++ [(p, { active := true, gen := b.nextGen, subs := [] })], nextGen := b.nextGen + 1 }

/-- more than 30 s without `Touch` -/
def expire (b : Broker) (p : PeerName) : Broker :=
  match mget b.members p with
  | some r => { b with members := mset b.members p { r with active := false } }
  | none => b

/-- `onPeerOffline(p)` (mesh garbage-collected the peer). For every active entry of `p`:
`OnUnsubscribe(deadPeer, ev)` removes the route — and `NotifyUnsubscribe` overwrites `ev.Peer`
with the LOCAL broker's name, so the following `state.Del(ev)` stamps a remove, at the local
clock, on the key (self, conn, ssid). The entries of `p` stay active in the state. -/
def offline (b : Broker) (p : PeerName) (now : Int) : Broker × List Flag :=
  match mget b.members p with
  | none => (b, [])
  | some _ =>
      let act := activeOf b.state p
      let b1 := { b with members := b.members.filter (fun e => e.1 != p) }
      let b2 := act.foldl (fun (x : Broker) e =>
          { x with routes := routeDel x.routes e.2 p, state := Lww.del x.state (encKey x.self e.1 e.2) now }) b1
      (b2,
       (if act.isEmpty then [] else ["C05.offline-local-delete"]) ++
       (if act.any (fun e => b.locals.contains e) then ["C05.offline-deletes-own-key"] else []))

/-! ### publishing -/

/-- the peer object a route points to is the live member object and it is active (`Peer.Send`
queues only `if p.IsActive()`) -/
def sendable (b : Broker) (r : Route) : Bool :=
  match mget b.members r.2.1 with
  | some m => m.active && m.gen == r.2.2
  | none => false

/-- `pubsub.Publish`: the remote peers a message with ssid `q` is queued for -/
def forwardTo (mode : Trie.Mode) (b : Broker) (q : Ssid) : List PeerName :=
  ((b.routes.filter (fun r => Trie.matchesMode mode r.1 q && sendable b r)).map (fun r => r.2.1)).eraseDups

/-- local direct subscribers a message with ssid `q` is written to (each once): on the
publishing broker by `pubsub.Publish`, on a receiving broker by `onPeerMessage`, which filters
on `SubscriberDirect` and therefore never forwards again -/
def localTo (mode : Trie.Mode) (b : Broker) (q : Ssid) : List ConnId :=
  ((b.locals.filter (fun e => Trie.matchesMode mode e.2 q)).map Prod.fst).eraseDups

/-! ## the transport -/

/-- what is queued in a bucket of a `gossipSender` (after the D4 repair: a payload object whose
`Merge` returns the union of COPIES of both payloads). `complete` is the payload `Gossip()` hands
out: it wraps the live state, so it is encoded as the state is when it is picked — unless it is
merged with something first, which copies the state as it is at that moment. -/
inductive Pending where
  | complete
  | data (m : Map)
deriving Repr

/-- the content of a payload when it is copied / encoded while the sender's state is `cur` -/
def Pending.payload (cur : Map) : Pending → Map
  | .complete => cur
  | .data m => m

/-- `payload.Merge(other)` at a sender whose state is `cur` -/
def Pending.merge (cur : Map) (p o : Pending) : Pending :=
  .data (Lww.merge (p.payload cur) (o.payload cur)).1

/-- an encoded protocol message on a connection -/
inductive Wire where
  | gossip (m : Map)
  | bcast (src : PeerName) (m : Map)
deriving Repr

/-- one direction of a mesh connection: the `gossipSender` buckets and the bytes in flight -/
structure Link where
  up : Bool := true
  gossip : Option Pending := none
  bcasts : List (PeerName × Map) := []
  wire : List Wire := []
deriving Repr

/-- `gossipSender.Send` (at a sender whose state is `cur`) -/
def Link.send (l : Link) (cur : Map) (d : Pending) : Link :=
  if !l.up then l else
  { l with gossip := some (match l.gossip with | none => d | some g => g.merge cur d) }

/-- `gossipSender.Broadcast(src, data)` -/
def Link.broadcast (l : Link) (src : PeerName) (m : Map) : Link :=
  if !l.up then l else
  match l.bcasts.lookup src with
  | none => { l with bcasts := l.bcasts ++ [(src, m)] }
  | some old => { l with bcasts := l.bcasts.map (fun e => if e.1 == src then (src, (Lww.merge old m).1) else e) }

structure Cluster where
  mode : Trie.Mode := .emitter
  brokers : List Broker := []
  links : List ((PeerName × PeerName) × Link) := []
deriving Repr

def Cluster.broker? (c : Cluster) (p : PeerName) : Option Broker := c.brokers.find? (fun b => b.self == p)
def Cluster.setBroker (c : Cluster) (b : Broker) : Cluster :=
  { c with brokers := c.brokers.map (fun x => if x.self == b.self then b else x) }
def Cluster.link (c : Cluster) (a b : PeerName) : Link := (c.links.lookup (a, b)).getD { up := false }
def Cluster.setLink (c : Cluster) (a b : PeerName) (l : Link) : Cluster :=
  { c with links := c.links.map (fun e => if e.1 == (a, b) then ((a, b), l) else e) }

/-- brokers 1..n, fully meshed, every link up and empty -/
def Cluster.init (mode : Trie.Mode) (n : Nat) : Cluster :=
  let names := (List.range n).map (· + 1)
  { mode := mode,
    brokers := names.map (fun p => { self := p }),
    links := (names.flatMap (fun a => names.filterMap (fun b => if a == b then none else some ((a, b), ({} : Link))))) }

def Cluster.neighbours (c : Cluster) (a : PeerName) : List PeerName :=
  c.links.filterMap (fun e => if e.1.1 == a && e.2.up then some e.1.2 else none)

/-- `GossipBroadcast(update)` at `a`: the same update is queued on every connection -/
def Cluster.broadcastFrom (c : Cluster) (a : PeerName) (src : PeerName) (m : Map) (to : List PeerName) : Cluster :=
  to.foldl (fun c x => c.setLink a x ((c.link a x).broadcast src m)) c

def Cluster.stateOf (c : Cluster) (a : PeerName) : Map := ((c.broker? a).map (·.state)).getD []

def Cluster.sendFrom (c : Cluster) (a : PeerName) (d : Pending) (to : List PeerName) : Cluster :=
  to.foldl (fun c x => c.setLink a x ((c.link a x).send (c.stateOf a) d)) c

inductive Ev where
  | sub (b : PeerName) (c : ConnId) (σ : Ssid) (now : Int)
  | unsub (b : PeerName) (c : ConnId) (σ : Ssid) (now : Int)
  /-- the connection ends: `Conn.Close()` unsubscribes everything it holds -/
  | close (b : PeerName) (c : ConnId) (now : Int)
  /-- `gossipSender.pick` on link a→b: the gossip bucket if it is filled, else the broadcast
  bucket of `src`; the payload is encoded now and put on the connection -/
  | pick (a b : PeerName) (src : PeerName)
  /-- the head message of connection a→b reaches `b`; the returned delta is relayed to `relay`
  (a subset of b's other neighbours, chosen by the schedule); `keep` = the message is delivered
  again later (duplicate); `rev` = the order in which the delta (a Go map) is walked -/
  | deliver (a b : PeerName) (relay : List PeerName) (keep : Bool) (rev : WalkOrder)
  /-- periodic `Gossip()` on link a→b -/
  | gossip (a b : PeerName)
  | linkDown (a b : PeerName)
  | linkUp (a b : PeerName)
  | touch (b p : PeerName)
  | expire (b p : PeerName)
  | offline (b p : PeerName) (now : Int)
deriving Repr

structure Res where
  flags : List Flag := []
  delta : Option Map := none
  picked : Option Wire := none
deriving Repr

/-- apply a `Notify` result at broker `a`: broadcast to every neighbour -/
def Cluster.applyNotify (c : Cluster) (a : PeerName) (r : NotifyRes) : Cluster :=
  let c := c.setBroker r.broker
  if r.payload.isEmpty then c else c.broadcastFrom a a r.payload (c.neighbours a)

def closeConn (b : Broker) (c : ConnId) (now : Int) : List NotifyRes → Broker × List NotifyRes
  | acc => ((b.locals.filter (fun e => e.1 == c)).foldl (fun (st : Broker × List NotifyRes) e =>
      let r := localUnsub st.1 c e.2 now
      (r.broker, st.2 ++ [r])) (b, acc))

def Cluster.step (c : Cluster) : Ev → Cluster × Res
  | .sub a cn σ now =>
      match c.broker? a with
      | none => (c, {})
      | some b => let r := localSub b cn σ now; (c.applyNotify a r, { flags := r.flags })
  | .unsub a cn σ now =>
      match c.broker? a with
      | none => (c, {})
      | some b => let r := localUnsub b cn σ now; (c.applyNotify a r, { flags := r.flags })
  | .close a cn now =>
      match c.broker? a with
      | none => (c, {})
      | some b =>
          let rs := closeConn b cn now []
          (rs.2.foldl (fun c r => c.applyNotify a r) c, { flags := rs.2.flatMap (·.flags) })
  | .pick a b src =>
      let l := c.link a b
      if !l.up then (c, {}) else
      match l.gossip with
      | some g =>
          let m := g.payload (c.stateOf a)
          (c.setLink a b { l with gossip := none, wire := l.wire ++ [.gossip m] }, { picked := some (.gossip m) })
      | none =>
          match l.bcasts.lookup src with
          | some m =>
              (c.setLink a b { l with bcasts := l.bcasts.filter (fun e => e.1 != src), wire := l.wire ++ [.bcast src m] },
               { picked := some (.bcast src m) })
          | none => (c, {})
  | .deliver a b relay keep rev =>
      let l := c.link a b
      match l.wire, c.broker? b with
      | w :: rest, some br =>
          let c := if keep then c else c.setLink a b { l with wire := rest }
          let to := relay.filter (fun x => x != a && x != b && (c.link b x).up)
          match w with
          | .gossip m =>
              let r := mergeStep rev br m
              let c := c.setBroker r.broker
              let c := match r.delta with
                | some d => c.sendFrom b (.data d) to
                | none => c
              (c, { flags := r.flags, delta := r.delta })
          | .bcast src m =>
              if src == b then (c, {}) else
              let r := mergeStep rev br m
              let c := c.setBroker r.broker
              let c := match r.delta with
                | some d => c.broadcastFrom b src d (to.filter (· != src))
                | none => c
              (c, { flags := r.flags, delta := r.delta })
      | _, _ => (c, {})
  | .gossip a b => (c.setLink a b ((c.link a b).send (c.stateOf a) .complete), {})
  | .linkDown a b =>
      let c := c.setLink a b { up := false }
      (c.setLink b a { up := false }, {})
  | .linkUp a b =>
      if (c.link a b).up || a == b || (c.broker? a).isNone || (c.broker? b).isNone then (c, {}) else
      -- a new connection: both ends send their complete state down it (`sendAllGossipDown`)
      let c := c.setLink a b { up := true, gossip := some .complete }
      (c.setLink b a { up := true, gossip := some .complete }, {})
  | .touch b p =>
      match c.broker? b with
      | some br => (c.setBroker (touch br p), {})
      | none => (c, {})
  | .expire b p =>
      match c.broker? b with
      | some br => (c.setBroker (expire br p), {})
      | none => (c, {})
  | .offline b p now =>
      match c.broker? b with
      | some br => let r := offline br p now; (c.setBroker r.1, { flags := r.2 })
      | none => (c, {})

/-- a run: the cluster after the events, and every flag raised on the way -/
def Cluster.run (c : Cluster) (evs : List Ev) : Cluster × List Flag :=
  evs.foldl (fun acc e => let r := acc.1.step e; (r.1, acc.2 ++ r.2.flags)) (c, [])

/-! ### a publish (no state change) -/

structure PubRes where
  /-- brokers the message is forwarded to -/
  fwd : List PeerName
  /-- (broker, connection) pairs the message is written to -/
  got : List (PeerName × ConnId)
deriving Repr

def Cluster.publish (c : Cluster) (a : PeerName) (q : Ssid) : PubRes :=
  match c.broker? a with
  | none => { fwd := [], got := [] }
  | some b =>
      let fwd := forwardTo c.mode b q
      let here := (localTo c.mode b q).map (fun cn => (a, cn))
      -- the frame travels over the direct connection (`GossipUnicast`); a peer that cannot be
      -- reached is an error that is logged and dropped
      let there := fwd.flatMap (fun x =>
        if (c.link a x).up then
          match c.broker? x with
          | some bx => (localTo c.mode bx q).map (fun cn => (x, cn))
          | none => []
        else [])
      { fwd := fwd, got := here ++ there }

end Emitter.Cluster
