/-
  Model of internal/security/license (license.go, v1.go; v2.go/v3.go up to the external
  snappy + kelindar/binary body codec, which is a parameter).
-/
import Emitter.Model.Cipher
import Emitter.Generated.License

namespace Emitter.License
open Emitter Emitter.Cipher

/-- encoding/base64 `RawURLEncoding.DecodeString`: '\r' and '\n' are skipped, no padding
accepted, trailing bits not checked (non-strict). -/
def stdDecode (s : Bytes) : Outcome Bytes :=
  decodeKeyAux (s.filter (fun c => c != 13 && c != 10)) 0

def timeOffset : Int := Generated.licenseTimeOffset

structure V1 where
  encKey : Bytes      -- the 16 raw bytes behind `EncryptionKey`
  user : UInt32
  sign : UInt32
  expires : Int       -- unix seconds
  type : UInt32
deriving Repr, DecidableEq

/-- body of a v2 / v3 license -/
structure V23 where
  version : Nat
  encKey : Bytes
  encSalt : Bytes
  user : UInt32
  sign : UInt32
  index : UInt32
deriving Repr, DecidableEq

inductive License where
  | v1 (l : V1)
  | v23 (l : V23)
deriving Repr, DecidableEq

def hasSuffix (s suf : Bytes) : Bool := s.length ≥ suf.length && s.drop (s.length - suf.length) == suf

/-- `parseV1` (with the length check of the D13 repair: a body shorter than 32 bytes is an
error; before the repair it was an out-of-range slice, i.e. a panic). -/
def parseV1 (data : Bytes) : Outcome V1 :=
  match stdDecode data with
  | .err e => .err e
  | .panic w => .panic w
  | .ok raw =>
    if raw.length < 32 then .err "license-length" else
    let g (i : Nat) : UInt8 := raw.getD i 0
    let e : Int := (be32 (g 24) (g 25) (g 26) (g 27)).toNat
    let expiry := if e > 0 then timeOffset + e else e
    .ok { encKey := raw.take 16
          user := be32 (g 16) (g 17) (g 18) (g 19)
          sign := be32 (g 20) (g 21) (g 22) (g 23)
          expires := expiry
          type := be32 (g 28) (g 29) (g 30) (g 31) }

/-- `V1.String` -/
def V1.toString (l : V1) : Bytes :=
  let expiry : Int := if l.expires > 0 then l.expires - timeOffset else l.expires
  let e32 : UInt32 := UInt32.ofNat (expiry % 4294967296).toNat
  let key16 := (l.encKey ++ List.replicate 16 0).take 16
  b64Encode (key16 ++ putBe32 l.user ++ putBe32 l.sign ++ putBe32 e32 ++ putBe32 l.type) ++ [58, 49]   -- ":1"

/-- `Parse`; `body v raw` is the external snappy+binary decoder for version `v`. -/
def parseInner (body : Nat → Bytes → Outcome V23) (data : Bytes) : Outcome License :=
  if data.length < 5 then .err "no-license" else
  let pre := data.take (data.length - 2)
  if hasSuffix data [58, 49] then (parseV1 pre).map .v1
  else if hasSuffix data [58, 50] then
    match stdDecode pre with
    | .ok raw => (body 2 raw).map .v23
    | .err e => .err e
    | .panic w => .panic w
  else if hasSuffix data [58, 51] then
    match stdDecode pre with
    | .ok raw => (body 3 raw).map .v23
    | .err e => .err e
    | .panic w => .panic w
  else (parseV1 data).map .v1

/-- `Parse` after the D13 repair: a deferred `recover` turns a panic of the external body
decoder into an error. -/
def parse (body : Nat → Bytes → Outcome V23) (data : Bytes) : Outcome License :=
  match parseInner body data with
  | .panic _ => .err "recovered"
  | r => r

/-- `NewXtea(EncryptionKey)` on the 16 key bytes -/
def xteaKeyOf (k : Bytes) : XteaKey :=
  let g (i : Nat) : UInt8 := k.getD i 0
  { k0 := be32 (g 0) (g 1) (g 2) (g 3), k1 := be32 (g 4) (g 5) (g 6) (g 7),
    k2 := be32 (g 8) (g 9) (g 10) (g 11), k3 := be32 (g 12) (g 13) (g 14) (g 15) }

/-- `License.Cipher()` -/
def cipherOf : License → Outcome CipherSpec
  | .v1 l => if l.encKey.length != 16 then .err "xtea-key" else .ok (.xtea (xteaKeyOf l.encKey))
  | .v23 l =>
      if l.version == 2 then
        if l.encKey.length != 32 || l.encSalt.length != 24 then .err "salsa-key" else .ok (.salsa l.encKey l.encSalt)
      else
        if l.encKey.length != 32 || l.encSalt.length != 16 then .err "shuffle-key" else .ok (.shuffle l.encKey l.encSalt)

def License.contract : License → UInt32
  | .v1 l => l.user
  | .v23 l => l.user
def License.signature : License → UInt32
  | .v1 l => l.sign
  | .v23 l => l.sign
def License.master : License → UInt32
  | .v1 _ => 1
  | .v23 l => l.index

end Emitter.License
