/-
  Model for C09 (hostile or malformed input cannot take the broker down).

  What is transcribed, with every Go panic kept as `Outcome.panic` and every allocation whose
  size comes from the input returned as a number:

  * the resource side of `mqtt.DecodePacket` (the packet grammar itself is Model/Mqtt.lean);
  * `Conn.Process` / `Conn.Close` as a containment wrapper over an arbitrary handler outcome,
    parameterised by the regenerated shape facts (`Process` defers `Close`, `Close` recovers);
  * kelindar/binary's `sliceReader` (`ReadUvarint`, `Slice` with its int / int64 wrap-around),
    the replicated-state layout (`map[uint8]Volatile`, `codecVolatile`) and the frame layout
    (`reflectSliceCodec` over `messageCodec`) below snappy, the snappy preamble above it;
  * `Swarm.OnGossip / OnGossipBroadcast / OnGossipUnicast` with `State.Merge` against an empty
    state, the walk over the delta, `onPeerMessage` (`ID.Ssid`, `ID.Contract`) and the survey
    dispatch — as far as they can panic;
  * the result buffer and the loop of `SSD.lookup`.

  The model is of the REPAIRED code (D10 refined, D11, D18): value-length validation and error
  propagation in `codecVolatile.DecodeTo`, recover in `decodeSubscription/decodeConnection` and in
  the three swarm callbacks, capped preallocation in `lookup`, announced-size checks in
  `DecodeFrame` / `DecodeBlock`. Whether the recovers are really there is NOT assumed: it is
  read from the regenerated facts, and without them the model answers `fatal`.
-/
import Emitter.Model.Base
import Emitter.Model.Mqtt
import Emitter.Generated.Facts

namespace Emitter.Hostile
open Emitter

/-! ## what the broker does with one input -/

/-- `served`: handled (accepted or answered with an error packet); `rejected`: the payload /
packet is refused with an error return; `closed`: the offending connection is closed;
`fatal`: the process exits (panic on a goroutine without recover). -/
inductive Verdict where
  | served | rejected | closed | fatal
deriving Repr, DecidableEq

/-- regenerated shape facts (harness/gofacts, go/ast) -/
structure Facts where
  processDefersClose : Bool
  closeRecovers : Bool
  onGossipRecovers : Bool
  onBroadcastRecovers : Bool
  onUnicastRecovers : Bool
deriving Repr, DecidableEq

def facts : Facts :=
  { processDefersClose := Generated.factProcessDefersClose == 1
    closeRecovers := Generated.factCloseRecovers == 1
    onGossipRecovers := Generated.factOnGossipRecovers == 1
    onBroadcastRecovers := Generated.factOnBroadcastRecovers == 1
    onUnicastRecovers := Generated.factOnUnicastRecovers == 1 }

/-- every recover the property relies on is present -/
def Facts.sound (f : Facts) : Bool :=
  f.processDefersClose && f.closeRecovers && f.onGossipRecovers && f.onBroadcastRecovers && f.onUnicastRecovers

/-! ## client port: DecodePacket resources, Conn.Process containment -/

def isPingType (ty : UInt8) : Bool :=
  ty == Mqtt.tyPingreq || ty == Mqtt.tyPingresp || ty == Mqtt.tyDisconnect

/-- `buffer := make([]byte, sizeOf)` in `DecodePacket`: the only allocation sized by the input.
It happens after the size check and before the body bytes have arrived. -/
def mqttAlloc (stream : Bytes) (max : Nat) : Nat :=
  match stream with
  | [] => 0
  | first :: rest =>
      match Mqtt.decodeLen rest 1 0 with
      | .ok (len, _) =>
          if isPingType ((first &&& 0xf0) >>> 4) then 0
          else if len.toNat > max then 0 else len.toNat
      | _ => 0

/-- what `Conn.Process` makes of one round of `DecodePacket` + `onReceive` whose outcome is `o`:
it loops on success, returns the error (the deferred `Close` closes the socket), and a panic
anywhere below unwinds into the deferred `Close`, whose `recover()` stops it — provided both
are really there. -/
def connFate (f : Facts) {α} : Outcome α → Verdict
  | .ok _ => .served
  | .err _ => .closed
  | .panic _ => if f.processDefersClose && f.closeRecovers then .closed else .fatal

/-- per-connection state as far as other connections can see it -/
structure ConnSt where
  alive : Bool
  subs : List (List UInt32)
deriving Repr, DecidableEq

structure Broker where
  conns : List (Nat × ConnSt)
  down : Bool := false
deriving Repr

def Broker.get (b : Broker) (c : Nat) : Option ConnSt := (b.conns.find? (·.1 == c)).map (·.2)

def closeConn (c : Nat) : List (Nat × ConnSt) → List (Nat × ConnSt)
  | [] => []
  | (k, s) :: rest => if k == c then (k, { alive := false, subs := [] }) :: closeConn c rest else (k, s) :: closeConn c rest

/-- one round on connection `c` whose decode+handle outcome is `o` -/
def Broker.step (f : Facts) (b : Broker) (c : Nat) (o : Outcome Unit) : Broker :=
  if b.down then b else
  match connFate f o with
  | .served | .rejected => b
  | .closed => { b with conns := closeConn c b.conns }
  | .fatal => { b with down := true }

def Broker.run (f : Facts) (b : Broker) : List (Nat × Outcome Unit) → Broker
  | [] => b
  | (c, o) :: rest => (b.step f c o).run f rest

/-- a byte stream on one connection: the decode outcomes until the first failure (handlers
are abstract: they are covered by `connFate` for an arbitrary outcome). `fuel` = stream length. -/
def streamFate (f : Facts) (max : Nat) : Nat → Bytes → Verdict
  | 0, _ => .served
  | fuel + 1, s =>
      if s.isEmpty then .closed       -- EOF: Process returns io.EOF
      else match Mqtt.decode s max with
        | .ok (_, rest) => if rest.length < s.length then streamFate f max fuel rest else .served
        | o => connFate f o

/-! ## kelindar/binary sliceReader -/

def two63 : Nat := 9223372036854775808

/-- `sliceReader.ReadUvarint`: the value (or `none` for EOF / overflow) and, in every case, the
unread rest. At most ten bytes are read; ten continuation bytes or a tenth byte above 1 overflow. -/
def uvar : Nat → Bytes → Nat → Nat → Option Nat × Bytes
  | 0, bs, _, _ => (none, bs)
  | _ + 1, [], _, _ => (none, [])
  | fuel + 1, b :: rest, shift, acc =>
      if b < 0x80 then
        if shift == 63 && b > 1 then (none, rest) else (some (acc + b.toNat * 2 ^ shift), rest)
      else uvar fuel rest (shift + 7) (acc + (b.toNat - 128) * 2 ^ shift)

def readUvar (bs : Bytes) : Option Nat × Bytes := uvar 10 bs 0 0

/-- `sliceReader.Slice(int(l))` with `rest` unread out of `total` bytes. `int(l)` is negative
for l ≥ 2^63 and `offset + n` wraps for offset + l ≥ 2^63: both pass the bounds check and make
the slice expression panic. -/
def slice (total l : Nat) (rest : Bytes) : Outcome (Bytes × Bytes) :=
  if l ≥ two63 then .panic "slice bounds out of range"
  else if (total - rest.length) + l ≥ two63 then .panic "slice bounds out of range"
  else if l > rest.length then .err "eof"
  else .ok (rest.take l, rest.drop l)

/-- `Decoder.ReadSlice`: uvarint length, then `Slice` (also for length 0) -/
def readSlice (total : Nat) (bs : Bytes) : Outcome (Bytes × Bytes) :=
  match readUvar bs with
  | (some l, rest) => slice total l rest
  | (none, _) => .err "uvarint"

/-- `readBytes` of message/codec.go: `Slice` only for a positive length -/
def readBytes (total : Nat) (bs : Bytes) : Outcome (Bytes × Bytes) :=
  match readUvar bs with
  | (some l, rest) => if l == 0 then .ok ([], rest) else slice total l rest
  | (none, _) => .err "uvarint"

/-- `for i := 0; i < int(n); i++`: a count ≥ 2^63 is a negative int -/
def loopCount (n : Nat) : Nat := if n ≥ two63 then 0 else n

/-! ## snappy preamble (`DecodeBlock`, D18) -/

/-- `snappy.DecodedLen`: uvarint, at most 2^32-1 -/
def decodedLen (raw : Bytes) : Option Nat :=
  match readUvar raw with
  | (some n, _) => if n > 4294967295 then none else some n
  | (none, _) => none

/-- the buffer `snappy.Decode(nil, …)` allocates: the announced size, which `DecodeBlock` refuses
when it exceeds 32× the input (a snappy block expands at most 64 bytes per 3) -/
def blockAlloc (raw : Bytes) : Nat :=
  match decodedLen raw with
  | some n => if n > 32 * raw.length then 0 else n
  | none => 0

/-- does the preamble pass (`none` = refused before anything is allocated) -/
def blockAdmits (raw : Bytes) : Bool :=
  match decodedLen raw with
  | some n => !(n > 32 * raw.length)
  | none => false

/-! ## replicated state below snappy -/

abbrev Entry := Bytes × Bytes

/-- the entry loop of `codecVolatile.DecodeTo` (repaired: errors are returned, a value
shorter than the two times is refused) -/
def decodeEntries (total : Nat) : Nat → Bytes → Outcome (List Entry × Bytes)
  | 0, bs => .ok ([], bs)
  | n + 1, bs =>
      match readSlice total bs with
      | .ok (k, bs) =>
          match readSlice total bs with
          | .ok (v, bs) =>
              if v.length < 16 then .err "malformed value" else
              match decodeEntries total n bs with
              | .ok (es, bs) => .ok ((k, v) :: es, bs)
              | .err e => .err e
              | .panic w => .panic w
          | .err e => .err e
          | .panic w => .panic w
      | .err e => .err e
      | .panic w => .panic w

def decodeSet (total : Nat) (bs : Bytes) : Outcome (List Entry × Bytes) :=
  match readUvar bs with
  | (some size, rest) => decodeEntries total (loopCount size) rest
  | (none, _) => .err "uvarint"

/-- the loop of `reflectMapCodec.DecodeTo` for `map[uint8]Volatile`: uvarint key (truncated to a
byte by `SetUint`), then the set -/
def decodeSets (total : Nat) : Nat → Bytes → Outcome (List (Nat × List Entry))
  | 0, _ => .ok []
  | n + 1, bs =>
      match readUvar bs with
      | (some typ, rest) =>
          match decodeSet total rest with
          | .ok (es, bs) =>
              match decodeSets total n bs with
              | .ok r => .ok ((typ % 256, es) :: r)
              | .err e => .err e
              | .panic w => .panic w
          | .err e => .err e
          | .panic w => .panic w
      | (none, _) => .err "uvarint"

/-- `binary.Unmarshal(inner, &decoded)` in `DecodeState` (trailing bytes are ignored) -/
def decodeState (inner : Bytes) : Outcome (List (Nat × List Entry)) :=
  match readUvar inner with
  | (some l, rest) => decodeSets inner.length (loopCount l) rest
  | (none, _) => .err "uvarint"

/-! ## merge into an empty state, walk over the delta -/

def be64 (bs : Bytes) : Nat := bs.foldl (fun a b => a * 256 + b.toNat) 0

/-- `Value.AddTime` / `DelTime`: `v[0:8]`, `v[8:16]` — a shorter value panics -/
def times (v : Bytes) : Outcome (Nat × Nat) :=
  if v.length < 16 then .panic "slice bounds out of range"
  else .ok (be64 (v.take 8), be64 ((v.drop 8).take 8))

/-- positive as an int64 -/
def posI64 (n : Nat) : Bool := 0 < n && n < two63

/-- Go map semantics of `out.data[k] = v`: a later entry replaces an earlier one -/
def putEntry (k v : Bytes) : List Entry → List Entry
  | [] => [(k, v)]
  | (k', v') :: rest => if k' == k then (k, v) :: rest else (k', v') :: putEntry k v rest

def asMap (es : List Entry) : List Entry := es.foldl (fun m e => putEntry e.1 e.2 m) []

/-- `Volatile.Merge` / `Durable.Merge` of a decoded set into an empty one: the number of entries
left in the delta (those with a positive add or remove time). Reading the times of a value
shorter than 16 bytes panics. -/
def mergeFresh : List Entry → Outcome Nat
  | [] => .ok 0
  | (_, v) :: rest =>
      match times v with
      | .ok (a, d) =>
          match mergeFresh rest with
          | .ok n => .ok (if posI64 a || posI64 d then n + 1 else n)
          | .err e => .err e
          | .panic w => .panic w
      | .err e => .err e
      | .panic w => .panic w

/-- the set the state keeps for type `t`: the last decoded one (map assignment), else empty -/
def setOf (t : Nat) (sets : List (Nat × List Entry)) : List Entry :=
  match (sets.reverse.find? (·.1 == t)) with
  | some (_, es) => asMap es
  | none => []

/-- `State.Merge` over the three subsets (sub = 0, ban = 1, conn = 2); the walk over the
subscription delta cannot panic after the repair (`decodeSubscription` recovers) -/
def mergeState (sets : List (Nat × List Entry)) : Outcome Nat :=
  match mergeFresh (setOf 0 sets), mergeFresh (setOf 1 sets), mergeFresh (setOf 2 sets) with
  | .ok a, .ok b, .ok c => .ok (a + b + c)
  | .panic w, _, _ => .panic w
  | _, .panic w, _ => .panic w
  | _, _, .panic w => .panic w
  | _, _, _ => .err "merge"

/-- `Swarm.merge(buf)` below the snappy stage -/
def mergeInner (inner : Bytes) : Outcome Nat :=
  match decodeState inner with
  | .ok sets => mergeState sets
  | .err e => .err e
  | .panic w => .panic w

/-- a gossip callback runs on a mesh goroutine: an error is a rejected payload, a panic is
stopped by the deferred recover of the callback when it is there and ends the process when not -/
def contain (recovers : Bool) {α} : Outcome α → Verdict
  | .ok _ => .served
  | .err _ => .rejected
  | .panic _ => if recovers then .rejected else .fatal

/-! ## frames below snappy, OnGossipUnicast -/

structure WMsg where
  id : Bytes
  channel : Bytes
  payload : Bytes
deriving Repr, DecidableEq

def zeroMsg : WMsg := { id := [], channel := [], payload := [] }

/-- `messageCodec.DecodeTo`. The TTL read shadows `err`: when it fails the element stays the zero
message and NO error is returned; the reader has consumed what `ReadUvarint` consumed. -/
def decodeMsg (total : Nat) (bs : Bytes) : Outcome (WMsg × Bytes) :=
  match readBytes total bs with
  | .ok (id, bs1) =>
      match readBytes total bs1 with
      | .ok (ch, bs2) =>
          match readBytes total bs2 with
          | .ok (pl, bs3) =>
              match readUvar bs3 with
              | (some _, bs4) =>
                  .ok ({ id := id, channel := ch, payload := pl }, bs4)
              | (none, bs4) => .ok (zeroMsg, bs4)
          | .err e => .err e
          | .panic w => .panic w
      | .err e => .err e
      | .panic w => .panic w
  | .err e => .err e
  | .panic w => .panic w

def decodeMsgs (total : Nat) : Nat → Bytes → Outcome (List WMsg)
  | 0, _ => .ok []
  | n + 1, bs =>
      match decodeMsg total bs with
      | .ok (m, rest) =>
          match decodeMsgs total n rest with
          | .ok ms => .ok (m :: ms)
          | .err e => .err e
          | .panic w => .panic w
      | .err e => .err e
      | .panic w => .panic w

/-- bytes of one `message.Message` value (three slice headers and the TTL) -/
def msgStruct : Nat := 80

/-- the announced element count of a frame, when `DecodeFrame` lets it size the slice
(repaired: a count above a third of the buffer is refused) -/
def frameCount (inner : Bytes) : Option Nat :=
  match readUvar inner with
  | (some l, _) => if l > inner.length / 3 then none else some l
  | (none, _) => none

/-- `reflect.MakeSlice(l)` in `reflectSliceCodec.DecodeTo` -/
def frameAlloc (inner : Bytes) : Nat :=
  match frameCount inner with
  | some l => msgStruct * l
  | none => 0

/-- `DecodeFrame` below snappy -/
def decodeFrame (inner : Bytes) : Outcome (List WMsg) :=
  match readUvar inner with
  | (some l, rest) =>
      if l > inner.length / 3 then .err "malformed frame"
      else if l == 0 then .ok []
      else decodeMsgs inner.length l rest
  | (none, _) => .err "uvarint"

def be32at (bs : Bytes) (i : Nat) : UInt32 :=
  be32 (bs.getD i 0) (bs.getD (i + 1) 0) (bs.getD (i + 2) 0) (bs.getD (i + 3) 0)

def ssidWords (id : Bytes) : Nat → Nat → List UInt32
  | 0, _ => []
  | n + 1, i => be32at id i :: ssidWords id n (i + 4)

def idFixed : Nat := 16
/-- the smallest well-formed message id: fixed part + contract + one channel level -/
def minMessageID : Nat := 24
def surveySystem : UInt32 := 0
def surveyQuery : UInt32 := 3939663052

def hasSlash : Bytes → Bool
  | [] => false
  | b :: rest => b == 47 || hasSlash rest

def firstSegment : Bytes → Bytes
  | [] => []
  | b :: rest => if b == 47 then [] else b :: firstSegment rest

/-- does the message reach the storage handler of the surveyor: ssid `[system, query, id]`, a
channel `ssdstore/<reply>` that is not a response -/
def isStoreSurvey (m : WMsg) : Bool :=
  let n := (m.id.length - idFixed) / 4
  let ssid := ssidWords m.id n idFixed
  n == 3 && ssid.getD 0 1 == surveySystem && ssid.getD 1 0 == surveyQuery &&
  m.channel != strBytes "response" && hasSlash m.channel && firstSegment m.channel == strBytes "ssdstore"

/-- what `onPeerMessage` does with one forwarded message whose id passed the length check of
`OnGossipUnicast` (repaired): `ID.Ssid()`, the trie lookup and `ID.Contract()` stay inside the id,
the surveyor refuses a channel without '/' with an error (repaired). What is left is the storage
handler of a well-addressed `ssdstore` survey, whose outcome `storeSurvey` is a parameter (its
query decoding is kelindar reflection, not modelled). -/
def handleMsg (storeSurvey : Outcome Unit) (m : WMsg) : Outcome Unit :=
  if isStoreSurvey m then storeSurvey else .ok ()

/-- the loop of `OnGossipUnicast`: a short id ends it with an error (the messages before it have
been delivered), a panic below unwinds to the callback's recover -/
def handleAll (storeSurvey : Outcome Unit) : List WMsg → Outcome Unit
  | [] => .ok ()
  | m :: rest =>
      if m.id.length < minMessageID then .err "malformed message id" else
      match handleMsg storeSurvey m with
      | .panic w => .panic w
      | _ => handleAll storeSurvey rest

/-- `OnGossipUnicast` below the snappy stage -/
def unicastInner (storeSurvey : Outcome Unit) (inner : Bytes) : Outcome Unit :=
  match decodeFrame inner with
  | .ok ms => handleAll storeSurvey ms
  | .err e => .err e
  | .panic w => .panic w

/-! ## the three callbacks on a raw payload. `unsnap` is snappy's block decoder (trusted, not
modelled): `none` = corrupt input. -/

def onGossip (f : Facts) (unsnap : Bytes → Option Bytes) (raw : Bytes) : Verdict :=
  if raw.length ≤ 1 then .served
  else if !(blockAdmits raw) then .rejected
  else match unsnap raw with
    | none => .rejected
    | some inner => contain f.onGossipRecovers (mergeInner inner)

def onBroadcast (f : Facts) (unsnap : Bytes → Option Bytes) (raw : Bytes) : Verdict :=
  if !(blockAdmits raw) then .rejected
  else match unsnap raw with
    | none => .rejected
    | some inner => contain f.onBroadcastRecovers (mergeInner inner)

def onUnicast (f : Facts) (unsnap : Bytes → Option Bytes) (storeSurvey : Outcome Unit) (raw : Bytes) : Verdict :=
  if !(blockAdmits raw) then .rejected
  else match unsnap raw with
    | none => .rejected
    | some inner => contain f.onUnicastRecovers (unicastInner storeSurvey inner)

/-- input-sized allocations of a gossip callback: the snappy buffer, and for a frame the slice -/
def gossipAlloc (raw : Bytes) : Nat := blockAlloc raw
def unicastAlloc (raw inner : Bytes) : Nat := blockAlloc raw + frameAlloc inner

/-! ## history lookup -/

/-- capacity of the result buffer of `SSD.lookup` (repaired: the client's limit does not size it) -/
def lookupCap (limit : Int) : Nat := if limit < 0 ∨ limit > 64 then 64 else limit.toNat

def maxReply : Nat := Mqtt.maxMessageSize

/-- the loop of `lookup` over the sizes (payload + id + channel) of the matching stored
messages, newest first: stops at `limit` entries or before the reply would exceed the message size -/
def lookupLoop (limit : Int) : Nat → Nat → List Nat → List Nat
  | _, _, [] => []
  | count, bytes, s :: rest =>
      if ¬ ((count : Int) < limit) then []
      else if bytes + s > maxReply then []
      else s :: lookupLoop limit (count + 1) (bytes + s) rest

def lookup (limit : Int) (sizes : List Nat) : List Nat := lookupLoop limit 0 0 sizes

end Emitter.Hostile
