/-
  Model of internal/message: id.go (message ids), codec.go + message.go (message / frame binary
  codec below snappy, Frame.Split, Frame.Limit) and of the send queue of
  internal/service/cluster/peer.go.
-/
import Emitter.Model.Base
import Emitter.Generated.Message
import Emitter.Generated.Cluster

namespace Emitter.Message
open Emitter

abbrev Ssid := List UInt32

def fixed : Nat := Generated.msgFixed
/-- `offset = security.MinTime` -/
def timeOffset : Int := Generated.msgTimeOffset
def maxU32 : UInt32 := 0xFFFFFFFF

def ssidBytes : Ssid → Bytes
  | [] => []
  | w :: ws => putBe32 w ++ ssidBytes ws

/-- `uint32(time.Now().Unix() - offset)` -/
def relTime (unix : Int) : UInt32 := UInt32.ofNat ((unix - timeOffset) % 4294967296).toNat

/-- `NewID(ssid)` at wall-clock second `unix`, with the value `seq` returned by
`atomic.AddUint32(&next, 1)` and the process-wide random `unique`. Indexing `ssid[1]` panics
for a shorter ssid. -/
def newId (ssid : Ssid) (unix : Int) (seq unique : UInt32) : Outcome Bytes :=
  match ssid with
  | s0 :: s1 :: _ =>
      .ok (putBe32 (s0 ^^^ s1) ++ putBe32 (maxU32 - relTime unix) ++ putBe32 (maxU32 - seq) ++
           putBe32 unique ++ ssidBytes ssid)
  | _ => .panic "index out of range"

def word (id : Bytes) (i : Nat) : UInt32 :=
  be32 (id.getD i 0) (id.getD (i + 1) 0) (id.getD (i + 2) 0) (id.getD (i + 3) 0)

/-- `ID.Time()` (ids shorter than 8 bytes panic in Go; callers only pass stored ids) -/
def idTime (id : Bytes) : Int := ((maxU32 - word id 4).toNat : Int) + timeOffset

def idContract (id : Bytes) : UInt32 := word id fixed

def ssidOfBytes : Nat → Bytes → Ssid
  | 0, _ => []
  | n + 1, a :: b :: c :: d :: rest => be32 a b c d :: ssidOfBytes n rest
  | _ + 1, _ => []

/-- `ID.Ssid()` -/
def idSsid (id : Bytes) : Ssid := ssidOfBytes ((id.length - fixed) / 4) (id.drop fixed)

/-- `NewPrefix(ssid, from)` -/
def newPrefix (ssid : Ssid) (t : Int) : Bytes :=
  putBe32 (ssid.getD 0 0 ^^^ ssid.getD 1 0) ++ putBe32 (maxU32 - relTime t)

/-- lexicographic order on byte strings (the order of the storage keys) -/
def bytesLt : Bytes → Bytes → Bool
  | [], [] => false
  | [], _ :: _ => true
  | _ :: _, [] => false
  | a :: as, b :: bs => a < b || (a == b && bytesLt as bs)

/-! ## binary codec (kelindar/binary primitives used by messageCodec) -/

/-- `Encoder.WriteUvarint` (LEB128); a uint64 needs at most 10 digits -/
def uvarintF : Nat → Nat → Bytes
  | 0, _ => []
  | fuel + 1, n => if n < 128 then [UInt8.ofNat n] else UInt8.ofNat (n % 128 + 128) :: uvarintF fuel (n / 128)

def uvarint (n : Nat) : Bytes := uvarintF 10 n

/-- `sliceReader.ReadUvarint`: at most 10 digits, the 10th at most 1; `shift` = 7·(digits read) -/
def readUvarintF : Nat → Bytes → Nat → Nat → Outcome (Nat × Bytes)
  | 0, _, _, _ => .err "overflow"
  | _ + 1, [], _, _ => .err "eof"
  | fuel + 1, b :: rest, shift, acc =>
      if b < 0x80 then
        if shift == 63 && b > 1 then .err "overflow"
        else .ok (acc + b.toNat * 2 ^ shift, rest)
      else readUvarintF fuel rest (shift + 7) (acc + (b.toNat - 128) * 2 ^ shift)

def readUvarint (bs : Bytes) : Outcome (Nat × Bytes) := readUvarintF 10 bs 0 0

/-- `readBytes(d)`: uvarint length, then `d.Slice(int(l))` when `l > 0`. A length ≥ 2^63
becomes a negative `int`, passes the bounds check of `sliceReader.Slice` and makes its slice
expression panic. -/
def readBytes (bs : Bytes) : Outcome (Bytes × Bytes) :=
  match readUvarint bs with
  | .ok (l, rest) =>
      if l == 0 then .ok ([], rest)
      else if l ≥ 9223372036854775808 then .panic "slice bounds out of range"
      else if l > rest.length then .err "eof"
      else .ok (rest.take l, rest.drop l)
  | .err e => .err e
  | .panic w => .panic w

structure Msg where
  id : Bytes
  channel : Bytes
  payload : Bytes
  ttl : UInt32
deriving Repr, DecidableEq

/-- `messageCodec.EncodeTo` -/
def encodeMsg (m : Msg) : Bytes :=
  uvarint m.id.length ++ m.id ++ uvarint m.channel.length ++ m.channel ++
  uvarint m.payload.length ++ m.payload ++ uvarint m.ttl.toNat

/-- `messageCodec.DecodeTo` -/
def decodeMsg (bs : Bytes) : Outcome (Msg × Bytes) := do
  let (id, bs) ← readBytes bs
  let (ch, bs) ← readBytes bs
  let (pl, bs) ← readBytes bs
  let (ttl, bs) ← readUvarint bs
  pure ({ id := id, channel := ch, payload := pl, ttl := UInt32.ofNat (ttl % 4294967296) }, bs)

def encodeMsgs : List Msg → Bytes
  | [] => []
  | m :: ms => encodeMsg m ++ encodeMsgs ms

/-- body of `Frame.Encode` below snappy: slice length, then the elements -/
def encodeFrame (f : List Msg) : Bytes := uvarint f.length ++ encodeMsgs f

def decodeMsgs : Nat → Bytes → Outcome (List Msg × Bytes)
  | 0, bs => .ok ([], bs)
  | n + 1, bs =>
      match decodeMsg bs with
      | .ok (m, rest) =>
          match decodeMsgs n rest with
          | .ok (ms, rest) => .ok (m :: ms, rest)
          | .err e => .err e
          | .panic w => .panic w
      | .err e => .err e
      | .panic w => .panic w

/-- what `reflect.MakeSlice` does with an element count it cannot allocate -/
def maxSliceLen : Nat := 2 ^ 40

/-- `DecodeFrame` below snappy. `reflect.MakeSlice(l)` runs before any element is read, so a
huge announced count allocates (or panics) whatever the input length — recorded as `panic`. -/
def decodeFrame (bs : Bytes) : Outcome (List Msg) :=
  match readUvarint bs with
  | .ok (l, rest) =>
      if l == 0 then .ok []
      else if l > maxSliceLen then .panic "makeslice: len out of range"
      else (decodeMsgs l rest).map (·.1)
  | .err e => .err e
  | .panic w => .panic w

/-! ## Frame.Split and the peer send queue -/

/-- the size `Split` charges for one message -/
def msgSize (m : Msg) : Nat := m.payload.length + m.id.length + m.channel.length + 20

/-- `Frame.Split(max)`: longest prefix whose running sum stays below `max` -/
def splitAux (max : Nat) : Nat → List Msg → List Msg × List Msg
  | _, [] => ([], [])
  | sum, m :: ms =>
      if sum + msgSize m ≥ max then ([], m :: ms)
      else let r := splitAux max (sum + msgSize m) ms; (m :: r.1, r.2)

def split (f : List Msg) (max : Nat) : List Msg × List Msg := splitAux max 0 f

/-- the `for` loop of `processSendQueue` on the swapped frame: the chunks handed to the
transport. When `Split` returns an empty head for a non-empty rest (first message at or above
the bound) that message is sent on its own (D16 repair). `fuel` is the frame length: every
iteration removes at least one message. The second component is what is left when the fuel
runs out (always empty, see `flushLoop_rest`). -/
def flushLoop (max : Nat) : Nat → List Msg → List (List Msg) × List Msg
  | 0, rest => ([], rest)
  | fuel + 1, f =>
      let (chunk, rest) := split f max
      if chunk.isEmpty then
        match rest with
        | [] => ([], [])
        | m :: rest' => let r := flushLoop max fuel rest'; ([m] :: r.1, r.2)
      else let r := flushLoop max fuel rest; (chunk :: r.1, r.2)

def maxByteFrameSize : Nat := Generated.peerMaxByteFrameSize

/-- peer queue state: the current frame and everything handed to the transport so far -/
structure Peer where
  frame : List Msg := []
  sent : List (List Msg) := []
  dropped : List Msg := []
deriving Repr

/-- `Peer.Send` (under the peer's mutex) -/
def Peer.send (p : Peer) (active : Bool) (m : Msg) : Peer :=
  if active then { p with frame := p.frame ++ [m] } else p

/-- `processSendQueue`: swap under the mutex, then split/encode/unicast outside it -/
def Peer.flush (p : Peer) (max : Nat) : Peer :=
  if p.frame.isEmpty then p else
  let r := flushLoop max p.frame.length p.frame
  { frame := [], sent := p.sent ++ r.1, dropped := p.dropped ++ r.2 }

/-- `Frame.Sort` + `Frame.Limit(n)`: stable sort by time, keep the last n -/
def insertByTime (m : Msg) : List Msg → List Msg
  | [] => [m]
  | x :: xs => if idTime m.id < idTime x.id then m :: x :: xs else x :: insertByTime m xs

end Emitter.Message
