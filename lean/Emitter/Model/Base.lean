/-
  Shared vocabulary of the executable models (core Lean only; no Mathlib).
-/
namespace Emitter

abbrev Bytes := List UInt8

/-- Outcome of a Go function in the model: a value, an error return, or a Go panic. -/
inductive Outcome (α : Type) where
  | ok (a : α)
  | err (kind : String)
  | panic (what : String)
deriving Repr, DecidableEq

namespace Outcome
def isPanic {α} : Outcome α → Bool
  | panic _ => true
  | _ => false
def bind {α β} (o : Outcome α) (f : α → Outcome β) : Outcome β :=
  match o with
  | ok a => f a
  | err k => err k
  | panic w => panic w
def map {α β} (f : α → β) (o : Outcome α) : Outcome β := o.bind (fun a => ok (f a))
instance : Monad Outcome where
  pure := ok
  bind := bind
end Outcome

/-! ### hex helpers used by the line protocol (driver side only) -/

def hexDigit (n : Nat) : Char :=
  if n < 10 then Char.ofNat (48 + n) else Char.ofNat (87 + n)

def hexOfByte (b : UInt8) : String :=
  String.ofList [hexDigit (b.toNat / 16), hexDigit (b.toNat % 16)]

def hexOfBytes (bs : Bytes) : String :=
  if bs.isEmpty then "-" else String.join (bs.map hexOfByte)

def hexVal (c : Char) : Option Nat :=
  if '0' ≤ c ∧ c ≤ '9' then some (c.toNat - 48)
  else if 'a' ≤ c ∧ c ≤ 'f' then some (c.toNat - 87)
  else if 'A' ≤ c ∧ c ≤ 'F' then some (c.toNat - 55)
  else none

def bytesOfHexChars : List Char → Option Bytes
  | [] => some []
  | a :: b :: rest => do
      let x ← hexVal a
      let y ← hexVal b
      let r ← bytesOfHexChars rest
      pure (UInt8.ofNat (x * 16 + y) :: r)
  | _ => none

/-- "-" is the empty byte string. -/
def bytesOfHex (s : String) : Option Bytes :=
  if s == "-" then some [] else bytesOfHexChars s.toList

def strBytes (s : String) : Bytes := s.toUTF8.toList

/-- big-endian 32-bit read/write on byte lists. Go writes `uint32(a)<<24 | uint32(b)<<16 | …`
and `byte(x>>24)` …; the model states the same function arithmetically (the shifted operands
occupy disjoint bit ranges, so `|` is `+`), which keeps the proofs inside `omega`. The
correspondence check exercises every place where this is used. -/
def be32 (a b c d : UInt8) : UInt32 :=
  UInt32.ofNat (a.toNat * 16777216 + b.toNat * 65536 + c.toNat * 256 + d.toNat)

def putBe32 (x : UInt32) : Bytes :=
  [UInt8.ofNat (x.toNat / 16777216), UInt8.ofNat (x.toNat / 65536), UInt8.ofNat (x.toNat / 256), UInt8.ofNat x.toNat]

def be16 (a b : UInt8) : UInt16 := UInt16.ofNat (a.toNat * 256 + b.toNat)
def putBe16 (x : UInt16) : Bytes := [UInt8.ofNat (x.toNat / 256), UInt8.ofNat x.toNat]

theorem be32_putBe32 (x : UInt32) :
    be32 (UInt8.ofNat (x.toNat / 16777216)) (UInt8.ofNat (x.toNat / 65536)) (UInt8.ofNat (x.toNat / 256))
      (UInt8.ofNat x.toNat) = x := by
  unfold be32
  apply UInt32.toNat.inj
  have := x.toNat_lt
  simp [UInt32.toNat_ofNat', UInt8.toNat_ofNat']
  omega

theorem be32_putBe32' (x : UInt32) :
    be32 (UInt8.ofNat (x.toNat / 16777216)) (UInt8.ofNat (x.toNat / 65536)) (UInt8.ofNat (x.toNat / 256))
      x.toUInt8 = x := by
  have : x.toUInt8 = UInt8.ofNat x.toNat := by
    apply UInt8.toNat.inj; simp [UInt8.toNat_ofNat']
  rw [this]; exact be32_putBe32 x

theorem putBe32_be32 (a b c d : UInt8) : putBe32 (be32 a b c d) = [a, b, c, d] := by
  unfold putBe32 be32
  have ha := a.toNat_lt; have hb := b.toNat_lt; have hc := c.toNat_lt; have hd := d.toNat_lt
  simp only [List.cons.injEq, and_true]
  refine ⟨?_, ?_, ?_, ?_⟩ <;> apply UInt8.toNat.inj <;> simp [UInt32.toNat_ofNat', UInt8.toNat_ofNat'] <;> omega

theorem be16_putBe16 (x : UInt16) : be16 (UInt8.ofNat (x.toNat / 256)) (UInt8.ofNat x.toNat) = x := by
  unfold be16
  apply UInt16.toNat.inj
  have := x.toNat_lt
  simp [UInt16.toNat_ofNat', UInt8.toNat_ofNat']
  omega

theorem putBe16_be16 (a b : UInt8) : putBe16 (be16 a b) = [a, b] := by
  unfold putBe16 be16
  have ha := a.toNat_lt; have hb := b.toNat_lt
  simp only [List.cons.injEq, and_true]
  refine ⟨?_, ?_⟩ <;> apply UInt8.toNat.inj <;> simp [UInt16.toNat_ofNat', UInt8.toNat_ofNat'] <;> omega

end Emitter
