/-
  Shared vocabulary of the executable models (core Lean only; no Mathlib).
-/
namespace Emitter

abbrev Bytes := List UInt8

/-- Outcome of a Go function in the model: a value, an error return, or a Go panic. -/
inductive Outcome (α : Type) where
  | ok (a : α)
  | err (kind : String)
  | panic (what : String)
deriving Repr, DecidableEq

namespace Outcome
def isPanic {α} : Outcome α → Bool
  | panic _ => true
  | _ => false
def bind {α β} (o : Outcome α) (f : α → Outcome β) : Outcome β :=
  match o with
  | ok a => f a
  | err k => err k
  | panic w => panic w
def map {α β} (f : α → β) (o : Outcome α) : Outcome β := o.bind (fun a => ok (f a))
instance : Monad Outcome where
  pure := ok
  bind := bind
end Outcome

/-! ### hex helpers used by the line protocol (driver side only) -/

def hexDigit (n : Nat) : Char :=
  if n < 10 then Char.ofNat (48 + n) else Char.ofNat (87 + n)

def hexOfByte (b : UInt8) : String :=
  String.ofList [hexDigit (b.toNat / 16), hexDigit (b.toNat % 16)]

def hexOfBytes (bs : Bytes) : String :=
  if bs.isEmpty then "-" else String.join (bs.map hexOfByte)

def hexVal (c : Char) : Option Nat :=
  if '0' ≤ c ∧ c ≤ '9' then some (c.toNat - 48)
  else if 'a' ≤ c ∧ c ≤ 'f' then some (c.toNat - 87)
  else if 'A' ≤ c ∧ c ≤ 'F' then some (c.toNat - 55)
  else none

def bytesOfHexChars : List Char → Option Bytes
  | [] => some []
  | a :: b :: rest => do
      let x ← hexVal a
      let y ← hexVal b
      let r ← bytesOfHexChars rest
      pure (UInt8.ofNat (x * 16 + y) :: r)
  | _ => none

/-- "-" is the empty byte string. -/
def bytesOfHex (s : String) : Option Bytes :=
  if s == "-" then some [] else bytesOfHexChars s.toList

def strBytes (s : String) : Bytes := s.toUTF8.toList

/-- big-endian 32-bit read/write on byte lists -/
def be32 (a b c d : UInt8) : UInt32 :=
  (a.toUInt32 <<< 24) ||| (b.toUInt32 <<< 16) ||| (c.toUInt32 <<< 8) ||| d.toUInt32

def putBe32 (x : UInt32) : Bytes :=
  [(x >>> 24).toUInt8, (x >>> 16).toUInt8, (x >>> 8).toUInt8, x.toUInt8]

def be16 (a b : UInt8) : UInt16 := (a.toUInt16 <<< 8) ||| b.toUInt16
def putBe16 (x : UInt16) : Bytes := [(x >>> 8).toUInt8, x.toUInt8]

end Emitter
