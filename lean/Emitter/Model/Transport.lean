/-
  Model of the transport adapters between a client socket and the MQTT decoder:
  internal/network/listener/conn.go (sniffer.Read / reset, Conn.Write / enqueue / Flush),
  listener.go (Listener.serve: one sniffing phase per matcher), matcher.go (MatchAny,
  MatchPrefix / MatchHTTP through io.ReadFull) and
  internal/network/websocket/websocket.go (websocketTransport.Read / Write).
-/
import Emitter.Model.Base
import Emitter.Generated.Listener
import Emitter.Generated.Websocket

namespace Emitter.Transport
open Emitter

/-! ## a byte source that chunks its stream in an arbitrary way

`chunks` is the partition of the stream into the pieces successive `Read` calls can get
(a `net.Conn`, a TLS connection, gorilla's message reader). A call with a buffer of `n`
bytes gets the next `min n (length of the head chunk)` bytes; an empty chunk is a `(0, nil)`
read; after the last chunk every call returns `(0, err)` (EOF / closed). `tailErr` says that
the call which takes the last byte of the last chunk reports the error together with the
data, as `crypto/tls.Conn.Read` does when close_notify follows the data and as `io.Reader`
allows. -/
structure Src where
  chunks : List Bytes
  tailErr : Bool := false
deriving Repr, DecidableEq

def Src.stream (s : Src) : Bytes := s.chunks.flatten

/-- `Read(p)` with `len(p) = n`: (bytes copied into p, error reported?, source afterwards) -/
def Src.read (s : Src) (n : Nat) : Bytes × Bool × Src :=
  match s.chunks with
  | [] => ([], true, s)
  | c :: rest =>
      if c.length ≤ n then (c, s.tailErr && rest.isEmpty, { s with chunks := rest })
      else (c.take n, false, { s with chunks := c.drop n :: rest })

/-- what one `Read` call returned, and the flag of the branch the partial theorem excludes -/
structure RR where
  data : Bytes
  err : Bool
  /-- flag `C17.sniffed-error-replayed-early`: a replayed read reports the recorded source
  error although sniffed bytes are still waiting in the buffer -/
  early : Bool := false
deriving Repr, DecidableEq

/-! ## `sniffer` (conn.go) -/

structure Sniffer where
  src : Src
  buf : Bytes := []
  bufRead : Nat := 0
  bufSize : Nat := 0
  sniffing : Bool := false
  /-- `lastErr != nil` -/
  lastErr : Bool := false
deriving Repr, DecidableEq

/-- `newConn`: `reader: sniffer{source: c}` -/
def Sniffer.new (src : Src) : Sniffer := { src := src }

/-- `sniffer.reset(snif)`; `startSniffing = reset true`, `doneSniffing = reset false` -/
def Sniffer.reset (s : Sniffer) (snif : Bool) : Sniffer :=
  { s with sniffing := snif, bufRead := 0, bufSize := s.buf.length }

/-- the slice expression `s.buffer.Bytes()[s.bufferRead:s.bufferSize]` of the replay branch
is in range (otherwise Go panics) -/
def Sniffer.sliceOk (s : Sniffer) : Prop := s.bufRead < s.bufSize → s.bufSize ≤ s.buf.length

instance (s : Sniffer) : Decidable s.sliceOk := by unfold Sniffer.sliceOk; exact inferInstance

/-- `sniffer.Read(p)` with `len(p) = n`.
Replay branch: `bn := copy(p, buffer[bufferRead:bufferSize])`, returns `(bn, lastErr)`.
Otherwise the buffer is dropped when not sniffing, the source is read, and when sniffing and
`sn > 0` the bytes are appended to the buffer and the source's error is remembered. -/
def Sniffer.read (s : Sniffer) (n : Nat) : RR × Sniffer :=
  if s.bufRead < s.bufSize then
    let d := ((s.buf.take s.bufSize).drop s.bufRead).take n
    ({ data := d, err := s.lastErr, early := s.lastErr && decide (s.bufRead + d.length < s.bufSize) },
     { s with bufRead := s.bufRead + d.length })
  else
    let s1 : Sniffer := if s.sniffing then s else { s with buf := [] }
    match s1.src.read n with
    | (d, e, src') =>
        if 0 < d.length && s1.sniffing then
          ({ data := d, err := e }, { s1 with src := src', lastErr := e, buf := s1.buf ++ d })
        else
          ({ data := d, err := e }, { s1 with src := src' })

/-- the sniffed bytes that are still to be replayed -/
def Sniffer.pending (s : Sniffer) : Bytes :=
  if s.bufRead < s.bufSize then (s.buf.take s.bufSize).drop s.bufRead else []

/-- a sequence of `Read` calls with the given buffer sizes -/
def Sniffer.reads (s : Sniffer) : List Nat → List RR × Sniffer
  | [] => ([], s)
  | n :: ns =>
      let (r, s1) := s.read n
      let (rs, s2) := s1.reads ns
      (r :: rs, s2)

def cat (rs : List RR) : Bytes := (rs.map (·.data)).flatten

/-- a reader that drains the connection: `Read` with buffer size `d` until a call reports an
error (at most `fuel` calls) -/
def Sniffer.drain (s : Sniffer) (d : Nat) : Nat → List RR × Sniffer
  | 0 => ([], s)
  | fuel + 1 =>
      let (r, s1) := s.read d
      if r.err then ([r], s1)
      else
        let (rs, s2) := s1.drain d fuel
        (r :: rs, s2)

/-- what is still to be delivered, plus the number of chunks: decreases with every `Read`
into a non-empty buffer that does not report an error -/
def Sniffer.todo (s : Sniffer) : Nat := s.pending.length + s.src.stream.length + s.src.chunks.length

/-- `io.ReadFull(r, buf)` with `len(buf) = k`, having `got` already: keeps calling `Read` on
the rest of the buffer until it is full or a call reports an error. (`fuel` bounds the number
of calls; `k + number of chunks + 1` is always enough, since a call that reports no error
either returns a byte or uses up an empty chunk.) -/
def Sniffer.readFull (s : Sniffer) (k : Nat) : Nat → List RR → List RR × Sniffer
  | 0, acc => (acc, s)
  | fuel + 1, acc =>
      if k ≤ (cat acc).length then (acc, s)
      else
        let (r, s1) := s.read (k - (cat acc).length)
        if r.err then (acc ++ [r], s1) else s1.readFull k fuel (acc ++ [r])

/-! ## matchers (matcher.go) and the serve loop (listener.go) -/

inductive Matcher where
  /-- `MatchAny()`: reads nothing -/
  | any
  /-- `MatchPrefix(strs...)`: `io.ReadFull` of `maxDepth = longest + 1` bytes, then the
  patricia tree says whether the bytes read start with one of `strs` -/
  | pref (strs : List Bytes)
  /-- any other `Matcher`: reads with these buffer sizes, then answers `verdict` -/
  | custom (sizes : List Nat) (verdict : Bool)
deriving Repr, DecidableEq

def maxLen : List Bytes → Nat
  | [] => 0
  | b :: bs => max b.length (maxLen bs)

def isPrefix : Bytes → Bytes → Bool
  | [], _ => true
  | _ :: _, [] => false
  | a :: as, b :: bs => a == b && isPrefix as bs

/-- `patriciaTree.matchPrefix` on the bytes read (a tree built from no strings is a single
terminal node with the empty prefix: it matches everything) -/
def prefixMatch (strs : List Bytes) (data : Bytes) : Bool :=
  strs.isEmpty || strs.any (fun p => isPrefix p data)

/-- `MatchHTTP()` -/
def Matcher.http : Matcher := .pref (Generated.httpMethods.map strBytes)

/-- one matcher call on `startSniffing()`: (matched?, what its reads returned, sniffer) -/
def Matcher.run (m : Matcher) (s : Sniffer) : Bool × List RR × Sniffer :=
  match m with
  | .any => (true, [], s)
  | .pref strs =>
      let k := maxLen strs + 1
      let (rs, s1) := s.readFull k (k + s.src.chunks.length + 1) []
      (prefixMatch strs (cat rs), rs, s1)
  | .custom sizes v =>
      let (rs, s1) := s.reads sizes
      (v, rs, s1)

/-- `Listener.serve` over the flattened list of (set index, matcher): every matcher gets
`startSniffing()`; the first that matches ends with `doneSniffing()`. Result: index of the
matching set (none: the connection is closed), what every matcher saw, sniffer. -/
def serve (s : Sniffer) : List (Nat × Matcher) → Option Nat × List (List RR) × Sniffer
  | [] => (none, [], s)
  | (i, m) :: rest =>
      let (ok, rs, s1) := m.run (s.reset true)
      if ok then (some i, [rs], s1.reset false)
      else
        let (r, seen, s2) := serve s1 rest
        (r, rs :: seen, s2)

/-! ## the write queue of `listener.Conn` -/

/-- `sock`: the `socket.Write` calls made so far, in order; `queue`: `Conn.writer` -/
structure WQ where
  sock : List Bytes := []
  queue : Bytes := []
deriving Repr, DecidableEq

/-- `Conn.Flush`: (n returned, state) -/
def WQ.flush (s : WQ) : Nat × WQ :=
  if s.queue.length = 0 then (0, s)
  else (s.queue.length, { sock := s.sock ++ [s.queue], queue := [] })

/-- `Conn.Write(p)` when the rate limiter answers `limited`: (n returned, state).
On the flush-on-write path Go returns what `Flush` returned, i.e. the length of everything
flushed, not `len(p)`. -/
def WQ.write (s : WQ) (limited : Bool) (p : Bytes) : Nat × WQ :=
  if limited then (p.length, { s with queue := s.queue ++ p })
  else if 0 < s.queue.length then WQ.flush { s with queue := s.queue ++ p }
  else (p.length, { s with sock := s.sock ++ [p] })

inductive WOp where
  | write (limited : Bool) (p : Bytes)
  /-- the timer (`async.Repeat … conn.Flush()`) or an explicit flush -/
  | flush
deriving Repr, DecidableEq

def WQ.step (s : WQ) : WOp → WQ
  | .write l p => (s.write l p).2
  | .flush => s.flush.2

/-- the bytes the broker wrote -/
def written : List WOp → Bytes
  | [] => []
  | .write _ p :: ops => p ++ written ops
  | .flush :: ops => written ops

/-! ## `websocketTransport` -/

/-- one websocket message as `NextReader` hands it out: its opcode and its reader -/
structure Frame where
  opcode : Nat
  body : Src
deriving Repr, DecidableEq

def Frame.isData (f : Frame) : Bool :=
  f.opcode == Generated.wsBinaryMessage || f.opcode == Generated.wsTextMessage

/-- `cur`: `c.reader`; `frames`: what `NextReader` will return, then an error forever -/
structure Ws where
  cur : Option Src := none
  frames : List Frame
deriving Repr, DecidableEq

/-- the `for` loop around `NextReader`: skip everything that is neither binary nor text -/
def nextData : List Frame → Option (Src × List Frame)
  | [] => none
  | f :: rest => if f.isData then some (f.body, rest) else nextData rest

/-- `n, err = c.reader.Read(b)`; EOF ends the message and is not reported -/
def Ws.readCur (w : Ws) (r : Src) (n : Nat) : RR × Ws :=
  match r.read n with
  | (d, e, r') => ({ data := d, err := false }, { w with cur := if e then none else some r' })

/-- `websocketTransport.Read(b)` with `len(b) = n` -/
def Ws.read (w : Ws) (n : Nat) : RR × Ws :=
  match w.cur with
  | some r => w.readCur r n
  | none =>
      match nextData w.frames with
      | none => ({ data := [], err := true }, { w with frames := [] })
      | some (r, rest) => Ws.readCur { w with frames := rest } r n

def Ws.reads (w : Ws) : List Nat → List RR × Ws
  | [] => ([], w)
  | n :: ns =>
      let (r, w1) := w.read n
      let (rs, w2) := w1.reads ns
      (r :: rs, w2)

def Ws.drain (w : Ws) (d : Nat) : Nat → List RR × Ws
  | 0 => ([], w)
  | fuel + 1 =>
      let (r, w1) := w.read d
      if r.err then ([r], w1)
      else
        let (rs, w2) := w1.drain d fuel
        (r :: rs, w2)

def Src.size (r : Src) : Nat := r.stream.length + r.chunks.length

def framesSize : List Frame → Nat
  | [] => 0
  | f :: rest => f.body.size + 2 + framesSize rest

def Ws.todo (w : Ws) : Nat :=
  (match w.cur with | some r => r.size + 1 | none => 0) + framesSize w.frames

/-- the payload bytes of the data messages -/
def payload : List Frame → Bytes
  | [] => []
  | f :: rest => if f.isData then f.body.stream ++ payload rest else payload rest

def Ws.rest (w : Ws) : Bytes :=
  (match w.cur with | some r => r.stream | none => []) ++ payload w.frames

/-- `websocketTransport.Write(b)`: `NextWriter(BinaryMessage)`, `Write(b)`, `Close()` — one
binary message per call. The sink is the list of (opcode, payload) messages sent. -/
def wsWrite (sink : List (Nat × Bytes)) (b : Bytes) : Nat × List (Nat × Bytes) :=
  (b.length, sink ++ [(Generated.wsBinaryMessage, b)])

def wsWrites (sink : List (Nat × Bytes)) : List Bytes → List (Nat × Bytes)
  | [] => sink
  | b :: bs => wsWrites (wsWrite sink b).2 bs

end Emitter.Transport
