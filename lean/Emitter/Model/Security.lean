/-
  Model of internal/security (channel.go: ParseChannel and options; key.go: the 24-byte key
  layout, SetTarget, ValidateChannel, expiry, permissions), of contract.Validate for the
  single-contract provider, of broker.Service.Authorize and of keygen.CreateKey / ExtendKey.
-/
import Emitter.Model.Base
import Emitter.Model.Hash
import Emitter.Model.Cipher
import Emitter.Generated.Security

namespace Emitter.Security
open Emitter

/-! ## channels -/

def chInvalid : Nat := 0
def chStatic : Nat := 1
def chWildcard : Nat := 2

structure Channel where
  key : Bytes := []
  channel : Bytes := []
  query : List UInt32 := []
  options : List (Bytes × Bytes) := []
  ctype : Nat := 0
deriving Repr, DecidableEq

def sep : UInt8 := 47          -- '/'

def isWildSym (c : UInt8) : Bool := c == 35 || c == 43 || c == 42      -- '#', '+', '*'
def isChanChar (c : UInt8) : Bool := (c ≥ 45 && c ≤ 58) || (c ≥ 65 && c ≤ 122) || c == 36
def isAlnum (c : UInt8) : Bool := (c ≥ 48 && c ≤ 57) || (c ≥ 65 && c ≤ 90) || (c ≥ 97 && c ≤ 122)

/-- `parseKey`: the bytes before the first '/', which must exist and be non-empty.
Returns the key and the rest after the separator. -/
def parseKey (text : Bytes) : Option (Bytes × Bytes) :=
  let k := text.takeWhile (· != sep)
  if k.length < text.length && k.length > 0 then some (k, text.drop (k.length + 1)) else none

/-- state of the `parseChannel` loop -/
structure PC where
  cur : Bytes := []          -- characters of the current level (text[offset:i])
  consumed : Nat := 0        -- i
  chanChars : Nat := 0
  wildcards : Nat := 0
  wild : Bool := false       -- ChannelType == ChannelWildcard so far
  query : List UInt32 := []

/-- `Channel.parseChannel`: returns (query, channel length incl. final '/', type, number of
bytes consumed incl. a following '?') or `none` for an invalid channel -/
def parseChanLoop : Bytes → PC → Option (List UInt32 × Nat × Nat × Nat)
  | [], _ => none
  | c :: rest, st =>
      if c == sep then
        if st.chanChars == 0 && st.wildcards == 0 then none else
        let q := st.query ++ [Hash.hashOf st.cur]
        let ty := if st.wild then chWildcard else chStatic
        match rest with
        | [] => some (q, st.consumed + 1, ty, st.consumed + 1)
        | d :: _ =>
            if d == 63 then some (q, st.consumed + 1, ty, st.consumed + 2)   -- '?'
            else parseChanLoop rest { st with cur := [], consumed := st.consumed + 1, chanChars := 0, wildcards := 0, query := q }
      else if isWildSym c then
        if st.chanChars > 0 || st.wildcards > 0 then none
        else parseChanLoop rest { st with cur := st.cur ++ [c], consumed := st.consumed + 1, wildcards := st.wildcards + 1, wild := true }
      else if isChanChar c then
        if st.wildcards > 0 then none
        else parseChanLoop rest { st with cur := st.cur ++ [c], consumed := st.consumed + 1, chanChars := st.chanChars + 1 }
      else none

/-- one round of the `parseOptions` loop on the unread text: (key, value, rest) -/
def scanKey : Bytes → Bytes → Option (Option Bytes × Bytes)
  | [], _ => some (none, [])                                   -- ran out without '=': key stays empty
  | c :: rest, acc =>
      if c == 61 then some (some acc, rest)                    -- '='
      else if !isAlnum c then none else scanKey rest (acc ++ [c])

def scanVal : Bytes → Bytes → Option (Bytes × Bytes)
  | [], acc => some (acc, [])
  | c :: rest, acc =>
      if c == 38 then some (acc, rest)                          -- '&'
      else if !isAlnum c then none else scanVal rest (acc ++ [c])

/-- `parseOptions` (fuel: every round consumes at least one byte) -/
def parseOptions : Nat → Bytes → Option (List (Bytes × Bytes))
  | 0, _ => none
  | _ + 1, [] => some []
  | fuel + 1, text =>
      match scanKey text [] with
      | none => none
      | some (k, rest) =>
          match scanVal rest [] with
          | none => none
          | some (v, rest') =>
              match k with
              | none => none
              | some k =>
                  if k.isEmpty || v.isEmpty then none else
                  (parseOptions fuel rest').map (fun os => (k, v) :: os)

/-- `ParseChannel` -/
def parseChannel (text : Bytes) : Channel :=
  match parseKey text with
  | none => {}
  | some (k, rest) =>
      match parseChanLoop rest {} with
      | none => { key := k }
      | some (q, clen, ty, used) =>
          let ch : Channel := { key := k, channel := rest.take clen, query := q, ctype := ty }
          let optText := rest.drop used
          if optText.isEmpty then ch else
          match parseOptions (optText.length + 1) optText with
          | none => { ch with ctype := chInvalid, options := [] }
          | some os => { ch with options := os }

/-- `strconv.ParseInt(v, 10, 64)` on an alphanumeric value: decimal digits only, within int64 -/
def parseDec (v : Bytes) : Option Int :=
  if v.isEmpty || !v.all (fun c => c ≥ 48 && c ≤ 57) then none else
  let n : Nat := v.foldl (fun (acc : Nat) (c : UInt8) => acc * 10 + (c.toNat - 48)) 0
  if n > 9223372036854775807 then none else some (Int.ofNat n)

def Channel.getOption (c : Channel) (name : Bytes) : Option Int :=
  match c.options.find? (fun o => o.1 == name) with
  | some o => parseDec o.2
  | none => none

def optTtl : Bytes := [116, 116, 108]
def optLast : Bytes := [108, 97, 115, 116]
def optMe : Bytes := [109, 101]
def optFrom : Bytes := [102, 114, 111, 109]
def optUntil : Bytes := [117, 110, 116, 105, 108]

def Channel.ttl (c : Channel) : Option Int := c.getOption optTtl
def Channel.last (c : Channel) : Option Int := c.getOption optLast
def Channel.exclude (c : Channel) : Bool := c.getOption optMe == some 0

def minTime : Int := Generated.secMinTime
def maxTime : Int := Generated.secMaxTime

/-- `toUnix`: 0 (= "no bound") unless within [MinTime, MaxTime] -/
def toUnix (t : Int) : Int := if t == 0 || t < minTime || t > maxTime then 0 else t

def Channel.window (c : Channel) : Int × Int :=
  (toUnix ((c.getOption optFrom).getD 0), toUnix ((c.getOption optUntil).getD 0))

/-- `SafeString` / `String` -/
def Channel.safeString (c : Channel) : Bytes :=
  if c.options.isEmpty then c.channel else
  c.channel ++ [63] ++ ((c.options.map (fun (o : Bytes × Bytes) => o.1 ++ [61] ++ o.2)).intersperse [38]).flatten

def Channel.toBytes (c : Channel) : Bytes := c.key ++ [sep] ++ c.safeString

/-! ## strings helpers (strings.Split / Join / TrimRight on bytes) -/

def splitSlashAux : Bytes → Bytes → List Bytes
  | [], acc => [acc]
  | c :: rest, acc => if c == sep then acc :: splitSlashAux rest [] else splitSlashAux rest (acc ++ [c])

/-- `strings.Split(s, "/")` -/
def splitSlash (s : Bytes) : List Bytes := splitSlashAux s []

/-- `strings.Join(parts, "/")` -/
def joinSlash : List Bytes → Bytes
  | [] => []
  | [p] => p
  | p :: ps => p ++ [sep] ++ joinSlash ps

/-- `strings.TrimRight(s, "/")` -/
def trimRightSlash (s : Bytes) : Bytes := (s.reverse.dropWhile (· == sep)).reverse

def plus : Bytes := [43]
def hashSym : Bytes := [35]

/-! ## keys -/

def permNone : UInt8 := 0
def permMaster : UInt8 := Generated.secAllowMaster
def permRead : UInt8 := Generated.secAllowRead
def permWrite : UInt8 := Generated.secAllowWrite
def permStore : UInt8 := Generated.secAllowStore
def permLoad : UInt8 := Generated.secAllowLoad
def permPresence : UInt8 := Generated.secAllowPresence
def permExtend : UInt8 := Generated.secAllowExtend
def permExecute : UInt8 := Generated.secAllowExecute

def keyTimeOffset : Int := Generated.secKeyTimeOffset

abbrev Key := Bytes   -- 24 bytes

def Key.b (k : Key) (i : Nat) : UInt8 := k.getD i 0
def Key.salt (k : Key) : UInt16 := be16 (k.b 0) (k.b 1)
def Key.master (k : Key) : UInt16 := be16 (k.b 2) (k.b 3)
def Key.contract (k : Key) : UInt32 := be32 (k.b 4) (k.b 5) (k.b 6) (k.b 7)
def Key.signature (k : Key) : UInt32 := be32 (k.b 8) (k.b 9) (k.b 10) (k.b 11)
def Key.permissions (k : Key) : UInt8 := k.b 15
def Key.targetPath (k : Key) : Nat := (k.b 12).toNat * 65536 + (k.b 13).toNat * 256 + (k.b 14).toNat
def Key.target (k : Key) : UInt32 := be32 (k.b 16) (k.b 17) (k.b 18) (k.b 19)
def Key.expireField (k : Key) : UInt32 := be32 (k.b 20) (k.b 21) (k.b 22) (k.b 23)

def Key.hasPermission (k : Key) (flag : UInt8) : Bool := (k.permissions &&& flag) == flag
def Key.isMaster (k : Key) : Bool := k.permissions == permMaster

/-- `Expires()` as unix seconds (0 = never) -/
def Key.expires (k : Key) : Int :=
  let e : Int := k.expireField.toNat
  if e > 0 then keyTimeOffset + e else e

/-- `IsExpired()` at wall-clock second `now` -/
def Key.isExpired (k : Key) (now : Int) : Bool := k.expires != 0 && k.expires < now

/-- replace bytes [i, i+len(v)) of a 24-byte key -/
def Key.setAt (k : Key) (i : Nat) (v : Bytes) : Key := k.take i ++ v ++ k.drop (i + v.length)

def Key.setPermissions (k : Key) (p : UInt8) : Key := k.setAt 15 [p]

/-- `SetExpires(t)` with `t` in unix seconds (`uint32` truncation as in the code) -/
def Key.setExpires (k : Key) (t : Int) : Key :=
  let e := if t > 0 then t - keyTimeOffset else t
  k.setAt 20 (putBe32 (UInt32.ofNat (e % 4294967296).toNat))

def bitSet (x i : Nat) : Bool := (x / 2 ^ i) % 2 == 1

/-- the bit path of `SetTarget`: bit 23 for exact targets, bit (22 - idx) for every literal part -/
def bitPathOf : List Bytes → Nat → Nat
  | [], _ => 0
  | p :: ps, idx => (if p != plus && p != hashSym && idx ≤ 22 then 2 ^ (22 - idx) else 0) + bitPathOf ps (idx + 1)

/-- `Key.SetTarget(channel)` -/
def Key.setTarget (k : Key) (channel : Bytes) : Outcome Key :=
  if channel.getLast? != some sep then .err "target-invalid" else
  let parts := splitSlash (trimRightSlash channel)
  let wildcard := parts.getLast? == some hashSym
  let parts := if wildcard then parts.dropLast else parts
  if parts.length > 23 then .err "target-too-long" else
  let bitPath := (if wildcard then 0 else 2 ^ 23) + bitPathOf parts 0
  let value := Hash.hashOf (joinSlash parts)
  .ok ((k.setAt 12 [UInt8.ofNat (bitPath / 65536), UInt8.ofNat (bitPath / 256), UInt8.ofNat bitPath]).setAt 16 (putBe32 value))

/-- lowest set bit among bits 0..22 of the target path gives the depth of the last literal -/
def maxDepthOf (targetPath : Nat) : Nat → Nat
  | 0 => 0
  | n + 1 => let i := 22 - n; if bitSet targetPath i then 23 - i else maxDepthOf targetPath n

/-- replace by "+" every part whose bit is not set; `none` if a "+" sits where a literal is due -/
def maskParts (targetPath : Nat) : List Bytes → Nat → Option (List Bytes)
  | [], _ => some []
  | p :: ps, idx =>
      if idx ≤ 22 && bitSet targetPath (22 - idx) then
        if p == plus then none else (maskParts targetPath ps (idx + 1)).map (p :: ·)
      else (maskParts targetPath ps (idx + 1)).map (plus :: ·)

/-- `Key.ValidateChannel(ch)` (with the D2 repair: an exact target refuses a trailing '#') -/
def Key.validateChannel (k : Key) (ch : Channel) : Bool :=
  let topic := ch.channel
  if topic.isEmpty then false else
  let target := k.target
  let targetPath := k.targetPath
  if targetPath == 0 then
    if target == 1325880984 then true else target == ch.query.getD 0 0
  else
    let topic := if topic.getLast? == some sep then topic.dropLast else topic
    let parts := splitSlash topic
    let wc := parts.getLast? == some hashSym
    let parts := if wc then parts.dropLast else parts
    let md := maxDepthOf targetPath 23
    let maxDepth := if md == 0 then parts.length else md
    let exact := bitSet targetPath 23
    if parts.length < maxDepth || (exact && (wc || parts.length != maxDepth)) then false else
    match maskParts targetPath parts 0 with
    | none => false
    | some masked => Hash.hashOf (joinSlash (masked.take maxDepth)) == target

/-! ## authorization -/

/-- the broker's view of its license and contract (single-contract provider) -/
structure Env where
  cipher : Cipher.CipherSpec
  contractId : UInt32
  signature : UInt32
  masterId : UInt16 := 1
  now : Int
  banned : List Bytes := []

def Env.decrypt (e : Env) (keyStr : Bytes) : Option Key :=
  match Cipher.decryptKey e.cipher keyStr with
  | .ok k => some k
  | _ => none

/-- `contract.Validate(key)` for the contract `Get(key.Contract())` returns -/
def Env.contractOk (e : Env) (k : Key) : Bool :=
  k.contract == e.contractId && k.master == e.masterId && k.signature == e.signature

/-- `Service.Authorize(channel, permission)`: the decrypted key when allowed -/
def authorize (e : Env) (ch : Channel) (perm : UInt8) : Option Key :=
  if ch.ctype == chInvalid then none else
  if e.banned.contains ch.key then none else
  match e.decrypt ch.key with
  | none => none
  | some k =>
      if k.isExpired e.now then none else
      if !e.contractOk k || !k.hasPermission perm || !k.validateChannel ch then none else some k

/-! ## key generation -/

/-- `Request.access()` -/
def accessOf (ty : Bytes) : UInt8 :=
  ty.foldl (fun acc c =>
    if c == 114 then acc ||| permRead else if c == 119 then acc ||| permWrite
    else if c == 115 then acc ||| permStore else if c == 108 then acc ||| permLoad
    else if c == 112 then acc ||| permPresence else if c == 101 then acc ||| permExtend
    else if c == 120 then acc ||| permExecute else acc) 0

/-- `Request.expires()`: unix seconds, 0 for ttl = 0 -/
def expiresOf (now : Int) (ttl : Int) : Int := if ttl == 0 then 0 else now + ttl

/-- `CreateKey` up to the random salt, which is a parameter; returns the raw key -/
def createKey (e : Env) (masterStr channel : Bytes) (access : UInt8) (expires : Int) (salt : UInt16) : Outcome Key :=
  match e.decrypt masterStr with
  | none => .err "unauthorized"
  | some mk =>
      if !mk.isMaster || mk.isExpired e.now then .err "unauthorized" else
      if mk.contract != e.contractId then .err "not-found" else
      if !e.contractOk mk then .err "unauthorized" else
      let k : Key := List.replicate 24 0
      let k := k.setAt 0 (putBe16 salt)
      let k := k.setAt 2 (putBe16 mk.master)
      let k := k.setAt 4 (putBe32 mk.contract)
      let k := k.setAt 8 (putBe32 mk.signature)
      let k := k.setPermissions access
      let k := k.setExpires expires
      let k := k.setPermissions (k.permissions &&& (0xFF ^^^ permMaster))
      k.setTarget channel

def hasSuffix (s suf : Bytes) : Bool := s.length ≥ suf.length && s.drop (s.length - suf.length) == suf

/-- `ExtendKey`: returns the raw key and the private channel (key string is produced by the cipher) -/
def extendKey (e : Env) (keyStr channelName connId : Bytes) (access : UInt8) (expires : Int) : Outcome (Key × Bytes) :=
  let wild := hasSuffix channelName [35, 47]
  let name := if wild then channelName.take (channelName.length - 2) else channelName
  let ch := parseChannel (keyStr ++ [sep] ++ name)
  if ch.ctype != chStatic then .err "bad-request" else
  match authorize e ch permExtend with
  | none => .err "unauthorized"
  | some k =>
      let k := k.setPermissions (k.permissions &&& (0xFF ^^^ permExtend))
      let k := k.setPermissions (k.permissions &&& access)
      let k := k.setExpires expires
      let target := ch.channel ++ connId ++ [sep] ++ (if wild then [35, 47] else [])
      match k.setTarget target with
      | .ok k' => .ok (k', target)
      | .err x => .err x
      | .panic w => .panic w

/-! ## key banning (internal/service/keyban) -/

/-- `keyban.OnRequest` on the set of currently banned key strings: the new set and the status.
The secret must decrypt to an unexpired master key, the target must decrypt to a key of the
same contract; `Contains` then `Notify` only when the state actually changes. -/
def keyban (e : Env) (secret target : Bytes) (want : Bool) : List Bytes × Nat :=
  match e.decrypt secret with
  | none => (e.banned, 401)
  | some sk =>
      if sk.isExpired e.now || !sk.isMaster then (e.banned, 401) else
      match e.decrypt target with
      | none => (e.banned, 401)
      | some tk =>
          if tk.contract != sk.contract then (e.banned, 401) else
          let has := e.banned.contains target
          if want && !has then (target :: e.banned, 200)
          else if !want && has then (e.banned.filter (· != target), 200)
          else (e.banned, 200)

end Emitter.Security
