/-
  C18 — Presence reports who is subscribed (broker model; default matcher or any).
-/
import Emitter.Lemmas.Broker
import Emitter.Lemmas.BrokerHistory
namespace Emitter.C18
open Emitter Emitter.Trie Emitter.Security Emitter.Broker

/-- A presence status request lists exactly the live connections that would currently receive
a message published to the channel: the `who` list is the filter of the connections by this
condition (rendered with their usernames). -/
theorem status_exact (b : B) (h : Sync b) (ssid : Path) (c : Conn) (hc : c ∈ b.conns) :
    (c.alive && ((b.trie.root.lookup b.mode ssid).eraseDups).contains c.key) = true ↔
      c.alive = true ∧ receives b.mode c ssid := Broker.receivers_spec b h ssid c hc

/-- exactly one 'subscribe' notification for each subscription a connection makes (none for a
repeated subscribe of the same filter) … -/
theorem subscribe_notifies_once (b : B) (c : Conn) (ssid : Path) (channel : Bytes) :
    (subscribeConn b c ssid channel).2 =
      if c.counters.any (·.ssid == ssid) then []
      else notify (subscribeConn b c ssid channel).1 "subscribe"
             { c with counters := c.counters ++ [⟨ssid, channel, 1⟩] } ssid channel :=
  Broker.subscribeConn_out b c ssid channel

/-- … and one 'unsubscribe' when it ends (by unsubscribing or by the connection going away:
`Close` runs `unsubscribeConn` for every counter); none for something not held -/
theorem unsubscribe_notifies_once (b : B) (c : Conn) (ssid : Path) (channel : Bytes)
    (h1 : ∀ ctr ∈ c.counters, ctr.count = 1) :
    (unsubscribeConn b c ssid channel).2 =
      if c.counters.any (·.ssid == ssid) then
        notify (unsubscribeConn b c ssid channel).1 "unsubscribe"
          { c with counters := c.counters.filter (·.ssid != ssid) } ssid channel
      else [] := Broker.unsubscribeConn_out b c ssid channel h1

/-- a notification reaches exactly the clients that asked for changes on that channel or on a
parent of it and have not cancelled (their presence subscription is an ordinary counter), and
they all get the same JSON packet on the presence topic.

AMENDED (see `Broker.notify_receivers`): the original form had `∃ f, p = .json … f` inside the
equivalence for a given `p`, which is false from right to left (any JSON text `f` would have to be
delivered; refuted by `Broker.notify_receivers_original_false`). The field text is now
quantified once, outside the equivalence. -/
theorem notification_receivers (b : B) (h : Sync b) (event : String) (c : Conn) (ssid : Path) (channel : Bytes) :
    ∃ f, ∀ (n : String) (p : Pkt),
      (n, p) ∈ notify b event c ssid channel ↔
        p = .json (strBytes "emitter/presence/") f ∧
        ∃ w ∈ b.conns, w.name = n ∧ w.alive = true ∧ receives b.mode w (presenceSsid ssid) :=
  Broker.notify_receivers b h event c ssid channel

theorem sync_step (auth : Auth) (b : B) (name : String) (r : Req) (h : Sync b) :
    Sync (step auth b name r).1 := Broker.sync_step auth b name r h

/-- History level (specification: `Emitter/Spec/Subscriptions.lean`): after any well-formed
history, the connections a status request lists — those the subscription index returns for the
channel — are exactly the open connections holding in the set `A` of acknowledged, not yet
removed subscriptions a filter that matches the channel … -/
theorem status_history (auth : Auth) (b₀ : B) (h0 : Pristine b₀) (evs : List Spec.Ev)
    (hwf : Spec.wellFormed evs = true) (ssid : Path) (c : Conn) (hc : c ∈ (run auth b₀ evs).conns) :
    (c.alive && (((run auth b₀ evs).trie.root.lookup b₀.mode ssid).eraseDups).contains c.key) = true ↔
      c.name ∈ Spec.receivers b₀.mode (Spec.run auth (Spec.init b₀) evs) ssid none :=
  Broker.status_history auth b₀ h0 evs hwf ssid c hc

/-- … and a notification about `ssid` goes — as a multiset, once each, the same JSON packet —
to exactly the open connections holding in `A` a presence-change subscription
(`system :: presence :: contract :: levels`, added by a presence request with `changes = true`,
removed by one with `changes = false` or by the end of the connection) on the channel or on a
parent of it. -/
theorem notify_history (auth : Auth) (b₀ : B) (h0 : Pristine b₀) (evs : List Spec.Ev)
    (hwf : Spec.wellFormed evs = true) (event : String) (c : Conn) (ssid : Path) (channel : Bytes) :
    (notify (run auth b₀ evs) event c ssid channel).Perm
      ((Spec.receivers b₀.mode (Spec.run auth (Spec.init b₀) evs) (presenceSsid ssid) none).map
        (fun n => (n, Pkt.json (strBytes "emitter/presence/") (notifyFields event c channel)))) :=
  Broker.notify_history auth b₀ h0 evs hwf event c ssid channel

/-! non-vacuity: w1 watches `k/a/`, w2 watches it and cancels, c subscribes `k/a/` -/
def demoAuth : Auth := fun banned ch _ =>
  if banned.contains ch.key then none else if ch.key == [107] then some ⟨7, 0x3f⟩ else none

def demo : List Spec.Ev :=
  [.accept "w1" [1], .accept "w2" [2], .accept "c" [3],
   .req "w1" (.presence 1 [107] [97, 47] false (some true)),
   .req "w2" (.presence 2 [107] [97, 47] false (some true)),
   .req "w2" (.presence 3 [107] [97] false (some false)),
   .req "c" (.subscribe 4 [107, 47, 97, 47] 0)]

set_option maxRecDepth 8000

example : Spec.wellFormed demo = true := by decide +kernel
example : (Spec.run demoAuth (Spec.init {}) demo).A =
    [("w1", presenceSsid [7, 3238259379]), ("c", [7, 3238259379])] := by decide +kernel
/-- the watchers of `k/a/` after the history: w1 only -/
example : Spec.receivers .emitter (Spec.run demoAuth (Spec.init {}) demo) (presenceSsid [7, 3238259379]) none = ["w1"] := by
  decide +kernel
/-- who a status request on `k/a/` lists: c only -/
example : Spec.receivers .emitter (Spec.run demoAuth (Spec.init {}) demo) [7, 3238259379] none = ["c"] := by
  decide +kernel
/-- and the model's last step did notify w1, and only w1 -/
example : ((step demoAuth (run demoAuth {} (demo.take 6)) "c" (.subscribe 4 [107, 47, 97, 47] 0)).2.map Prod.fst) =
    ["w1", "c"] := by decide +kernel

end Emitter.C18
