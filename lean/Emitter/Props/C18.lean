import Emitter.Model.Broker
namespace Emitter.C18
theorem placeholder : True := trivial
end Emitter.C18
