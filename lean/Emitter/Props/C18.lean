/-
  C18 — Presence reports who is subscribed (broker model; default matcher or any).
-/
import Emitter.Lemmas.Broker
namespace Emitter.C18
open Emitter Emitter.Trie Emitter.Security Emitter.Broker

/-- A presence status request lists exactly the live connections that would currently receive
a message published to the channel: the `who` list is the filter of the connections by this
condition (rendered with their usernames). -/
theorem status_exact (b : B) (h : Sync b) (ssid : Path) (c : Conn) (hc : c ∈ b.conns) :
    (c.alive && ((b.trie.root.lookup b.mode ssid).eraseDups).contains c.key) = true ↔
      c.alive = true ∧ receives b.mode c ssid := Broker.receivers_spec b h ssid c hc

/-- exactly one 'subscribe' notification for each subscription a connection makes (none for a
repeated subscribe of the same filter) … -/
theorem subscribe_notifies_once (b : B) (c : Conn) (ssid : Path) (channel : Bytes) :
    (subscribeConn b c ssid channel).2 =
      if c.counters.any (·.ssid == ssid) then []
      else notify (subscribeConn b c ssid channel).1 "subscribe"
             { c with counters := c.counters ++ [⟨ssid, channel, 1⟩] } ssid channel :=
  Broker.subscribeConn_out b c ssid channel

/-- … and one 'unsubscribe' when it ends (by unsubscribing or by the connection going away:
`Close` runs `unsubscribeConn` for every counter); none for something not held -/
theorem unsubscribe_notifies_once (b : B) (c : Conn) (ssid : Path) (channel : Bytes)
    (h1 : ∀ ctr ∈ c.counters, ctr.count = 1) :
    (unsubscribeConn b c ssid channel).2 =
      if c.counters.any (·.ssid == ssid) then
        notify (unsubscribeConn b c ssid channel).1 "unsubscribe"
          { c with counters := c.counters.filter (·.ssid != ssid) } ssid channel
      else [] := Broker.unsubscribeConn_out b c ssid channel h1

/-- a notification reaches exactly the clients that asked for changes on that channel or on a
parent of it and have not cancelled (their presence subscription is an ordinary counter), and
they all get the same JSON packet on the presence topic.

AMENDED (see `Broker.notify_receivers`): the original form had `∃ f, p = .json … f` inside the
equivalence for a given `p`, which is false from right to left (any JSON text `f` would have to be
delivered; refuted by `Broker.notify_receivers_original_false`). The field text is now
quantified once, outside the equivalence. -/
theorem notification_receivers (b : B) (h : Sync b) (event : String) (c : Conn) (ssid : Path) (channel : Bytes) :
    ∃ f, ∀ (n : String) (p : Pkt),
      (n, p) ∈ notify b event c ssid channel ↔
        p = .json (strBytes "emitter/presence/") f ∧
        ∃ w ∈ b.conns, w.name = n ∧ w.alive = true ∧ receives b.mode w (presenceSsid ssid) :=
  Broker.notify_receivers b h event c ssid channel

theorem sync_step (auth : Auth) (b : B) (name : String) (r : Req) (h : Sync b) :
    Sync (step auth b name r).1 := Broker.sync_step auth b name r h

end Emitter.C18
