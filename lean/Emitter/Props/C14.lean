/-
  C14 — Banning a key takes effect immediately and survives restarts.
  Statements over the keyban / authorize model and the durable set model; proofs in
  Emitter/Lemmas/Keys.lean and Emitter/Lemmas/Lww.lean.
-/
import Emitter.Lemmas.Keys
namespace Emitter.C14
open Emitter Emitter.Security Emitter.Lww

/-- From the moment a key-ban request is acknowledged, every operation presenting the banned
key is refused … -/
theorem ban_immediate (e : Env) (secret target : Bytes) (h : (keyban e secret target true).2 = 200)
    (ch : Channel) (hk : ch.key = target) (perm : UInt8) :
    authorize { e with banned := (keyban e secret target true).1 } ch perm = none :=
  banned_key_refused e secret target h ch hk perm

/-- … and from the moment an unban is acknowledged the key works again (it is decided by the
key alone) … -/
theorem unban_immediate (e : Env) (secret target : Bytes) (h : (keyban e secret target false).2 = 200)
    (ch : Channel) (hk : ch.key = target) (perm : UInt8) :
    authorize { e with banned := (keyban e secret target false).1 } ch perm = authorize { e with banned := [] } ch perm :=
  unbanned_key_decided_by_key e secret target h ch hk perm

/-- … for any sequence of toggles, rapid ones included: the last acknowledged one wins. -/
theorem toggles (e : Env) (secret target : Bytes) (ts : List Bool) (last : Bool)
    (hok : ∀ b (e' : Env), e'.cipher = e.cipher → e'.now = e.now → (keyban e' secret target b).2 = 200) :
    let final := (ts ++ [last]).foldl (fun bn w => (keyban { e with banned := bn } secret target w).1) e.banned
    (target ∈ final ↔ last = true) := toggles_last_wins e secret target ts last hok

theorem others_unaffected (e : Env) (secret target other : Bytes) (want : Bool) (hne : other ≠ target) :
    (other ∈ (keyban e secret target want).1 ↔ other ∈ e.banned) := keyban_others e secret target other want hne

theorem refused_request_changes_nothing (e : Env) (secret target : Bytes) (want : Bool)
    (h : (keyban e secret target want).2 ≠ 200) : (keyban e secret target want).1 = e.banned :=
  keyban_refused_noop e secret target want h

theorem only_master_of_same_contract (e : Env) (secret target : Bytes) (want : Bool) (h : (keyban e secret target want).2 = 200) :
    ∃ sk tk, e.decrypt secret = some sk ∧ sk.isMaster = true ∧ sk.isExpired e.now = false ∧
      e.decrypt target = some tk ∧ tk.contract = sk.contract := keyban_requires_master e secret target want h

/-- The durable set behind the ban list answers `Has` from what is stored, after any sequence
of add / del / merge / has (the read cache is coherent: D6 repair) … -/
theorem cache_coherent_step (d : Durable) (k : Bytes) (now : Int) (p : Bytes) (r : Map) (h : d.coherent) :
    (d.add k now p).coherent ∧ (d.del k now).coherent ∧ (d.merge r).1.coherent ∧ (d.fetch k).2.coherent :=
  ⟨coherent_add d k now p h, coherent_del d k now h, coherent_merge d r h, coherent_fetch d k h⟩

theorem has_is_stored (d : Durable) (k : Bytes) (h : d.coherent) :
    (d.has k).1 = (get d.db k).isAdded ∧ (d.has k).2.db = d.db := durable_has_truth d k h

/-- … a ban that was acknowledged is still in force after the broker restarts on the same
state directory (the store is kept, the cache starts empty) … -/
theorem ban_restart (d : Durable) (k : Bytes) :
    d.restart.coherent ∧ (d.restart.has k).1 = (get d.db k).isAdded := ⟨coherent_restart d, restart_has d k⟩

/-- … and takes effect on every other broker once the gossip carrying it has been merged there,
whether or not that broker had looked the key up before. -/
theorem ban_remote (d : Durable) (hc : d.coherent) (hn : NonNeg d.db) (k : Bytes) (t : Int) (p : Bytes)
    (ht : 0 < t) (hnew : (get d.db k).del ≤ t) :
    ((d.merge [(k, ⟨t, 0, p⟩)]).1.has k).1 = true := merged_ban_effective d hc hn k t p ht hnew

end Emitter.C14
