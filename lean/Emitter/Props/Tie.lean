/-
  The regenerated tie for straight-line bit-level code (DESIGN §12.7): `tools/go2lean` translates the listed Go
  functions of /repo's working tree into `Emitter/Generated/Go*.lean` on every run; the theorems below state that each
  translated definition equals the hand-written model, for all inputs.
    Tie/Key.lean   internal/security/key.go        (imported by Props/C03, C11, C12)
    Tie/Id.lean    internal/message/id.go          (imported by Props/C06, C19)
    Tie/Mqtt.lean  internal/network/mqtt/mqtt.go   (imported by Props/C16)
-/
import Emitter.Props.Tie.Key
import Emitter.Props.Tie.Id
import Emitter.Props.Tie.Mqtt
