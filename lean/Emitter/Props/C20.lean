import Emitter.Model.License
namespace Emitter.C20
theorem placeholder : True := trivial
end Emitter.C20
