/-
  C20 — Licenses and key ciphers round-trip.
  Property-level statements only; helper lemmas are in Emitter/Lemmas/Cipher.lean.
-/
import Emitter.Lemmas.Cipher
import Emitter.Model.License
namespace Emitter.C20
open Emitter Emitter.Cipher Emitter.License

/-! ## regenerated facts (re-checked against /repo's constants on every run) -/

/-- `xteaSum` is `delta * rounds` (the comment in xtea.go says "should be") -/
theorem fact_xtea_sum : xteaSum = UInt32.ofNat xteaRounds * xteaDelta := xteaSum_eq

/-- the decode table built by `init()` maps exactly the 64 alphabet characters to their index
and every other byte value (all 192 of them) to the invalid marker -/
theorem fact_decode_table : ∀ c : Fin 256, decodeMap (UInt8.ofNat c.val) = decodeMapSpec (UInt8.ofNat c.val) := by
  decide +kernel

/-- the alphabet has 64 distinct characters, none of them CR/LF or a padding '=' -/
theorem fact_alphabet : alphabet.length = 64 ∧ alphabet.Nodup ∧ (13 : UInt8) ∉ alphabet ∧ (10 : UInt8) ∉ alphabet
    ∧ (61 : UInt8) ∉ alphabet := by decide

/-! ## key ciphers -/

/-- Under each cipher, every 24-byte key encrypts to a 32-character string over the alphabet
that decrypts to the same key — for every XTEA key and every Salsa key/nonce. -/
theorem key_roundtrip (c : CipherSpec) (k : Bytes) (hk : k.length = 24) :
    ∃ e, encryptKey c k = .ok e ∧ e.length = 32 ∧ (∀ ch ∈ e, (decodeMap ch == 0xFF) = false) ∧
      decryptKey c e = .ok k := by
  have hraw : (encryptRaw c k).length = 24 := by
    cases c with
    | xtea key => simp [encryptRaw, mapBlocks_length, whiten_length, hk]
    | salsa key nonce => simp [encryptRaw, xorBytes_length, hk]
    | shuffle key nonce => simp [encryptRaw, shuffleCrypt_length, hk]
  have hdec : decryptRaw c (encryptRaw c k) = k := by
    cases c with
    | xtea key =>
        simp only [encryptRaw, decryptRaw]
        rw [mapBlocks_inv (encBlock key) (decBlock key) (decBlock_encBlock key), whiten_invol]
    | salsa key nonce => simp [encryptRaw, decryptRaw, xorBytes_invol]
    | shuffle key nonce => simp [encryptRaw, decryptRaw, shuffleCrypt_invol]
  have henc : encryptKey c k = .ok (b64Encode (encryptRaw c k)) := by
    cases c with
    | xtea key =>
        have : ¬ k.length < 24 := by omega
        simp [encryptKey, this, List.take_of_length_le (Nat.le_of_eq hk)]
    | salsa key nonce =>
        have : (k ++ List.replicate 24 0).take 24 = k := by
          rw [← hk, List.take_left]
        simp only [encryptKey, this]
    | shuffle key nonce =>
        have : (k ++ List.replicate 24 0).take 24 = k := by
          rw [← hk, List.take_left]
        simp only [encryptKey, this]
  have hlen : (b64Encode (encryptRaw c k)).length = 32 := by
    rw [b64Encode_length _ (by omega), hraw]
  refine ⟨_, henc, hlen, b64Encode_valid _, ?_⟩
  simp [decryptKey, hlen, decodeKey, decodeKeyAux_encode, hdec]

/-- distinct keys give distinct strings -/
theorem encrypt_injective (c : CipherSpec) (k₁ k₂ : Bytes) (h₁ : k₁.length = 24) (h₂ : k₂.length = 24)
    (h : encryptKey c k₁ = encryptKey c k₂) : k₁ = k₂ := by
  obtain ⟨e₁, he₁, _, _, hd₁⟩ := key_roundtrip c k₁ h₁
  obtain ⟨e₂, he₂, _, _, hd₂⟩ := key_roundtrip c k₂ h₂
  rw [he₁, he₂] at h
  cases h
  rw [hd₁] at hd₂
  cases hd₂
  rfl

/-- strings that are not 32 valid characters are rejected with an error (never a panic, never a key) -/
theorem reject_invalid (c : CipherSpec) (s : Bytes)
    (h : s.length ≠ 32 ∨ ∃ ch ∈ s, (decodeMap ch == 0xFF) = true) : ∃ e, decryptKey c s = .err e := by
  unfold decryptKey
  by_cases hl : s.length = 32
  · rcases h with h | h
    · exact absurd hl h
    · obtain ⟨e, he⟩ := decodeKeyAux_err s 0 h
      simp [hl, decodeKey, he]
  · simp [hl]

/-- decryption is total: any input yields a key or an error -/
theorem decrypt_total (c : CipherSpec) (s : Bytes) : (decryptKey c s).isPanic = false := by
  unfold decryptKey
  split
  · rfl
  · split <;> simp_all [Outcome.isPanic]
    rename_i w h
    -- decodeKey never panics
    have : ∀ s idx w, decodeKeyAux s idx ≠ .panic w := by
      intro s idx w
      fun_induction decodeKeyAux s idx <;> simp_all
    exact absurd h (this _ _ _)

/-- v2 / v3 are XOR stream ciphers: the round trip holds for *every* keystream (so it does not
depend on the transcription of Salsa20), and for v3 for every salt-indexed family of keystreams. -/
theorem stream_roundtrip (ks bs : Bytes) : xorBytes (xorBytes bs ks) ks = bs := xorBytes_invol bs ks
theorem shuffle_roundtrip (ks : UInt8 → UInt8 → Bytes) (bs : Bytes) :
    shuffleCrypt ks (shuffleCrypt ks bs) = bs := shuffleCrypt_invol ks bs

/-- XTEA: deciphering a block inverts enciphering it, for every key and block -/
theorem xtea_block_roundtrip (k : XteaKey) (y z : UInt32) :
    decBlock k (encBlock k y z).1 (encBlock k y z).2 = (y, z) := decBlock_encBlock k y z

/-! non-vacuity: a concrete key under a concrete XTEA cipher -/
example : ∃ e, encryptKey (.xtea ⟨1, 2, 3, 4⟩) (List.replicate 24 7) = .ok e ∧ e.length = 32 ∧
    (∀ ch ∈ e, (decodeMap ch == 0xFF) = false) ∧ decryptKey (.xtea ⟨1, 2, 3, 4⟩) e = .ok (List.replicate 24 7) :=
  key_roundtrip (.xtea ⟨1, 2, 3, 4⟩) (List.replicate 24 7) (by simp)

/-! ## licenses -/

/-- `Parse` yields a license or an error for every string and every behaviour (including a
panic) of the external v2/v3 body decoder. -/
theorem parse_total (body : Nat → Bytes → Outcome V23) (data : Bytes) : (parse body data).isPanic = false := by
  unfold parse
  split <;> simp_all [Outcome.isPanic]

theorem hasSuffix_append (a suf : Bytes) : hasSuffix (a ++ suf) suf = true := by
  simp [hasSuffix]

theorem filter_valid (s : Bytes) (h : ∀ ch ∈ s, (decodeMap ch == 0xFF) = false) :
    s.filter (fun c => c != 13 && c != 10) = s := by
  rw [List.filter_eq_self]
  intro ch hm
  have h13 : (decodeMap 13 == 0xFF) = true := by decide
  have h10 : (decodeMap 10 == 0xFF) = true := by decide
  have := h ch hm
  by_cases c13 : ch = 13
  · subst c13; simp_all
  · by_cases c10 : ch = 10
    · subst c10; simp_all
    · simp [c13, c10]

theorem stdDecode_encode (x : Bytes) : stdDecode (b64Encode x) = .ok x := by
  unfold stdDecode
  rw [filter_valid _ (b64Encode_valid x), decodeKeyAux_encode]

/-- a v1 license string parses back to the same license (generated licenses have `expires = 0`) -/
theorem v1_roundtrip (body : Nat → Bytes → Outcome V23) (l : V1) (hk : l.encKey.length = 16)
    (he : l.expires = 0) : parse body l.toString = .ok (.v1 l) := by
  obtain ⟨k, u, s, e, t⟩ := l
  simp only at hk he
  subst he
  match k, hk with
  | [k0, k1, k2, k3, k4, k5, k6, k7, k8, k9, k10, k11, k12, k13, k14, k15], _ =>
    -- the 32 raw bytes
    let X : Bytes := [k0, k1, k2, k3, k4, k5, k6, k7, k8, k9, k10, k11, k12, k13, k14, k15,
      UInt8.ofNat (u.toNat / 16777216), UInt8.ofNat (u.toNat / 65536), UInt8.ofNat (u.toNat / 256), UInt8.ofNat u.toNat,
      UInt8.ofNat (s.toNat / 16777216), UInt8.ofNat (s.toNat / 65536), UInt8.ofNat (s.toNat / 256), UInt8.ofNat s.toNat,
      0, 0, 0, 0,
      UInt8.ofNat (t.toNat / 16777216), UInt8.ofNat (t.toNat / 65536), UInt8.ofNat (t.toNat / 256), UInt8.ofNat t.toNat]
    have hstr : V1.toString ⟨[k0, k1, k2, k3, k4, k5, k6, k7, k8, k9, k10, k11, k12, k13, k14, k15], u, s, 0, t⟩
        = b64Encode X ++ [58, 49] := by
      simp [V1.toString, putBe32, X]
    have hXlen : (b64Encode X).length = 43 := by simp [X, b64Encode]
    rw [hstr]
    unfold parse parseInner
    have h5 : ¬ (b64Encode X ++ [58, 49]).length < 5 := by simp [hXlen]
    have htake : (b64Encode X ++ [58, 49]).take ((b64Encode X ++ [58, 49]).length - 2) = b64Encode X := by
      simp
    simp only [h5, if_false, hasSuffix_append, if_true, htake]
    unfold parseV1
    rw [stdDecode_encode]
    have hz : be32 0 0 0 0 = 0 := by decide
    simp [X, Outcome.map, Outcome.bind, be32_putBe32, be32_putBe32', hz]

end Emitter.C20
