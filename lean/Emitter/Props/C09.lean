/-
  C09 — Hostile or malformed input cannot take the broker down.
  Property-level statements; helper lemmas are in Emitter/Lemmas/Hostile.lean (and Lemmas/Mqtt.lean).

  The model (Emitter/Model/Hostile.lean) is of the code with the repairs D10 (refined), D11 and D18;
  the presence of every `recover` the statements rely on is a regenerated fact, checked here.
-/
import Emitter.Lemmas.Hostile
import Emitter.Lemmas.Channel
namespace Emitter.C09
open Emitter Emitter.Hostile

/-! ## regenerated shape facts (harness/gofacts, go/ast over the working tree) -/

/-- `Conn.Process` starts with `defer c.Close()`, `Conn.Close` calls `recover()` itself, and each of
`OnGossip`, `OnGossipBroadcast`, `OnGossipUnicast` starts by deferring a function that calls `recover()`. -/
theorem facts_sound : facts.sound = true := by decide

theorem facts_connSafe : facts.connSafe := ⟨by decide, by decide⟩

/-! ## decode_total — the client port -/

/-- For every byte stream and every limit, the only input-sized allocation of `DecodePacket` is at
most the limit (`Outcome` classifies the result as ok | err | panic; panics are `conn_contains`' business).
REFINED: the design's "reads at most limit + 5 bytes" is false of the code — the remaining-length loop
accepts any number of continuation digits (uint32 wrap-around), each read in O(1) space — and is replaced
by `decode_consumes`. -/
theorem decode_alloc (s : Bytes) (max : Nat) : mqttAlloc s max ≤ max := mqttAlloc_le s max

/-- a remaining length above the limit is refused with an error, nothing is allocated for it -/
theorem decode_refuses_oversize (first : UInt8) (rest r : Bytes) (len : UInt32) (max : Nat)
    (hl : Mqtt.decodeLen rest 1 0 = .ok (len, r))
    (hp : isPingType ((first &&& 0xf0) >>> 4) = false) (hbig : max < len.toNat) :
    Mqtt.decode (first :: rest) max = .err "too-large" ∧ mqttAlloc (first :: rest) max = 0 :=
  mqtt_oversize first rest r len max hl hp hbig

/-- a successful decode consumed a non-empty header and exactly the allocated body (≤ limit); the
rest of the stream is untouched (so the packets of a stream are decoded one after the other) -/
theorem decode_consumes (s : Bytes) (max : Nat) (p : Mqtt.Packet) (rest : Bytes)
    (h : Mqtt.decode s max = .ok (p, rest)) :
    ∃ hdr body, s = hdr ++ body ++ rest ∧ 0 < hdr.length ∧ body.length = mqttAlloc s max ∧ body.length ≤ max := by
  obtain ⟨hdr, body, h1, h2, h3⟩ := mqtt_consumes s max p rest h
  exact ⟨hdr, body, h1, h2, h3, by rw [h3]; exact mqttAlloc_le s max⟩

/-! ## conn_contains -/

/-- No outcome of decoding + handling a packet — error or panic, anywhere below `Conn.Process` —
takes the process down; for every history of rounds on any connections. -/
theorem conn_contains (h : List (Nat × Outcome Unit)) (b : Broker) (hb : b.down = false) :
    (b.run facts h).down = false := by
  rw [run_down facts facts_connSafe]; exact hb

/-- … a panic closes exactly the connection it happened on (its subscriptions are released) … -/
theorem conn_panic_closes (b : Broker) (c : Nat) (w : String) (st : ConnSt)
    (hd : b.down = false) (hc : b.get c = some st) :
    (b.step facts c (.panic w)).get c = some { alive := false, subs := [] } ∧
    (b.step facts c (.panic w)).down = false :=
  step_panic_closes facts facts_connSafe b c w st hd hc

/-- … and a connection that is not the subject of any round of a history is exactly as it was -/
theorem conn_frame (c' : Nat) (h : List (Nat × Outcome Unit)) (b : Broker) (hne : ∀ x ∈ h, x.1 ≠ c') :
    (b.run facts h).get c' = b.get c' :=
  run_frame facts c' h b hne

/-- every byte stream on a client connection ends, at worst, with that connection closed -/
theorem stream_contained (max : Nat) (s : Bytes) : streamFate facts max s.length s ≠ .fatal :=
  streamFate_not_fatal facts facts_connSafe max _ s

/-- the facts matter: without the `recover` in `Close` a panic takes the broker down -/
theorem conn_needs_recover :
    (({ conns := [(1, ⟨true, []⟩)] } : Broker).step { facts with closeRecovers := false } 1 (.panic "x")).down = true := by
  decide

/-! ## encode_total -/

/-- a PUBLISH the broker emits (its size is chosen by clients and peers) never makes the encoder
panic: a body that does not fit behind the header is refused (D9, proved for C16) -/
theorem encode_total (h : Mqtt.Header) (t : Bytes) (mid : UInt16) (pl : Bytes) :
    (Mqtt.encode (.publish h t mid pl)).isPanic = false :=
  Mqtt.encode_publish_no_panic h t mid pl

/-! ## gossip_total — the cluster port -/

/-- No payload makes a gossip callback fatal — for every byte string, whatever snappy's block
decoder returns for it, whatever the storage handler does with a survey. -/
theorem gossip_total (unsnap : Bytes → Option Bytes) (store : Outcome Unit) (raw : Bytes) :
    onGossip facts unsnap raw ≠ .fatal ∧ onBroadcast facts unsnap raw ≠ .fatal ∧
    onUnicast facts unsnap store raw ≠ .fatal :=
  ⟨onGossip_not_fatal facts (by decide) unsnap raw, onBroadcast_not_fatal facts (by decide) unsnap raw,
   onUnicast_not_fatal facts (by decide) unsnap store raw⟩

/-- the recover is the second line of defence only: a state payload that `DecodeState` accepts cannot
make `State.Merge` panic (every value carries its two times), so a panic of `Swarm.merge` can only
come from the decoder's `Slice` with a wrapped length -/
theorem merge_panic_free (inner : Bytes) (sets : List (Nat × List Entry)) (h : decodeState inner = .ok sets) :
    ∃ n, mergeState sets = .ok n :=
  mergeState_ok sets (decodeState_good inner sets h)

theorem merge_panics_only_in_decoder (inner : Bytes) (w : String) (h : mergeInner inner = .panic w) :
    decodeState inner = .panic w :=
  mergeInner_panic_only_in_decoder inner w h

/-- input-sized allocations are linear in the payload: the snappy buffer is at most 32× the raw
bytes (a larger preamble is refused before allocating), the frame slice at most 80 bytes per 3 bytes
of decompressed input (a larger count is refused) -/
theorem gossip_alloc (raw : Bytes) : gossipAlloc raw ≤ 32 * raw.length := blockAlloc_le raw

theorem unicast_alloc (raw inner : Bytes) (h : inner.length ≤ blockAlloc raw) :
    unicastAlloc raw inner ≤ 886 * raw.length :=
  unicastAlloc_linear raw inner h

/-- the facts matter: a panicking payload is fatal when the callback does not recover -/
theorem gossip_needs_recover :
    onGossip { facts with onGossipRecovers := false } (fun _ => some [1, 0, 1, 128, 128, 128, 128, 128, 128, 128, 128, 128, 1, 0]) [14, 0, 0] = .fatal := by
  decide

/-! ## query_alloc -/

/-- the result buffer of a history lookup holds at most 64 entries whatever limit the client (or a
peer, through a survey) asks for — negative, 10^8 or 2^63-1 -/
theorem query_alloc (limit : Int) : lookupCap limit ≤ 64 := lookupCap_le limit

/-- and what the loop appends is a prefix of the matching messages of at most `limit` entries whose
total size stays within the message size -/
theorem query_reply (limit : Int) (sizes : List Nat) :
    (lookup limit sizes).sum ≤ maxReply ∧
    ((lookup limit sizes).length = 0 ∨ ((lookup limit sizes).length : Int) ≤ limit) ∧
    (lookup limit sizes).length ≤ sizes.length := by
  have := lookupLoop_bounds limit sizes 0 0 (by decide)
  simpa [lookup] using this

/-! ## channel strings — parsed for every SUBSCRIBE / UNSUBSCRIBE / PUBLISH / last will / request before any key is looked at -/

/-- `ParseChannel` terminates on every topic: the option loop consumes at least one byte per round, so with
fuel above the length of the option text the model's answer never is "out of fuel" (it does not depend on
the fuel at all). A change to the Go loop that stops consuming (e.g. a stale key/value surviving a round)
makes the real parser spin while the model still answers: the correspondence run's watchdog reports it. -/
theorem channel_options_terminate (fuel : Nat) (text : Bytes) (h : text.length < fuel) :
    Security.parseOptions fuel text = Security.parseOptions (text.length + 1) text :=
  Security.parseOptions_fuel fuel text h

/-- … and what it builds is bounded by the topic: at most one option and one level per input byte -/
theorem channel_alloc (text : Bytes) :
    (Security.parseChannel text).options.length ≤ text.length ∧ (Security.parseChannel text).query.length ≤ text.length :=
  Security.parseChannel_bounded text

/-! ## non-vacuity -/

-- "k/a/?ttl=1&x": a well-formed option followed by a dangling key is refused (not looped on)
example : (Security.parseChannel [107, 47, 97, 47, 63, 116, 116, 108, 61, 49, 38, 120]).ctype = Security.chInvalid := by decide
-- "k/a/?ttl=1&x=2" is accepted with two options
example : (Security.parseChannel [107, 47, 97, 47, 63, 116, 116, 108, 61, 49, 38, 120, 61, 50]).options.length = 2 := by decide

-- a valid PUBLISH is decoded, its 7-byte body is what was allocated
example : mqttAlloc [0x30, 7, 0, 2, 97, 47, 1, 2, 3, 0xc0, 0] 65536 = 7 := by decide
example : (Mqtt.decode [0x30, 7, 0, 2, 97, 47, 1, 2, 3, 0xc0, 0] 65536).isPanic = false := by decide
-- a PUBLISH whose topic length points outside the body makes the decoder panic …
example : (Mqtt.decode [0x30, 1, 0] 65536).isPanic = true := by decide
-- … which closes the connection
example : streamFate facts 65536 3 [0x30, 1, 0] = .closed := by decide
-- a state with a 7-byte value is refused by the decoder, one with a 16-byte value is merged
example : decodeState [1, 0, 1, 1, 107, 7, 0, 0, 0, 0, 0, 0, 0] = .err "malformed value" := by decide
example : mergeInner [1, 0, 1, 1, 107, 16, 0, 0, 0, 0, 0, 0, 0, 5, 0, 0, 0, 0, 0, 0, 0, 0] = .ok 1 := by decide
-- a key length of 2^63 makes `Slice` panic; the callback turns it into a rejected payload
example : (decodeState [1, 0, 1, 128, 128, 128, 128, 128, 128, 128, 128, 128, 1, 0]).isPanic = true := by decide
example : onGossip facts (fun _ => some [1, 0, 1, 128, 128, 128, 128, 128, 128, 128, 128, 128, 1, 0]) [14, 0, 0] = .rejected := by decide
-- a frame announcing 10^9 messages in 5 bytes is refused, nothing is allocated for it
example : decodeFrame [0x80, 0x94, 0xeb, 0xdc, 0x03] = .err "malformed frame" := by decide
example : frameAlloc [0x80, 0x94, 0xeb, 0xdc, 0x03] = 0 := by decide
-- a snappy preamble of 4 GiB - 1 on a 13-byte payload is refused, nothing is allocated
example : blockAlloc [0xff, 0xff, 0xff, 0xff, 0x0f, 0, 0, 0, 0, 0, 0, 0, 0] = 0 := by decide
example : lookupCap 100000000 = 64 ∧ lookupCap (-1) = 64 ∧ lookupCap 5 = 5 := by decide
example : lookup 3 [27, 27, 27, 27] = [27, 27, 27] := by decide

end Emitter.C09
