/-
  C15 — Stored messages survive broker restarts and crashes.
  Property-level statements; proofs are in Emitter/Lemmas/Store.lean (codec round trip: C19,
  Emitter/Lemmas/Message.lean).

  Reading guide. `KV` is the durable store (badger + file system + page cache) as a PARAMETER,
  `KV.Laws K` what is assumed of it (Model/Store.lean: `Update` returned ⇒ durable; a transaction
  is atomic under a kill; open / replay / close / flush / compaction / GC, finished or killed, lose
  and invent nothing; an iterator over a freshly opened directory yields exactly the unexpired
  durable entries in key order). `Run K z retain K.empty evs d` says the directory, empty at first,
  is `d` after the chronological history `evs` of events `acked m` (a `Store(m)` that returned),
  `died m` (the process was killed inside `Store(m)`, or it failed) and `maint` (everything else:
  clean stop, kill while idle / opening / closing, restart, background work) — any number of
  processes, any crash points. `query K z d now` is the history query of a fresh process at unix
  time `now`: open, iterate, decode; `foundOf retain m` the record it must show for `m`: id, channel,
  payload unchanged, ttl (`RetainedTTL` ↦ the configured retention), expiry = id time + ttl.
-/
import Emitter.Lemmas.Store
namespace Emitter.C15
open Emitter Emitter.Message Emitter.Store

/-! ## regenerated facts -/
theorem fact_consts : retainedTTL = 0xFFFFFFFF ∧ defaultRetain = 2592000 := by decide

/-! ## the property, for every store that satisfies the laws -/

/-- **C15 in one statement.** After ANY history (acknowledged stores, kills at arbitrary instants
inside a store call, clean stops, restarts — repeated) the history query of a fresh process
succeeds (the store reopens, the scan decodes) and
(1) returns every acknowledged message that is unexpired and was not overwritten by a later store
    of the same id, with identical id, channel, payload, ttl and expiry;
(2) returns nothing else: every record is a message handed to `Store` in this history, whole;
(3) for a message whose `Store` was cut by a kill: what is returned under its id is the whole
    message (or nothing);
(4) lists each id once, in key order. -/
theorem stored_messages_survive (K : KV) (L : K.Laws) (z : Zip) (hz : z.Ok) (retain : UInt32)
    (evs : List Ev) (d : K.Disk) (hr : Run K z retain K.empty evs d) (hok : ∀ m ∈ msgs evs, m.ok) (now : Nat) :
    ∃ res, query K z d now = .ok res ∧
      (∀ pre m post, evs = pre ++ .acked m :: post → (∀ ev ∈ post, ev.key? ≠ some m.id) →
        now < expiryOf retain m → foundOf retain m ∈ res) ∧
      (∀ f ∈ res, ∃ m, (.acked m ∈ evs ∨ .died m ∈ evs) ∧ f = foundOf retain m ∧ now < f.expiresAt) ∧
      (∀ pre m post, evs = pre ++ .died m :: post → (∀ ev ∈ pre, ev.key? ≠ some m.id) →
        (∀ ev ∈ post, ev.key? ≠ some m.id) → ∀ f ∈ res, f.msg.id = m.id → f = foundOf retain m) ∧
      (res.map (·.msg.id)).Pairwise (fun a b => bytesLt a b = true) :=
  survive L hz hr hok now

/-- durability at the level of the directory: the entry of an acknowledged store stays the durable
version of its key through everything that follows, until the same id is stored again -/
theorem acked_is_durable (K : KV) (L : K.Laws) (z : Zip) (retain : UInt32) (pre post : List Ev) (m : Msg)
    (d : K.Disk) (hr : Run K z retain K.empty (pre ++ .acked m :: post) d)
    (hlater : ∀ ev ∈ post, ev.key? ≠ some m.id) :
    ∃ e, entryOf z retain m = .ok e ∧ K.get d m.id = some e := acked_get L hr hlater

/-- a store cut by a kill leaves the whole entry or nothing under its key -/
theorem unacked_whole_or_absent (K : KV) (L : K.Laws) (z : Zip) (retain : UInt32) (pre post : List Ev) (m : Msg)
    (d : K.Disk) (hr : Run K z retain K.empty (pre ++ .died m :: post) d)
    (hpre : ∀ ev ∈ pre, ev.key? ≠ some m.id) (hpost : ∀ ev ∈ post, ev.key? ≠ some m.id) :
    K.get d m.id = none ∨ ∃ e, entryOf z retain m = .ok e ∧ K.get d m.id = some e := died_get L hr hpre hpost

/-- every durable entry was written, whole, by a `Store` call of the history -/
theorem no_invented_entry (K : KV) (L : K.Laws) (z : Zip) (retain : UInt32) (evs : List Ev) (d : K.Disk)
    (k : Bytes) (e : Entry) (hr : Run K z retain K.empty evs d) (hg : K.get d k = some e) :
    ∃ m ∈ msgs evs, entryOf z retain m = .ok e := reachable_origin L hr hg

/-- what `Store` writes and what `loadMessage` reads back: key = id; the value decodes to the
message with the retention substituted; `Store` panics exactly on ids shorter than 8 bytes -/
theorem store_entry (z : Zip) (hz : z.Ok) (retain : UInt32) (m : Msg) (hm : m.ok) (e : Entry) :
    (entryOf z retain m = .ok e ↔ 8 ≤ m.id.length ∧ e = ⟨m.id, z.enc (encodeMsg (storedMsg retain m)), expiryOf retain m⟩) ∧
    (entryOf z retain m = .ok e → loadMsg z e = .ok (storedMsg retain m)) :=
  ⟨entryOf_ok_iff z retain m e, fun h => loadMsg_entryOf hz hm h⟩

/-- expiry arithmetic: for an id `NewID` made at second `unix` the database holds `unix + ttl`
(the configured retention for a retained message) -/
theorem expiry (ssid : Ssid) (unix : Int) (seq uniq : UInt32) (id ch pl : Bytes) (ttl retain : UInt32)
    (h : newId ssid unix seq uniq = .ok id) (h0 : timeOffset ≤ unix) (h1 : unix - timeOffset < 4294967296) :
    (expiryOf retain ⟨id, ch, pl, ttl⟩ : Int) = unix + (if ttl = retainedTTL then retain else ttl).toNat :=
  expiry_exact ssid unix seq uniq id ch pl ttl retain h h0 h1

/-! ## "the store always reopens" is an assumption about badger, and it is false of badger v3.2103

In `KV` opening is total (`scan` is a function), so `stored_messages_survive` is the `…_partial`
theorem: it holds on every history in which every open succeeds. The full statement for the store
as found (`DirB`, Model/Store.lean) is refuted; the driver raises the flag
`C15.reopen-fails-once-after-kill` on exactly this branch (first open after a kill fails with
badger's "Create a new file"), see known_findings.txt. -/

def AlwaysReopens : Prop := ∀ d : DirB, (d.open).1.isSome = true

theorem always_reopens_refuted : ¬ AlwaysReopens := fun h => absurd (h ⟨[], true⟩) (by decide)

/-- … it opens whenever no zero-length memtable file was left behind, with every entry -/
theorem always_reopens_partial (d : DirB) (h : d.zeroMem = false) : (d.open).1 = some d.entries := by
  unfold DirB.open; rw [h]; rfl

/-- … and in any case on the second attempt (the failed open re-initialises the file): this is
why one retry, or removing zero-length `.mem` files before `badger.Open`, repairs it -/
theorem reopens_on_second_try (d : DirB) : ((d.open).2.open).1 = some d.entries := by
  cases d with
  | mk e z => cases z <;> rfl

/-! ## non-vacuity: the laws have a model, and it is the one the driver executes -/

/-- the sorted-association-list store satisfies every law -/
theorem list_store_laws : listKV.Laws := listKV_laws

theorem identity_zip_ok : Zip.id.Ok := fun _ => rfl

/-- for every history and every choice of which in-flight writes reached the directory, the
executable list run (`exec`, what the driver computes) is a run of the protocol -/
theorem list_run (z : Zip) (retain : UInt32) (evs : List (Ev × Bool)) (d : List Entry)
    (h : ∀ x ∈ evs, ackOk z retain x) : Run listKV z retain d (evs.map (·.1)) (exec z retain d evs) :=
  exec_run z retain evs d h

/-- … hence the theorem applies to what the driver prints -/
theorem driver_answer (retain : UInt32) (evs : List (Ev × Bool)) (h : ∀ x ∈ evs, ackOk Zip.id retain x)
    (hok : ∀ m ∈ msgs (evs.map (·.1)), m.ok) (now : Nat) :
    ∃ res, query listKV Zip.id (exec Zip.id retain [] evs) now = .ok res ∧
      (∀ f ∈ res, ∃ m, (.acked m ∈ evs.map (·.1) ∨ .died m ∈ evs.map (·.1)) ∧ f = foundOf retain m ∧ now < f.expiresAt) := by
  obtain ⟨res, h1, _, h2, _⟩ := survive list_store_laws identity_zip_ok (exec_run Zip.id retain evs [] h) hok now
  exact ⟨res, h1, h2⟩

/-- a concrete history: two acknowledged stores (one retained, one already expired), a restart, a
store cut by a kill that did not land, one that did -/
def mA : Msg := ⟨[0,0,0,3, 0x10,0,0,0, 255,255,255,155, 0,0,0,7, 0,0,0,1, 0,0,0,2], [0x61, 0x2f], [1, 2, 3], 0xFFFFFFFF⟩
def mB : Msg := ⟨[0,0,0,3, 0x10,0,0,1, 255,255,255,154, 0,0,0,7, 0,0,0,1, 0,0,0,2], [0x61, 0x2f], [], 5⟩
def mC : Msg := ⟨[0,0,0,3, 0x10,0,0,0, 255,255,255,153, 0,0,0,7, 0,0,0,1, 0,0,0,2], [0x61, 0x2f], [9], 100⟩
def mD : Msg := ⟨[0,0,0,2, 0x10,0,0,0, 255,255,255,152, 0,0,0,7, 0,0,0,1, 0,0,0,3], [0x62, 0x2f], [7, 7], 100⟩

example : query listKV Zip.id
    (exec Zip.id 3600 [] [(.acked mA, true), (.acked mB, true), (.maint, true), (.died mC, false), (.maint, true), (.died mD, true)])
    (expiryOf 3600 mB) = .ok [foundOf 3600 mD, foundOf 3600 mA] := by decide

example : (foundOf 3600 mA).msg.ttl = 3600 ∧ (foundOf 3600 mA).expiresAt = 1514764800 + 4026531839 + 3600 := by decide

example : entryOf Zip.id 3600 ⟨[1, 2, 3], [], [], 1⟩ = .panic "slice bounds out of range" := by decide

end Emitter.C15
