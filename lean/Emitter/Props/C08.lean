/-
  C08 — A connection that ends leaves nothing behind; its last will fires once (broker model).
-/
import Emitter.Lemmas.Broker
namespace Emitter.C08
open Emitter Emitter.Trie Emitter.Security Emitter.Broker

/-- When a connection ends, every subscription it held is removed (ordinary, presence-change
and link-created alike: they all live in the same counters), nothing is delivered to it any
more, other connections are untouched and the connection counter goes down by one. -/
theorem close_cleans (auth : Auth) (b : B) (name : String) (c : Conn) (h : Sync b)
    (hc : b.conn? name = some c) (ha : c.alive = true) :
    let r := step auth b name .close
    (∃ c', r.1.conn? name = some c' ∧ c'.alive = false ∧ c'.counters = []) ∧
    (∀ p, (p, c.key) ∉ r.1.trie.root.abs) ∧
    (∀ c₂ ∈ b.conns, c₂.name ≠ name → c₂ ∈ r.1.conns) ∧
    r.1.open_ = b.open_ - 1 ∧
    (∀ ssid excl pkt, (name, pkt) ∉ deliver r.1 ssid excl pkt) :=
  Broker.close_cleans auth b name c h hc ha

/-- the last will is published iff one was supplied with a key that allows publishing to the
(static) will channel … -/
theorem will_fires_iff (auth : Auth) (b : B) (c : Conn) :
    (∃ g, c.hasConnect = true ∧ c.willFlag = true ∧ (parseChannel c.willTopic).ctype = chStatic ∧
        auth b.banned (parseChannel c.willTopic) permWrite = some g ∧ g.has permExtend = false ∧
        (lastWill auth b c).2 = deliver (lastWill auth b c).1 (g.contract :: (parseChannel c.willTopic).query) none
                                  (.pub (parseChannel c.willTopic).channel c.willMessage)) ∨
    ((¬ ∃ g, c.hasConnect = true ∧ c.willFlag = true ∧ (parseChannel c.willTopic).ctype = chStatic ∧
        auth b.banned (parseChannel c.willTopic) permWrite = some g ∧ g.has permExtend = false) ∧
      lastWill auth b c = (b, [])) := Broker.will_fires_iff auth b c

/-- … and exactly once: a closed connection is never served again -/
theorem will_once (auth : Auth) (b : B) (name : String) (c : Conn) (r : Req)
    (hc : b.conn? name = some c) (ha : c.alive = false) : step auth b name r = (b, []) :=
  Broker.dead_silent auth b name c r hc ha

/-- one 'unsubscribe' presence event per subscription the connection held -/
theorem presence_leave (b : B) (c : Conn) (ssid : Path) (channel : Bytes) (h1 : ∀ ctr ∈ c.counters, ctr.count = 1) :
    (unsubscribeConn b c ssid channel).2 =
      if c.counters.any (·.ssid == ssid) then
        notify (unsubscribeConn b c ssid channel).1 "unsubscribe"
          { c with counters := c.counters.filter (·.ssid != ssid) } ssid channel
      else [] := Broker.unsubscribeConn_out b c ssid channel h1

/-- the invariant the above rest on holds after every history -/
theorem sync_step (auth : Auth) (b : B) (name : String) (r : Req) (h : Sync b) :
    Sync (step auth b name r).1 := Broker.sync_step auth b name r h

end Emitter.C08
