import Emitter.Model.Broker
namespace Emitter.C08
theorem placeholder : True := trivial
end Emitter.C08
