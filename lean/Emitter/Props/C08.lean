/-
  C08 — A connection that ends leaves nothing behind; its last will fires once (broker model).
-/
import Emitter.Lemmas.Broker
import Emitter.Lemmas.BrokerHistory
namespace Emitter.C08
open Emitter Emitter.Trie Emitter.Security Emitter.Broker

/-- When a connection ends, every subscription it held is removed (ordinary, presence-change
and link-created alike: they all live in the same counters), nothing is delivered to it any
more, other connections are untouched and the connection counter goes down by one. -/
theorem close_cleans (auth : Auth) (b : B) (name : String) (c : Conn) (h : Sync b)
    (hc : b.conn? name = some c) (ha : c.alive = true) :
    let r := step auth b name .close
    (∃ c', r.1.conn? name = some c' ∧ c'.alive = false ∧ c'.counters = []) ∧
    (∀ p, (p, c.key) ∉ r.1.trie.root.abs) ∧
    (∀ c₂ ∈ b.conns, c₂.name ≠ name → c₂ ∈ r.1.conns) ∧
    r.1.open_ = b.open_ - 1 ∧
    (∀ ssid excl pkt, (name, pkt) ∉ deliver r.1 ssid excl pkt) :=
  Broker.close_cleans auth b name c h hc ha

/-- the last will is published iff one was supplied with a key that allows publishing to the
(static) will channel … -/
theorem will_fires_iff (auth : Auth) (b : B) (c : Conn) :
    (∃ g, c.hasConnect = true ∧ c.willFlag = true ∧ (parseChannel c.willTopic).ctype = chStatic ∧
        auth b.banned (parseChannel c.willTopic) permWrite = some g ∧ g.has permExtend = false ∧
        (lastWill auth b c).2 = deliver (lastWill auth b c).1 (g.contract :: (parseChannel c.willTopic).query) none
                                  (.pub (parseChannel c.willTopic).channel c.willMessage)) ∨
    ((¬ ∃ g, c.hasConnect = true ∧ c.willFlag = true ∧ (parseChannel c.willTopic).ctype = chStatic ∧
        auth b.banned (parseChannel c.willTopic) permWrite = some g ∧ g.has permExtend = false) ∧
      lastWill auth b c = (b, [])) := Broker.will_fires_iff auth b c

/-- … and exactly once: a closed connection is never served again -/
theorem will_once (auth : Auth) (b : B) (name : String) (c : Conn) (r : Req)
    (hc : b.conn? name = some c) (ha : c.alive = false) : step auth b name r = (b, []) :=
  Broker.dead_silent auth b name c r hc ha

/-- one 'unsubscribe' presence event per subscription the connection held -/
theorem presence_leave (b : B) (c : Conn) (ssid : Path) (channel : Bytes) (h1 : ∀ ctr ∈ c.counters, ctr.count = 1) :
    (unsubscribeConn b c ssid channel).2 =
      if c.counters.any (·.ssid == ssid) then
        notify (unsubscribeConn b c ssid channel).1 "unsubscribe"
          { c with counters := c.counters.filter (·.ssid != ssid) } ssid channel
      else [] := Broker.unsubscribeConn_out b c ssid channel h1

/-- the invariant the above rest on holds after every history -/
theorem sync_step (auth : Auth) (b : B) (name : String) (r : Req) (h : Sync b) :
    Sync (step auth b name r).1 := Broker.sync_step auth b name r h

/-- History level (specification: `Emitter/Spec/Subscriptions.lean`): once a connection that
was accepted has ended, then for the REST of any well-formed history — whatever anybody,
including the closed connection, requests — it is not open, the set `A` of acknowledged
subscriptions holds no pair of it (ordinary, presence-change and link-created alike), its record
is dead and empty, and the subscription index has no entry under its key. -/
theorem close_history_clean (auth : Auth) (b₀ : B) (h0 : Pristine b₀) (h₁ h₂ : List Spec.Ev) (name : String)
    (hwf : Spec.wellFormed (h₁ ++ .req name .close :: h₂) = true) (hacc : name ∈ Spec.acceptNames h₁) :
    let b := run auth b₀ (h₁ ++ .req name .close :: h₂)
    let S := Spec.run auth (Spec.init b₀) (h₁ ++ .req name .close :: h₂)
    name ∉ S.alive ∧ (∀ σ, (name, σ) ∉ S.A) ∧
    ∀ x ∈ b.conns, x.name = name → x.alive = false ∧ x.counters = [] ∧ ∀ σ, (σ, x.key) ∉ b.trie.root.abs :=
  Broker.close_history_clean auth b₀ h0 h₁ h₂ name hwf hacc

/-! non-vacuity: c1 subscribes `k/a/` twice, watches presence on `k/a/`, links `k/b/` with
auto-subscribe; c2 subscribes `k/+/`; c1 disconnects; afterwards c1 tries to subscribe again
and c2 subscribes `k/a/` (toy authorizer: the key `k` grants everything but `extend`) -/
def demoAuth : Auth := fun banned ch _ =>
  if banned.contains ch.key then none else if ch.key == [107] then some ⟨7, 0x3f⟩ else none

def demo₁ : List Spec.Ev :=
  [.accept "c1" [1], .accept "c2" [2],
   .req "c1" (.subscribe 1 [107, 47, 97, 47] 0),
   .req "c1" (.subscribe 2 [107, 47, 97, 47] 0),
   .req "c1" (.presence 3 [107] [97, 47] false (some true)),
   .req "c1" (.link 4 [98] [107] [98, 47] true),
   .req "c2" (.subscribe 5 [107, 47, 43, 47] 0)]

def demo₂ : List Spec.Ev :=
  [.req "c1" (.subscribe 6 [107, 47, 97, 47] 0), .req "c2" (.subscribe 7 [107, 47, 97, 47] 0)]

set_option maxRecDepth 8000

/-- before the disconnect c1 holds three pairs … -/
example : ((Spec.run demoAuth (Spec.init {}) demo₁).A.filter (·.1 == "c1")).length = 3 := by decide +kernel
/-- … the theorem applies … -/
example : "c1" ∉ (Spec.run demoAuth (Spec.init {}) (demo₁ ++ .req "c1" .close :: demo₂)).alive ∧
    ∀ σ, ("c1", σ) ∉ (Spec.run demoAuth (Spec.init {}) (demo₁ ++ .req "c1" .close :: demo₂)).A :=
  let h := close_history_clean demoAuth {} ⟨rfl, rfl⟩ demo₁ demo₂ "c1" (by decide +kernel) (by decide +kernel)
  ⟨h.1, h.2.1⟩
/-- … and what is left are c2's two subscriptions -/
example : (Spec.run demoAuth (Spec.init {}) (demo₁ ++ .req "c1" .close :: demo₂)).A =
    [("c2", [7, 1815237614]), ("c2", [7, 3238259379])] := by decide +kernel
example : (Spec.run demoAuth (Spec.init {}) (demo₁ ++ .req "c1" .close :: demo₂)).alive = ["c2"] := by decide +kernel

end Emitter.C08
