import Emitter.Model.Broker
namespace Emitter.C02
theorem placeholder : True := trivial
end Emitter.C02
