/-
  C02 — An acknowledged subscription gets every matching publish once, until removed.
  Statements over the broker model, for EVERY authorizer and every request history;
  proofs in Emitter/Lemmas/Broker.lean.
-/
import Emitter.Lemmas.Broker
namespace Emitter.C02
open Emitter Emitter.Trie Emitter.Security Emitter.Broker

/-- the empty broker satisfies the invariant, accepting a connection and serving any request
preserve it — hence it holds after every history of requests by any number of clients -/
theorem sync_init : Sync {} := Broker.sync_init
theorem sync_accept (b : B) (name : String) (guid : Bytes) (h : Sync b)
    (hn : ∀ c ∈ b.conns, c.name ≠ name) (hk : ∀ c ∈ b.conns, c.key ≠ Hash.hashOf guid) :
    Sync (accept b name guid) := Broker.sync_accept b name guid h hn hk
theorem sync_step (auth : Auth) (b : B) (name : String) (r : Req) (h : Sync b) :
    Sync (step auth b name r).1 := Broker.sync_step auth b name r h

/-- history form: any sequence of requests from a state satisfying the invariant -/
theorem sync_history (auth : Auth) (b : B) (h : Sync b) (reqs : List (String × Req)) :
    Sync (reqs.foldl (fun b e => (step auth b e.1 e.2).1) b) := by
  induction reqs generalizing b with
  | nil => exact h
  | cons e es ih => exact ih _ (Broker.sync_step auth b e.1 e.2 h)

/-- A client receives a published message iff it holds an acknowledged, not yet removed
subscription whose filter matches the channel, and the publisher did not exclude itself; … -/
theorem deliver_spec (b : B) (h : Sync b) (ssid : Path) (excl : Option Sub) (pkt : Pkt) (n : String) (p : Pkt) :
    (n, p) ∈ deliver b ssid excl pkt ↔
      p = pkt ∧ ∃ c ∈ b.conns, c.name = n ∧ c.alive = true ∧ receives b.mode c ssid ∧ excl ≠ some c.key :=
  Broker.deliver_spec b h ssid excl pkt n p
/-- … it receives it once, … -/
theorem deliver_once (b : B) (h : Sync b) (ssid : Path) (excl : Option Sub) (pkt : Pkt) :
    ((deliver b ssid excl pkt).map Prod.fst).Nodup := Broker.deliver_once b h ssid excl pkt
/-- … with channel (key and options stripped) and payload unchanged; the subscriptions are untouched. -/
theorem publish_exact (auth : Auth) (b : B) (name : String) (c : Conn) (qos : UInt8) (retain : Bool)
    (mid : UInt16) (topic payload : Bytes) (g : Grant)
    (hc : b.conn? name = some c) (ha : c.alive = true)
    (hs : (parseChannel (resolve c topic)).ctype = chStatic)
    (hauth : auth b.banned (parseChannel (resolve c topic)) permWrite = some g) (hx : g.has permExtend = false) :
    let ch := parseChannel (resolve c topic)
    let r := step auth b name (.publish qos retain mid topic payload)
    r.1.trie = b.trie ∧ r.1.conns = b.conns ∧
    r.2 = deliver r.1 (g.contract :: ch.query) (if ch.exclude then some c.key else none) (.pub ch.channel payload)
            ++ (if qos > 0 then [(name, .puback mid)] else []) :=
  Broker.publish_exact auth b name c qos retain mid topic payload g hc ha hs hauth hx

theorem subscribe_records (auth : Auth) (b : B) (name : String) (c : Conn) (mid : UInt16) (topic : Bytes) (qos : UInt8)
    (g : Grant) (h : Sync b) (hc : b.conn? name = some c) (ha : c.alive = true)
    (hv : (parseChannel (fixTopic topic)).ctype ≠ chInvalid)
    (hauth : auth b.banned (parseChannel (fixTopic topic)) permRead = some g) (hx : g.has permExtend = false) :
    let ssid := g.contract :: (parseChannel (fixTopic topic)).query
    let r := step auth b name (.subscribe mid topic qos)
    (∃ c', r.1.conn? name = some c' ∧ hasCounter c' ssid) ∧
    (hasCounter c ssid → r.1.trie = b.trie ∧ r.1.conns = b.conns) ∧
    r.2.getLast? = some (name, .suback mid [qos]) :=
  Broker.subscribe_records auth b name c mid topic qos g h hc ha hv hauth hx

theorem unsubscribe_removes (auth : Auth) (b : B) (name : String) (c : Conn) (mid : UInt16) (topic : Bytes)
    (g : Grant) (h : Sync b) (hc : b.conn? name = some c) (ha : c.alive = true)
    (hv : (parseChannel topic).ctype ≠ chInvalid)
    (hauth : auth b.banned (parseChannel topic) permRead = some g) (hx : g.has permExtend = false) :
    let ssid := g.contract :: (parseChannel topic).query
    let r := step auth b name (.unsubscribe mid topic)
    (∃ c', r.1.conn? name = some c' ∧ ¬ hasCounter c' ssid ∧ ∀ p, p ≠ ssid → (hasCounter c' p ↔ hasCounter c p)) ∧
    (∀ c₂ ∈ b.conns, c₂.name ≠ name → c₂ ∈ r.1.conns) :=
  Broker.unsubscribe_removes auth b name c mid topic g h hc ha hv hauth hx

/-- A request that fails parsing or authorization changes nothing and is answered with an error. -/
theorem reject_subscribe (auth : Auth) (b : B) (name : String) (c : Conn) (mid : UInt16) (topic : Bytes) (qos : UInt8)
    (hc : b.conn? name = some c) (ha : c.alive = true)
    (hbad : (parseChannel (fixTopic topic)).ctype = chInvalid ∨
            auth b.banned (parseChannel (fixTopic topic)) permRead = none ∨
            ∃ g, auth b.banned (parseChannel (fixTopic topic)) permRead = some g ∧ g.has permExtend = true) :
    ∃ st, step auth b name (.subscribe mid topic qos) = (b, [(name, errPkt mid st), (name, .suback mid [0x80])]) :=
  Broker.reject_subscribe auth b name c mid topic qos hc ha hbad
theorem reject_unsubscribe (auth : Auth) (b : B) (name : String) (c : Conn) (mid : UInt16) (topic : Bytes)
    (hc : b.conn? name = some c) (ha : c.alive = true)
    (hbad : (parseChannel topic).ctype = chInvalid ∨ auth b.banned (parseChannel topic) permRead = none ∨
            ∃ g, auth b.banned (parseChannel topic) permRead = some g ∧ g.has permExtend = true) :
    ∃ st, step auth b name (.unsubscribe mid topic) = (b, [(name, errPkt mid st), (name, .unsuback mid)]) :=
  Broker.reject_unsubscribe auth b name c mid topic hc ha hbad
theorem reject_publish (auth : Auth) (b : B) (name : String) (c : Conn) (qos : UInt8) (retain : Bool)
    (mid : UInt16) (topic payload : Bytes)
    (hc : b.conn? name = some c) (ha : c.alive = true)
    (hbad : (parseChannel (resolve c topic)).ctype ≠ chStatic ∨
            auth b.banned (parseChannel (resolve c topic)) permWrite = none ∨
            ∃ g, auth b.banned (parseChannel (resolve c topic)) permWrite = some g ∧ g.has permExtend = true) :
    ∃ st, step auth b name (.publish qos retain mid topic payload)
      = (b, [(name, errPkt mid st)] ++ (if qos > 0 then [(name, .puback mid)] else [])) :=
  Broker.reject_publish auth b name c qos retain mid topic payload hc ha hbad

/-! non-vacuity: a two-client history (subscribe a/b and b/a on one connection, publish b/a) -/
example : Sync (accept (accept {} "c1" [1]) "c2" [2]) :=
  Broker.sync_accept _ _ _ (Broker.sync_accept _ _ _ Broker.sync_init (by simp) (by simp)) (by simp [accept]) (by
    intro c hc; simp [accept] at hc; subst hc; decide)

end Emitter.C02
