/-
  C02 — An acknowledged subscription gets every matching publish once, until removed.
  Statements over the broker model, for EVERY authorizer and every request history;
  proofs in Emitter/Lemmas/Broker.lean.
-/
import Emitter.Lemmas.Broker
import Emitter.Lemmas.BrokerHistory
namespace Emitter.C02
open Emitter Emitter.Trie Emitter.Security Emitter.Broker

/-- the empty broker satisfies the invariant, accepting a connection and serving any request
preserve it — hence it holds after every history of requests by any number of clients -/
theorem sync_init : Sync {} := Broker.sync_init
theorem sync_accept (b : B) (name : String) (guid : Bytes) (h : Sync b)
    (hn : ∀ c ∈ b.conns, c.name ≠ name) (hk : ∀ c ∈ b.conns, c.key ≠ Hash.hashOf guid) :
    Sync (accept b name guid) := Broker.sync_accept b name guid h hn hk
theorem sync_step (auth : Auth) (b : B) (name : String) (r : Req) (h : Sync b) :
    Sync (step auth b name r).1 := Broker.sync_step auth b name r h

/-- history form: any sequence of requests from a state satisfying the invariant -/
theorem sync_history (auth : Auth) (b : B) (h : Sync b) (reqs : List (String × Req)) :
    Sync (reqs.foldl (fun b e => (step auth b e.1 e.2).1) b) := by
  induction reqs generalizing b with
  | nil => exact h
  | cons e es ih => exact ih _ (Broker.sync_step auth b e.1 e.2 h)

/-- A client receives a published message iff it holds an acknowledged, not yet removed
subscription whose filter matches the channel, and the publisher did not exclude itself; … -/
theorem deliver_spec (b : B) (h : Sync b) (ssid : Path) (excl : Option Sub) (pkt : Pkt) (n : String) (p : Pkt) :
    (n, p) ∈ deliver b ssid excl pkt ↔
      p = pkt ∧ ∃ c ∈ b.conns, c.name = n ∧ c.alive = true ∧ receives b.mode c ssid ∧ excl ≠ some c.key :=
  Broker.deliver_spec b h ssid excl pkt n p
/-- … it receives it once, … -/
theorem deliver_once (b : B) (h : Sync b) (ssid : Path) (excl : Option Sub) (pkt : Pkt) :
    ((deliver b ssid excl pkt).map Prod.fst).Nodup := Broker.deliver_once b h ssid excl pkt
/-- … with channel (key and options stripped) and payload unchanged; the subscriptions are untouched. -/
theorem publish_exact (auth : Auth) (b : B) (name : String) (c : Conn) (qos : UInt8) (retain : Bool)
    (mid : UInt16) (topic payload : Bytes) (g : Grant)
    (hc : b.conn? name = some c) (ha : c.alive = true)
    (hs : (parseChannel (resolve c topic)).ctype = chStatic)
    (hauth : auth b.banned (parseChannel (resolve c topic)) permWrite = some g) (hx : g.has permExtend = false) :
    let ch := parseChannel (resolve c topic)
    let r := step auth b name (.publish qos retain mid topic payload)
    r.1.trie = b.trie ∧ r.1.conns = b.conns ∧
    r.2 = deliver r.1 (g.contract :: ch.query) (if ch.exclude then some c.key else none) (.pub ch.channel payload)
            ++ (if qos > 0 then [(name, .puback mid)] else []) :=
  Broker.publish_exact auth b name c qos retain mid topic payload g hc ha hs hauth hx

theorem subscribe_records (auth : Auth) (b : B) (name : String) (c : Conn) (mid : UInt16) (topic : Bytes) (qos : UInt8)
    (g : Grant) (h : Sync b) (hc : b.conn? name = some c) (ha : c.alive = true)
    (hv : (parseChannel (fixTopic topic)).ctype ≠ chInvalid)
    (hauth : auth b.banned (parseChannel (fixTopic topic)) permRead = some g) (hx : g.has permExtend = false) :
    let ssid := g.contract :: (parseChannel (fixTopic topic)).query
    let r := step auth b name (.subscribe mid topic qos)
    (∃ c', r.1.conn? name = some c' ∧ hasCounter c' ssid) ∧
    (hasCounter c ssid → r.1.trie = b.trie ∧ r.1.conns = b.conns) ∧
    r.2.getLast? = some (name, .suback mid [qos]) :=
  Broker.subscribe_records auth b name c mid topic qos g h hc ha hv hauth hx

theorem unsubscribe_removes (auth : Auth) (b : B) (name : String) (c : Conn) (mid : UInt16) (topic : Bytes)
    (g : Grant) (h : Sync b) (hc : b.conn? name = some c) (ha : c.alive = true)
    (hv : (parseChannel topic).ctype ≠ chInvalid)
    (hauth : auth b.banned (parseChannel topic) permRead = some g) (hx : g.has permExtend = false) :
    let ssid := g.contract :: (parseChannel topic).query
    let r := step auth b name (.unsubscribe mid topic)
    (∃ c', r.1.conn? name = some c' ∧ ¬ hasCounter c' ssid ∧ ∀ p, p ≠ ssid → (hasCounter c' p ↔ hasCounter c p)) ∧
    (∀ c₂ ∈ b.conns, c₂.name ≠ name → c₂ ∈ r.1.conns) :=
  Broker.unsubscribe_removes auth b name c mid topic g h hc ha hv hauth hx

/-- A request that fails parsing or authorization changes nothing and is answered with an error. -/
theorem reject_subscribe (auth : Auth) (b : B) (name : String) (c : Conn) (mid : UInt16) (topic : Bytes) (qos : UInt8)
    (hc : b.conn? name = some c) (ha : c.alive = true)
    (hbad : (parseChannel (fixTopic topic)).ctype = chInvalid ∨
            auth b.banned (parseChannel (fixTopic topic)) permRead = none ∨
            ∃ g, auth b.banned (parseChannel (fixTopic topic)) permRead = some g ∧ g.has permExtend = true) :
    ∃ st, step auth b name (.subscribe mid topic qos) = (b, [(name, errPkt mid st), (name, .suback mid [0x80])]) :=
  Broker.reject_subscribe auth b name c mid topic qos hc ha hbad
theorem reject_unsubscribe (auth : Auth) (b : B) (name : String) (c : Conn) (mid : UInt16) (topic : Bytes)
    (hc : b.conn? name = some c) (ha : c.alive = true)
    (hbad : (parseChannel topic).ctype = chInvalid ∨ auth b.banned (parseChannel topic) permRead = none ∨
            ∃ g, auth b.banned (parseChannel topic) permRead = some g ∧ g.has permExtend = true) :
    ∃ st, step auth b name (.unsubscribe mid topic) = (b, [(name, errPkt mid st), (name, .unsuback mid)]) :=
  Broker.reject_unsubscribe auth b name c mid topic hc ha hbad
theorem reject_publish (auth : Auth) (b : B) (name : String) (c : Conn) (qos : UInt8) (retain : Bool)
    (mid : UInt16) (topic payload : Bytes)
    (hc : b.conn? name = some c) (ha : c.alive = true)
    (hbad : (parseChannel (resolve c topic)).ctype ≠ chStatic ∨
            auth b.banned (parseChannel (resolve c topic)) permWrite = none ∨
            ∃ g, auth b.banned (parseChannel (resolve c topic)) permWrite = some g ∧ g.has permExtend = true) :
    ∃ st, step auth b name (.publish qos retain mid topic payload)
      = (b, [(name, errPkt mid st)] ++ (if qos > 0 then [(name, .puback mid)] else [])) :=
  Broker.reject_publish auth b name c qos retain mid topic payload hc ha hbad

/-! non-vacuity: a two-client history (subscribe a/b and b/a on one connection, publish b/a) -/
example : Sync (accept (accept {} "c1" [1]) "c2" [2]) :=
  Broker.sync_accept _ _ _ (Broker.sync_accept _ _ _ Broker.sync_init (by simp) (by simp)) (by simp [accept]) (by
    intro c hc; simp [accept] at hc; subst hc; decide)

/-! ## History level: the model refines the set `A` of acknowledged, not yet removed subscriptions

Specification: `Emitter/Spec/Subscriptions.lean` (`Spec.SpecState`, `Spec.effect`, `Spec.step`,
`Spec.receivers`; no counters, no index). Histories are lists of `Spec.Ev` — accepts, requests of
any kind by any connection, changes of the ban list — run on the model by `Broker.run` and on the
specification by `Spec.run`, from a pristine broker `b₀` (no connection, empty index; either
matcher mode). `Spec.wellFormed`: accepted names are distinct and connection ids have distinct
hashes (the side conditions of `sync_accept`). Proofs in `Emitter/Lemmas/BrokerHistory.lean`.

Repeated subscribes: a held filter is not entered twice and ONE accepted unsubscribe removes it
(`Conn.CanSubscribe` = `Counters.IncrementOnce`), see the docstring of `Spec.effect`. -/

/-- After EVERY well-formed history: the invariant holds, and for every connection `c` and filter
`σ`: `c` holds `σ` in the model's bookkeeping ⇔ `(c.name, σ) ∈ A` ⇔ the subscription index has
`σ` under `c`'s key; `c` is open ⇔ its name is open in the specification; nothing in `A` belongs
to a connection that is unknown or closed. -/
theorem history_refines (auth : Auth) (b₀ : B) (h0 : Pristine b₀) (evs : List Spec.Ev)
    (hwf : Spec.wellFormed evs = true) :
    let b := run auth b₀ evs
    let S := Spec.run auth (Spec.init b₀) evs
    Sync b ∧ b.mode = b₀.mode ∧ S.banned = b.banned ∧
    (∀ c ∈ b.conns, (c.name ∈ S.alive ↔ c.alive = true) ∧
        ∀ σ, (hasCounter c σ ↔ (c.name, σ) ∈ S.A) ∧
             ((c.alive = true ∧ hasCounter c σ) ↔ (c.name, σ) ∈ S.A) ∧
             ((σ, c.key) ∈ b.trie.root.abs ↔ (c.name, σ) ∈ S.A)) ∧
    (∀ n, (n ∈ S.alive ∨ ∃ σ, (n, σ) ∈ S.A) → ∃ c ∈ b.conns, c.name = n ∧ c.alive = true) :=
  Broker.history_refines_spelled auth b₀ h0 evs hwf

/-- the step that carries the induction: one request, by any connection, keeps the model and
the specification related (`Refines`: same ban list, same open connections, same pairs) -/
theorem refines_step (auth : Auth) {b : B} {S : Spec.SpecState} (hs : Sync b) (hr : Refines b S)
    (name : String) (r : Req) : Refines (step auth b name r).1 (Spec.step auth S name r) :=
  Broker.refines_step auth hs hr name r

/-- For an accepted PUBLISH after any well-formed history, the PUBLISH packets the broker emits
are — as a multiset (`List.Perm`) — exactly one packet, channel (key and options stripped) and
payload unchanged, for every open connection that holds in `A` a filter matching the channel
(`matchesMode`, the C01 relation, in the broker's matcher mode), except the publisher when it
excluded itself (`me=0`). -/
theorem publish_history_exact (auth : Auth) (b₀ : B) (h0 : Pristine b₀) (evs : List Spec.Ev)
    (hwf : Spec.wellFormed evs = true)
    (name : String) (c : Conn) (qos : UInt8) (retain : Bool) (mid : UInt16) (topic payload : Bytes) (g : Grant)
    (hc : (run auth b₀ evs).conn? name = some c) (ha : c.alive = true)
    (hst : (parseChannel (resolve c topic)).ctype = chStatic)
    (hauth : auth (run auth b₀ evs).banned (parseChannel (resolve c topic)) permWrite = some g)
    (hx : g.has permExtend = false) :
    ((step auth (run auth b₀ evs) name (.publish qos retain mid topic payload)).2.filter isPub).Perm
      ((Spec.receivers b₀.mode (Spec.run auth (Spec.init b₀) evs) (g.contract :: (parseChannel (resolve c topic)).query)
          (if (parseChannel (resolve c topic)).exclude then some name else none)).map
        (fun n => (n, Pkt.pub (parseChannel (resolve c topic)).channel payload))) :=
  Broker.publish_history_exact auth b₀ h0 evs hwf name c qos retain mid topic payload g hc ha hst hauth hx

/-- the same, read per receiver (if and only if), and nobody receives the message twice -/
theorem publish_history_iff (auth : Auth) (b₀ : B) (h0 : Pristine b₀) (evs : List Spec.Ev)
    (hwf : Spec.wellFormed evs = true)
    (name : String) (c : Conn) (qos : UInt8) (retain : Bool) (mid : UInt16) (topic payload : Bytes) (g : Grant)
    (hc : (run auth b₀ evs).conn? name = some c) (ha : c.alive = true)
    (hst : (parseChannel (resolve c topic)).ctype = chStatic)
    (hauth : auth (run auth b₀ evs).banned (parseChannel (resolve c topic)) permWrite = some g)
    (hx : g.has permExtend = false) :
    let S := Spec.run auth (Spec.init b₀) evs
    let ch := parseChannel (resolve c topic)
    let out := (step auth (run auth b₀ evs) name (.publish qos retain mid topic payload)).2.filter isPub
    (∀ n p, (n, p) ∈ out ↔
      p = .pub ch.channel payload ∧ n ∈ S.alive ∧
      (∃ f, (n, f) ∈ S.A ∧ matchesMode b₀.mode f (g.contract :: ch.query) = true) ∧
      ¬ (ch.exclude = true ∧ n = name)) ∧
    (out.map Prod.fst).Nodup :=
  Broker.publish_history_iff auth b₀ h0 evs hwf name c qos retain mid topic payload g hc ha hst hauth hx

/-- After an accepted unsubscribe of `σ` by `n` (or a presence request cancelling the watch
`σ`), or after `n`'s connection ended (`Spec.removes`), and as long as no later event adds
`(n, σ)` again (`Spec.everAdds`): the pair is not in `A`, the connection record does not hold
`σ`, the index has no entry for it, and no accepted publish is delivered to `n` on account of
`σ` — `n` gets a published message only if it holds ANOTHER filter matching the channel. -/
theorem removed_never_receives (auth : Auth) (b₀ : B) (h0 : Pristine b₀) (h₁ : List Spec.Ev) (e : Spec.Ev)
    (h₂ : List Spec.Ev) (hwf : Spec.wellFormed (h₁ ++ e :: h₂) = true) (n : String) (σ : Path)
    (hrem : Spec.removes auth (Spec.run auth (Spec.init b₀) h₁) e (n, σ) = true)
    (hno : Spec.everAdds auth (Spec.run auth (Spec.init b₀) (h₁ ++ [e])) h₂ (n, σ) = false) :
    let b := run auth b₀ (h₁ ++ e :: h₂)
    let S := Spec.run auth (Spec.init b₀) (h₁ ++ e :: h₂)
    (n, σ) ∉ S.A ∧
    (∀ x ∈ b.conns, x.name = n → ¬ hasCounter x σ ∧ (σ, x.key) ∉ b.trie.root.abs) ∧
    ∀ (name : String) (c : Conn) (qos : UInt8) (retain : Bool) (mid : UInt16) (topic payload : Bytes) (g : Grant),
      b.conn? name = some c → c.alive = true → (parseChannel (resolve c topic)).ctype = chStatic →
      auth b.banned (parseChannel (resolve c topic)) permWrite = some g → g.has permExtend = false →
      (∀ f, f ≠ σ → (n, f) ∈ S.A → matchesMode b₀.mode f (g.contract :: (parseChannel (resolve c topic)).query) = false) →
      ∀ p, (n, p) ∉ (step auth b name (.publish qos retain mid topic payload)).2.filter isPub :=
  Broker.removed_never_receives auth b₀ h0 h₁ e h₂ hwf n σ hrem hno

/-! ### non-vacuity: a concrete history with two clients

A toy authorizer: the key `k` (unless banned) grants everything but `extend` under contract 7,
the key `x` is an extendable key, any other key is refused. Channels are given as bytes:
`k/a/` = 107 47 97 47, `k/+/` = 107 47 43 47, `k/b/` = 107 47 98 47, `?me=0` = 63 109 101 61 48. -/

def demoAuth : Auth := fun banned ch _ =>
  if banned.contains ch.key then none
  else if ch.key == [107] then some ⟨7, 0x3f⟩
  else if ch.key == [120] then some ⟨7, 0x7f⟩
  else none

/-- c1 and c2 connect; c1 subscribes `k/a/` TWICE; c2 subscribes the wildcard `k/+/`; c1 is
refused with the unknown key `z` -/
def demo₁ : List Spec.Ev :=
  [.accept "c1" [1], .accept "c2" [2],
   .req "c1" (.subscribe 1 [107, 47, 97, 47] 0),
   .req "c1" (.subscribe 2 [107, 47, 97, 47] 0),
   .req "c2" (.subscribe 3 [107, 47, 43, 47] 0),
   .req "c1" (.subscribe 4 [122, 47, 97, 47] 0)]

/-- … then c1 unsubscribes `k/a/` ONCE -/
def demoUnsub : Spec.Ev := .req "c1" (.unsubscribe 5 [107, 47, 97, 47])

/-- … then c1 links `k/b/` with auto-subscribe -/
def demo₂ : List Spec.Ev := [.req "c1" (.link 6 [98] [107] [98, 47] true)]

def demo : List Spec.Ev := demo₁ ++ demoUnsub :: demo₂

/-- the filters: contract 7, then the hashed channel levels -/
def fa : Path := [7, 3238259379]
def fplus : Path := [7, 1815237614]
def fb : Path := [7, 500706888]

set_option maxRecDepth 8000

example : Spec.wellFormed demo = true := by decide +kernel

/-- the set after the first part: the repeated subscribe left ONE entry, the refused ones none -/
example : (Spec.run demoAuth (Spec.init {}) demo₁).A = [("c1", fa), ("c2", fplus)] := by decide +kernel

/-- one unsubscribe after two subscribes removes the subscription -/
example : (Spec.run demoAuth (Spec.init {}) demo).A = [("c2", fplus), ("c1", fb)] := by decide +kernel

/-- `history_refines` on the demo history: c1's record holds exactly `k/b/` (from the link), and
so does the index -/
example : ∀ c ∈ (run demoAuth {} demo).conns, c.name = "c1" →
    c.alive = true ∧ hasCounter c fb ∧ ¬ hasCounter c fa ∧
    (fb, c.key) ∈ (run demoAuth {} demo).trie.root.abs ∧ (fa, c.key) ∉ (run demoAuth {} demo).trie.root.abs := by
  intro c hc hn
  obtain ⟨_, _, _, h, _⟩ := history_refines demoAuth {} ⟨rfl, rfl⟩ demo (by decide +kernel)
  obtain ⟨h1, h2⟩ := h c hc
  rw [hn] at h1 h2
  exact ⟨h1.1 (by decide +kernel), ((h2 fb).1).2 (by decide +kernel),
    fun hh => absurd (((h2 fa).1).1 hh) (by decide +kernel),
    ((h2 fb).2.2).2 (by decide +kernel), fun hh => absurd (((h2 fa).2.2).1 hh) (by decide +kernel)⟩
example : ∃ c ∈ (run demoAuth {} demo).conns, c.name = "c1" := by decide +kernel

/-- c2's record after the demo history -/
def c2rec : Conn :=
  { name := "c2", guid := [2], counters := [⟨fplus, [43, 47], 1⟩] }

deriving instance DecidableEq for Conn

example : (run demoAuth {} demo).conn? "c2" = some c2rec := by decide +kernel

/-- `publish_history_exact` applies to: c2 publishes "hi" on `k/b/` with QoS 1 after the demo history … -/
example :
    ((step demoAuth (run demoAuth {} demo) "c2" (.publish 1 false 9 [107, 47, 98, 47] [104, 105])).2.filter isPub).Perm
      ((Spec.receivers .emitter (Spec.run demoAuth (Spec.init {}) demo) fb none).map
        (fun n => (n, Pkt.pub [98, 47] [104, 105]))) :=
  publish_history_exact demoAuth {} ⟨rfl, rfl⟩ demo (by decide +kernel) "c2" c2rec 1 false 9 [107, 47, 98, 47] [104, 105]
    ⟨7, 0x3f⟩ (by decide +kernel) rfl (by decide +kernel) (by decide +kernel) (by decide +kernel)

/-- … where both sides are what one expects: c1 (link subscription) and c2 (wildcard), the
PUBACK not counted -/
example : Spec.receivers .emitter (Spec.run demoAuth (Spec.init {}) demo) fb none = ["c1", "c2"] := by decide +kernel
example : (step demoAuth (run demoAuth {} demo) "c2" (.publish 1 false 9 [107, 47, 98, 47] [104, 105])).2 =
    [("c1", .pub [98, 47] [104, 105]), ("c2", .pub [98, 47] [104, 105]), ("c2", .puback 9)] := by decide +kernel

/-- the publisher excluding itself (`k/b/?me=0`) -/
example :
    ((step demoAuth (run demoAuth {} demo) "c2"
        (.publish 0 false 0 [107, 47, 98, 47, 63, 109, 101, 61, 48] [104, 105])).2.filter isPub).Perm
      ((Spec.receivers .emitter (Spec.run demoAuth (Spec.init {}) demo) fb (some "c2")).map
        (fun n => (n, Pkt.pub [98, 47] [104, 105]))) :=
  publish_history_exact demoAuth {} ⟨rfl, rfl⟩ demo (by decide +kernel) "c2" c2rec 0 false 0
    [107, 47, 98, 47, 63, 109, 101, 61, 48] [104, 105] ⟨7, 0x3f⟩ (by decide +kernel) rfl (by decide +kernel) (by decide +kernel) (by decide +kernel)
example : Spec.receivers .emitter (Spec.run demoAuth (Spec.init {}) demo) fb (some "c2") = ["c1"] := by decide +kernel

/-- the MQTT matcher mode -/
example :
    ((step demoAuth (run demoAuth { mode := .mqtt } demo) "c2" (.publish 1 false 9 [107, 47, 98, 47] [104, 105])).2.filter isPub).Perm
      ((Spec.receivers .mqtt (Spec.run demoAuth (Spec.init { mode := .mqtt }) demo) fb none).map
        (fun n => (n, Pkt.pub [98, 47] [104, 105]))) :=
  publish_history_exact demoAuth { mode := .mqtt } ⟨rfl, rfl⟩ demo (by decide +kernel) "c2" c2rec 1 false 9 [107, 47, 98, 47] [104, 105]
    ⟨7, 0x3f⟩ (by decide +kernel) rfl (by decide +kernel) (by decide +kernel) (by decide +kernel)
example : Spec.receivers .mqtt (Spec.run demoAuth (Spec.init { mode := .mqtt }) demo) fb none = ["c1", "c2"] := by decide +kernel

/-- `removed_never_receives` applies to c1's unsubscribe of `k/a/` (after TWO subscribes), the
later event (a link subscribing `k/b/`) not adding it again: a publish on `k/a/` is then not
delivered to c1 (whose remaining filter `k/b/` does not match), but still to c2 (wildcard) -/
example : ∀ p, ("c1", p) ∉ (step demoAuth (run demoAuth {} demo) "c2"
    (.publish 0 false 0 [107, 47, 97, 47] [104, 105])).2.filter isPub := by
  have h := (removed_never_receives demoAuth {} ⟨rfl, rfl⟩ demo₁ demoUnsub demo₂ (by decide +kernel) "c1" fa
    (by decide +kernel) (by decide +kernel)).2.2 "c2" c2rec 0 false 0 [107, 47, 97, 47] [104, 105] ⟨7, 0x3f⟩
    (by decide +kernel) rfl (by decide +kernel) (by decide +kernel) (by decide +kernel)
  apply h
  intro f hne hin
  have hA : (Spec.run demoAuth (Spec.init {}) (demo₁ ++ demoUnsub :: demo₂)).A =
      [("c2", fplus), ("c1", fb)] := by decide +kernel
  rw [hA] at hin
  simp only [List.mem_cons, Prod.mk.injEq, List.mem_nil_iff, or_false] at hin
  rcases hin with ⟨h1, _⟩ | ⟨_, rfl⟩
  · exact absurd h1 (by decide +kernel)
  · decide +kernel
example : (step demoAuth (run demoAuth {} demo) "c2" (.publish 0 false 0 [107, 47, 97, 47] [104, 105])).2 =
    [("c2", .pub [97, 47] [104, 105])] := by decide +kernel
/-- … while before the unsubscribe c1 did receive it (once, in spite of the two subscribes) -/
example : (step demoAuth (run demoAuth {} demo₁) "c2" (.publish 0 false 0 [107, 47, 97, 47] [104, 105])).2 =
    [("c1", .pub [97, 47] [104, 105]), ("c2", .pub [97, 47] [104, 105])] := by decide +kernel

end Emitter.C02
