/-
  C10 — Concurrent delivery keeps packet framing and per-publisher order.
  Property-level statements; the proofs are in Emitter/Lemmas/Delivery.lean, the small-step
  system in Emitter/Model/Delivery.lean.

  Quantification: `Reachable progs s` ranges over every state the system reaches from the initial
  state under ANY scheduler (which thread takes its next atomic step), ANY answers of the rate
  limiter, any number of threads (`Tid = Nat`, each with an arbitrary program of packets) and
  any number of steps.  A "thread" is any chain of `Write` calls ordered by happens-before: a
  publisher goroutine running `pubsub.Publish → Conn.Send`, the subscriber's own goroutine
  writing acknowledgements, or the flush timer.
-/
import Emitter.Lemmas.Delivery
import Emitter.Generated.Locks
namespace Emitter.C10
open Emitter Emitter.Delivery

/-! ## regenerated shape facts (tools/gofacts reads /repo on every run): the atomic steps of the
model are exactly these lock-bracketed regions -/

/-- `listener.Conn.Write` takes no lock itself; it calls, in this order of appearance,
`Limit`, `enqueue` (limited path), `Len`, `enqueue` + `Flush` (queue not empty), `socket.Write` -/
theorem fact_conn_write : Generated.lockConnWrite =
    ["recv.limit.Limit", "recv.enqueue", "recv.Len", "recv.enqueue", "recv.Flush", "recv.socket.Write"] := by decide

/-- `Flush` reads `Len()` outside the lock, then writes the queue to the socket and resets it
inside ONE `Lock … Unlock` region, writing before resetting -/
theorem fact_conn_flush : Generated.lockConnFlush =
    ["recv.Len", "recv.Lock", "recv.socket.Write", "recv.writer.Bytes", "recv.writer.Reset", "recv.Unlock"] := by decide

theorem fact_conn_len : Generated.lockConnLen = ["recv.RLock", "recv.writer.Len", "recv.RUnlock"] := by decide
theorem fact_conn_enqueue : Generated.lockConnEnqueue = ["recv.Lock", "recv.writer.Write", "recv.Unlock"] := by decide

/-- the WebSocket transport holds its mutex from before `NextWriter` until after `Close` -/
theorem fact_ws_write : Generated.lockWsWrite =
    ["recv.Lock", "defer recv.Unlock", "recv.socket.NextWriter", "w.Write", "w.Close"] := by decide

/-- broker level: `Conn.Send` makes one `EncodeTo` call and takes no lock and starts no goroutine;
`pubsub.Publish` calls `Send` on each subscriber synchronously (no `go` statement), so the order
of a publisher goroutine's `Write` calls on one subscriber is the order of its PUBLISH packets;
every one of the 14 `EncodeTo` methods hands the packet to the writer in exactly one `Write` -/
theorem fact_broker_shape :
    Generated.shapeBrokerSend = ["packet.EncodeTo"] ∧ Generated.shapePublish = ["subscriber.Send"] ∧
    Generated.shapeEncodeTo = ["Connect w.Write", "Connack w.Write", "Publish w.Write", "Puback w.Write",
      "Pubrec w.Write", "Pubrel w.Write", "Pubcomp w.Write", "Subscribe w.Write", "Suback w.Write",
      "Unsubscribe w.Write", "Unsuback w.Write", "Pingreq w.Write", "Pingresp w.Write", "Disconnect w.Write"] := by
  decide

/-! ## framing -/

/-- In every reachable state the bytes the socket has accepted are a concatenation of whole
packets, each of them a packet of the program of the thread it is attributed to. -/
theorem framing (progs : Tid → List Bytes) (hne : NonEmptyProgs progs) (s : State)
    (h : Reachable progs s) :
    ∃ items : List Item, s.stream = flat items ∧ ∀ x ∈ items, x.2 ∈ progs x.1 :=
  framing_lemma hne h

/-- If the packets are wire forms of well-formed MQTT packets, the subscriber's decoder (the
C16 model of `DecodePacket`, proved there to agree with MQTT 3.1.1) splits the stream of every
reachable state into exactly those packets, with nothing left over and no error. -/
theorem framing_mqtt (max : Nat) (progs : Tid → List Bytes) (hm : MqttProgs max progs) (s : State)
    (h : Reachable progs s) :
    ∃ pkts : List Mqtt.Packet, decodeAll max s.stream.length s.stream = .ok (pkts.map Mqtt.normal) ∧
      s.stream = (pkts.map Mqtt.encodeWire).flatten :=
  framing_mqtt_lemma hm h

/-! ## per-publisher order, no duplication -/

/-- In every reachable state, for every thread `t`: its packets on the socket, then in the
queue, then the one inside an unfinished `Write` call, then the ones not yet written, are
together exactly its program — in order, each once. Hence what the subscriber has received from
`t` is always a prefix of what `t` published. -/
theorem publisher_order (progs : Tid → List Bytes) (hne : NonEmptyProgs progs) (s : State)
    (h : Reachable progs s) :
    ∃ sl ql : List Item, s.stream = flat sl ∧ s.queue = flat ql ∧
      ∀ t, proj t (sl ++ ql) ++ inflight (s.threads t) ++ (s.threads t).todo = progs t :=
  order_lemma hne h

/-! ## no loss -/

/-- When every thread has finished and the queue is empty, the socket has received an
interleaving of all programs: for every thread exactly its packets, in its order. -/
theorem no_loss (progs : Tid → List Bytes) (hne : NonEmptyProgs progs) (s : State)
    (h : Reachable progs s) (hq : Quiescent s) (he : s.queue = []) :
    ∃ sl : List Item, s.stream = flat sl ∧ ∀ t, proj t sl = progs t :=
  no_loss_lemma hne h hq he

/-- With finitely many publishers the count matches too: the received packet list is a
permutation of everything published (same packets per publisher, same total) that respects every
publisher's order. -/
theorem no_loss_count (progs : Tid → List Bytes) (hne : NonEmptyProgs progs) (n : Nat)
    (hfin : ∀ t, n ≤ t → progs t = []) (s : State)
    (h : Reachable progs s) (hq : Quiescent s) (he : s.queue = []) :
    ∃ sl : List Item, s.stream = flat sl ∧ (∀ t, proj t sl = progs t) ∧
      sl.length = total n (fun t => (progs t).length) :=
  no_loss_count_lemma hne n hfin h hq he

/-- … and one more `Flush()` (the next timer tick) always gets there: it can run, and leaves a
reachable quiescent state with an empty queue. -/
theorem final_flush (progs : Tid → List Bytes) (s : State) (h : Reachable progs s) (hq : Quiescent s) (t : Tid) :
    ∃ s', flushCall s t = some s' ∧ Reachable progs s' ∧ Quiescent s' ∧ s'.queue = [] :=
  flushCall_lemma h hq t

/-- the two together -/
theorem no_loss_after_flush (progs : Tid → List Bytes) (hne : NonEmptyProgs progs) (s : State)
    (h : Reachable progs s) (hq : Quiescent s) (t : Tid) :
    ∃ s' sl, flushCall s t = some s' ∧ s'.stream = flat sl ∧ ∀ u, proj u sl = progs u := by
  obtain ⟨s', e, r, q, he⟩ := flushCall_lemma h hq t
  obtain ⟨sl, hs, hp⟩ := no_loss_lemma hne r q he
  exact ⟨s', sl, e, hs, hp⟩

/-! ## WebSocket transport -/

/-- every frame is exactly one packet, and each thread's frames are a prefix of its program in
order, each once — for every interleaving of the (mutex-atomic) `Write` calls -/
theorem ws_delivery (progs : Tid → List Bytes) (s : WsState) (h : WsReachable progs s) :
    ∃ items : List Item, s.frames = items.map (·.2) ∧
      ∀ t, proj t items ++ (s.threads t).todo = progs t :=
  ws_lemma h

/-! ## non-vacuity: two publishers and the timer, all three paths of `Write` taken -/

def demo : Tid → List Bytes
  | 0 => [[0xc0, 0], [0xd0, 0]]
  | 1 => [[0xe0, 0]]
  | _ => []

def runActs (s : State) : List Action → Option State
  | [] => some s
  | a :: as => (step? s a).bind (runActs · as)

theorem runActs_reachable {progs : Tid → List Bytes} {s : State} (h : Reachable progs s) :
    ∀ (as : List Action) (s' : State), runActs s as = some s' → Reachable progs s' := by
  intro as
  induction as generalizing s with
  | nil => intro s' e; simp [runActs] at e; subst e; exact h
  | cons a as ih =>
    intro s' e
    simp only [runActs] at e
    cases hs : step? s a with
    | none => simp [hs] at e
    | some s1 => rw [hs] at e; exact ih (Reachable.step a h hs) s' e

/-- thread 0 is limited (queued), thread 1 is not and finds the queue non-empty (enqueue +
flush), thread 0 then writes directly while the timer (thread 2) runs an empty flush -/
def demoActs : List Action :=
  [.call 0 true, .call 1 false, .enqueue 0, .len 1, .enqueue 1, .tick 2, .len 1, .len 2, .flush 1,
   .call 0 false, .len 0, .flush 2, .sock 0]

example : (runActs (init demo) demoActs).map (fun s => (s.stream, s.queue)) =
    some ([0xc0, 0, 0xe0, 0, 0xd0, 0], []) := by decide

example : NonEmptyProgs demo := by
  intro t p hp
  match t, hp with
  | 0, hp => simp [demo] at hp; rcases hp with rfl | rfl <;> simp
  | 1, hp => simp [demo] at hp; subst hp; simp
  | _ + 2, hp => simp [demo] at hp

end Emitter.C10
