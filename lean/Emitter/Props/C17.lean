/-
  C17 — Transport adapters deliver the byte stream unchanged.
  Property-level statements; proofs are in Emitter/Lemmas/Transport.lean.

  Vocabulary (Emitter/Model/Transport.lean):
  * `Src` — a byte source with an arbitrary partition of its stream into the pieces successive
    `Read` calls get (empty pieces = `(0, nil)` reads; `tailErr` = the error arrives together
    with the last data, as crypto/tls does); `Src.stream` is what the client sent.
  * `serve s ms` — `Listener.serve`: one `startSniffing` phase per matcher of `ms`, in order,
    `doneSniffing` after the first that matches. A matcher is `MatchAny`, `MatchPrefix strs`
    (`io.ReadFull` of longest+1 bytes) or `custom sizes verdict`: ANY reader behaviour, given
    as the list of buffer sizes it reads with and its answer — so "all matcher sets" below
    ranges over every number of sniffing phases, each reading any amounts with any buffers.
  * `handover src ms after d` — what the reads after the hand-over return: first the buffer
    sizes `after`, then a reader that drains with buffer size `d` until an error is reported.
  * `RR.early` — the flag C17.sniffed-error-replayed-early.
-/
import Emitter.Lemmas.Transport
namespace Emitter.C17
open Emitter Emitter.Transport

/-! ## regenerated facts -/
theorem fact_consts :
    Generated.wsTextMessage = 1 ∧ Generated.wsBinaryMessage = 2 ∧
    Generated.httpMethods = ["OPTIONS", "GET", "HEAD", "POST", "PATCH", "PUT", "DELETE", "TRACE", "CONNECT"] := by
  decide

/-! ## sniffing listener -/

/-- every matcher, whatever was peeked before it and however the socket chunks its reads, sees
the client stream from its first byte (a prefix of it) -/
theorem sniffer_phase_sees_prefix (src : Src) (ms : List (Nat × Matcher)) :
    ∀ rs ∈ (serve (Sniffer.new src) ms).2.1, cat rs <+: src.stream :=
  sniffer_seen src ms

/-- after the hand-over, at every moment: bytes returned so far ++ sniffed bytes still to be
replayed ++ bytes not yet read from the socket = the client stream. Nothing is lost, doubled
or reordered, for every chunking, matcher set and sequence of buffer sizes. -/
theorem sniffer_stream (src : Src) (ms : List (Nat × Matcher)) (after : List Nat)
    (hm : (serve (Sniffer.new src) ms).1.isSome = true) :
    let q := (serve (Sniffer.new src) ms).2.2.reads after
    cat q.1 ++ q.2.pending ++ q.2.src.stream = src.stream :=
  sniffer_stream_eq src ms after hm

/-- FULL STATEMENT: a reader that drains the connection gets exactly the client stream, and no
read reports an error before the last byte was delivered. -/
def SnifferDelivers : Prop :=
  ∀ (src : Src) (ms : List (Nat × Matcher)) (after : List Nat) (d : Nat), 0 < d →
    (serve (Sniffer.new src) ms).1.isSome = true →
    cat (handover src ms after d).1 ++ cat (handover src ms after d).2 = src.stream ∧
    errAtEnd src.stream [] ((handover src ms after d).1 ++ (handover src ms after d).2) = true

/-- … proved for every run that does not raise the flag (the drain always terminates: the
fuel `todo + 1` is proved sufficient) … -/
theorem sniffer_delivers_partial (src : Src) (ms : List (Nat × Matcher)) (after : List Nat) (d : Nat)
    (hd : 0 < d) (hm : (serve (Sniffer.new src) ms).1.isSome = true)
    (hflag : ∀ r ∈ (handover src ms after d).1 ++ (handover src ms after d).2, r.early = false) :
    cat (handover src ms after d).1 ++ cat (handover src ms after d).2 = src.stream ∧
    errAtEnd src.stream [] ((handover src ms after d).1 ++ (handover src ms after d).2) = true :=
  sniffer_delivers_flagfree src ms after d hd hm hflag

/-- … the flag is never raised over a socket that reports errors only with `n = 0`
(`net.TCPConn`) … -/
theorem sniffer_flag_needs_data_with_error (src : Src) (ms : List (Nat × Matcher)) (after : List Nat) (d : Nat)
    (ht : src.tailErr = false) :
    (∀ rs ∈ (serve (Sniffer.new src) ms).2.1, ∀ r ∈ rs, r.early = false) ∧
    ∀ r ∈ (handover src ms after d).1 ++ (handover src ms after d).2, r.early = false :=
  sniffer_noflag src ms after d ht

/-- … hence, over such a socket, unconditionally: -/
theorem sniffer_delivers_net (src : Src) (ms : List (Nat × Matcher)) (after : List Nat) (d : Nat)
    (hd : 0 < d) (ht : src.tailErr = false) (hm : (serve (Sniffer.new src) ms).1.isSome = true) :
    cat (handover src ms after d).1 ++ cat (handover src ms after d).2 = src.stream ∧
    errAtEnd src.stream [] ((handover src ms after d).1 ++ (handover src ms after d).2) = true :=
  sniffer_delivers_flagfree src ms after d hd hm (sniffer_noflag src ms after d ht).2

/-- … and the full statement is false of the code (recorded finding
C17.sniffed-error-replayed-early): the stream 01 02 03 arrives together with EOF in one read
while a matcher sniffs 8 bytes; read back with a 2-byte buffer the first read is (01 02, EOF). -/
theorem sniffer_delivers_refuted : ¬ SnifferDelivers := by
  intro h
  have := h { chunks := [[1, 2, 3]], tailErr := true } [(0, .custom [8] true)] [] 2 (by decide) (by decide)
  revert this
  decide

/-- the slice `buffer[bufferRead:bufferSize]` of the replay branch is in range after ANY
sequence of reset / Read calls (no Go panic), not only those of the listener protocol -/
theorem sniffer_slice_in_range (src : Src) (ops : List SOp) :
    (ops.foldl Sniffer.step (Sniffer.new src)).sliceOk :=
  slice_in_range src ops

/-! ## write queue -/

/-- for every sequence of `Write` (with any rate-limiter verdict) and `Flush` (timer or
explicit): socket ++ queue = everything written, in order, once; and after one more flush the
socket has everything and the queue is empty -/
theorem write_queue (ops : List WOp) :
    let s := ops.foldl WQ.step {}
    s.sock.flatten ++ s.queue = written ops ∧ s.flush.2.sock.flatten = written ops ∧ s.flush.2.queue = [] :=
  wq_all ops

/-! ## websocket transport -/

/-- at every moment: bytes returned ++ rest of the current message ++ payloads of the data
messages still to come = concatenated payloads of all binary/text messages; control frames,
empty messages, the chunking of gorilla's reader and the caller's buffer sizes do not matter -/
theorem ws_stream (frames : List Frame) (ns : List Nat) :
    let q := (Ws.mk none frames).reads ns
    cat q.1 ++ q.2.rest = payload frames :=
  ws_stream_eq frames ns

/-- a reader that drains gets exactly the payload stream; an error only after its last byte -/
theorem ws_read (frames : List Frame) (after : List Nat) (d : Nat) (hd : 0 < d) :
    cat (wsHandover frames after d).1 ++ cat (wsHandover frames after d).2 = payload frames ∧
    errAtEnd (payload frames) [] ((wsHandover frames after d).1 ++ (wsHandover frames after d).2) = true :=
  ws_delivers frames after d hd

/-- one binary message per `Write`, carrying exactly the bytes written -/
theorem ws_write (ps : List Bytes) :
    wsWrites [] ps = ps.map (fun b => (Generated.wsBinaryMessage, b)) := by
  simpa using wsWrites_eq ps []

/-! ## non-vacuity -/

-- the broker's configuration (an HTTP-method prefix matcher, then MatchAny) on an MQTT CONNECT
-- read in pieces: the prefix matcher peeks 8 bytes and says no, MatchAny takes the connection;
-- the reader gets all 18 bytes
example :
    let src : Src := { chunks := [[0x10], [0x10, 0x00, 0x04], [0x4d, 0x51, 0x54, 0x54, 0x04, 0x02], [0x00, 0x3c, 0x00, 0x04, 0x74, 0x65, 0x73, 0x74]] }
    let ms : List (Nat × Matcher) := [(0, .pref [[0x47, 0x45, 0x54], [0x4f, 0x50, 0x54, 0x49, 0x4f, 0x4e, 0x53]]), (1, .any)]
    (serve (Sniffer.new src) ms).1 = some 1 ∧
    (serve (Sniffer.new src) ms).2.1.map cat = [[0x10, 0x10, 0x00, 0x04, 0x4d, 0x51, 0x54, 0x54], []] ∧
    cat (handover src ms [1, 2] 4).1 ++ cat (handover src ms [1, 2] 4).2 = src.stream := by
  decide

example : (serve (Sniffer.new { chunks := [[0x47, 0x45], [0x54, 0x20, 0x2f]] })
    [(0, .pref [[0x47, 0x45, 0x54], [0x4f, 0x50, 0x54, 0x49, 0x4f, 0x4e, 0x53]]), (1, .any)]).1 = some 0 := by
  decide

example : (([WOp.write false [1], .write true [2], .write false [3], .flush].foldl WQ.step {}).sock) = [[1], [2, 3]] := by
  decide

example : cat ((Ws.mk none [⟨2, ⟨[[1, 2], [3]], false⟩⟩, ⟨9, ⟨[[7]], false⟩⟩, ⟨1, ⟨[[4]], true⟩⟩]).reads [1, 5, 5, 5, 5]).1 = [1, 2, 3, 4] := by
  decide

end Emitter.C17
