import Emitter.Lemmas.Lww
import Emitter.Model.Gossip
namespace Emitter.C13
open Emitter Emitter.Lww
theorem delta_times (s r : Map) (hs : NonNeg s) (hr : NoDup r) (k : Bytes) :
    tget (merge s r).2 k =
      (if (get s k).add < (get r k).add then (get r k).add else 0,
       if (get s k).del < (get r k).del then (get r k).del else 0) := Lww.delta_times s r hs hr k
end Emitter.C13
