/-
  C13 — Gossip payloads carry exactly what is new and lose nothing queued.
  Property-level statements only; proofs are in Emitter/Lemmas/Lww.lean (section "deltas"),
  Emitter/Lemmas/LwwDelta.lean and Emitter/Lemmas/Gossip.lean. The predicates of the second part
  (GoodEmission, GoodPending, Intact, SenderUnion) are defined in Emitter/Spec/SenderUnion.lean,
  the executable pointwise reading of the first part (deltaMap, deltaState) in Emitter/Spec/Delta.lean.

  Notation: `(s', d) = merge s r` is `Volatile.Merge` / `Durable.Merge` with `s` the local map and `r` the
  incoming one (`d` is what `r` has been turned into); `tget m k` = (add time, remove time) of key `k`, (0,0)
  when absent; `NonNeg s`: every stored time ≥ 0 — an invariant of every reachable local state (C04
  `nonneg_preserved`); the incoming `r` is arbitrary (negative, zero, tying times, keys unknown locally), it
  only has to be a map (`NoDup`: no key twice).
-/
import Emitter.Lemmas.Gossip
namespace Emitter.C13
open Emitter Emitter.Lww Emitter.Gossip Emitter.Spec.Delta

/-! ## (a) the delta that is passed on -/

/-- The delta holds, for every key, exactly the incoming add time if it is newer than the local one, else 0,
and likewise the remove time. -/
theorem delta_times (s r : Map) (hs : NonNeg s) (hr : NoDup r) (k : Bytes) :
    tget (merge s r).2 k =
      (if (get s k).add < (get r k).add then (get r k).add else 0,
       if (get s k).del < (get r k).del then (get r k).del else 0) := Lww.delta_times s r hs hr k

/-- An entry of the delta is an incoming entry, with the times above, the incoming payload, and at least one
time kept; and every such incoming entry is in the delta. (Holds for any local `s`.) -/
theorem delta_entry (s r : Map) (hr : NoDup r) (k : Bytes) (v : Val) :
    (k, v) ∈ (merge s r).2 ↔
      ∃ rv, (k, rv) ∈ r ∧
        v = ⟨if (get s k).add < rv.add then rv.add else 0, if (get s k).del < rv.del then rv.del else 0, rv.payload⟩ ∧
        ¬ (v.add = 0 ∧ v.del = 0) := Lww.delta_entry s r hr k v

/-- The model's delta IS the pointwise specification (the `S` column of the correspondence check), entry by
entry and in order; also for the three sets together, including the `nil` result. -/
theorem delta_is_spec (s r : Map) (hr : NoDup r) : (merge s r).2 = deltaMap s r := delta_eq_spec s r hr
theorem state_delta_is_spec (s o : State) (ho : ∀ i, NoDup (o.sel i)) : (s.merge o).2 = deltaState s o :=
  state_delta_eq_spec s o ho

/-- A key is in the delta iff its times changed in the local state, iff one of its incoming times is newer. -/
theorem delta_iff_changed (s r : Map) (hs : NonNeg s) (hr : NoDup r) (k : Bytes) :
    ((∃ v, (k, v) ∈ (merge s r).2) ↔ tget (merge s r).1 k ≠ tget s k) ∧
    ((∃ v, (k, v) ∈ (merge s r).2) ↔ (get s k).add < (get r k).add ∨ (get s k).del < (get r k).del) :=
  ⟨delta_mem_iff s r hs hr k, delta_mem_iff_newer s r hs hr k⟩

/-- The delta is empty precisely when nothing changed, which is precisely when the payload had already been
absorbed (every incoming time ≤ the local one). -/
theorem delta_empty_iff (s r : Map) (hs : NonNeg s) (hr : NoDup r) :
    ((merge s r).2 = [] ↔ Equiv (merge s r).1 s) ∧ ((merge s r).2 = [] ↔ ∀ k, tle (tget r k) (tget s k)) :=
  ⟨Lww.delta_empty_iff s r hs hr, delta_empty_iff_absorbed s r hs hr⟩

/-- `State.Merge` returns nil iff all three deltas are empty, iff no add / remove time of any of the three
sets changed, iff the payload had already been absorbed: re-gossiping stops exactly then. -/
theorem state_merge_nil_iff (s o : State) (hs : StateOk s) (ho : ∀ i, NoDup (o.sel i)) :
    ((s.merge o).2 = none ↔ (merge s.sub o.sub).2 = [] ∧ (merge s.ban o.ban).2 = [] ∧ (merge s.conn o.conn).2 = []) ∧
    ((s.merge o).2 = none ↔ ∀ i k, tget ((s.merge o).1.sel i) k = tget (s.sel i) k) ∧
    ((s.merge o).2 = none ↔ ∀ i k, tle (tget (o.sel i) k) (tget (s.sel i) k)) :=
  ⟨state_merge_none_iff s o, (state_merge_none_iff_unchanged s o hs ho).1, (state_merge_none_iff_unchanged s o hs ho).2⟩

/-- Re-gossiping stops once replicas agree: the payload that was just merged, merged again, leaves nothing. -/
theorem regossip_stops (s r : Map) (hs : NonNeg s) (hr : NoDup r) : (merge (merge s r).1 r).2 = [] :=
  Lww.regossip_stops s r hs hr

/-- No new update is withheld from onward relay. For every replica `t`: relaying the delta contributes, per
key, exactly the incoming times that were new to `s` (`relay_exact`); so together with what `s` knew, `t`
ends with the same times whether it gets the delta or the original payload (`relay_sufficient`), and a `t`
that had already absorbed `s` ends in the same state (`relay_downstream`); in particular `s` itself. -/
theorem relay_exact (s r t : Map) (hs : NonNeg s) (ht : NonNeg t) (hr : NoDup r) (k : Bytes) :
    tget (merge t (merge s r).2).1 k =
      tmax (tget t k) (if (get s k).add < (get r k).add then (get r k).add else 0,
                       if (get s k).del < (get r k).del then (get r k).del else 0) := Lww.relay_exact s r t hs ht hr k
theorem relay_sufficient (s r t : Map) (hs : NonNeg s) (ht : NonNeg t) (hr : NoDup r) (k : Bytes) :
    tmax (tget s k) (tget (merge t (merge s r).2).1 k) = tmax (tget s k) (tget (merge t r).1 k) :=
  Lww.relay_sufficient s r t hs ht hr k
theorem relay_downstream (s r t : Map) (hs : NonNeg s) (ht : NonNeg t) (hr : NoDup r)
    (hst : ∀ k, tle (tget s k) (tget t k)) : Equiv (merge t (merge s r).2).1 (merge t r).1 :=
  Lww.relay_downstream s r t hs ht hr hst
theorem relay_self (s r : Map) (hs : NonNeg s) (hr : NoDup r) : Equiv (merge s (merge s r).2).1 (merge s r).1 :=
  Lww.relay_self s r hs hr

/-- What is relayed is itself a well-formed payload with non-negative times, whatever came in. -/
theorem delta_wellformed (s r : Map) (hs : NonNeg s) (hr : NoDup r) : NonNeg (merge s r).2 ∧ NoDup (merge s r).2 :=
  ⟨delta_nonneg s r hs hr, delta_nodup s r hr⟩

/-- The durable backend computes the same state and the same delta, so every statement above holds of
`Durable.Merge` with `s := d.db`. -/
theorem durable_same_delta (d : Durable) (r : Map) :
    (d.merge r).1.db = (merge d.db r).1 ∧ (d.merge r).2 = (merge d.db r).2 := durable_merge_refines d r
theorem durable_delta_is_spec (d : Durable) (r : Map) (hr : NoDup r) : (d.merge r).2 = deltaMap d.db r := by
  rw [(durable_merge_refines d r).2]; exact delta_eq_spec d.db r hr

/-! non-vacuity: local (5,7); incoming: same add and older remove for key 1 (nothing new), a key unknown locally
with a negative add and a remove, a tie; the delta keeps exactly the new remove time -/
example : (merge [([1], ⟨5, 7, []⟩)] [([1], ⟨5, 3, [9]⟩), ([2], ⟨-2, 4, [8]⟩)]).2 = [([2], ⟨0, 4, [8]⟩)] := by decide
example : NonNeg [([1], ⟨5, 7, []⟩)] := nonNeg_of_nonNegB _ (by decide)
example : (({ ban := [([1], ⟨5, 7, []⟩)] } : State).merge { ban := [([1], ⟨5, 7, [3]⟩)], sub := [([2], ⟨0, 0, []⟩)] }).2 = none := by decide

/-! ## (b) payloads queued on a link -/

/-- The second sentence, for the payload type of the repaired swarm.go, for ALL call sequences: any heap of
payload objects satisfying the invariants (shared between links or not, the live state among them), any
sequence of `Send` / `Broadcast` / `pick` on any number of links, any legal choice of `pick` among the
`broadcasts` entries, interleaved with arbitrary growth of the live state:
 * every payload emitted lies between the join of what was queued on its bucket since the last pick (values at
   queueing time) and the join of the present values of those objects;
 * no call panics or deadlocks; a bucket on which something was queued always holds a payload that would be a
   good emission now (nothing is dropped);
 * no object handed to the library is ever modified. -/
theorem sender_union : SenderUnion implUnion := sender_union_holds

/-- with objects that do not change while queued (everything but the live state) the emission is exactly the join -/
theorem sender_union_exact (sent : Option State) (q : List (Ref × State)) (h : Heap) (hg : GoodEmission sent q h)
    (hsame : ∀ e ∈ q, curValue h e.1 = e.2) :
    ∃ x, sent = some x ∧ ∀ i k, tget (x.sel i) k = sjoin (q.map (·.2)) i k := good_exact sent q h hg hsame

/-- The hypotheses of `sender_union` are met by what the swarm hands over: a `Notify` operation, a delta
returned by a merge whatever the incoming payload held, and the live state, which only grows. -/
theorem swarm_payloads_ok (s o d : State) (hs : StateOk s) (ho : ∀ i, NoDup (o.sel i)) (h : (s.merge o).2 = some d) :
    StateOk d ∧ StateOk (s.merge o).1 := ⟨stateOk_delta s o d hs ho h, stateOk_merge s o hs⟩
theorem live_state_grows (s r : Map) (k : Bytes) (now : Int) (p : Bytes) (hs : NonNeg s) (hr : NoDup r) (k' : Bytes) :
    tle (tget s k') (tget (merge s r).1 k') ∧ tle (tget s k') (tget (add s k now p) k') ∧ tle (tget s k') (tget (del s k now) k') :=
  ⟨merge_grows s r hs hr k', add_grows s k now p hs k', del_grows s k now hs k'⟩

/-- The same statement is FALSE of the code before the repair (defect D4: `*event.State` handed to mesh, whose
`Merge` returns the delta and rewrites its argument): two different operations broadcast over one link — only
the second is sent. -/
theorem sender_union_refuted : ¬ SenderUnion implDelta := sender_union_delta_refuted

/-- further literal witnesses on the unrepaired payload type (each replayed on the real code, see
notes/defects/C13-D4-sender-merge-is-delta.txt): a duplicate empties the queue; an object shared by two links is
rewritten; a pending delta followed by the live durable state panics; the full state followed by a delta is
dropped; the same object twice deadlocks; a nil entry in `broadcasts` panics on the next `Broadcast`. -/
theorem refuted_duplicate : ¬ GoodPending implDelta (run implDelta { heap := [opA, opA] } duplicate).1 := duplicate_drops_queue
theorem refuted_shared : ¬ Intact implDelta := shared_object_rewritten
theorem refuted_live_panics :
    (run implDelta { heap := [liveA, opB] } [.put 0 none 1, .put 0 none 0]).2 = [.panicked 0 none] := live_state_panics
theorem refuted_live_dropped :
    ((run implDelta { heap := [{ liveA with st := { ban := [(k1, ⟨5, 0, []⟩), (k2, ⟨5, 0, []⟩)] } }, opB] }
        [.put 0 none 0, .put 0 none 1]).1.links 0).bk none = none := live_state_dropped
theorem refuted_repeat_deadlocks :
    (run implDelta { heap := [opA] } [.put 0 (some 1) 0, .put 0 (some 1) 0]).2 = [.hung 0 (some 1)] := repeat_deadlocks

/-! non-vacuity: the history that refutes the unrepaired code, on the repaired payload type, emits both updates;
its heap and calls satisfy the hypotheses of `sender_union` -/
example : HeapOk [opA, opB] ∧ CallsOk implUnion { heap := [opA, opB] } lostUpdate := ⟨heapOk_AB, trivial, trivial, trivial, trivial⟩
example : ∃ x, (run implUnion { heap := [opA, opB] } lostUpdate).2 = [.emitted 0 (some 1) (some x) [(0, opA.st), (1, opB.st)] [opA, opB]] ∧
    tget x.ban k1 = (5, 0) ∧ tget x.ban k2 = (5, 0) := ⟨_, rfl, by decide, by decide⟩
/-- the live state (object 0) queued, then grown, then picked: the emission is the grown value (within the bounds) -/
example : (run implUnion { heap := [liveA] } [.put 0 none 0, .grow 0 { ban := [(k1, ⟨5, 9, []⟩)] }, .pick 0 none]).2 =
    [.emitted 0 none (some { ban := [(k1, ⟨5, 9, []⟩)] }) [(0, liveA.st)] [{ liveA with st := { ban := [(k1, ⟨5, 9, []⟩)] } }]] := rfl

end Emitter.C13
