/-
  C19 — Message ids and frames encode losslessly; peer forwarding drops nothing.
  Property-level statements; proofs are in Emitter/Lemmas/Message.lean.
-/
import Emitter.Lemmas.Message
import Emitter.Props.Tie.Id
namespace Emitter.C19
open Emitter Emitter.Message

/-! ## regenerated facts -/
theorem fact_layout : fixed = 16 ∧ timeOffset = 1514764800 ∧ maxByteFrameSize = 10485760 := by decide

/-! ## message ids -/

/-- an id gives back the second-resolution time it was created with (supported range:
from 2018 for 2^32 seconds) … -/
theorem id_time (ssid : Ssid) (unix : Int) (seq uniq : UInt32) (id : Bytes)
    (h : newId ssid unix seq uniq = .ok id) (h0 : timeOffset ≤ unix) (h1 : unix - timeOffset < 4294967296) :
    idTime id = unix := idTime_newId ssid unix seq uniq id h h0 h1

/-- … and the channel ssid and contract -/
theorem id_ssid (ssid : Ssid) (unix : Int) (seq uniq : UInt32) (id : Bytes)
    (h : newId ssid unix seq uniq = .ok id) :
    idSsid id = ssid ∧ idContract id = ssid.getD 0 0 ∧ id.length = fixed + 4 * ssid.length :=
  idSsid_newId ssid unix seq uniq id h

/-- ids created later for a channel sort before earlier ones -/
theorem id_order (ssid : Ssid) (u₁ u₂ : Int) (q₁ q₂ n : UInt32) (a b : Bytes)
    (ha : newId ssid u₁ q₁ n = .ok a) (hb : newId ssid u₂ q₂ n = .ok b)
    (h0 : timeOffset ≤ u₁) (h1 : u₂ - timeOffset < 4294967296)
    (hlt : u₁ < u₂ ∨ (u₁ = u₂ ∧ q₁ < q₂)) : bytesLt b a = true :=
  newId_order ssid u₁ u₂ q₁ q₂ n a b ha hb h0 h1 hlt

/-- no two ids are equal unless second, sequence number, nonce and ssid all are — in
particular never within 2^32 consecutive ids of one process -/
theorem id_injective (s₁ s₂ : Ssid) (u₁ u₂ : Int) (q₁ q₂ n₁ n₂ : UInt32) (id : Bytes)
    (h₁ : newId s₁ u₁ q₁ n₁ = .ok id) (h₂ : newId s₂ u₂ q₂ n₂ = .ok id) :
    relTime u₁ = relTime u₂ ∧ q₁ = q₂ ∧ n₁ = n₂ ∧ s₁ = s₂ :=
  newId_injective s₁ s₂ u₁ u₂ q₁ q₂ n₁ n₂ id h₁ h₂

/-- the order statement is false across the wrap of the 32-bit sequence counter (recorded
finding C19.sequence-wrap-order): witness -/
theorem id_order_wrap_refuted :
    ∃ a b, newId [1, 2] 1600000000 0xFFFFFFFF 7 = .ok a ∧ newId [1, 2] 1600000000 0 7 = .ok b ∧
      bytesLt b a = false := by
  refine ⟨_, _, rfl, rfl, ?_⟩
  decide

/-! ## codec -/

theorem uvarint_roundtrip (n : Nat) (h : n < 18446744073709551616) (rest : Bytes) :
    readUvarint (uvarint n ++ rest) = .ok (n, rest) := readUvarint_uvarint n h rest

/-- every message survives encode/decode unchanged (empty and maximal ids, channels,
payloads, ttl 0..2^32-1), whatever follows it in the buffer -/
theorem message_roundtrip (m : Msg) (h : m.ok) (rest : Bytes) :
    decodeMsg (encodeMsg m ++ rest) = .ok (m, rest) := decodeMsg_encodeMsg m h rest

/-- every frame survives encode/decode unchanged -/
theorem frame_roundtrip (f : List Msg) (h : ∀ m ∈ f, m.ok) (hl : f.length ≤ maxSliceLen) :
    decodeFrame (encodeFrame f) = .ok f := decodeFrame_encodeFrame f h hl

/-! ## splitting and the peer queue -/

theorem split_ok (f : List Msg) (max : Nat) :
    (split f max).1 ++ (split f max).2 = f ∧
    ((split f max).1 ≠ [] → sizeSum (split f max).1 < max) ∧
    ((split f max).1 = [] → f = [] ∨ ∃ m rest, f = m :: rest ∧ max ≤ msgSize m) ∧
    (∀ m rest, (split f max).2 = m :: rest → max ≤ sizeSum (split f max).1 + msgSize m) :=
  split_sound f max

theorem flush_ok (max : Nat) (f : List Msg) :
    (flushLoop max f.length f).1.flatten = f ∧ (flushLoop max f.length f).2 = [] ∧
    (∀ c ∈ (flushLoop max f.length f).1, c ≠ [] ∧ (sizeSum c < max ∨ ∃ m, c = [m] ∧ max ≤ msgSize m)) :=
  flushLoop_sound max f

/-- every message handed to an active peer is passed to the transport exactly once and in
order, for every interleaving of the (mutex-atomic) send and swap steps, every bound and every
message size; nothing is dropped -/
theorem peer_exactly_once (max : Nat) (ops : List PeerOp) :
    let p := ops.foldl (Peer.step max) {}
    p.sent.flatten ++ p.frame = accepted ops ∧ p.dropped = [] := by
  have := queue_exactly_once max ops {}
  simpa using this

/-! non-vacuity -/
example : ∃ id, newId [5, 6, 7] 1600000000 3 9 = .ok id := ⟨_, rfl⟩
example : accepted [.send true ⟨[], [], [1], 0⟩, .flush, .send false ⟨[], [], [2], 0⟩] = [⟨[], [], [1], 0⟩] := rfl

end Emitter.C19
