/-
  C16 — The MQTT codec agrees with MQTT 3.1.1 for every packet it handles.
  Property-level statements; helper lemmas belong in Emitter/Lemmas/Mqtt.lean.
-/
import Emitter.Lemmas.Mqtt
import Emitter.Lemmas.MqttSpec
import Emitter.Props.Tie.Mqtt
namespace Emitter.C16
open Emitter Emitter.Mqtt

/-! ## regenerated facts -/

/-- the 14 type codes are the MQTT 3.1.1 control packet types 1..14, in order -/
theorem fact_type_codes :
    [tyConnect, tyConnack, tyPublish, tyPuback, tyPubrec, tyPubrel, tyPubcomp, tySubscribe, tySuback,
     tyUnsubscribe, tyUnsuback, tyPingreq, tyPingresp, tyDisconnect] = [1, 2, 3, 4, 5, 6, 7, 8, 9, 10, 11, 12, 13, 14] := by
  decide

/-- the pooled buffer is 64 KiB and the header reserve is 6 bytes: first byte + at most 4 length
digits fit (and 65530 needs 3) -/
theorem fact_sizes : maxMessageSize = 65536 ∧ maxHeaderSize = 6 ∧ bodyRoom = 65530 := by decide

/-! ## remaining length -/

/-- number of length digits at the 1/2/3/4-byte boundaries -/
theorem encLen_length (n : Nat) (h : n < 268435456) :
    (encLen n).length = if n < 128 then 1 else if n < 16384 then 2 else if n < 2097152 then 3 else 4 :=
  Mqtt.encLen_length n h

/-- the remaining-length encoding round-trips for every n < 2^28, whatever follows it -/
theorem len_roundtrip (n : Nat) (h : n < 268435456) (rest : Bytes) :
    decodeLen (encLen n ++ rest) 1 0 = .ok (UInt32.ofNat n, rest) :=
  Mqtt.decodeLen_encLen n h rest

/-! ## fields -/

theorem string_roundtrip (v pre post : Bytes) (h : v.length < 65536) :
    readString (pre ++ writeString v ++ post) pre.length = .ok (v, pre.length + 2 + v.length) :=
  Mqtt.readString_writeString v pre post h

/-! ## packets -/

/-- Encoding then decoding any well-formed packet value returns that value (in decoded normal
form) and leaves the rest of the stream untouched — all 14 packet types, every flag
combination, QoS 0–3 bit patterns, empty strings and payloads, any limit that admits the body. -/
theorem decode_encode (p : Packet) (wf : wellFormed p = true) (rest : Bytes) (max : Nat)
    (hmax : (parts p).2.2.length ≤ max) :
    decode (encodeWire p ++ rest) max = .ok (normal p, rest) :=
  Mqtt.decode_encodeWire p wf rest max hmax

/-- `EncodeTo` produces exactly the wire form whenever the body fits the pooled buffer … -/
theorem encode_fits (p : Packet) (h : (parts p).2.2.length ≤ bodyRoom) : encode p = .ok (encodeWire p) :=
  Mqtt.encode_of_fits p h

/-- … and a PUBLISH that does not fit is refused with an error, never a panic (D9) -/
theorem encode_publish_total (h : Header) (t : Bytes) (mid : UInt16) (pl : Bytes) :
    (encode (.publish h t mid pl)).isPanic = false :=
  Mqtt.encode_publish_no_panic h t mid pl

/-- a packet larger than the configured limit is refused.
AMENDED by the proof round: hypothesis `hq` (header QoS < 4) added; without it the statement is
false — `.pubrel ⟨false, 64, false⟩ 0` encodes to `e0 02 00 00`, which decodes as DISCONNECT. -/
theorem decode_refuses_oversize (p : Packet) (rest : Bytes) (max : Nat)
    (hty : p ≠ .pingreq ∧ p ≠ .pingresp ∧ p ≠ .disconnect)
    (hq : (parts p).2.1.ok = true)
    (hlen : (parts p).2.2.length < 268435456) (hbig : max < (parts p).2.2.length) :
    decode (encodeWire p ++ rest) max = .err "too-large" :=
  Mqtt.decode_oversize p rest max hty hq hlen hbig

/-- the counterexample to the un-amended statement (all its hypotheses hold, conclusion fails) -/
example : decode (encodeWire (.pubrel ⟨false, 64, false⟩ 0) ++ [9]) 1 = .ok (.disconnect, [0, 0, 9]) := by
  decide

/-! non-vacuity -/
example : wellFormed (.publish ⟨true, 2, true⟩ [97, 47] 7 [1, 2, 3]) = true := by decide
example : decode (encodeWire (.publish ⟨true, 2, true⟩ [97, 47] 7 [1, 2, 3]) ++ [9]) 100
    = .ok (.publish ⟨true, 2, true⟩ [97, 47] 7 [1, 2, 3], [9]) := by decide


/-! # Conformance to MQTT 3.1.1

`Emitter/Spec/Mqtt.lean` is the wire format written from the OASIS standard, with its own packet type
(`Spec.Mqtt.ControlPacket`), encoder (`encodePacket`) and strict parser (`decodePacket`).
`Spec.Mqtt.encode p` is the byte string the standard prescribes for the Go packet value `p`; it is defined
exactly when `Spec.Mqtt.conforming p` holds (`encode_defined_iff`): `p` denotes a standard packet
(`ofModel`: no Will QoS / Will Retain without a Will; header bits of PUBREL / SUBSCRIBE / UNSUBSCRIBE are
0,0,1,0), that packet satisfies the standard's rules (`valid`: QoS ≤ 2 everywhere, strings ≤ 65535 bytes,
non-zero packet identifier where one is required and none at QoS 0, DUP 0 at QoS 0, at least one topic
filter, SUBACK codes in {0,1,2,0x80}, CONNACK code ≤ 5, a password only with a user name) and its
Remaining Length is at most 268 435 455. All statements are for every packet value of all 14 types, with
no bound on string, payload or list lengths other than the protocol's own. -/

/-- the condition under which the conformance theorems speak, as an explicit decidable predicate -/
theorem encode_defined_iff (p : Packet) : (Spec.Mqtt.encode p).isSome = Spec.Mqtt.conforming p :=
  MqttSpec.encode_defined_iff p

/-! ## remaining length (2.2.3) -/

/-- the standard's table (1/2/3/4 bytes up to 127 / 16 383 / 2 097 151 / 268 435 455) and the digit loop of
`encodeLength` + `writeHeader` produce the same bytes for every length below 2^28 … -/
theorem remaining_length_conforms (n : Nat) (h : n < 268435456) :
    Spec.Mqtt.encRemainingLength n = some (encLen n) :=
  MqttSpec.encRemainingLength_eq n h

/-- … larger lengths have no encoding … -/
theorem remaining_length_limit (n : Nat) (h : 268435456 ≤ n) : Spec.Mqtt.encRemainingLength n = none :=
  MqttSpec.encRemainingLength_none n h

/-- … and both the standard's reader (at most four bytes) and the loop of `decodeHeader` read the value back,
whatever follows -/
theorem remaining_length_parse (n : Nat) (h : n < 268435456) (rest : Bytes) :
    Spec.Mqtt.remainingLength 4 (encLen n ++ rest) = some (n, rest) ∧
    decodeLen (encLen n ++ rest) 1 0 = .ok (UInt32.ofNat n, rest) :=
  ⟨MqttSpec.remainingLength_enc n _ rest (MqttSpec.encRemainingLength_eq n h), Mqtt.decodeLen_encLen n h rest⟩

/-- on every length field the standard accepts — one to four bytes, minimal or padded — the loop of
`decodeHeader` reads the same value and stops at the same place as the standard's reader -/
theorem remaining_length_agree (r r' : Bytes) (n : Nat) (h : Spec.Mqtt.remainingLength 4 r = some (n, r')) :
    decodeLen r 1 0 = .ok (UInt32.ofNat n, r') := by
  have := MqttSpec.decodeLen_of_remainingLength 4 r r' n 1 0 h
  simpa using this

example : Spec.Mqtt.remainingLength 4 [0x80, 0x80, 0x00, 9] = some (0, [9]) ∧
    decodeLen [0x80, 0x80, 0x00, 9] 1 0 = .ok (0, [9]) := by decide

/-- the boundaries of Table 2.4, as the model encodes them -/
example : encLen 0 = [0x00] ∧ encLen 127 = [0x7f] ∧ encLen 128 = [0x80, 0x01] ∧ encLen 16383 = [0xff, 0x7f] ∧
    encLen 16384 = [0x80, 0x80, 0x01] ∧ encLen 2097151 = [0xff, 0xff, 0x7f] ∧
    encLen 2097152 = [0x80, 0x80, 0x80, 0x01] ∧ encLen 268435455 = [0xff, 0xff, 0xff, 0x7f] := by decide
example : Spec.Mqtt.encRemainingLength 127 = some [0x7f] ∧ Spec.Mqtt.encRemainingLength 128 = some [0x80, 0x01] ∧
    Spec.Mqtt.encRemainingLength 16383 = some [0xff, 0x7f] ∧
    Spec.Mqtt.encRemainingLength 16384 = some [0x80, 0x80, 0x01] ∧
    Spec.Mqtt.encRemainingLength 2097151 = some [0xff, 0xff, 0x7f] ∧
    Spec.Mqtt.encRemainingLength 2097152 = some [0x80, 0x80, 0x80, 0x01] ∧
    Spec.Mqtt.encRemainingLength 268435455 = some [0xff, 0xff, 0xff, 0x7f] ∧
    Spec.Mqtt.encRemainingLength 268435456 = none := by decide

/-! ## encoding -/

/-- **encode_conforms.** Whenever the standard prescribes a byte string for a packet value — any of the 14
types — `EncodeTo` lays the packet out as exactly that byte string … -/
theorem encode_conforms (p : Packet) (bs : Bytes) (h : Spec.Mqtt.encode p = some bs) : encodeWire p = bs :=
  MqttSpec.encode_conforms p bs h

/-- … and returns it, provided the body fits the pooled buffer (`n` is the Remaining Length) -/
theorem emit_conforms (p : Packet) (bs : Bytes) (n : Nat) (h : Spec.Mqtt.encode p = some bs)
    (hn : Spec.Mqtt.remainingLengthOf p = some n) (hfit : n ≤ bodyRoom) : encode p = .ok bs := by
  rw [MqttSpec.remainingLengthOf_some h] at hn
  have : (parts p).2.2.length ≤ bodyRoom := by cases hn; exact hfit
  rw [Mqtt.encode_of_fits p this, MqttSpec.encode_conforms p bs h]

/-! The packets the broker emits (`internal/broker/conn.go`: CONNACK, PUBLISH at QoS 0 with DUP and RETAIN
clear, PUBACK, SUBACK, UNSUBACK, PINGRESP) are conforming under these conditions, and only these: -/

theorem emitted_connack (rc : UInt8) : Spec.Mqtt.conforming (.connack rc) = decide (rc.toNat ≤ 5) := by
  simp [Spec.Mqtt.conforming, Spec.Mqtt.ofModel, Spec.Mqtt.valid, Spec.Mqtt.body]

theorem emitted_publish (topic : Bytes) (mid : UInt16) (payload : Bytes) :
    Spec.Mqtt.conforming (.publish ⟨false, 0, false⟩ topic mid payload) =
      (decide (topic.length ≤ 65535) && decide (2 + topic.length + payload.length ≤ 268435455)) := by
  simp [Spec.Mqtt.conforming, Spec.Mqtt.ofModel, Spec.Mqtt.valid, Spec.Mqtt.body, Spec.Mqtt.qosOk,
    Spec.Mqtt.strOk, MqttSpec.encStr_length, Nat.add_assoc]

theorem emitted_puback (mid : UInt16) : Spec.Mqtt.conforming (.puback mid) = true := by
  simp [Spec.Mqtt.conforming, Spec.Mqtt.ofModel, Spec.Mqtt.valid, Spec.Mqtt.body, Spec.Mqtt.encU16]

theorem emitted_unsuback (mid : UInt16) : Spec.Mqtt.conforming (.unsuback mid) = true := by
  simp [Spec.Mqtt.conforming, Spec.Mqtt.ofModel, Spec.Mqtt.valid, Spec.Mqtt.body, Spec.Mqtt.encU16]

theorem emitted_suback (mid : UInt16) (codes : List UInt8) :
    Spec.Mqtt.conforming (.suback mid codes) =
      (codes.all (fun c => decide (c.toNat ≤ 2) || decide (c.toNat = 128)) && decide (2 + codes.length ≤ 268435455)) := by
  have e : (Spec.Mqtt.encU16 mid ++ codes).length = 2 + codes.length := by
    simp [Spec.Mqtt.encU16]; omega
  simp only [Spec.Mqtt.conforming, Spec.Mqtt.ofModel, Spec.Mqtt.valid, Spec.Mqtt.body, e]

theorem emitted_pingresp : Spec.Mqtt.encode .pingresp = some [0xd0, 0x00] := by decide

/-! ## decoding -/

/-- **decode_conforms.** Every byte string the standard prescribes for a packet value within the size limit
is decoded by `DecodePacket` to exactly that packet — type, flags, QoS and Will QoS as two-bit values, packet
identifier present exactly when the standard says so, strings and payload byte for byte — consuming exactly
the packet. (`normal p` is `p` with the fields that are absent on the wire left empty.) -/
theorem decode_conforms (p : Packet) (bs rest : Bytes) (max n : Nat) (h : Spec.Mqtt.encode p = some bs)
    (hn : Spec.Mqtt.remainingLengthOf p = some n) (hmax : n ≤ max) :
    decode (bs ++ rest) max = .ok (normal p, rest) :=
  MqttSpec.decode_conforms p bs rest max n h hn hmax

/-- The same from the standard's side: every valid MQTT 3.1.1 packet within the size limit, including those
no Go value denotes (a CONNACK with Session Present), is decoded to the right type with the right fields. -/
theorem decode_standard_packet (sp : Spec.Mqtt.ControlPacket) (bs rest : Bytes) (max : Nat)
    (hv : Spec.Mqtt.valid sp = true) (he : Spec.Mqtt.encodePacket sp = some bs)
    (hmax : (Spec.Mqtt.body sp).length ≤ max) :
    decode (bs ++ rest) max = .ok (Spec.Mqtt.toModel sp, rest) :=
  MqttSpec.decode_standard_packet sp bs rest max hv he hmax

/-! ## the specification itself -/

/-- **spec_roundtrip.** The standard's parser reads back what the standard's encoder wrote … -/
theorem spec_roundtrip (p : Packet) (bs rest : Bytes) (h : Spec.Mqtt.encode p = some bs) :
    Spec.Mqtt.decode (bs ++ rest) = some (normal p, rest) :=
  MqttSpec.spec_roundtrip p bs rest h

/-- … on its own packet type, for every valid packet -/
theorem spec_packet_roundtrip (sp : Spec.Mqtt.ControlPacket) (bs rest : Bytes) (hv : Spec.Mqtt.valid sp = true)
    (he : Spec.Mqtt.encodePacket sp = some bs) : Spec.Mqtt.decodePacket (bs ++ rest) = some (sp, rest) :=
  MqttSpec.decodePacket_encodePacket sp bs rest hv he

/-! ## non-vacuity: concrete packets that satisfy the hypotheses, and the theorems applied to them -/

/-- a CONNECT with Will QoS 2, Will Retain, user name and password -/
def exConnect : Packet :=
  .connect ⟨[77, 81, 84, 84], 4, true, true, true, 2, true, true, 60, [99], [116], [109], [117], [112]⟩
def exConnectBytes : Bytes :=
  [0x10, 25, 0, 4, 77, 81, 84, 84, 4, 0xf6, 0, 60, 0, 1, 99, 0, 1, 116, 0, 1, 109, 0, 1, 117, 0, 1, 112]
/-- a PUBLISH at QoS 1 whose Remaining Length is `2 + 1 + 2 + k` -/
def exPublish (k : Nat) : Packet := .publish ⟨false, 1, false⟩ [97] 7 (List.replicate k 0)
/-- a SUBSCRIBE with two topic filters -/
def exSubscribe : Packet := .subscribe Spec.Mqtt.reservedHeader 10 [⟨[97, 47, 98], 1⟩, ⟨[99, 47, 35], 2⟩]
def exSubscribeBytes : Bytes := [0x82, 14, 0, 10, 0, 3, 97, 47, 98, 1, 0, 3, 99, 47, 35, 2]

example : Spec.Mqtt.encode exConnect = some exConnectBytes := by decide
example : Spec.Mqtt.encode exSubscribe = some exSubscribeBytes := by decide

theorem exPublish_encode (k : Nat) :
    Spec.Mqtt.encode (exPublish k) =
      (Spec.Mqtt.encRemainingLength (5 + k)).map (fun l => 0x32 :: l ++ [0, 1, 97, 0, 7] ++ List.replicate k 0) := by
  have hl : (Spec.Mqtt.body (.publish false 1 false [97] (some 7) (List.replicate k 0))).length = 5 + k := by
    simp [Spec.Mqtt.body, Spec.Mqtt.encStr, Spec.Mqtt.encU16]; omega
  have hv : Spec.Mqtt.valid (.publish false 1 false [97] (some 7) (List.replicate k 0)) = true := by
    simp [Spec.Mqtt.valid, Spec.Mqtt.qosOk, Spec.Mqtt.strOk]
  have hm : Spec.Mqtt.ofModel (exPublish k) = some (.publish false 1 false [97] (some 7) (List.replicate k 0)) := by
    simp [exPublish, Spec.Mqtt.ofModel]
  simp only [Spec.Mqtt.encode, hm, hv, if_true, Spec.Mqtt.encodePacket, hl]
  cases Spec.Mqtt.encRemainingLength (5 + k) with
  | none => rfl
  | some l =>
    have : Spec.Mqtt.body (.publish false 1 false [97] (some 7) (List.replicate k 0)) = [0, 1, 97, 0, 7] ++ List.replicate k 0 := by
      simp [Spec.Mqtt.body, Spec.Mqtt.encStr, Spec.Mqtt.encU16]
    simp [this, Spec.Mqtt.typeOf, Spec.Mqtt.flagBits, Spec.Mqtt.bit]

-- Remaining Length 128: two length bytes
example : Spec.Mqtt.encode (exPublish 123) = some ([0x32, 0x80, 0x01, 0, 1, 97, 0, 7] ++ List.replicate 123 0) := by
  rw [exPublish_encode]; rfl
-- Remaining Length 16384: three length bytes
example : Spec.Mqtt.encode (exPublish 16379) = some ([0x32, 0x80, 0x80, 0x01, 0, 1, 97, 0, 7] ++ List.replicate 16379 0) := by
  rw [exPublish_encode]; rfl

theorem exPublish_len (k : Nat) : Spec.Mqtt.remainingLengthOf (exPublish k) = some (5 + k) := by
  simp [Spec.Mqtt.remainingLengthOf, exPublish, Spec.Mqtt.ofModel, Spec.Mqtt.body, Spec.Mqtt.encStr, Spec.Mqtt.encU16]
  omega

-- the theorems applied: what the standard prescribes is what `EncodeTo` writes …
example : encode exConnect = .ok exConnectBytes :=
  emit_conforms exConnect _ 25 (by decide) (by decide) (by decide)
example : encode (exPublish 123) = .ok ([0x32, 0x80, 0x01, 0, 1, 97, 0, 7] ++ List.replicate 123 0) :=
  emit_conforms _ _ 128 (by rw [exPublish_encode]; rfl) (exPublish_len 123) (by decide)
example : encode (exPublish 16379) = .ok ([0x32, 0x80, 0x80, 0x01, 0, 1, 97, 0, 7] ++ List.replicate 16379 0) :=
  emit_conforms _ _ 16384 (by rw [exPublish_encode]; rfl) (exPublish_len 16379) (by decide)
example : encode exSubscribe = .ok exSubscribeBytes :=
  emit_conforms exSubscribe _ 14 (by decide) (by decide) (by decide)
-- … and `DecodePacket` and the standard's parser read it back, field by field
example : decode (exConnectBytes ++ [9]) 65536 = .ok (exConnect, [9]) :=
  decode_conforms exConnect _ [9] 65536 25 (by decide) (by decide) (by decide)
example : decode ([0x32, 0x80, 0x01, 0, 1, 97, 0, 7] ++ List.replicate 123 0 ++ [9]) 65536 = .ok (exPublish 123, [9]) :=
  decode_conforms (exPublish 123) _ [9] 65536 128 (by rw [exPublish_encode]; rfl) (exPublish_len 123) (by decide)
example : decode ([0x32, 0x80, 0x80, 0x01, 0, 1, 97, 0, 7] ++ List.replicate 16379 0 ++ [9]) 65536
    = .ok (exPublish 16379, [9]) :=
  decode_conforms (exPublish 16379) _ [9] 65536 16384 (by rw [exPublish_encode]; rfl) (exPublish_len 16379) (by decide)
example : decode (exSubscribeBytes ++ [9]) 65536 = .ok (exSubscribe, [9]) :=
  decode_conforms exSubscribe _ [9] 65536 14 (by decide) (by decide) (by decide)
example : Spec.Mqtt.decode (exConnectBytes ++ [9]) = some (exConnect, [9]) :=
  spec_roundtrip exConnect _ [9] (by decide)
example : Spec.Mqtt.decode ([0x32, 0x80, 0x80, 0x01, 0, 1, 97, 0, 7] ++ List.replicate 16379 0 ++ [9])
    = some (exPublish 16379, [9]) :=
  spec_roundtrip (exPublish 16379) _ [9] (by rw [exPublish_encode]; rfl)
example : Spec.Mqtt.decode (exSubscribeBytes ++ [9]) = some (exSubscribe, [9]) :=
  spec_roundtrip exSubscribe _ [9] (by decide)
-- a standard packet no Go value denotes: CONNACK with Session Present (see `connack_session_present_deviation`)
example : decode [0x20, 2, 1, 0] 65536 = .ok (.connack 0, []) :=
  decode_standard_packet (.connack true 0) [0x20, 2, 1, 0] [] 65536 (by decide) (by decide) (by decide)
-- the packets the broker emits
example : Spec.Mqtt.encode (.connack 5) = some [0x20, 2, 0, 5] := by decide
example : Spec.Mqtt.encode (.publish ⟨false, 0, false⟩ [97, 47] 0 [104, 105]) = some [0x30, 6, 0, 2, 97, 47, 104, 105] := by
  decide
example : Spec.Mqtt.encode (.puback 258) = some [0x40, 2, 1, 2] := by decide
example : Spec.Mqtt.encode (.suback 258 [0, 1, 2, 0x80]) = some [0x90, 6, 1, 2, 0, 1, 2, 0x80] := by decide
example : Spec.Mqtt.encode (.unsuback 258) = some [0xb0, 2, 1, 2] := by decide


/-! ## Deviations of the Go codec from the standard

Each is exhibited on literal bytes: the standard's parser (`Spec.Mqtt.decode`) rejects the byte string, or the
standard prescribes no byte string for the value (`Spec.Mqtt.encode … = none`), and the model of the Go code —
checked against the real code on every run — accepts / writes it. None of them contradicts the theorems above:
they are all outside `Spec.Mqtt.conforming`. `DecodePacket` is a permissive decoder; it never validates. -/

/-- 2.2.2 [MQTT-2.2.2-2]: reserved fixed-header flag bits are not checked. PUBACK with flags 1111 and a
SUBSCRIBE with flags 0000 (instead of 0010) are accepted. -/
theorem reserved_flags_deviation :
    Spec.Mqtt.decode [0x4f, 2, 0, 1] = none ∧ decode [0x4f, 2, 0, 1] 65536 = .ok (.puback 1, []) ∧
    Spec.Mqtt.decode [0x80, 6, 0, 1, 0, 1, 0x61, 0] = none ∧
    decode [0x80, 6, 0, 1, 0, 1, 0x61, 0] 65536 = .ok (.subscribe ⟨false, 0, false⟩ 1 [⟨[0x61], 0⟩], []) := by
  decide

/-- … and on the way out `EncodeTo` writes whatever the `Header` field holds: a `Pubrel` / `Subscribe` /
`Unsubscribe` value with the zero `Header` goes out with flags 0000, which a conforming receiver must treat
as malformed [MQTT-3.6.1-1, -3.8.1-1, -3.10.1-1]. (The broker emits none of the three; the `load` command of
the repository sends such a SUBSCRIBE, with packet identifier 0.) -/
theorem reserved_flags_encode_deviation :
    Spec.Mqtt.encode (.pubrel ⟨false, 0, false⟩ 1) = none ∧ encode (.pubrel ⟨false, 0, false⟩ 1) = .ok [0x60, 2, 0, 1] ∧
    Spec.Mqtt.decode [0x60, 2, 0, 1] = none ∧
    Spec.Mqtt.encode (.pubrel ⟨false, 1, false⟩ 1) = some [0x62, 2, 0, 1] := by
  decide

/-- 3.2.2.1–3.2.2.2: `decodeConnack` skips the Connect Acknowledge Flags byte. Session Present is lost (two
different standard packets decode to the same value; the Go struct has no such field and `EncodeTo` always
writes 0), and non-zero reserved bits 7–1 are accepted. The broker never receives a CONNACK. -/
theorem connack_session_present_deviation :
    Spec.Mqtt.decodePacket [0x20, 2, 1, 0] = some (.connack true 0, []) ∧
    Spec.Mqtt.decodePacket [0x20, 2, 0, 0] = some (.connack false 0, []) ∧
    decode [0x20, 2, 1, 0] 65536 = .ok (.connack 0, []) ∧ decode [0x20, 2, 0, 0] 65536 = .ok (.connack 0, []) ∧
    Spec.Mqtt.decode [0x20, 2, 0xfe, 0] = none ∧ decode [0x20, 2, 0xfe, 0] 65536 = .ok (.connack 0, []) := by
  decide

/-- [MQTT-3.3.1-4] / [MQTT-3.1.2-14]: QoS 3 is accepted, in a PUBLISH and as Will QoS (CONNECT flags 0x1c). -/
theorem qos3_deviation :
    Spec.Mqtt.decode [0x36, 5, 0, 1, 0x61, 0, 1] = none ∧
    decode [0x36, 5, 0, 1, 0x61, 0, 1] 65536 = .ok (.publish ⟨false, 3, false⟩ [0x61] 1 [], []) ∧
    Spec.Mqtt.decode [0x10, 19, 0, 4, 77, 81, 84, 84, 4, 0x1c, 0, 60, 0, 1, 99, 0, 1, 116, 0, 1, 109] = none ∧
    decode [0x10, 19, 0, 4, 77, 81, 84, 84, 4, 0x1c, 0, 60, 0, 1, 99, 0, 1, 116, 0, 1, 109] 65536 =
      .ok (.connect ⟨[77, 81, 84, 84], 4, false, false, false, 3, true, false, 60, [99], [116], [109], [], []⟩, []) := by
  decide

/-- [MQTT-2.3.1-1]: packet identifier 0 is accepted in SUBSCRIBE and in a PUBLISH at QoS 1;
[MQTT-3.3.1-2]: DUP with QoS 0 is accepted. -/
theorem packet_id_zero_deviation :
    Spec.Mqtt.decode [0x82, 6, 0, 0, 0, 1, 0x61, 0] = none ∧
    decode [0x82, 6, 0, 0, 0, 1, 0x61, 0] 65536 = .ok (.subscribe ⟨false, 1, false⟩ 0 [⟨[0x61], 0⟩], []) ∧
    Spec.Mqtt.decode [0x32, 5, 0, 1, 0x61, 0, 0] = none ∧
    decode [0x32, 5, 0, 1, 0x61, 0, 0] 65536 = .ok (.publish ⟨false, 1, false⟩ [0x61] 0 [], []) ∧
    Spec.Mqtt.decode [0x38, 3, 0, 1, 0x61] = none ∧
    decode [0x38, 3, 0, 1, 0x61] 65536 = .ok (.publish ⟨true, 0, false⟩ [0x61] 0 [], []) := by
  decide

/-- [MQTT-3.8.3-3] / [MQTT-3.10.3-2]: a SUBSCRIBE / UNSUBSCRIBE without any topic filter is accepted (the
broker then answers a SUBSCRIBE with a SUBACK that has no return code). -/
theorem empty_subscribe_deviation :
    Spec.Mqtt.decode [0x82, 2, 0, 1] = none ∧ decode [0x82, 2, 0, 1] 65536 = .ok (.subscribe ⟨false, 1, false⟩ 1 [], []) ∧
    Spec.Mqtt.decode [0xa2, 2, 0, 1] = none ∧
    decode [0xa2, 2, 0, 1] 65536 = .ok (.unsubscribe ⟨false, 1, false⟩ 1 [], []) := by
  decide

/-- [MQTT-3-8.3-4]: the Requested QoS byte is not checked (reserved bits, QoS 3). `conn.go` copies the byte
into the SUBACK, so the broker can be made to EMIT a SUBACK with a reserved return code [MQTT-3.9.3-2]:
SUBSCRIBE `82 06 00 01 00 01 61 ff` is answered with `90 03 00 01 ff`, for which the standard prescribes no
encoding (the only emitted packet outside `conforming`, and only in reply to a malformed request; observed on
the real broker, notes/experiments/internal__broker__zz_s16_suback_test.go.txt). -/
theorem requested_qos_deviation :
    Spec.Mqtt.decode [0x82, 6, 0, 1, 0, 1, 0x61, 0xff] = none ∧
    decode [0x82, 6, 0, 1, 0, 1, 0x61, 0xff] 65536 = .ok (.subscribe ⟨false, 1, false⟩ 1 [⟨[0x61], 0xff⟩], []) ∧
    Spec.Mqtt.encode (.suback 1 [0xff]) = none ∧ encode (.suback 1 [0xff]) = .ok [0x90, 3, 0, 1, 0xff] ∧
    Spec.Mqtt.decode [0x90, 3, 0, 1, 0xff] = none := by
  decide

/-- 2.2.3: a Remaining Length of five bytes is accepted (`decodeHeader` loops while the continuation bit is
set, in uint32 arithmetic). -/
theorem remaining_length_five_bytes_deviation :
    Spec.Mqtt.decode [0x40, 0x82, 0x80, 0x80, 0x80, 0x00, 0, 1] = none ∧
    decode [0x40, 0x82, 0x80, 0x80, 0x80, 0x00, 0, 1] 65536 = .ok (.puback 1, []) := by
  decide

/-- 3.4.1, 3.12.1: a Remaining Length other than the one the packet type fixes is accepted. Surplus body
bytes of a PUBACK (… PUBREC, PUBREL, PUBCOMP, UNSUBACK, CONNACK, CONNECT) are skipped; for PINGREQ, PINGRESP
and DISCONNECT the announced body is not even consumed and is read as the next packet. -/
theorem surplus_body_deviation :
    Spec.Mqtt.decode [0x40, 3, 0, 1, 0xff] = none ∧ decode [0x40, 3, 0, 1, 0xff] 65536 = .ok (.puback 1, []) ∧
    Spec.Mqtt.decode [0xc0, 2, 0xaa, 0xbb] = none ∧ decode [0xc0, 2, 0xaa, 0xbb] 65536 = .ok (.pingreq, [0xaa, 0xbb]) ∧
    Spec.Mqtt.decode [0x10, 15, 0, 4, 77, 81, 84, 84, 4, 2, 0, 60, 0, 1, 99, 0xde, 0xad] = none ∧
    decode [0x10, 15, 0, 4, 77, 81, 84, 84, 4, 2, 0, 60, 0, 1, 99, 0xde, 0xad] 65536 =
      .ok (.connect ⟨[77, 81, 84, 84], 4, false, false, false, 0, false, true, 60, [99], [], [], [], []⟩, []) := by
  decide

/-- 3.1.2.3: the Connect Flags are not validated: reserved bit 0 set [MQTT-3.1.2-3] (flags 0x01), Will QoS or
Will Retain without Will Flag [MQTT-3.1.2-13, -15] (0x08, 0x20), Password without User Name [MQTT-3.1.2-22]
(0x40) are all accepted; and `EncodeTo` writes Will QoS / Will Retain of a `Connect` value without Will. -/
theorem connect_flags_deviation :
    Spec.Mqtt.decode [0x10, 13, 0, 4, 77, 81, 84, 84, 4, 0x01, 0, 60, 0, 1, 99] = none ∧
    decode [0x10, 13, 0, 4, 77, 81, 84, 84, 4, 0x01, 0, 60, 0, 1, 99] 65536 =
      .ok (.connect ⟨[77, 81, 84, 84], 4, false, false, false, 0, false, false, 60, [99], [], [], [], []⟩, []) ∧
    Spec.Mqtt.decode [0x10, 13, 0, 4, 77, 81, 84, 84, 4, 0x08, 0, 60, 0, 1, 99] = none ∧
    decode [0x10, 13, 0, 4, 77, 81, 84, 84, 4, 0x08, 0, 60, 0, 1, 99] 65536 =
      .ok (.connect ⟨[77, 81, 84, 84], 4, false, false, false, 1, false, false, 60, [99], [], [], [], []⟩, []) ∧
    Spec.Mqtt.decode [0x10, 13, 0, 4, 77, 81, 84, 84, 4, 0x20, 0, 60, 0, 1, 99] = none ∧
    decode [0x10, 13, 0, 4, 77, 81, 84, 84, 4, 0x20, 0, 60, 0, 1, 99] 65536 =
      .ok (.connect ⟨[77, 81, 84, 84], 4, false, false, true, 0, false, false, 60, [99], [], [], [], []⟩, []) ∧
    Spec.Mqtt.decode [0x10, 16, 0, 4, 77, 81, 84, 84, 4, 0x40, 0, 60, 0, 1, 99, 0, 1, 112] = none ∧
    decode [0x10, 16, 0, 4, 77, 81, 84, 84, 4, 0x40, 0, 60, 0, 1, 99, 0, 1, 112] 65536 =
      .ok (.connect ⟨[77, 81, 84, 84], 4, false, true, false, 0, false, false, 60, [99], [], [], [], [112]⟩, []) ∧
    Spec.Mqtt.encode (.connect ⟨[77, 81, 84, 84], 4, false, false, false, 1, false, true, 60, [99], [], [], [], []⟩) = none ∧
    encode (.connect ⟨[77, 81, 84, 84], 4, false, false, false, 1, false, true, 60, [99], [], [], [], []⟩) =
      .ok [0x10, 13, 0, 4, 77, 81, 84, 84, 4, 0x0a, 0, 60, 0, 1, 99] := by
  decide

/-- 1.5.3 [MQTT-1.5.3-1, -2], 4.7.3 [MQTT-4.7.3-1], 3.3.2.1 [MQTT-3.3.2-2]: strings are byte strings to the
codec. A PUBLISH whose Topic Name is U+0000, an overlong UTF-8 form, a wildcard, or empty is decoded (whether
the broker then refuses the channel is not the codec's matter). The standard's character-level rules
(`Spec.Mqtt.textOk`) reject all four. -/
theorem string_content_deviation :
    decode [0x30, 3, 0, 1, 0x00] 65536 = .ok (.publish ⟨false, 0, false⟩ [0x00] 0 [], []) ∧
    Spec.Mqtt.textOk (.publish false 0 false [0x00] none []) = false ∧
    decode [0x30, 4, 0, 2, 0xc0, 0x80] 65536 = .ok (.publish ⟨false, 0, false⟩ [0xc0, 0x80] 0 [], []) ∧
    Spec.Mqtt.textOk (.publish false 0 false [0xc0, 0x80] none []) = false ∧
    decode [0x30, 3, 0, 1, 0x23] 65536 = .ok (.publish ⟨false, 0, false⟩ [0x23] 0 [], []) ∧
    Spec.Mqtt.textOk (.publish false 0 false [0x23] none []) = false ∧
    decode [0x30, 2, 0, 0] 65536 = .ok (.publish ⟨false, 0, false⟩ [] 0 [], []) ∧
    Spec.Mqtt.textOk (.publish false 0 false [] none []) = false ∧
    Spec.Mqtt.textOk (.publish false 0 false [0x61, 0x2f, 0xe2, 0x82, 0xac] none []) = true := by
  decide

/-- What is NOT a deviation of the codec: a CONNECT with a zero-length Client Identifier and Clean Session 0
[MQTT-3.1.3-7, -8], another protocol name or level [MQTT-3.1.2-1, -2] are well-formed packets that the
standard wants answered with CONNACK 0x02 / 0x01. Both parsers accept them; `conn.go` `onConnect` then
answers 0x00 regardless (protocol behaviour, outside C16). -/
example : Spec.Mqtt.decode [0x10, 12, 0, 4, 77, 81, 84, 84, 4, 0, 0, 60, 0, 0] =
      some (.connect ⟨[77, 81, 84, 84], 4, false, false, false, 0, false, false, 60, [], [], [], [], []⟩, []) ∧
    decode [0x10, 12, 0, 4, 77, 81, 84, 84, 4, 0, 0, 60, 0, 0] 65536 =
      .ok (.connect ⟨[77, 81, 84, 84], 4, false, false, false, 0, false, false, 60, [], [], [], [], []⟩, []) := by
  decide

/-- MessageID is NOT written for QoS 0 (and is written for QoS 1, 2): no deviation. -/
example : encode (.publish ⟨false, 0, false⟩ [0x61] 7 [1]) = .ok [0x30, 4, 0, 1, 0x61, 1] ∧
    encode (.publish ⟨false, 1, false⟩ [0x61] 7 [1]) = .ok [0x32, 6, 0, 1, 0x61, 0, 7, 1] := by decide

end Emitter.C16
