/-
  C16 — The MQTT codec agrees with MQTT 3.1.1 for every packet it handles.
  Property-level statements; helper lemmas belong in Emitter/Lemmas/Mqtt.lean.
-/
import Emitter.Lemmas.Mqtt
namespace Emitter.C16
open Emitter Emitter.Mqtt

/-! ## regenerated facts -/

/-- the 14 type codes are the MQTT 3.1.1 control packet types 1..14, in order -/
theorem fact_type_codes :
    [tyConnect, tyConnack, tyPublish, tyPuback, tyPubrec, tyPubrel, tyPubcomp, tySubscribe, tySuback,
     tyUnsubscribe, tyUnsuback, tyPingreq, tyPingresp, tyDisconnect] = [1, 2, 3, 4, 5, 6, 7, 8, 9, 10, 11, 12, 13, 14] := by
  decide

/-- the pooled buffer is 64 KiB and the header reserve is 6 bytes: first byte + at most 4 length
digits fit (and 65530 needs 3) -/
theorem fact_sizes : maxMessageSize = 65536 ∧ maxHeaderSize = 6 ∧ bodyRoom = 65530 := by decide

/-! ## remaining length -/

/-- number of length digits at the 1/2/3/4-byte boundaries -/
theorem encLen_length (n : Nat) (h : n < 268435456) :
    (encLen n).length = if n < 128 then 1 else if n < 16384 then 2 else if n < 2097152 then 3 else 4 :=
  Mqtt.encLen_length n h

/-- the remaining-length encoding round-trips for every n < 2^28, whatever follows it -/
theorem len_roundtrip (n : Nat) (h : n < 268435456) (rest : Bytes) :
    decodeLen (encLen n ++ rest) 1 0 = .ok (UInt32.ofNat n, rest) :=
  Mqtt.decodeLen_encLen n h rest

/-! ## fields -/

theorem string_roundtrip (v pre post : Bytes) (h : v.length < 65536) :
    readString (pre ++ writeString v ++ post) pre.length = .ok (v, pre.length + 2 + v.length) :=
  Mqtt.readString_writeString v pre post h

/-! ## packets -/

/-- Encoding then decoding any well-formed packet value returns that value (in decoded normal
form) and leaves the rest of the stream untouched — all 14 packet types, every flag
combination, QoS 0–3 bit patterns, empty strings and payloads, any limit that admits the body. -/
theorem decode_encode (p : Packet) (wf : wellFormed p = true) (rest : Bytes) (max : Nat)
    (hmax : (parts p).2.2.length ≤ max) :
    decode (encodeWire p ++ rest) max = .ok (normal p, rest) :=
  Mqtt.decode_encodeWire p wf rest max hmax

/-- `EncodeTo` produces exactly the wire form whenever the body fits the pooled buffer … -/
theorem encode_fits (p : Packet) (h : (parts p).2.2.length ≤ bodyRoom) : encode p = .ok (encodeWire p) :=
  Mqtt.encode_of_fits p h

/-- … and a PUBLISH that does not fit is refused with an error, never a panic (D9) -/
theorem encode_publish_total (h : Header) (t : Bytes) (mid : UInt16) (pl : Bytes) :
    (encode (.publish h t mid pl)).isPanic = false :=
  Mqtt.encode_publish_no_panic h t mid pl

/-- a packet larger than the configured limit is refused.
AMENDED by the proof round: hypothesis `hq` (header QoS < 4) added; without it the statement is
false — `.pubrel ⟨false, 64, false⟩ 0` encodes to `e0 02 00 00`, which decodes as DISCONNECT. -/
theorem decode_refuses_oversize (p : Packet) (rest : Bytes) (max : Nat)
    (hty : p ≠ .pingreq ∧ p ≠ .pingresp ∧ p ≠ .disconnect)
    (hq : (parts p).2.1.ok = true)
    (hlen : (parts p).2.2.length < 268435456) (hbig : max < (parts p).2.2.length) :
    decode (encodeWire p ++ rest) max = .err "too-large" :=
  Mqtt.decode_oversize p rest max hty hq hlen hbig

/-- the counterexample to the un-amended statement (all its hypotheses hold, conclusion fails) -/
example : decode (encodeWire (.pubrel ⟨false, 64, false⟩ 0) ++ [9]) 1 = .ok (.disconnect, [0, 0, 9]) := by
  decide

/-! non-vacuity -/
example : wellFormed (.publish ⟨true, 2, true⟩ [97, 47] 7 [1, 2, 3]) = true := by decide
example : decode (encodeWire (.publish ⟨true, 2, true⟩ [97, 47] 7 [1, 2, 3]) ++ [9]) 100
    = .ok (.publish ⟨true, 2, true⟩ [97, 47] 7 [1, 2, 3], [9]) := by decide

end Emitter.C16
