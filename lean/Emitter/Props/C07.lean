/-
  C07 — Messages are retained and replayed exactly as requested (broker model; any authorizer).
-/
import Emitter.Lemmas.Broker
import Emitter.Lemmas.StoreHistory
namespace Emitter.C07
open Emitter Emitter.Trie Emitter.Security Emitter.Broker

theorem ttl_positive_iff (retain : Bool) (ch : Channel) :
    ttlOf retain ch > 0 ↔ retain = true ∨ ∃ t, ch.ttl = some t ∧ t > 0 := Broker.ttlOf_pos_iff retain ch

/-- A published message is written to history iff it carries a positive ttl option or the
retain flag and its key has the store permission; once; under the publisher's contract and
channel; with the requested ttl (retain = the configured retention). -/
theorem stored_iff (auth : Auth) (b : B) (name : String) (c : Conn) (qos : UInt8) (retain : Bool)
    (mid : UInt16) (topic payload : Bytes) (g : Grant)
    (hc : b.conn? name = some c) (ha : c.alive = true)
    (hs : (parseChannel (resolve c topic)).ctype = chStatic)
    (hauth : auth b.banned (parseChannel (resolve c topic)) permWrite = some g) (hx : g.has permExtend = false) :
    let ch := parseChannel (resolve c topic)
    let ttl := ttlOf retain ch
    (step auth b name (.publish qos retain mid topic payload)).1.store =
      if ttl > 0 ∧ g.has permStore = true then
        b.store ++ [⟨g.contract :: ch.query, ch.channel, payload, if ttl = Generated.msgRetainedTTL then b.retain else ttl⟩]
      else b.store :=
  Broker.store_iff auth b name c qos retain mid topic payload g hc ha hs hauth hx

/-- An accepted subscription with load permission is sent the last N stored matching messages
before its SUBACK (N from `last`, 1 by default, 0 for none); a client without it is sent none. -/
theorem replay_exact (auth : Auth) (b : B) (name : String) (c : Conn) (mid : UInt16) (topic : Bytes) (qos : UInt8)
    (g : Grant) (hc : b.conn? name = some c) (ha : c.alive = true)
    (hv : (parseChannel (fixTopic topic)).ctype ≠ chInvalid)
    (hauth : auth b.banned (parseChannel (fixTopic topic)) permRead = some g) (hx : g.has permExtend = false) :
    let ch := parseChannel (fixTopic topic)
    let ssid := g.contract :: ch.query
    let limit : Nat := match ch.last with | some v => v.toNat | none => 1
    let r := step auth b name (.subscribe mid topic qos)
    r.1.store = b.store ∧
    (r.2.filter (fun e => e.1 == name && (match e.2 with | .json _ _ => false | _ => true))) =
      (if g.has permLoad then (queryStore b ssid limit).map (fun m => (name, Pkt.pub m.channel m.payload)) else [])
        ++ [(name, .suback mid [qos])] :=
  Broker.replay_exact auth b name c mid topic qos g hc ha hv hauth hx

/-- "the last N": the N most recently stored messages among those whose ssid has the filter as
a prefix (contract and first level literal, deeper levels possibly wildcards) -/
theorem last_n (b : B) (ssid : Path) (limit : Nat) :
    queryStore b ssid limit = ((b.store.filter (fun m => ssidMatches ssid m.ssid)).reverse.take limit).reverse :=
  Broker.queryStore_spec b ssid limit

/-- last wills are stored under the same rule (they go through `ttlOf` and the store permission) -/
theorem will_fires_iff (auth : Auth) (b : B) (c : Conn) :
    (∃ g, c.hasConnect = true ∧ c.willFlag = true ∧ (parseChannel c.willTopic).ctype = chStatic ∧
        auth b.banned (parseChannel c.willTopic) permWrite = some g ∧ g.has permExtend = false ∧
        (lastWill auth b c).2 = deliver (lastWill auth b c).1 (g.contract :: (parseChannel c.willTopic).query) none
                                  (.pub (parseChannel c.willTopic).channel c.willMessage)) ∨
    ((¬ ∃ g, c.hasConnect = true ∧ c.willFlag = true ∧ (parseChannel c.willTopic).ctype = chStatic ∧
        auth b.banned (parseChannel c.willTopic) permWrite = some g ∧ g.has permExtend = false) ∧
      lastWill auth b c = (b, [])) := Broker.will_fires_iff auth b c

/-! ## C07 at history level: the store refines the log of `Spec/Retained.lean`

The specification (`Emitter/Spec/Retained.lean`) is the property read literally: a LOG of records
(contract, channel ssid, channel bytes, payload, ttl, order of arrival); `Spec.stepStore` appends
exactly one record for an accepted publish (static channel, write permission granted, key not
extendable) that carries the retain flag or a positive ttl option AND whose key has the store
permission — likewise for the last will published when a connection ends — and nothing for any
other request; `Spec.replay` is what a subscriber is sent before its SUBACK (the last N matching
records in order of arrival when the key has the load permission, none otherwise).
The abstraction function is `absStore` (`Lemmas/StoreHistory.lean`): ban list, configured
retention, the connections in order as (name, open, announced will, link shortcuts), and the
store as a log (`absLog`: same messages, same order, `contract :: levels` split into contract and
levels, numbered from 0). The theorems hold for every history `List Spec.Ev` (accepts, requests,
ban-list changes) that is well-formed, from every pristine broker (either matcher mode, any ban
list, retention, and initial store), under every authorizer. -/

/-- one request, any state with distinct connection names: the abstraction commutes with the step -/
theorem step_refines (auth : Auth) (b : B) (name : String) (r : Req) (hnd : (b.conns.map (·.name)).Nodup) :
    absStore (step auth b name r).1 = Spec.stepStore auth (absStore b) name r :=
  Broker.step_abs auth b name r hnd

/-- **"is stored" (⊇) and "nothing else is stored" (⊆), for every history**: the abstraction of
the model's state after the history IS the specification's state after the same history; in
particular the store, read as a log, consists of exactly the records `Spec.stepStore` appended, in
the same order. -/
theorem store_history_refines (auth : Auth) (b₀ : B) (h0 : Pristine b₀) (evs : List Spec.Ev)
    (hwf : Spec.wellFormed evs = true) :
    absStore (run auth b₀ evs) = Spec.runStore auth (Spec.initStore b₀) evs :=
  Broker.store_history_refines auth b₀ h0 evs hwf

/-- the same, read on the store alone (`StoreWF`: every message already in the initial store is
filed under a contract — trivially so for an empty store) -/
theorem store_history_exact (auth : Auth) (b₀ : B) (h0 : Pristine b₀) (hst : StoreWF b₀.store)
    (evs : List Spec.Ev) (hwf : Spec.wellFormed evs = true) :
    let L := (Spec.runStore auth (Spec.initStore b₀) evs).log
    L = absLog (run auth b₀ evs).store ∧
    (run auth b₀ evs).store = L.map Spec.Rec.toStored ∧
    L.map (·.seq) = List.range L.length :=
  Broker.store_history_exact auth b₀ h0 hst evs hwf

/-- **replay, for every history**: an accepted SUBSCRIBE of an open client after any well-formed
history is answered with presence notifications (JSON, to the watchers of the channel), then — as
PUBLISH packets to the subscriber, channel and payload unchanged, in order of arrival — exactly
`Spec.replay` of the specification's log (the last N matching when the key has the load
permission, none otherwise), and then, after all of them, the SUBACK; neither log nor store change.
`hwin`: the model has no clock, a history is one second `now`; the statement is about
subscriptions whose from/until window contains it (always the case without from/until:
`Spec.inWindow_open`). -/
theorem replay_history_exact (auth : Auth) (b₀ : B) (h0 : Pristine b₀) (hst : StoreWF b₀.store)
    (evs : List Spec.Ev) (hwf : Spec.wellFormed evs = true)
    (now : Int) (name : String) (mid : UInt16) (topic : Bytes) (qos : UInt8) (g : Grant)
    (hopen : (Spec.runStore auth (Spec.initStore b₀) evs).isOpen name = true)
    (hacc : Spec.acceptedSub auth (Spec.runStore auth (Spec.initStore b₀) evs).banned topic = some g)
    (hwin : Spec.inWindow now (parseChannel (fixTopic topic)).window = true) :
    let S := Spec.runStore auth (Spec.initStore b₀) evs
    let ch := parseChannel (fixTopic topic)
    let r := step auth (run auth b₀ evs) name (.subscribe mid topic qos)
    (∃ notes : Out, (∀ e ∈ notes, ∃ t f, e.2 = Pkt.json t f) ∧
      r.2 = notes ++ (Spec.replay now S.log g ch.query ch.last ch.window).map
                        (fun m => (name, Pkt.pub m.channel m.payload))
                  ++ [(name, .suback mid [qos])]) ∧
    (g.has permLoad = false → Spec.replay now S.log g ch.query ch.last ch.window = []) ∧
    Spec.replayFor auth now S topic = Spec.replay now S.log g ch.query ch.last ch.window ∧
    absStore r.1 = S ∧ r.1.store = (run auth b₀ evs).store :=
  Broker.replay_history_exact auth b₀ h0 hst evs hwf now name mid topic qos g hopen hacc hwin

/-- the same, read on the PUBLISH packets alone: the PUBLISH packets the SUBSCRIBE step emits — to
anybody — are exactly the replay (`Spec.replayFor`), all addressed to the subscriber, and the last
packet of the step is the SUBACK -/
theorem replay_history_pubs (auth : Auth) (b₀ : B) (h0 : Pristine b₀) (hst : StoreWF b₀.store)
    (evs : List Spec.Ev) (hwf : Spec.wellFormed evs = true)
    (now : Int) (name : String) (mid : UInt16) (topic : Bytes) (qos : UInt8) (g : Grant)
    (hopen : (Spec.runStore auth (Spec.initStore b₀) evs).isOpen name = true)
    (hacc : Spec.acceptedSub auth (Spec.runStore auth (Spec.initStore b₀) evs).banned topic = some g)
    (hwin : Spec.inWindow now (parseChannel (fixTopic topic)).window = true) :
    let out := (step auth (run auth b₀ evs) name (.subscribe mid topic qos)).2
    out.filter isPub =
      (Spec.replayFor auth now (Spec.runStore auth (Spec.initStore b₀) evs) topic).map
        (fun m => (name, Pkt.pub m.channel m.payload)) ∧
    out.getLast? = some (name, .suback mid [qos]) :=
  Broker.replay_history_pubs auth b₀ h0 hst evs hwf now name mid topic qos g hopen hacc hwin

/-- **what is not stored is never replayed**: a message published without the retain flag and
without a positive ttl option, or with a key that has no store permission (`Spec.unstorable`),
leaves the specification state — hence the log — after the whole history equal to the one after
the history WITHOUT that publish; every later accepted subscription is replayed exactly what it
would have been replayed had the message never been published. -/
theorem unstored_never_replayed (auth : Auth) (b₀ : B) (h0 : Pristine b₀) (hst : StoreWF b₀.store)
    (h₁ : List Spec.Ev) (n : String) (pq : UInt8) (retain : Bool) (pm : UInt16) (ptopic payload : Bytes)
    (h₂ : List Spec.Ev)
    (hwf : Spec.wellFormed (h₁ ++ .req n (.publish pq retain pm ptopic payload) :: h₂) = true)
    (hno : ∀ i, (Spec.runStore auth (Spec.initStore b₀) h₁).client? n = some i →
             Spec.unstorable auth (Spec.runStore auth (Spec.initStore b₀) h₁) i retain ptopic) :
    let evs := h₁ ++ .req n (.publish pq retain pm ptopic payload) :: h₂
    let S' := Spec.runStore auth (Spec.initStore b₀) (h₁ ++ h₂)
    Spec.runStore auth (Spec.initStore b₀) evs = S' ∧
    absStore (run auth b₀ evs) = S' ∧
    ∀ (now : Int) (name : String) (mid : UInt16) (topic : Bytes) (qos : UInt8) (g : Grant),
      S'.isOpen name = true → Spec.acceptedSub auth S'.banned topic = some g →
      Spec.inWindow now (parseChannel (fixTopic topic)).window = true →
      ∃ notes : Out, (∀ e ∈ notes, ∃ t f, e.2 = Pkt.json t f) ∧
        (step auth (run auth b₀ evs) name (.subscribe mid topic qos)).2 =
          notes ++ (Spec.replay now S'.log g (parseChannel (fixTopic topic)).query
                      (parseChannel (fixTopic topic)).last (parseChannel (fixTopic topic)).window).map
                        (fun m => (name, Pkt.pub m.channel m.payload))
                ++ [(name, .suback mid [qos])] :=
  Broker.unstored_never_replayed auth b₀ h0 hst h₁ n pq retain pm ptopic payload h₂ hwf hno

/-- reading `Spec.replay`: only matching records of the log, in the order of the log, at most N -/
theorem replay_sublist (now : Int) (L : List Spec.Rec) (g : Grant) (q : Path) (last : Option Int) (w : Int × Int) :
    (Spec.replay now L g q last w).Sublist (L.filter (Spec.Rec.matches g.contract q)) ∧
    (Spec.replay now L g q last w).length ≤ Spec.limitOf last := Spec.replay_sublist now L g q last w

/-- `last=0` means none; a `last` not smaller than the number of matching records means all -/
theorem replay_zero (now : Int) (L : List Spec.Rec) (g : Grant) (q : Path) (w : Int × Int) :
    Spec.replay now L g q (some 0) w = [] := Spec.replay_zero now L g q w
theorem replay_all (now : Int) (L : List Spec.Rec) (g : Grant) (q : Path) (last : Option Int) (w : Int × Int)
    (hl : g.has permLoad = true) (hw : Spec.inWindow now w = true)
    (hn : (L.filter (Spec.Rec.matches g.contract q)).length ≤ Spec.limitOf last) :
    Spec.replay now L g q last w = L.filter (Spec.Rec.matches g.contract q) := Spec.replay_all now L g q last w hl hw hn

/-! ### non-vacuity: a concrete history with two publishers and a subscriber

A toy authorizer (contract 7 unless said otherwise): key `k` read/write/store/load/presence; key
`n` the same WITHOUT store; key `m` the same WITHOUT load; key `j` everything under contract 9;
any other key (and any banned key) is refused. Channels as bytes: `k/a/` = 107 47 97 47,
`?ttl=5` = 63 116 116 108 61 53, `?last=2` = 63 108 97 115 116 61 50. -/

def demoAuth : Auth := fun banned ch _ =>
  if banned.contains ch.key then none
  else if ch.key == [107] then some ⟨7, 0x3e⟩
  else if ch.key == [110] then some ⟨7, 0x36⟩
  else if ch.key == [109] then some ⟨7, 0x2e⟩
  else if ch.key == [106] then some ⟨9, 0x3e⟩
  else none

def ka : Bytes := [107, 47, 97, 47]
def kb : Bytes := [107, 47, 98, 47]
def na : Bytes := [110, 47, 97, 47]
def ma : Bytes := [109, 47, 97, 47]
def ja : Bytes := [106, 47, 97, 47]
def ttl5 : Bytes := [63, 116, 116, 108, 61, 53]
def ttl30 : Bytes := [63, 116, 116, 108, 61, 51, 48]
def last0 : Bytes := [63, 108, 97, 115, 116, 61, 48]
def last2 : Bytes := [63, 108, 97, 115, 116, 61, 50]
def last100 : Bytes := [63, 108, 97, 115, 116, 61, 49, 48, 48]

/-- p1, p2, s1 are accepted; p1 connects announcing the will "bye" on `k/a/?ttl=30` (no will-retain),
p2 connects without a will; p1 publishes "r1" on `k/a/` with the retain flag; p2 publishes "t5"
on `k/a/?ttl=5` … -/
def demo₁ : List Spec.Ev :=
  [.accept "p1" [1], .accept "p2" [2], .accept "s1" [3],
   .req "p1" (.connect [] true false (ka ++ ttl30) [98, 121, 101]),
   .req "p2" (.connect [] false false [] []),
   .req "p1" (.publish 0 true 0 ka [114, 49]),
   .req "p2" (.publish 0 false 0 (ka ++ ttl5) [116, 53])]
/-- … p1 publishes "x" on `k/a/` with neither retain nor ttl … -/
def demoPlain : Spec.Ev := .req "p1" (.publish 0 false 0 ka [120])
/-- … p2 publishes "ns" WITH the retain flag on `n/a/` — the key `n` has no store permission … -/
def demoNoStore : Spec.Ev := .req "p2" (.publish 1 true 7 na [110, 115])
/-- … p2 publishes "rb" with retain on the other channel `k/b/`; p1's connection ends (its will fires) -/
def demo₂ : List Spec.Ev :=
  [.req "p2" (.publish 0 true 0 kb [114, 98]),
   .req "p1" .close]
def demo : List Spec.Ev := demo₁ ++ demoPlain :: demoNoStore :: demo₂

/-- the hashed channel levels of `a/` and `b/` -/
def la : Path := [3238259379]
def lb : Path := [500706888]

def recR1 : Spec.Rec := ⟨7, la, [97, 47], [114, 49], 2592000, 0⟩
def recT5 : Spec.Rec := ⟨7, la, [97, 47], [116, 53], 5, 1⟩
def recRb : Spec.Rec := ⟨7, lb, [98, 47], [114, 98], 2592000, 2⟩
def recBye : Spec.Rec := ⟨7, la, [97, 47], [98, 121, 101], 30, 3⟩

set_option maxRecDepth 8000

example : Spec.wellFormed demo = true := by decide +kernel

/-- the log after the history: the retained message (default retention), the ttl=5 message, the
retained message on the other channel, the last will with its ttl=30 — and neither the plain
message nor the one published with the key without store permission -/
example : (Spec.runStore demoAuth (Spec.initStore {}) demo).log = [recR1, recT5, recRb, recBye] := by decide +kernel

/-- `store_history_refines` on the demo history, and what it says about the model's store -/
example : absStore (run demoAuth {} demo) = Spec.runStore demoAuth (Spec.initStore {}) demo :=
  store_history_refines demoAuth {} ⟨rfl, rfl⟩ demo (by decide +kernel)
example : (run demoAuth {} demo).store =
    [⟨7 :: la, [97, 47], [114, 49], 2592000⟩, ⟨7 :: la, [97, 47], [116, 53], 5⟩,
     ⟨7 :: lb, [98, 47], [114, 98], 2592000⟩, ⟨7 :: la, [97, 47], [98, 121, 101], 30⟩] := by
  rw [(store_history_exact demoAuth {} ⟨rfl, rfl⟩ (by intro m hm; cases hm) demo (by decide +kernel)).2.1]
  decide +kernel

/-- the clients after the history: p1 ended (its will still on record), p2 and s1 open -/
example : (Spec.runStore demoAuth (Spec.initStore {}) demo).clients =
    [("p1", { open_ := false, will := some ⟨false, ka ++ ttl30, [98, 121, 101]⟩ }), ("p2", {}), ("s1", {})] := by
  decide +kernel

/-- what `Spec.replay` says for s1 (the second `now` is immaterial without from/until): default
`last` — the most recent one; `last=0` — none; `last=2` — the last two, oldest first; a huge
`last` — all three on the channel (not the one on `k/b/`); key `m` without load permission — none;
key `n` (same contract, load) — the same two; key `j` (contract 9) — none -/
example : Spec.replayFor demoAuth 0 (Spec.runStore demoAuth (Spec.initStore {}) demo) ka = [recBye] := by decide +kernel
example : Spec.replayFor demoAuth 0 (Spec.runStore demoAuth (Spec.initStore {}) demo) (ka ++ last0) = [] := by decide +kernel
example : Spec.replayFor demoAuth 0 (Spec.runStore demoAuth (Spec.initStore {}) demo) (ka ++ last2) = [recT5, recBye] := by
  decide +kernel
example : Spec.replayFor demoAuth 0 (Spec.runStore demoAuth (Spec.initStore {}) demo) (ka ++ last100) =
    [recR1, recT5, recBye] := by decide +kernel
example : Spec.replayFor demoAuth 0 (Spec.runStore demoAuth (Spec.initStore {}) demo) (ma ++ last2) = [] := by decide +kernel
example : Spec.replayFor demoAuth 0 (Spec.runStore demoAuth (Spec.initStore {}) demo) (na ++ last2) = [recT5, recBye] := by
  decide +kernel
example : Spec.replayFor demoAuth 0 (Spec.runStore demoAuth (Spec.initStore {}) demo) (ja ++ last2) = [] := by decide +kernel

/-- `replay_history_exact` applies to s1 subscribing `k/a/?last=2` after the demo history … -/
example : ∃ notes : Out, (∀ e ∈ notes, ∃ t f, e.2 = Pkt.json t f) ∧
    (step demoAuth (run demoAuth {} demo) "s1" (.subscribe 1 (ka ++ last2) 0)).2 =
      notes ++ [("s1", .pub [97, 47] [116, 53]), ("s1", .pub [97, 47] [98, 121, 101])] ++ [("s1", .suback 1 [0])] := by
  have h := (replay_history_exact demoAuth {} ⟨rfl, rfl⟩ (by intro m hm; cases hm) demo (by decide +kernel) 0 "s1" 1
    (ka ++ last2) 0 ⟨7, 0x3e⟩ (by decide +kernel) (by decide +kernel) (by decide +kernel)).1
  have hr : Spec.replay 0 (Spec.runStore demoAuth (Spec.initStore {}) demo).log ⟨7, 0x3e⟩
      (parseChannel (fixTopic (ka ++ last2))).query (parseChannel (fixTopic (ka ++ last2))).last
      (parseChannel (fixTopic (ka ++ last2))).window = [recT5, recBye] := by decide +kernel
  rw [hr] at h
  exact h
/-- … and this is all the model sends (nobody watches the channel, so there are no notifications) -/
example : (step demoAuth (run demoAuth {} demo) "s1" (.subscribe 1 (ka ++ last2) 0)).2 =
    [("s1", .pub [97, 47] [116, 53]), ("s1", .pub [97, 47] [98, 121, 101]), ("s1", .suback 1 [0])] := by decide +kernel
/-- `replay_history_pubs` on the same subscription: the default `last` (no option) -/
example : ((step demoAuth (run demoAuth {} demo) "s1" (.subscribe 2 ka 1)).2.filter isPub =
      [recBye].map (fun m => ("s1", Pkt.pub m.channel m.payload))) ∧
    (step demoAuth (run demoAuth {} demo) "s1" (.subscribe 2 ka 1)).2.getLast? = some ("s1", .suback 2 [1]) := by
  have h := replay_history_pubs demoAuth {} ⟨rfl, rfl⟩ (by intro m hm; cases hm) demo (by decide +kernel) 0 "s1" 2
    ka 1 ⟨7, 0x3e⟩ (by decide +kernel) (by decide +kernel) (by decide +kernel)
  have hr : Spec.replayFor demoAuth 0 (Spec.runStore demoAuth (Spec.initStore {}) demo) ka = [recBye] := by decide +kernel
  rw [hr] at h
  exact h
/-- default `last`, `last=0`, no load permission: the model's answers -/
example : (step demoAuth (run demoAuth {} demo) "s1" (.subscribe 2 ka 1)).2 =
    [("s1", .pub [97, 47] [98, 121, 101]), ("s1", .suback 2 [1])] := by decide +kernel
example : (step demoAuth (run demoAuth {} demo) "s1" (.subscribe 3 (ka ++ last0) 0)).2 = [("s1", .suback 3 [0])] := by
  decide +kernel
example : (step demoAuth (run demoAuth {} demo) "s1" (.subscribe 4 (ma ++ last2) 0)).2 = [("s1", .suback 4 [0])] := by
  decide +kernel
/-- without load permission `replay_history_exact` gives the empty replay -/
example : Spec.replay 0 (Spec.runStore demoAuth (Spec.initStore {}) demo).log ⟨7, 0x2e⟩
      (parseChannel (fixTopic (ma ++ last2))).query (parseChannel (fixTopic (ma ++ last2))).last
      (parseChannel (fixTopic (ma ++ last2))).window = [] :=
  (replay_history_exact demoAuth {} ⟨rfl, rfl⟩ (by intro m hm; cases hm) demo (by decide +kernel) 0 "s1" 4
    (ma ++ last2) 0 ⟨7, 0x2e⟩ (by decide +kernel) (by decide +kernel) (by decide +kernel)).2.1 (by decide +kernel)
/-- the ended client p1 is not served (the hypothesis `isOpen` is not vacuous) -/
example : (Spec.runStore demoAuth (Spec.initStore {}) demo).isOpen "p1" = false := by decide +kernel
example : (step demoAuth (run demoAuth {} demo) "p1" (.subscribe 1 (ka ++ last2) 0)).2 = [] := by decide +kernel

/-- `unstored_never_replayed` applies to the plain publish "x" (no retain, no ttl option) … -/
example : Spec.runStore demoAuth (Spec.initStore {}) demo =
    Spec.runStore demoAuth (Spec.initStore {}) (demo₁ ++ demoNoStore :: demo₂) :=
  (unstored_never_replayed demoAuth {} ⟨rfl, rfl⟩ (by intro m hm; cases hm) demo₁ "p1" 0 false 0 ka [120]
    (demoNoStore :: demo₂) (by decide +kernel)
    (by intro i hi
        have h0 : (Spec.runStore demoAuth (Spec.initStore {}) demo₁).client? "p1" =
            some { will := some ⟨false, ka ++ ttl30, [98, 121, 101]⟩ } := by decide +kernel
        rw [h0] at hi; cases hi
        exact Or.inl ⟨rfl, fun t ht => by
          have h1 : (parseChannel (Spec.Client.resolve { will := some ⟨false, ka ++ ttl30, [98, 121, 101]⟩ } ka)).ttl = none := by
            decide +kernel
          rw [h1] at ht; cases ht⟩)).1
/-- … and to the publish with the retain flag by the key `n` that has no store permission -/
example : Spec.runStore demoAuth (Spec.initStore {}) ((demo₁ ++ [demoPlain]) ++ demoNoStore :: demo₂) =
    Spec.runStore demoAuth (Spec.initStore {}) ((demo₁ ++ [demoPlain]) ++ demo₂) :=
  (unstored_never_replayed demoAuth {} ⟨rfl, rfl⟩ (by intro m hm; cases hm) (demo₁ ++ [demoPlain]) "p2" 1 true 7 na
    [110, 115] demo₂ (by decide +kernel)
    (by intro i hi
        have h0 : (Spec.runStore demoAuth (Spec.initStore {}) (demo₁ ++ [demoPlain])).client? "p2" = some {} := by
          decide +kernel
        rw [h0] at hi; cases hi
        exact Or.inr (fun g hg => by
          have h1 : demoAuth (Spec.runStore demoAuth (Spec.initStore {}) (demo₁ ++ [demoPlain])).banned
              (parseChannel (Spec.Client.resolve {} na)) permWrite = some ⟨7, 0x36⟩ := by decide +kernel
          rw [h1] at hg; cases hg; decide +kernel))).1
/-- … while the same message published with the storing key IS replayed (the distinction is real) -/
example : Spec.replayFor demoAuth 0
    (Spec.runStore demoAuth (Spec.initStore {}) (demo ++ [.req "p2" (.publish 1 true 7 ka [110, 115])])) ka =
    [⟨7, la, [97, 47], [110, 115], 2592000, 4⟩] := by decide +kernel

/-- MODEL LIMIT (time): a window that excludes the present — `k/a/?until=1600000000` seen from
`now = 1700000000` — is outside `replay_history_exact` (`hwin` fails): the specification replays
nothing, the clock-less model still replays the last message. -/
example : Spec.inWindow 1700000000 (parseChannel (fixTopic (ka ++ [63, 117, 110, 116, 105, 108, 61, 49, 54, 48, 48, 48, 48, 48, 48, 48, 48]))).window = false := by
  decide +kernel
example : Spec.replayFor demoAuth 1700000000 (Spec.runStore demoAuth (Spec.initStore {}) demo)
    (ka ++ [63, 117, 110, 116, 105, 108, 61, 49, 54, 48, 48, 48, 48, 48, 48, 48, 48]) = [] := by decide +kernel
example : (step demoAuth (run demoAuth {} demo) "s1"
    (.subscribe 1 (ka ++ [63, 117, 110, 116, 105, 108, 61, 49, 54, 48, 48, 48, 48, 48, 48, 48, 48]) 0)).2 =
    [("s1", .pub [97, 47] [98, 121, 101]), ("s1", .suback 1 [0])] := by decide +kernel

end Emitter.C07
