import Emitter.Model.Broker
namespace Emitter.C07
theorem placeholder : True := trivial
end Emitter.C07
