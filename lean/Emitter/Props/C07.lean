/-
  C07 — Messages are retained and replayed exactly as requested (broker model; any authorizer).
-/
import Emitter.Lemmas.Broker
namespace Emitter.C07
open Emitter Emitter.Trie Emitter.Security Emitter.Broker

theorem ttl_positive_iff (retain : Bool) (ch : Channel) :
    ttlOf retain ch > 0 ↔ retain = true ∨ ∃ t, ch.ttl = some t ∧ t > 0 := Broker.ttlOf_pos_iff retain ch

/-- A published message is written to history iff it carries a positive ttl option or the
retain flag and its key has the store permission; once; under the publisher's contract and
channel; with the requested ttl (retain = the configured retention). -/
theorem stored_iff (auth : Auth) (b : B) (name : String) (c : Conn) (qos : UInt8) (retain : Bool)
    (mid : UInt16) (topic payload : Bytes) (g : Grant)
    (hc : b.conn? name = some c) (ha : c.alive = true)
    (hs : (parseChannel (resolve c topic)).ctype = chStatic)
    (hauth : auth b.banned (parseChannel (resolve c topic)) permWrite = some g) (hx : g.has permExtend = false) :
    let ch := parseChannel (resolve c topic)
    let ttl := ttlOf retain ch
    (step auth b name (.publish qos retain mid topic payload)).1.store =
      if ttl > 0 ∧ g.has permStore = true then
        b.store ++ [⟨g.contract :: ch.query, ch.channel, payload, if ttl = Generated.msgRetainedTTL then b.retain else ttl⟩]
      else b.store :=
  Broker.store_iff auth b name c qos retain mid topic payload g hc ha hs hauth hx

/-- An accepted subscription with load permission is sent the last N stored matching messages
before its SUBACK (N from `last`, 1 by default, 0 for none); a client without it is sent none. -/
theorem replay_exact (auth : Auth) (b : B) (name : String) (c : Conn) (mid : UInt16) (topic : Bytes) (qos : UInt8)
    (g : Grant) (hc : b.conn? name = some c) (ha : c.alive = true)
    (hv : (parseChannel (fixTopic topic)).ctype ≠ chInvalid)
    (hauth : auth b.banned (parseChannel (fixTopic topic)) permRead = some g) (hx : g.has permExtend = false) :
    let ch := parseChannel (fixTopic topic)
    let ssid := g.contract :: ch.query
    let limit : Nat := match ch.last with | some v => v.toNat | none => 1
    let r := step auth b name (.subscribe mid topic qos)
    r.1.store = b.store ∧
    (r.2.filter (fun e => e.1 == name && (match e.2 with | .json _ _ => false | _ => true))) =
      (if g.has permLoad then (queryStore b ssid limit).map (fun m => (name, Pkt.pub m.channel m.payload)) else [])
        ++ [(name, .suback mid [qos])] :=
  Broker.replay_exact auth b name c mid topic qos g hc ha hv hauth hx

/-- "the last N": the N most recently stored messages among those whose ssid has the filter as
a prefix (contract and first level literal, deeper levels possibly wildcards) -/
theorem last_n (b : B) (ssid : Path) (limit : Nat) :
    queryStore b ssid limit = ((b.store.filter (fun m => ssidMatches ssid m.ssid)).reverse.take limit).reverse :=
  Broker.queryStore_spec b ssid limit

/-- last wills are stored under the same rule (they go through `ttlOf` and the store permission) -/
theorem will_fires_iff (auth : Auth) (b : B) (c : Conn) :
    (∃ g, c.hasConnect = true ∧ c.willFlag = true ∧ (parseChannel c.willTopic).ctype = chStatic ∧
        auth b.banned (parseChannel c.willTopic) permWrite = some g ∧ g.has permExtend = false ∧
        (lastWill auth b c).2 = deliver (lastWill auth b c).1 (g.contract :: (parseChannel c.willTopic).query) none
                                  (.pub (parseChannel c.willTopic).channel c.willMessage)) ∨
    ((¬ ∃ g, c.hasConnect = true ∧ c.willFlag = true ∧ (parseChannel c.willTopic).ctype = chStatic ∧
        auth b.banned (parseChannel c.willTopic) permWrite = some g ∧ g.has permExtend = false) ∧
      lastWill auth b c = (b, [])) := Broker.will_fires_iff auth b c

end Emitter.C07
