/-
  C06 — History queries return exactly the stored, live, matching messages.
  Property-level statements; proofs are in Emitter/Lemmas/Storage.lean.

  Vocabulary.  `runPuts retain ps` is the store after the history `ps` of `Store` calls (ids made
  by `NewID`); `queryWith r ssid from until start limit now s` is `Storage.Query` on store `s` when
  the clock reads `now` (`r = false`: the pinned continuation code, `r = true`: after
  notes/patches/C06-continuation-skip.patch; `Storage.query` is the one selected by
  `continuationRepaired`).  `mkQuery` is the `lookupQuery` it builds (a zero `until` means no upper
  end).  `Spec.answer` is the specification: filter the store (key order = most recent first) by
  `Spec.wanted` — same contract, filter a level-wise wildcard prefix of the channel, time in the
  window, not expired, strictly behind the continuation id — take the first `limit`, cut before the
  first message that would push the reply past the size cap (`Spec.firstFitting`).
-/
import Emitter.Lemmas.Storage
import Emitter.Props.Tie.Id
namespace Emitter.C06
open Emitter Emitter.Message Emitter.Storage

/-! ## regenerated facts -/
theorem fact_consts :
    replyCap = 65536 ∧ maxTime = 3029529600 ∧ fixed = 16 ∧ timeOffset = 1514764800 ∧
    wildcard = 1815237614 ∧ multiWildcard = 4285801373 ∧ retainedTTL = 4294967295 ∧
    maxTime < timeOffset + 4294967296 := by decide

/-! ## the store -/

/-- after every history of stores the entries are in strictly increasing key order (one entry
per id) and every key is a `NewID` id carrying its message -/
theorem store_invariant (retain : UInt32) (ps : List Put) :
    StrictSorted (runPuts retain ps) ∧ ∀ e ∈ runPuts retain ps, WF e := runPuts_inv retain ps

/-- nothing is in the store that was not put there: every entry is the entry of a put of the
history (its id, channel, payload, ttl with the retained marker resolved, expiry = time + ttl) -/
theorem store_contents (retain : UInt32) (ps : List Put) (e : Entry) (h : e ∈ runPuts retain ps) :
    ∃ p ∈ ps, ∃ id, newId p.ssid p.unix p.seq p.uniq = .ok id ∧ e = p.entry retain id :=
  (mem_foldl_puts retain ps [] e h).resolve_left (by simp)

/-- L2: entries earlier in key order have a smaller prefix word, or the same prefix and a
time at least as recent: byte order of ids = (prefix, time descending, …) -/
theorem key_order (a b : Bytes) (ha : 8 ≤ a.length) (hb : 8 ≤ b.length) (h : bytesLt a b = true) :
    (word a 0).toNat < (word b 0).toNat ∨ (word a 0 = word b 0 ∧ idTime b ≤ idTime a) :=
  le8_of_bytesLt a b ha hb h

/-! ## exactness -/

/-- **query_exact.** For every history of stores, every clock reading and every query whose
first channel level is literal (`Query.ok`: ssid of at least two words, limit ≥ 0, window end
inside the 32-bit id time range), with no continuation id or one that has this query's key prefix
— as every id returned by an earlier page has — and, for the pinned code, is still live
(`StartOk`): the answer is exactly the specification's, ordered by non-decreasing time. Holds for
contracts and channels that collide in the 32-bit key prefix, any number of messages per second,
any ttl, any limit, both providers (same code). -/
theorem query_exact (r : Bool) (retain : UInt32) (ps : List Put) (ssid : Ssid) (f u : Int) (start : Bytes)
    (limit now : Int) (hq : (mkQuery ssid f u start limit).ok)
    (hst : StartOk r (mkQuery ssid f u start limit) now (runPuts retain ps)) :
    queryWith r ssid f u start limit now (runPuts retain ps) =
      .ok (sortByTime (Spec.answer (ask (mkQuery ssid f u start limit)) now (runPuts retain ps))) :=
  query_exact' r retain ps ssid f u start limit now hq hst

/-- the specification's answer is a prefix of the wanted entries (most recent first), at most
`limit` long and within the size cap … -/
theorem answer_shape (limit : Nat) (l : List Entry) :
    Spec.firstFitting limit replyCap 0 0 l <+: l ∧
    (Spec.firstFitting limit replyCap 0 0 l).length ≤ limit ∧
    bytesOf (Spec.firstFitting limit replyCap 0 0 l) ≤ replyCap := Storage.answer_shape limit l

/-- … and when the `limit` most recent wanted entries fit the cap it is exactly those -/
theorem answer_last_n (limit : Nat) (l : List Entry) (h : bytesOf (l.take limit) ≤ replyCap) :
    Spec.firstFitting limit replyCap 0 0 l = l.take limit :=
  firstFitting_take limit replyCap l 0 0 (by simpa using h)

/-- the sort is a permutation ordered by non-decreasing time -/
theorem sort_perm (l : List Msg) : (sortByTime l).Perm l ∧
    (sortByTime l).Pairwise (fun a b => idTime a.id ≤ idTime b.id) :=
  ⟨sortByTime_perm l, sortByTime_sorted l⟩

/-! ## soundness and tenant isolation (no side conditions on window, wildcards or continuation id) -/

/-- every returned message is the message of a stored entry, is not expired, lies under the
filter level by level and inside the window -/
theorem query_sound (r : Bool) (retain : UInt32) (ps : List Put) (ssid : Ssid) (f u : Int) (start : Bytes)
    (limit now : Int) (out : List Msg)
    (h : queryWith r ssid f u start limit now (runPuts retain ps) = .ok out) :
    ∀ m ∈ out, ∃ e ∈ runPuts retain ps, e.msg = m ∧ m.id = e.key ∧ live now e = true ∧
      levelsMatch ssid (idSsid m.id) = true ∧ f ≤ idTime m.id ∧ idTime m.id ≤ (window f u).2 :=
  query_sound' r retain ps ssid f u start limit now out h

/-- **isolation.** Every returned message belongs to the querying contract — for every pair of
contracts and channels, including those whose `contract ⊕ first level` prefixes are equal —
unless the contract id *and* the first level are both wildcard hashes. -/
theorem isolation (r : Bool) (retain : UInt32) (ps : List Put) (ssid : Ssid) (f u : Int) (start : Bytes)
    (limit now : Int) (h2 : 2 ≤ ssid.length)
    (hwild : ¬ (isWild (ssid.getD 0 0) = true ∧ isWild (ssid.getD 1 0) = true)) (out : List Msg)
    (h : queryWith r ssid f u start limit now (runPuts retain ps) = .ok out) :
    ∀ m ∈ out, idContract m.id = ssid.getD 0 0 :=
  isolation' r retain ps ssid f u start limit now h2 hwild out h

/-- the full statement (no exception for wildcard contract ids) … -/
def IsolationFull : Prop :=
  ∀ (retain : UInt32) (ps : List Put) (ssid : Ssid) (f u : Int) (start : Bytes) (limit now : Int) (out : List Msg),
    2 ≤ ssid.length → lookupWith false (mkQuery ssid f u start limit) now (runPuts retain ps) = .ok out →
    ∀ m ∈ out, idContract m.id = ssid.getD 0 0

/-- … is false of the code (recorded finding C06.wildcard-contract-id): a contract whose id is
the hash of `+`, asking with a first-level wildcard, is handed a message of contract 7 -/
theorem isolation_refuted : ¬ IsolationFull := by
  intro h
  have := h 60 [⟨[7, 7, 5], 1600000000, 1, 9, [], [], 1000⟩] [wildcard, wildcard] 0 0 [] 10 1600000001 _
    (by decide) rfl
  revert this
  decide

/-! ## continuation -/

/-- every message of a continuation page is strictly behind the continuation id in key order
(both code variants, any id) … -/
theorem continuation_after (r : Bool) (retain : UInt32) (ps : List Put) (ssid : Ssid) (f u : Int) (start : Bytes)
    (limit now : Int) (hne : start ≠ []) (out : List Msg)
    (h : queryWith r ssid f u start limit now (runPuts retain ps) = .ok out) :
    ∀ m ∈ out, bytesLt start m.id = true :=
  continuation_after' r retain ps ssid f u start limit now hne out h

/-- … hence a page continued from the last id of an earlier page (or any id not before its
messages) shares no message with it — whatever was stored or expired in between -/
theorem pages_disjoint (r : Bool) (retain : UInt32) (ps ps' : List Put) (ssid ssid' : Ssid) (f u f' u' : Int)
    (start x : Bytes) (limit limit' now now' : Int) (page₁ page₂ : List Msg) (hne : x ≠ [])
    (_h₁ : queryWith r ssid f u start limit now (runPuts retain ps) = .ok page₁)
    (hx : ∀ m ∈ page₁, bytesLt x m.id = false)
    (h₂ : queryWith r ssid' f' u' x limit' now' (runPuts retain (ps ++ ps')) = .ok page₂) :
    ∀ m₁ ∈ page₁, ∀ m₂ ∈ page₂, m₁.id ≠ m₂.id := by
  intro m₁ h₁ m₂ hm₂ he
  have := continuation_after r retain (ps ++ ps') ssid' f' u' x limit' now' hne page₂ h₂ m₂ hm₂
  rw [← he, hx m₁ h₁] at this
  exact absurd this (by simp)

/-- exactness of continuation pages is `query_exact` with `StartOk`: for the pinned code the
continuation id must still be live. The statement without that proviso … -/
def ContinuationExactFull (r : Bool) : Prop :=
  ∀ (retain : UInt32) (ps : List Put) (ssid : Ssid) (f u : Int) (start : Bytes) (limit now : Int),
    (mkQuery ssid f u start limit).ok → 8 ≤ start.length → word start 0 = ssid.getD 0 0 ^^^ ssid.getD 1 0 →
    lookupWith r (mkQuery ssid f u start limit) now (runPuts retain ps) =
      .ok (Spec.answer (ask (mkQuery ssid f u start limit)) now (runPuts retain ps))

/-- … holds for the repaired code … -/
theorem continuation_exact_repaired : ContinuationExactFull true := by
  intro retain ps ssid f u start limit now hq h8 hp
  exact lookupWith_exact true _ now _ (runPuts_inv retain ps) hq (Or.inr ⟨h8, hp, Or.inl rfl⟩)

/-- … and is false of the pinned code (recorded finding C06.continuation-start-not-live): when
the continuation id has expired the step behind the seek position skips a live message -/
theorem continuation_exact_refuted : ¬ ContinuationExactFull false := by
  intro h
  have := h 60 [⟨[1, 2], 1600000010, 1, 7, [], [], 1⟩, ⟨[1, 2], 1600000009, 2, 7, [], [], 1000⟩] [1, 2] 0 0
    [0, 0, 0, 3, 0xfa, 0xeb, 0x69, 0xf5, 0xff, 0xff, 0xff, 0xfe, 0, 0, 0, 7, 0, 0, 0, 1, 0, 0, 0, 2] 10 1600000100
    (by decide) (by decide) (by decide)
  revert this
  decide

/-! ## limits and order -/

theorem limit_zero (r : Bool) (retain : UInt32) (ps : List Put) (ssid : Ssid) (f u : Int) (start : Bytes)
    (now : Int) (out : List Msg) (h : queryWith r ssid f u start 0 now (runPuts retain ps) = .ok out) :
    out = [] := by
  have := limit_bound' r retain ps ssid f u start 0 now out h
  cases out with
  | nil => rfl
  | cons a t => simp at this; omega

/-- never more than `limit` messages, whatever the limit (the allocation sized by `limit` is C09) -/
theorem limit_bound (r : Bool) (retain : UInt32) (ps : List Put) (ssid : Ssid) (f u : Int) (start : Bytes)
    (limit now : Int) (out : List Msg)
    (h : queryWith r ssid f u start limit now (runPuts retain ps) = .ok out) : (out.length : Int) ≤ limit :=
  limit_bound' r retain ps ssid f u start limit now out h

/-- the answer is ordered by non-decreasing time -/
theorem query_ordered (r : Bool) (retain : UInt32) (ps : List Put) (ssid : Ssid) (f u : Int) (start : Bytes)
    (limit now : Int) (out : List Msg)
    (h : queryWith r ssid f u start limit now (runPuts retain ps) = .ok out) :
    out.Pairwise (fun a b => idTime a.id ≤ idTime b.id) :=
  query_ordered' r retain ps ssid f u start limit now out h

/-- `Frame.Limit(n)` (the merge step for answers gathered from the cluster): the last `n` of the
frame sorted by non-decreasing time -/
theorem frame_limit (n : Int) (f : List Msg) (hn : 0 ≤ n) :
    ∃ r, frameLimit n f = .ok r ∧ r <:+ sortByTime f ∧ r.length = min n.toNat f.length ∧
      r.Pairwise (fun a b => idTime a.id ≤ idTime b.id) := frameLimit_spec n f hn

/-! ## non-vacuity -/

/-- two contracts whose channels collide in the key prefix (1⊕6 = 2⊕5), three messages in one
second, one expired: the query of contract 1 gets its two live messages, the later one first -/
example :
    (Spec.answer (ask (mkQuery [1, 6] 0 0 [] 10)) 1600000005
      (runPuts 60 [⟨[1, 6], 1600000000, 1, 9, [97], [1], 1000⟩, ⟨[2, 5], 1600000000, 2, 9, [98], [2], 1000⟩,
                   ⟨[1, 6, 8], 1600000000, 3, 9, [99], [3], 1000⟩, ⟨[1, 6], 1600000000, 4, 9, [100], [4], 2⟩])).map
      (·.payload) = [[3], [1]] := by decide

example : (mkQuery [1, 6] 0 0 [] 10).ok := by decide
example : StartOk false (mkQuery [1, 6] 0 0 [] 10) 0 [] := Or.inl rfl

end Emitter.C06
