/-
  C03 — Channel keys authorize exactly what they were issued for.
  Property-level statements; proofs are in Emitter/Lemmas/Security.lean.
-/
import Emitter.Lemmas.Security
import Emitter.Props.Tie.Key
namespace Emitter.C03
open Emitter Emitter.Security Emitter.Spec

/-! ## regenerated facts: the permission bits -/
theorem fact_permissions :
    [permMaster, permRead, permWrite, permStore, permLoad, permPresence, permExtend, permExecute]
      = [1, 2, 4, 8, 16, 32, 64, 128] ∧ Generated.secAllowAll = 254 := by decide

/-- An operation is permitted if and only if the presented key decrypts under the broker's
license, is not banned, has not expired, belongs to the allowed contract with the same
signature and master id, carries the permission the operation needs, and its target
validates the channel. -/
theorem authorize_iff (e : Env) (ch : Channel) (perm : UInt8) (k : Key) :
    authorize e ch perm = some k ↔
      ch.ctype ≠ chInvalid ∧ e.banned.contains ch.key = false ∧ e.decrypt ch.key = some k ∧
      k.isExpired e.now = false ∧ e.contractOk k = true ∧ k.hasPermission perm = true ∧
      k.validateChannel ch = true := Security.authorize_iff e ch perm k

/-- A key of one contract is never accepted for another. -/
theorem contract_isolation (e : Env) (ch : Channel) (perm : UInt8) (k : Key)
    (hd : e.decrypt ch.key = some k)
    (hm : k.contract ≠ e.contractId ∨ k.signature ≠ e.signature ∨ k.master ≠ e.masterId) :
    authorize e ch perm = none := Security.contract_isolation e ch perm k hd hm

theorem banned_refused (e : Env) (ch : Channel) (perm : UInt8) (h : e.banned.contains ch.key = true) :
    authorize e ch perm = none := Security.banned_refused e ch perm h
theorem expired_refused (e : Env) (ch : Channel) (perm : UInt8) (k : Key)
    (hd : e.decrypt ch.key = some k) (h : k.isExpired e.now = true) : authorize e ch perm = none :=
  Security.expired_refused e ch perm k hd h
theorem permission_required (e : Env) (ch : Channel) (perm : UInt8) (k : Key)
    (hd : e.decrypt ch.key = some k) (h : k.hasPermission perm = false) : authorize e ch perm = none :=
  Security.permission_required e ch perm k hd h
theorem undecryptable_refused (e : Env) (ch : Channel) (perm : UInt8) (h : e.decrypt ch.key = none) :
    authorize e ch perm = none := Security.undecryptable_refused e ch perm h

/-- The target validates the channel exactly when it covers it: equal levels where the target
has literals, any level where it has '+', the same depth for exact targets and at least that
depth for '#/' targets, wildcard levels of the request accepted only where the target is
wildcard or beyond its depth — on every target the key format can express (last level before
an optional '#' literal, or an exact all-'+' target), the compared 32-bit hashes not colliding.
The targets excluded by `hsup` are the recorded findings C03.target-trailing-plus and
C03.target-plus-hash (under-permission).
Two further hypotheses are needed (added when the proof was done):
`hrh` — the last level of the request is not itself "#": the code cannot tell such a level from
the trailing wildcard marker, and without it the statement is false (exact target `+/`, request
levels `["#"]` with `rw = false`: refused by the code, covered by the spec);
`hcolp` — for an exact target made of '+' levels only, no literal bit is set, the code takes the
request's own depth as `maxDepth`, and the depth check is left to comparing the hash of
"+/+/…/+" (request depth) with the target hash; `hcol` speaks only of strings of the target's
depth, so that one further pair is assumed not to collide. -/
theorem validate_covers (k : Key) (tp : List Bytes) (tw : Bool) (rp : List Bytes) (rw : Bool) (ch : Channel)
    (hpath : k.targetPath = pathOf tp tw) (hhash : k.target = Hash.hashOf (joinSlash tp))
    (hch : ch.channel = chanOf rp rw)
    (htw : ∀ p ∈ tp, levelWf p) (hrw : ∀ p ∈ rp, levelWf p) (hrne : rp ≠ [])
    (hlen : tp.length ≤ 23) (hnh : hashSym ∉ tp)
    (hsup : tp ≠ [] ∧ (tp.getLast? ≠ some plus ∨ (tw = false ∧ ∀ p ∈ tp, p = plus)))
    (hcol : ∀ m : List Bytes, (∀ p ∈ m, sep ∉ p) → m.length = tp.length →
              Hash.hashOf (joinSlash m) = Hash.hashOf (joinSlash tp) → joinSlash m = joinSlash tp)
    (hrh : rp.getLast? ≠ some hashSym)
    (hcolp : (tw = false ∧ ∀ p ∈ tp, p = plus) →
              Hash.hashOf (joinSlash (List.replicate rp.length plus)) = Hash.hashOf (joinSlash tp) →
              rp.length = tp.length) :
    k.validateChannel ch = coversParts tp tw rp rw :=
  Security.validate_covers k tp tw rp rw ch hpath hhash hch htw hrw hrne hlen hnh hsup hcol hrh hcolp

/-- The same with non-collision hypotheses that mention only the ONE pair of strings the code
hashes and compares for this request (the masked request cut to the target's depth against the
target) — hypotheses a concrete request can actually satisfy; `validate_covers` above asks for
non-collision against every string of the target's depth, which no 32-bit hash provides. -/
theorem validate_covers_exact (k : Key) (tp : List Bytes) (tw : Bool) (rp : List Bytes) (rw : Bool) (ch : Channel)
    (hpath : k.targetPath = pathOf tp tw) (hhash : k.target = Hash.hashOf (joinSlash tp))
    (hch : ch.channel = chanOf rp rw)
    (htw : ∀ p ∈ tp, levelWf p) (hrw : ∀ p ∈ rp, levelWf p) (hrne : rp ≠ [])
    (hlen : tp.length ≤ 23) (hnh : hashSym ∉ tp)
    (hsup : tp ≠ [] ∧ (tp.getLast? ≠ some plus ∨ (tw = false ∧ ∀ p ∈ tp, p = plus)))
    (hcol : ∀ m : List Bytes, maskParts (pathOf tp tw) rp 0 = some m →
              (∀ p ∈ m.take tp.length, sep ∉ p) → (m.take tp.length).length = tp.length →
              Hash.hashOf (joinSlash (m.take tp.length)) = Hash.hashOf (joinSlash tp) →
              joinSlash (m.take tp.length) = joinSlash tp)
    (hrh : rw = false → rp.getLast? ≠ some hashSym)
    (hcolp : (tw = false ∧ ∀ p ∈ tp, p = plus) →
              Hash.hashOf (joinSlash (List.replicate rp.length plus)) = Hash.hashOf (joinSlash tp) →
              rp.length = tp.length) :
    k.validateChannel ch = coversParts tp tw rp rw :=
  Security.validate_covers_gen k tp tw rp rw ch hpath hhash hch htw hrw hrne hlen hnh hsup hcol hrh hcolp

/-- non-vacuity of `validate_covers_exact`: a concrete key, target a/+/b/#/ and request a/x/b/c/
meet every hypothesis (the hash hypotheses by evaluation: the compared strings are equal) -/
example : ∃ k, Key.setTarget (List.replicate 24 0) [97, 47, 43, 47, 98, 47, 35, 47] = .ok k ∧
    k.validateChannel (parseChannel [107, 47, 97, 47, 120, 47, 98, 47, 99, 47]) = true ∧
    covers [97, 47, 43, 47, 98, 47, 35, 47] [97, 47, 120, 47, 98, 47, 99, 47] = true := by
  refine ⟨_, rfl, ?_, ?_⟩ <;> decide

/-- `SetTarget` writes exactly the fields `validate_covers` reads (so the two compose for
every key produced by key generation). -/
theorem setTarget_fields (k : Key) (hk : k.length = 24) (tp : List Bytes) (tw : Bool)
    (hwf : ∀ p ∈ tp, levelWf p) (hne : tp ≠ [] ∨ tw = true) (hlen : tp.length ≤ 23) (hnh : hashSym ∉ tp) :
    ∃ k', k.setTarget (chanOf tp tw) = .ok k' ∧ k'.targetPath = pathOf tp tw ∧
      k'.target = Hash.hashOf (joinSlash tp) ∧ k'.length = 24 ∧
      (∀ i, i < 12 ∨ i = 15 ∨ 20 ≤ i → k'.b i = k.b i) := Security.setTarget_fields k hk tp tw hwf hne hlen hnh

/-- the "#/" key covers everything -/
theorem hash_target_covers_all (k : Key) (hp : k.targetPath = 0) (ht : k.target = 1325880984) (ch : Channel)
    (hc : ch.channel ≠ []) : k.validateChannel ch = true := Security.validate_hash_all k hp ht ch hc

/-- the excluded targets really are mis-handled by the code (finding C03.target-trailing-plus):
a key for a/+/ does not validate a/b/ -/
theorem trailing_plus_refuted :
    ∃ k, Key.setTarget (List.replicate 24 0) [97, 47, 43, 47] = .ok k ∧
      k.validateChannel (parseChannel [107, 47, 97, 47, 98, 47]) = false ∧ covers [97, 47, 43, 47] [97, 47, 98, 47] = true := by
  refine ⟨_, rfl, ?_, ?_⟩ <;> decide

/-! non-vacuity -/
example : covers [97, 47, 43, 47, 35, 47] [97, 47, 98, 47, 99, 47] = true := by decide
example : covers [97, 47] [97, 47, 35, 47] = false := by decide

end Emitter.C03
