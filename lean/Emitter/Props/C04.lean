import Emitter.Model.Lww
namespace Emitter.C04
theorem placeholder : True := trivial
end Emitter.C04
