/-
  C04 — Replicated cluster state converges regardless of delivery order.
  Property-level statements; proofs are in Emitter/Lemmas/Lww.lean.
-/
import Emitter.Lemmas.Lww
namespace Emitter.C04
open Emitter Emitter.Lww

/-- `Merge` is the pointwise maximum of add and remove times, for every key: absent keys,
ties, zero and negative incoming times (the local replica's times are ≥ 0, an invariant of
every reachable state, see `nonneg_preserved`). -/
theorem merge_is_max (s r : Map) (hs : NonNeg s) (hr : NoDup r) (k : Bytes) :
    tget (merge s r).1 k = tmax (tget s k) (tget r k) := tget_merge s r hs hr k

/-- the invariants the other theorems assume are preserved by every operation -/
theorem nonneg_preserved (s r : Map) (k : Bytes) (now : Int) (p : Bytes) (hs : NonNeg s) :
    NonNeg (merge s r).1 ∧ NonNeg (add s k now p) ∧ NonNeg (del s k now) :=
  ⟨nonneg_merge s r hs, nonneg_add s k now p hs, nonneg_del s k now hs⟩

theorem nodup_preserved (s r : Map) (k : Bytes) (now : Int) (p : Bytes) (hs : NoDup s) :
    NoDup (merge s r).1 ∧ NoDup (add s k now p) ∧ NoDup (del s k now) :=
  ⟨nodup_merge s r hs, nodup_add s k now p hs, nodup_del s k now hs⟩

/-- local operations are merges of one-entry updates (so histories of add / remove at any
replica with arbitrary clock readings are covered by the delivery theorems) -/
theorem local_ops_are_updates (s : Map) (k : Bytes) (now : Int) (p : Bytes) (hs : NonNeg s) :
    Equiv (add s k now p) (merge s [(k, ⟨now, 0, p⟩)]).1 ∧ Equiv (del s k now) (merge s [(k, ⟨0, now, []⟩)]).1 :=
  ⟨add_as_merge s k now p hs, del_as_merge s k now hs⟩

/-- semilattice laws -/
theorem idempotent (s : Map) (hs : NonNeg s) (hd : NoDup s) : Equiv (merge s s).1 s := merge_idem s hs hd
theorem commutative (a b : Map) (ha : NonNeg a) (hb : NonNeg b) (da : NoDup a) (db : NoDup b) :
    Equiv (merge a b).1 (merge b a).1 := merge_comm a b ha hb da db
theorem associative (a b c : Map) (ha : NonNeg a) (hb : NonNeg b) (da : NoDup a) (db : NoDup b) (dc : NoDup c) :
    Equiv (merge (merge a b).1 c).1 (merge a (merge b c).1).1 := merge_assoc a b c ha hb da db dc

/-- Any two replicas that received the same set of updates — in any order, any number of
times, in any grouping — hold the same add and remove times for every key … -/
theorem converge (ds₁ ds₂ : List Map) (h₁ : ∀ u ∈ ds₁, NoDup u) (h₂ : ∀ u ∈ ds₂, NoDup u)
    (hset : ∀ u, u ∈ ds₁ ↔ u ∈ ds₂) : Equiv (deliver [] ds₁) (deliver [] ds₂) :=
  Lww.converge ds₁ ds₂ h₁ h₂ hset

/-- … hence the same answer to "is this event active" -/
theorem converge_active (ds₁ ds₂ : List Map) (h₁ : ∀ u ∈ ds₁, NoDup u) (h₂ : ∀ u ∈ ds₂, NoDup u)
    (hset : ∀ u, u ∈ ds₁ ↔ u ∈ ds₂) (k : Bytes) : has (deliver [] ds₁) k = has (deliver [] ds₂) k :=
  converge_has ds₁ ds₂ h₁ h₂ hset k

/-- n replicas, any schedule of local updates and snapshot exchanges (partitions are simply
schedules without certain pairs): replicas that have transitively absorbed the same updates
agree. -/
theorem schedule_converge (n : Nat) (evs : List NetEv)
    (hu : ∀ e ∈ evs, ∀ r u, e = NetEv.localUpd r u → NoDup u)
    (a b : Map × List Map) (ha : a ∈ (evs.foldl Net.step (Net.init n)).reps)
    (hb : b ∈ (evs.foldl Net.step (Net.init n)).reps) (hsame : ∀ u, u ∈ a.2 ↔ u ∈ b.2) :
    Equiv a.1 b.1 := net_converge n evs hu a b ha hb hsame

/-- An entry is active exactly when it has been added and its latest add is not older than
its latest remove (add bias on ties). -/
theorem active_iff (v : Val) : v.isAdded = true ↔ v.add ≠ 0 ∧ v.add ≥ v.del := isAdded_iff v

theorem active_after_add (s : Map) (k : Bytes) (now : Int) (p : Bytes)
    (h : (get s k).add < now ∧ (get s k).del ≤ now ∧ now ≠ 0) : has (add s k now p) k = true :=
  has_after_add s k now p h
theorem inactive_after_del (s : Map) (k : Bytes) (now : Int) (h : (get s k).add < now) :
    has (del s k now) k = false := not_has_after_del s k now h

/-- the durable backend stores exactly what the volatile one holds, and (with the cache
eviction of the D6 repair) answers `Has` from the stored value -/
theorem durable_same_state (d : Durable) (k : Bytes) (now : Int) (p : Bytes) (r : Map) :
    (d.add k now p).db = add d.db k now p ∧ (d.del k now).db = del d.db k now ∧
    (d.merge r).1.db = (merge d.db r).1 ∧ (d.merge r).2 = (merge d.db r).2 := durable_refines d k now p r
theorem durable_has (d : Durable) (k : Bytes) (h : d.coherent) :
    (d.has k).1 = (get d.db k).isAdded ∧ (d.has k).2.db = d.db := durable_has_truth d k h

/-! non-vacuity: ties and out-of-order times -/
example : tget (merge [([1], ⟨5, 7, []⟩)] [([1], ⟨5, 3, [9]⟩), ([2], ⟨0, 4, []⟩)]).1 [1] = (5, 7) := by decide
example : has (deliver [] [[([1], ⟨5, 0, []⟩)], [([1], ⟨0, 5, []⟩)]]) [1] = true := by decide

end Emitter.C04
