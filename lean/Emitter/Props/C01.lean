/-
  C01 — Published messages reach exactly the matching subscribers.
  Property-level statements; proofs are in Emitter/Lemmas/Trie.lean.
-/
import Emitter.Lemmas.Trie
import Emitter.Model.Hash
namespace Emitter.C01
open Emitter Emitter.Trie

/-! ## regenerated facts: the wildcard / share words are the murmur hashes of "+", "#", "$share" -/
theorem fact_words : wildcard = Hash.hashOf [43] ∧ multiWildcard = Hash.hashOf [35] ∧
    shareWord = Hash.hashOf [36, 115, 104, 97, 114, 101] := by decide

/-! ## the matching relations are the ones the property states -/

/-- emitter mode: the filter is a level-wise prefix of the channel and `+` matches any level -/
theorem matchesE_iff (f q : Path) :
    matchesE f q = true ↔ f.length ≤ q.length ∧ ∀ i (h : i < f.length) (h' : i < q.length),
      f[i] = q[i] ∨ f[i] = wildcard := Trie.matchesE_iff f q

/-- mqtt mode: same depth with `+` matching one level, or a trailing `#` after a matching
prefix with at least one further channel level -/
theorem matchesM_iff (f q : Path) :
    matchesM f q = true ↔
      (f.length = q.length ∧ ∀ i (h : i < f.length) (h' : i < q.length), f[i] = q[i] ∨ f[i] = wildcard) ∨
      (∃ g, f = g ++ [multiWildcard] ∧ g.length < q.length ∧
        ∀ i (h : i < g.length) (h' : i < q.length), g[i] = q[i] ∨ g[i] = wildcard) := Trie.matchesM_iff f q

/-! ## histories -/

/-- After any history of subscriptions and unsubscriptions the index holds exactly the
acknowledged, not yet removed (filter, subscriber) pairs, each once, and counts them. -/
theorem history_refines (ops : List Op) :
    (run ops).root.wf ∧ (∀ e, e ∈ (run ops).root.abs ↔ e ∈ specRun ops) ∧
    (run ops).count = (specRun ops).length ∧ (specRun ops).Nodup := Trie.history_refines ops

/-- A message published to a channel is handed to exactly those subscribers that hold at
least one subscription whose filter matches the channel under the configured matching mode. -/
theorem lookup_exact (ops : List Op) (m : Mode) (q : Path) (s : Sub) :
    s ∈ (run ops).root.lookup m q ↔ ∃ f, (f, s) ∈ specRun ops ∧ matchesMode m f q = true :=
  Trie.history_lookup ops m q s

/-- … plus exactly one member of every share group that has a matching member, whatever the
random choice (any `pick` that returns an element of its non-empty argument). -/
theorem lookup_share (ops : List Op) (m : Mode) (pick : List Sub → Sub) (ssid : Path) (s : Sub) :
    s ∈ lookupAll m pick (run ops).root ssid ↔
      s ∈ (run ops).root.lookup m ssid ∨ ∃ g ∈ shareGroups m (run ops).root ssid, g.2 ≠ [] ∧ s = pick g.2 :=
  lookupAll_spec m pick (run ops).root ssid s

theorem share_candidates (ops : List Op) (m : Mode) (c : Word) (q : Path) (g : Word) (cands : List Sub)
    (hg : (g, cands) ∈ shareGroups m (run ops).root (c :: q)) (s : Sub) :
    s ∈ cands ↔ ∃ f, (c :: shareWord :: g :: f, s) ∈ specRun ops ∧ matchesMode m f q = true := by
  have h := Trie.history_refines ops
  rw [shareGroups_spec m (run ops).root c q h.1 g cands hg s]
  constructor
  · rintro ⟨f, hf, hm⟩; exact ⟨f, (h.2.1 _).1 hf, hm⟩
  · rintro ⟨f, hf, hm⟩; exact ⟨f, (h.2.1 _).2 hf, hm⟩

/-- When every subscription has been removed the subscription index is empty again. -/
theorem index_empty_again (ops : List Op) (h : specRun ops = []) :
    (run ops).root = Node.empty ∧ (run ops).count = 0 ∧ (run ops).root.size = 1 := Trie.history_empty ops h

/-- the one hypothesis the code forces (recorded finding C01.subid-hash-collision): subscribers
are identified by the 32-bit murmur of their id; two different ids can collide -/
theorem subid_collision_exists :
    Hash.hashOf [115, 56, 53, 56, 54, 49] = Hash.hashOf [115, 57, 57, 50, 51, 50] := by decide

/-! non-vacuity -/
example : specRun [.sub [1, 11] 7, .sub [1, wildcard] 8, .unsub [1, 11] 7] = [([1, wildcard], 8)] := by decide
example : (run [.sub [1, 11] 7, .sub [1, wildcard] 8, .unsub [1, 11] 7]).root.lookupE [1, 12, 13] = [8] := by decide

end Emitter.C01
