/-
  Tie theorems for internal/network/mqtt/mqtt.go: the flag-byte arithmetic of the codec as translated by
  tools/go2lean (`Emitter/Generated/GoMqtt.lean`, regenerated on every run) equals what the hand-written model
  (`Model/Mqtt.lean`) computes, for ALL inputs.  The one-byte functions are compared on all 256 bytes by kernel
  evaluation (`Bits.forall_uint8` + `decide`), so any rewriting of the Go expression that keeps its value is accepted
  and any that changes it on some byte is refused.
-/
import Emitter.Lemmas.Bits
import Emitter.Model.Mqtt
import Emitter.Generated.GoMqtt
set_option linter.unusedSimpArgs false
namespace Emitter.Tie.Mqtt
open Emitter Emitter.Mqtt Emitter.Generated.GoMqtt

/-! ## encoding -/

theorem tie_boolToUInt8 (v : Bool) : goBoolToUInt8 v = b2u v := by
  cases v <;> simp [goBoolToUInt8, b2u]

/-- `writeUint16(buf, v)` stores the model's `putBe16 v` (the length prefix of `writeString`) and returns 2 -/
theorem tie_writeUint16 (buf : Bytes) (v : UInt16) (h : 2 ≤ buf.length) :
    goWriteUint16 buf v = (putBe16 v ++ buf.drop 2, 2) := by
  have e := Bits.set2 buf 0 ((v &&& 65280) >>> 8).toUInt8 (v &&& 255).toUInt8 (by omega)
  simp only [goWriteUint16, putBe16, Bits.hi8_16, Bits.lo8_16, Bits.mask_hi_16, Bits.mask_lo_16]
  simp only [Nat.zero_add, List.take_zero, List.nil_append, Bits.mask_hi_16, Bits.mask_lo_16] at e
  rw [e]

theorem tie_writeUint8 (buf : Bytes) (v : UInt8) (h : 1 ≤ buf.length) : goWriteUint8 buf v = (v :: buf.drop 1, 1) := by
  match buf, h with
  | x :: r, _ => simp [goWriteUint8]

/-- first byte of the fixed header written by `writeHeader` (`h = nil` is the model's `noHeader`) -/
theorem tie_writeHeader_firstByte (ty : UInt8) (h : Option Header) :
    goWriteHeader_firstByte ty h.isSome (h.getD noHeader).dup (h.getD noHeader).retain (h.getD noHeader).qos
      = firstByte ty (h.getD noHeader) := by
  cases h <;> simp [goWriteHeader_firstByte, firstByte, tie_boolToUInt8, noHeader, b2u] <;> tie_ac

/-- the connect flags byte composed by `Connect.EncodeTo` -/
theorem tie_EncodeTo_flagByte (c : Connect) :
    goEncodeTo_flagByte c.usernameFlag c.passwordFlag c.willRetain c.willQos c.willFlag c.cleanSession = connectFlags c := by
  simp [goEncodeTo_flagByte, connectFlags, tie_boolToUInt8] <;> tie_ac

/-! ## decoding: one-byte functions, compared on all 256 bytes -/

section
set_option maxRecDepth 16384

theorem tie_decodeHeader_messageType_byte (f : UInt8) : goDecodeHeader_messageType f = (f &&& 0xf0) >>> 4 := by
  simpa using Bits.forall_uint8 (fun f => goDecodeHeader_messageType f == (f &&& 0xf0) >>> 4) (by decide) f
theorem tie_decodeHeader_DUP (f : UInt8) : goDecodeHeader_DUP f = decide ((f &&& 0x08) > 0) := by
  simpa using Bits.forall_uint8 (fun f => goDecodeHeader_DUP f == decide ((f &&& 0x08) > 0)) (by decide) f
theorem tie_decodeHeader_QOS (f : UInt8) : goDecodeHeader_QOS f = (f &&& 0x06) >>> 1 := by
  simpa using Bits.forall_uint8 (fun f => goDecodeHeader_QOS f == (f &&& 0x06) >>> 1) (by decide) f
theorem tie_decodeHeader_retain (f : UInt8) : goDecodeHeader_retain f = decide ((f &&& 0x01) > 0) := by
  simpa using Bits.forall_uint8 (fun f => goDecodeHeader_retain f == decide ((f &&& 0x01) > 0)) (by decide) f
theorem tie_decodeConnect_UsernameFlag (f : UInt8) : goDecodeConnect_UsernameFlag f = decide ((f &&& 0x80) > 0) := by
  simpa using Bits.forall_uint8 (fun f => goDecodeConnect_UsernameFlag f == decide ((f &&& 0x80) > 0)) (by decide) f
theorem tie_decodeConnect_PasswordFlag (f : UInt8) : goDecodeConnect_PasswordFlag f = decide ((f &&& 0x40) > 0) := by
  simpa using Bits.forall_uint8 (fun f => goDecodeConnect_PasswordFlag f == decide ((f &&& 0x40) > 0)) (by decide) f
theorem tie_decodeConnect_WillRetainFlag (f : UInt8) : goDecodeConnect_WillRetainFlag f = decide ((f &&& 0x20) > 0) := by
  simpa using Bits.forall_uint8 (fun f => goDecodeConnect_WillRetainFlag f == decide ((f &&& 0x20) > 0)) (by decide) f
/-- two bits of will QoS (D8) -/
theorem tie_decodeConnect_WillQOS (f : UInt8) : goDecodeConnect_WillQOS f = (f >>> 3) &&& 3 := by
  simpa using Bits.forall_uint8 (fun f => goDecodeConnect_WillQOS f == (f >>> 3) &&& 3) (by decide) f
theorem tie_decodeConnect_WillFlag (f : UInt8) : goDecodeConnect_WillFlag f = decide ((f &&& 0x04) > 0) := by
  simpa using Bits.forall_uint8 (fun f => goDecodeConnect_WillFlag f == decide ((f &&& 0x04) > 0)) (by decide) f
theorem tie_decodeConnect_CleanSeshFlag (f : UInt8) : goDecodeConnect_CleanSeshFlag f = decide ((f &&& 0x02) > 0) := by
  simpa using Bits.forall_uint8 (fun f => goDecodeConnect_CleanSeshFlag f == decide ((f &&& 0x02) > 0)) (by decide) f
end

/-- the header flags `decodeHeader` extracts for PUBLISH / SUBSCRIBE / UNSUBSCRIBE / PUBREL are the model's `headerOf` -/
theorem tie_decodeHeader_flags (ty first : UInt8) :
    headerOf ty first =
      if ty == tyPublish || ty == tySubscribe || ty == tyUnsubscribe || ty == tyPubrel then
        { dup := goDecodeHeader_DUP first, qos := goDecodeHeader_QOS first, retain := goDecodeHeader_retain first }
      else noHeader := by
  simp only [headerOf, tie_decodeHeader_DUP, tie_decodeHeader_QOS, tie_decodeHeader_retain]

/-- `Mqtt.decode` after the first byte, as a function of the message type and the header -/
def decodeTyped (ty : UInt8) (h : Header) (rest : Bytes) (max : Nat) : Outcome (Packet × Bytes) :=
  match decodeLen rest 1 0 with
  | .err e => .err e
  | .panic w => .panic w
  | .ok (len, rest) =>
      if ty == tyPingreq then .ok (.pingreq, rest)
      else if ty == tyPingresp then .ok (.pingresp, rest)
      else if ty == tyDisconnect then .ok (.disconnect, rest)
      else if len.toNat > max then .err "too-large"
      else if rest.length < len.toNat then .err "eof"
      else (decodeBody ty h (rest.take len.toNat)).map (fun p => (p, rest.drop len.toNat))

/-- the model's `decode` dispatches on the message type `decodeHeader` computes from the first byte -/
theorem tie_decodeHeader_messageType (first : UInt8) (rest : Bytes) (max : Nat) :
    decode (first :: rest) max =
      decodeTyped (goDecodeHeader_messageType first) (headerOf (goDecodeHeader_messageType first) first) rest max := by
  simp only [decode, decodeTyped, tie_decodeHeader_messageType_byte]
  cases decodeLen rest 1 0 with
  | ok p => cases p; rfl
  | err e => rfl
  | panic w => rfl

theorem bind_ok {α β} (o : Outcome α) (f : α → Outcome β) (b : β) :
    (o >>= f) = .ok b ↔ ∃ a, o = .ok a ∧ f a = .ok b := by
  cases o <;> simp [bind, Outcome.bind]

/-- every CONNECT packet the model decodes carries the six flag fields `decodeConnect` of the Go code computes from
the flags byte of the data -/
theorem tie_decodeConnect_flags (data : Bytes) (c : Connect) (h : decodeConnect data = .ok (.connect c)) :
    ∃ (pos : Nat) (flags : UInt8), data[pos]? = some flags ∧
      c.usernameFlag = goDecodeConnect_UsernameFlag flags ∧ c.passwordFlag = goDecodeConnect_PasswordFlag flags ∧
      c.willRetain = goDecodeConnect_WillRetainFlag flags ∧ c.willQos = goDecodeConnect_WillQOS flags ∧
      c.willFlag = goDecodeConnect_WillFlag flags ∧ c.cleanSession = goDecodeConnect_CleanSeshFlag flags := by
  unfold decodeConnect at h
  simp only [bind_ok] at h
  obtain ⟨a, _, a1, _, a2, h2, a3, _, a4, _, a5, _, a6, _, a7, _, hc⟩ := h
  simp only [pure, Outcome.ok.injEq, Packet.connect.injEq] at hc
  subst hc
  refine ⟨a1.snd, a2.fst, ?_, ?_⟩
  · unfold readByte at h2
    split at h2
    · simp only [Outcome.ok.injEq] at h2; subst h2; assumption
    · simp at h2
  · simp only [tie_decodeConnect_UsernameFlag, tie_decodeConnect_PasswordFlag, tie_decodeConnect_WillRetainFlag, tie_decodeConnect_WillQOS, tie_decodeConnect_WillFlag, tie_decodeConnect_CleanSeshFlag]
    simp

end Emitter.Tie.Mqtt
