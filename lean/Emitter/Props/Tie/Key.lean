/-
  Tie theorems for internal/security/key.go: every definition of `Emitter/Generated/GoKey.lean` (regenerated
  from the Go source by tools/go2lean on every run) equals the hand-written model of `Model/Security.lean`, for
  ALL inputs.  A change of the Go source changes the generated definition and the theorem about it stops
  compiling (or the translator refuses the function): the check of C03 / C11 / C12 reports the theorem's name.
  The proofs normalise modulo associativity / commutativity of the bitwise operators (`tie_ac`) and, for the setters,
  compare the 24 bytes one by one, so that re-ordering operands or statements and introducing locals is harmless.
-/
import Emitter.Lemmas.Bits
import Emitter.Model.Security
import Emitter.Generated.GoKey
set_option linter.unusedSimpArgs false
namespace Emitter.Tie.Key
open Emitter Emitter.Security Emitter.Generated.GoKey

/-! ## accessors (no hypothesis on the length: an index past the end reads 0 on both sides) -/

theorem tie_Salt (k : Key) : goSalt k = k.salt := by
  simp only [goSalt, Key.salt, Key.b]
  rw [← Bits.or16] <;> tie_ac

theorem tie_Master (k : Key) : goMaster k = k.master := by
  simp only [goMaster, Key.master, Key.b]
  rw [← Bits.or16] <;> tie_ac

theorem tie_Contract (k : Key) : goContract k = k.contract := by
  simp only [goContract, Key.contract, Key.b]
  rw [← Bits.or32] <;> tie_ac

theorem tie_Signature (k : Key) : goSignature k = k.signature := by
  simp only [goSignature, Key.signature, Key.b]
  rw [← Bits.or32] <;> tie_ac

theorem tie_Permissions (k : Key) : goPermissions k = k.permissions := by
  simp only [goPermissions, Key.permissions, Key.b]

/-- the target hash read by `ValidateChannel` -/
theorem tie_ValidateChannel_target (k : Key) : goValidateChannel_target k = k.target := by
  simp only [goValidateChannel_target, Key.target, Key.b]
  rw [← Bits.or32] <;> tie_ac

/-- the 24-bit path read by `ValidateChannel` -/
theorem tie_ValidateChannel_targetPath (k : Key) : (goValidateChannel_targetPath k).toNat = k.targetPath := by
  have h : goValidateChannel_targetPath k = be32 0 (k.b 12) (k.b 13) (k.b 14) := by
    simp only [goValidateChannel_targetPath, Key.b]
    rw [← Bits.or24] <;> tie_ac
  have h12 := (k.b 12).toNat_lt; have h13 := (k.b 13).toNat_lt; have h14 := (k.b 14).toNat_lt
  rw [h]; simp [be32, Key.targetPath]; omega

theorem tie_IsMaster (k : Key) : goIsMaster k = k.isMaster := by
  simp [goIsMaster, Key.isMaster, tie_Permissions, permMaster, Generated.secAllowMaster]

theorem tie_HasPermission (k : Key) (flag : UInt8) : goHasPermission k flag = k.hasPermission flag := by
  simp only [goHasPermission, Key.hasPermission, tie_Permissions] <;> tie_ac

/-- `Expires()` before the conversion to `time.Time`: unix seconds as int64 -/
theorem tie_Expires (k : Key) : (goExpires_expire k).toInt = k.expires := by
  have h : goExpires_expire k = Bits.expireOf k.expireField := by
    simp only [goExpires_expire, Bits.expireOf, Key.expireField, Key.b, ← Bits.or32] <;> tie_ac
  rw [h, Bits.expireOf_toInt]
  simp [Key.expires, keyTimeOffset, Generated.secKeyTimeOffset]

/-! ## setters (the Go methods write into a 24-byte slice) -/

section
variable (k : Key) (h : k.length = 24)
include h

theorem tie_SetSalt (v : UInt16) : goSetSalt k v = k.setAt 0 (putBe16 v) := by
  obtain ⟨a0, a1, a2, a3, a4, a5, a6, a7, a8, a9, a10, a11, a12, a13, a14, a15, a16, a17, a18, a19, a20, a21, a22, a23, rfl⟩ := Bits.list24 k h
  simp [goSetSalt, Key.setAt, putBe16, Bits.hi8_16]

theorem tie_SetMaster (v : UInt16) : goSetMaster k v = k.setAt 2 (putBe16 v) := by
  obtain ⟨a0, a1, a2, a3, a4, a5, a6, a7, a8, a9, a10, a11, a12, a13, a14, a15, a16, a17, a18, a19, a20, a21, a22, a23, rfl⟩ := Bits.list24 k h
  simp [goSetMaster, Key.setAt, putBe16, Bits.hi8_16]

theorem tie_SetContract (v : UInt32) : goSetContract k v = k.setAt 4 (putBe32 v) := by
  obtain ⟨a0, a1, a2, a3, a4, a5, a6, a7, a8, a9, a10, a11, a12, a13, a14, a15, a16, a17, a18, a19, a20, a21, a22, a23, rfl⟩ := Bits.list24 k h
  simp [goSetContract, Key.setAt, putBe32, Bits.b1_32, Bits.b2_32, Bits.b3_32]

theorem tie_SetSignature (v : UInt32) : goSetSignature k v = k.setAt 8 (putBe32 v) := by
  obtain ⟨a0, a1, a2, a3, a4, a5, a6, a7, a8, a9, a10, a11, a12, a13, a14, a15, a16, a17, a18, a19, a20, a21, a22, a23, rfl⟩ := Bits.list24 k h
  simp [goSetSignature, Key.setAt, putBe32, Bits.b1_32, Bits.b2_32, Bits.b3_32]

theorem tie_SetPermissions (v : UInt8) : goSetPermissions k v = k.setPermissions v := by
  obtain ⟨a0, a1, a2, a3, a4, a5, a6, a7, a8, a9, a10, a11, a12, a13, a14, a15, a16, a17, a18, a19, a20, a21, a22, a23, rfl⟩ := Bits.list24 k h
  simp [goSetPermissions, Key.setPermissions, Key.setAt]

/-- `SetPermission(flag, true)` ors the flag in; `SetPermission(flag, false)` is the model's
`k.setPermissions (k.permissions &&& (0xFF ^^^ flag))` (createKey clears `master`, extendKey clears `extend`) -/
theorem tie_SetPermission (flag : UInt8) (value : Bool) :
    goSetPermission k flag value =
      if value then k.setPermissions (k.permissions ||| flag) else k.setPermissions (k.permissions &&& (0xFF ^^^ flag)) := by
  cases value <;>
    simp only [goSetPermission, tie_SetPermissions k h, tie_Permissions, Bits.not_eq_xor, if_true, if_false, Bool.false_eq_true] <;>
    tie_ac

/-- `SetExpires(t)` with `unix = t.Unix()` -/
theorem tie_SetExpires (unix : Int64) : goSetExpires k unix = k.setExpires unix.toInt := by
  have h1 : goSetExpires k unix = k.setAt 20 (putBe32 (Bits.unexpireOf unix).toUInt64.toUInt32) := by
    obtain ⟨a0, a1, a2, a3, a4, a5, a6, a7, a8, a9, a10, a11, a12, a13, a14, a15, a16, a17, a18, a19, a20, a21, a22, a23, rfl⟩ := Bits.list24 k h
    simp [goSetExpires, Bits.unexpireOf, Key.setAt, putBe32, Bits.b1_32, Bits.b2_32, Bits.b3_32, -UInt64.toNat_toUInt32]
  rw [h1, Bits.u32_of_i64, Bits.unexpireOf_toInt]
  simp [Key.setExpires, keyTimeOffset, Generated.secKeyTimeOffset]

/-- the byte stores at the end of `SetTarget`, as a function of the values of its locals `bitPath`, `value`
(`Key.setTarget` of the model ends with exactly this expression, `bitPath` being a natural number below 2^24) -/
theorem tie_SetTarget_stores (bitPath : Nat) (hb : bitPath < 4294967296) (value : UInt32) :
    goSetTarget_stores k (UInt32.ofNat bitPath) value =
      (k.setAt 12 [UInt8.ofNat (bitPath / 65536), UInt8.ofNat (bitPath / 256), UInt8.ofNat bitPath]).setAt 16 (putBe32 value) := by
  obtain ⟨a0, a1, a2, a3, a4, a5, a6, a7, a8, a9, a10, a11, a12, a13, a14, a15, a16, a17, a18, a19, a20, a21, a22, a23, rfl⟩ := Bits.list24 k h
  have e : bitPath = (UInt32.ofNat bitPath).toNat := by simp [UInt32.toNat_ofNat']; omega
  generalize UInt32.ofNat bitPath = bp at e
  subst e
  simp [goSetTarget_stores, Key.setAt, putBe32, Bits.b1_32, Bits.b2_32, Bits.b3_32]
end

end Emitter.Tie.Key
