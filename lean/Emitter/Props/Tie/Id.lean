/-
  Tie theorems for internal/message/id.go: the definitions of `Emitter/Generated/GoId.lean` (regenerated from the
  Go source by tools/go2lean on every run) equal the hand-written model of message ids (`Model/Message.lean`,
  `Model/Storage.lean`) for ALL inputs.  `offset` is a package variable of the Go code (`int64(security.MinTime)`),
  hence a parameter of the translated functions; the theorems assume it has the regenerated value `timeOffset`.
-/
import Emitter.Lemmas.Bits
import Emitter.Model.Storage
import Emitter.Generated.GoId
set_option linter.unusedSimpArgs false
namespace Emitter.Tie.Id
open Emitter Emitter.Message Emitter.Generated.GoId Emitter.Generated.GoPrelude

/-- `binary.BigEndian.Uint32(b[i:i+4])` is the model's `word b i` -/
theorem be_word (b : Bytes) (i : Nat) : beUInt32 b i = word b i := by
  simp only [beUInt32, word]
  rw [← Bits.or32] <;> tie_ac

/-- `binary.BigEndian.PutUint32(b[i:i+4], v)` overwrites four bytes with the model's `putBe32 v` -/
theorem put_word (b : Bytes) (i : Nat) (v : UInt32) (h : i + 4 ≤ b.length) :
    putUInt32 b i v = b.take i ++ putBe32 v ++ b.drop (i + 4) := by
  unfold putUInt32 putBe32
  rw [Bits.set4 b i _ _ _ _ h, Bits.b0_32, Bits.b1_32, Bits.b2_32, Bits.b3_32]

theorem tie_Contract (id : Bytes) : goContract id = idContract id := by
  simp [goContract, idContract, fixed, Generated.msgFixed, be_word]

theorem tie_Time (id : Bytes) (off : Int64) (ho : off.toInt = timeOffset) : (goTime id off).toInt = idTime id := by
  have hw := ((4294967295 : UInt32) - word id 4).toNat_lt
  have e := Bits.toInt_u32 ((4294967295 : UInt32) - word id 4)
  have ho' : off.toInt = 1514764800 := by rw [ho]; rfl
  simp only [goTime, idTime, be_word, maxU32]
  rw [Bits.i64_add _ _ (by rw [ho']; omega) (by rw [ho']; omega), ho, e]

/-- `uint32(t - offset)` is the model's `relTime t` (whatever the int64 subtraction does on overflow) -/
theorem relTime_eq (t off : Int64) (ho : off.toInt = timeOffset) : (t - off).toUInt64.toUInt32 = relTime t.toInt := by
  rw [Bits.u32_of_sub, ho]; rfl

theorem tie_SetTime (id : Bytes) (t off : Int64) (ho : off.toInt = timeOffset) (h : 8 ≤ id.length) :
    goSetTime id t off = id.take 4 ++ putBe32 (maxU32 - relTime t.toInt) ++ id.drop 8 := by
  simp only [goSetTime, relTime_eq t off ho, put_word id 4 _ h]
  rfl

theorem tie_NewPrefix (ssid : Ssid) (t off : Int64) (ho : off.toInt = timeOffset) :
    goNewPrefix ssid t off = newPrefix ssid t.toInt := by
  simp only [goNewPrefix, newPrefix, relTime_eq t off ho]
  rw [put_word _ 0 _ (by simp), put_word _ 4 _ (by simp [putBe32])]
  simp [putBe32, maxU32]

theorem tie_HasPrefix (id : Bytes) (ssid : Ssid) (cutoff off : Int64) (ho : off.toInt = timeOffset) :
    goHasPrefix id ssid cutoff off = Storage.hasPrefix id ssid cutoff.toInt := by
  simp only [goHasPrefix, Storage.hasPrefix, be_word, GE.ge, Int64.le_iff_toInt_le, tie_Time id off ho]

end Emitter.Tie.Id
