/-
  C11 — Derived keys never exceed their parent or the request.
  Statements over the key-generation model (Emitter/Model/Security.lean) and the broker model;
  proofs in Emitter/Lemmas/Keys.lean and Emitter/Lemmas/Broker.lean.
-/
import Emitter.Lemmas.Keys
import Emitter.Lemmas.Broker
import Emitter.Props.Tie.Key
namespace Emitter.C11
open Emitter Emitter.Security Emitter.Broker

/-- Only a valid, unexpired master key of an allowed contract can mint keys. -/
theorem create_requires_master (e : Env) (masterStr channel : Bytes) (access : UInt8) (expires : Int) (salt : UInt16)
    (k : Key) (h : createKey e masterStr channel access expires salt = .ok k) :
    ∃ mk, e.decrypt masterStr = some mk ∧ mk.isMaster = true ∧ mk.isExpired e.now = false ∧ e.contractOk mk = true :=
  createKey_requires_master e masterStr channel access expires salt k h

/-- A created key never has the master permission, never a permission that was not requested;
it keeps the parent's contract, signature and master id and expires as requested. -/
theorem create_fields (e : Env) (masterStr channel : Bytes) (access : UInt8) (expires : Int) (salt : UInt16)
    (k mk : Key) (hd : e.decrypt masterStr = some mk) (hl : mk.length = 24)
    (h : createKey e masterStr channel access expires salt = .ok k) :
    k.permissions = access &&& (0xFF ^^^ permMaster) ∧
    k.hasPermission permMaster = false ∧
    k.permissions &&& access = k.permissions ∧
    k.contract = mk.contract ∧ k.signature = mk.signature ∧ k.master = mk.master ∧
    k.expireField = (Key.setExpires (List.replicate 24 (0 : UInt8)) expires).expireField ∧
    k.length = 24 := createKey_fields e masterStr channel access expires salt k mk hd hl h

/-- It targets exactly the requested channel (C03 `setTarget_fields` / `validate_covers` say what that target covers). -/
theorem create_target (e : Env) (masterStr channel : Bytes) (access : UInt8) (expires : Int) (salt : UInt16)
    (k : Key) (h : createKey e masterStr channel access expires salt = .ok k) :
    ∃ k0, Key.setTarget (List.replicate 24 0) channel = .ok k0 ∧ k.targetPath = k0.targetPath ∧ k.target = k0.target :=
  createKey_target e masterStr channel access expires salt k h

theorem access_never_master (ty : Bytes) : accessOf ty &&& permMaster = 0 := accessOf_no_master ty

/-- Extension needs a parent that authorizes Extend on the channel …

AMENDED: hypothesis `hs : sep ∉ keyStr` added (the key string presented contains no '/'). Without
it the statement is false: `ExtendKey` parses `keyStr ++ "/" ++ channel`, so `keyStr = K ++ "/a"`
(`K` a valid extend key for "#/") with channel "b/" succeeds on the strength of `K` for channel
"a/b/", while `keyStr` itself is no key at all. `Emitter.Security.extendKey_requires_extend_gen`
is the unconditional form (`ch.key` = the part of `keyStr` before its first '/'). -/
theorem extend_requires_extend (e : Env) (keyStr channelName connId : Bytes) (access : UInt8) (expires : Int)
    (k : Key) (target : Bytes) (hs : sep ∉ keyStr)
    (h : extendKey e keyStr channelName connId access expires = .ok (k, target)) :
    ∃ parent ch, ch.ctype = chStatic ∧ authorize e ch permExtend = some parent ∧ ch.key = keyStr :=
  extendKey_requires_extend e keyStr channelName connId access expires k target hs h

/-- … and yields permissions ⊆ parent ∩ request without extend, the same contract, signature
and master id, and the target `channel ++ connection id ++ "/"` (`++ "#/"`). -/
theorem extend_subset (e : Env) (keyStr channelName connId : Bytes) (access : UInt8) (expires : Int)
    (k parent : Key) (target : Bytes) (ch : Channel)
    (hp : authorize e ch permExtend = some parent) (hl : parent.length = 24)
    (hch : ch = parseChannel (keyStr ++ [sep] ++ (if hasSuffix channelName [35, 47] then channelName.take (channelName.length - 2) else channelName)))
    (h : extendKey e keyStr channelName connId access expires = .ok (k, target)) :
    k.permissions = (parent.permissions &&& (0xFF ^^^ permExtend)) &&& access ∧
    k.hasPermission permExtend = false ∧
    k.permissions &&& parent.permissions = k.permissions ∧ k.permissions &&& access = k.permissions ∧
    k.contract = parent.contract ∧ k.signature = parent.signature ∧ k.master = parent.master ∧
    target = ch.channel ++ connId ++ [sep] ++ (if hasSuffix channelName [35, 47] then [35, 47] else []) ∧
    (∃ k0, Key.setTarget (List.replicate 24 0) target = .ok k0 ∧ k.targetPath = k0.targetPath ∧ k.target = k0.target) :=
  extendKey_subset e keyStr channelName connId access expires k parent target ch hp hl hch h

/-- An extendable key cannot itself be used to subscribe, unsubscribe or publish: such a
request changes nothing and is answered with an error (for every authorizer that grants it). -/
theorem extendable_cannot_subscribe (auth : Auth) (b : B) (name : String) (c : Conn) (mid : UInt16) (topic : Bytes) (qos : UInt8)
    (g : Grant) (hc : b.conn? name = some c) (ha : c.alive = true)
    (hg : auth b.banned (parseChannel (fixTopic topic)) permRead = some g) (hx : g.has permExtend = true) :
    ∃ st, step auth b name (.subscribe mid topic qos) = (b, [(name, errPkt mid st), (name, .suback mid [0x80])]) :=
  Broker.reject_subscribe auth b name c mid topic qos hc ha (Or.inr (Or.inr ⟨g, hg, hx⟩))

theorem extendable_cannot_publish (auth : Auth) (b : B) (name : String) (c : Conn) (qos : UInt8) (retain : Bool)
    (mid : UInt16) (topic payload : Bytes) (g : Grant) (hc : b.conn? name = some c) (ha : c.alive = true)
    (hg : auth b.banned (parseChannel (resolve c topic)) permWrite = some g) (hx : g.has permExtend = true) :
    ∃ st, step auth b name (.publish qos retain mid topic payload)
      = (b, [(name, errPkt mid st)] ++ (if qos > 0 then [(name, .puback mid)] else [])) :=
  Broker.reject_publish auth b name c qos retain mid topic payload hc ha (Or.inr (Or.inr ⟨g, hg, hx⟩))

end Emitter.C11
