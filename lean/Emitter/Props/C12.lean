/-
  C12 — A key cannot be altered into a more powerful one.
  Property-level statements only; the proofs are in Emitter/Lemmas/KeyTamper.lean, the model of
  what a decrypted key grants and of `Service.Authorize` in Emitter/Model/KeyTamper.lean.

  STATUS.  "Without knowledge of the license secret" is a computational notion. What is decided here:

  * license v2 / v3 (XOR stream ciphers): the property is FALSE, for every secret, by one fixed
    modification that does not depend on the secret (`stream_not_resistant`, `escalation_write`,
    `stream_universal_key`).  Recorded findings C12.stream-malleable.v2 / .v3.
  * license v1 (XTEA, three independent 8-byte blocks): the property is FALSE for a holder of two
    issued keys with equal salt (`xtea_splice`, `xtea_splice_escalates`; recorded finding
    C12.xtea-block-splice).  For modifications of ONE key the structural facts are proved
    (`xtea_block_roundtrip`, `xtea_decrypt_injective`, `xtea_block2_local`, `xtea_block1_local`,
    `xtea_block2_grants`, `accept_requires_check_bytes`, `decryptKey_injective`).  That a
    secret-independent modification of blocks 0 / 1 hits the 10 check bytes only with negligible
    probability is the pseudo-random-permutation assumption on XTEA and is NOT proved (and cannot
    be stated as a ∀-statement over modifications: `unconditional_resistance_impossible`).
-/
import Emitter.Lemmas.KeyTamper
import Emitter.Props.Tie.Key
namespace Emitter.C12
open Emitter Emitter.Cipher Emitter.KeyTamper

/-! ## the property, as a statement about one cipher and one modification -/

/-- C12 for the license secret `cs` and the string modification `attack` (see the definition:
for every contract, clock, issued key, channel and permission, what `Service.Authorize` grants
the modified string it also grants the issued string). The full property is
"`NoEscalationBy cs attack` for every attack that does not depend on `cs`". -/
abbrev Property := @NoEscalationBy

/-! ## regenerated / literal facts -/

/-- the literal 1325880984 in `ValidateChannel` is the hash of the empty target (`#/`) -/
theorem fact_hash_empty : Hash.hashOf [] = hashEmpty := by decide

/-- `universalTail` carries that hash, all permission bits, no bit-path and no expiry -/
theorem fact_universal_tail :
    keyTarget (List.replicate 12 0 ++ universalTail) = hashEmpty ∧ keyPerms (List.replicate 12 0 ++ universalTail) = 0xFF ∧
    keyPath (List.replicate 12 0 ++ universalTail) = 0 ∧ keyExpire (List.replicate 12 0 ++ universalTail) = 0 := by decide

/-! ## license v2 / v3: XOR streams are malleable -/

/-- for EVERY keystream, every plaintext and every mask (all lengths): a mask XORed into the
ciphertext comes out XORed into the plaintext. Does not depend on the Salsa20 transcription. -/
theorem stream_malleable (p ks m : Bytes) : xorBytes (xorBytes (xorBytes p ks) m) ks = xorBytes p m :=
  xorBytes_mask p ks m

/-- v3 (`Shuffle.crypt`): the same for every salt-indexed family of keystreams and every mask
that is zero on the two salt bytes -/
theorem shuffle_malleable (ks : UInt8 → UInt8 → Bytes) (p m : Bytes) :
    shuffleCrypt ks (xorBytes (shuffleCrypt ks p) (0 :: 0 :: m)) = xorBytes p (0 :: 0 :: m) :=
  shuffleCrypt_mask ks p m

/-- at the level of key strings, for every v2 / v3 secret: base64-decode the issued string, XOR a
mask (zero on the salt) into the 24 bytes, re-encode — `DecryptKey` returns the issued key XOR the mask -/
theorem stream_malleable_key (cs : CipherSpec) (hs : isStream cs = true) (k m : Bytes) (hk : k.length = 24) :
    decryptKey cs (xorString (issued cs k) (0 :: 0 :: m)) = .ok (xorBytes k (0 :: 0 :: m)) :=
  KeyTamper.stream_malleable_key cs hs k m hk

/-- bytes 12..23 (bit-path, permissions, target hash, expiry — all known to the key's holder) can be
replaced by ANY 12 bytes with a mask computed from the old and the new values alone -/
theorem stream_rewrite_tail (cs : CipherSpec) (hs : isStream cs = true) (k new : Bytes) (hk : k.length = 24)
    (hn : new.length = 12) :
    decryptKey cs (xorString (issued cs k) (tailMask (k.drop 12) new)) = .ok (k.take 12 ++ new) :=
  KeyTamper.stream_rewrite_tail cs hs k new hk hn

/-- ANY key issued under the contract — expired, without permissions, for whatever target — becomes a
key that `Service.Authorize` accepts for every permission on every channel at every time -/
theorem stream_universal_key (cs : CipherSpec) (hs : isStream cs = true) (ct : Contract) (k : Bytes) (hk : k.length = 24)
    (hv : validate ct k = true) (hc : keyContract k = ct.id) (now : Int) (ch : Chan) (g : UInt8) (hn : ch.name ≠ []) :
    authorize cs ct now (xorString (issued cs k) (tailMask (k.drop 12) universalTail)) ch g = .ok true :=
  KeyTamper.stream_universal_key cs hs ct k hk hv hc now ch g hn

/-- the recorded finding: XOR 0x04 into cipher byte 15 (flip the low bit of character 20 of the key
string). Every key that grants anything on a channel but not Write comes back granting Write there
too, and everything it granted before. -/
theorem escalation_write (cs : CipherSpec) (hs : isStream cs = true) (ct : Contract) (now : Int) (k : Bytes)
    (hk : k.length = 24) (ch : Chan) (f : UInt8) (hf : grants ct now k ch f = true)
    (hw : keyPerms k &&& allowWrite = 0) :
    authorize cs ct now (issued cs k) ch allowWrite = .ok false ∧
    authorize cs ct now (xorString (issued cs k) (permMask allowWrite)) ch allowWrite = .ok true ∧
    ∀ g, authorize cs ct now (issued cs k) ch g = .ok true →
      authorize cs ct now (xorString (issued cs k) (permMask allowWrite)) ch g = .ok true :=
  KeyTamper.escalation_write cs hs ct now k hk ch f hf hw

/-- C12 REFUTED under license v2 and v3: one modification, chosen before the secret, escalates
under every secret -/
theorem stream_not_resistant :
    ∃ attack : Bytes → Bytes, ∀ cs, isStream cs = true → ¬ Property cs attack :=
  KeyTamper.stream_not_resistant

/-! ## every cipher -/

/-- quantifying over ALL functions of the key string is hopeless for any cipher (the function may
have the secret built in): this is why resistance under v1 is a computational assumption -/
theorem unconditional_resistance_impossible (cs : CipherSpec) : ∃ attack : Bytes → Bytes, ¬ Property cs attack :=
  KeyTamper.unconditional_resistance_impossible cs

/-- a string is granted anything only if it decrypts to a key carrying the contract's master id,
contract id and signature (10 check bytes), the permission asked for, and a live expiry -/
theorem accept_requires_check_bytes (cs : CipherSpec) (ct : Contract) (now : Int) (s : Bytes) (ch : Chan) (g : UInt8)
    (h : authorize cs ct now s ch g = .ok true) :
    ∃ k, decryptKey cs s = .ok k ∧ keyMaster k = ct.master ∧ keyContract k = ct.id ∧ keySignature k = ct.sign ∧
      hasPermission k g = true ∧ expired now k = false :=
  KeyTamper.accept_requires_check_bytes cs ct now s ch g h

/-- two different strings never decrypt to the same key (base64 and the three ciphers are
injective): every string other than the issued one is a DIFFERENT key -/
theorem decryptKey_injective (cs : CipherSpec) (s s' k : Bytes) (h : decryptKey cs s = .ok k)
    (h' : decryptKey cs s' = .ok k) : s = s' :=
  KeyTamper.decryptKey_injective cs s s' k h h'

theorem base64_injective (s s' r : Bytes) (h : decodeKey s = .ok r) (h' : decodeKey s' = .ok r)
    (h4 : s.length % 4 = 0) (h4' : s'.length % 4 = 0) : s = s' :=
  KeyTamper.base64_injective s s' r h h' h4 h4'

/-- `Service.Authorize` never panics, whatever bytes stand in the key position -/
theorem authorize_total (cs : CipherSpec) (ct : Contract) (now : Int) (s : Bytes) (ch : Chan) (g : UInt8) :
    (authorize cs ct now s ch g).isPanic = false :=
  KeyTamper.authorize_total cs ct now s ch g

/-! ## license v1: XTEA, three independent blocks, salt whitening -/

/-- each block function is a bijection of the 2⁶⁴ blocks (both round trips) -/
theorem xtea_block_roundtrip (k : XteaKey) (y z : UInt32) :
    decBlock k (encBlock k y z).1 (encBlock k y z).2 = (y, z) ∧ encBlock k (decBlock k y z).1 (decBlock k y z).2 = (y, z) :=
  ⟨decBlock_encBlock k y z, encBlock_decBlock k y z⟩

/-- … hence a changed ciphertext is a changed key -/
theorem xtea_decrypt_injective (key : XteaKey) (r r' : Bytes) (h : decryptRaw (.xtea key) r = decryptRaw (.xtea key) r') :
    r = r' :=
  KeyTamper.xtea_decrypt_injective key r r' h

/-- decryption block by block: blocks are deciphered independently; bytes 2.. are then XORed with the
two salt bytes, which come out of block 0 -/
theorem xtea_blocks (key : XteaKey) (B0 B1 B2 : Bytes) (h0 : B0.length = 8) (h1 : B1.length = 8) :
    decryptRaw (.xtea key) (B0 ++ B1 ++ B2)
      = whiten (mapBlocks (decBlock key) B0) ++
        whitenTail ((mapBlocks (decBlock key) B0).getD 0 0) ((mapBlocks (decBlock key) B0).getD 1 0) (mapBlocks (decBlock key) B1) ++
        whitenTail ((mapBlocks (decBlock key) B0).getD 0 0) ((mapBlocks (decBlock key) B0).getD 1 0) (mapBlocks (decBlock key) B2) :=
  xtea_decrypt_blocks3 key B0 B1 B2 h0 h1

/-- block locality (1): whatever replaces cipher block 2 leaves key bytes 0..15 alone -/
theorem xtea_block2_local (key : XteaKey) (B0 B1 B2 B2' : Bytes) (h0 : B0.length = 8) (h1 : B1.length = 8) :
    (decryptRaw (.xtea key) (B0 ++ B1 ++ B2')).take 16 = (decryptRaw (.xtea key) (B0 ++ B1 ++ B2)).take 16 :=
  KeyTamper.xtea_block2_local key B0 B1 B2 B2' h0 h1

/-- block locality (2): whatever replaces cipher block 1 leaves key bytes 0..7 and 16..23 alone -/
theorem xtea_block1_local (key : XteaKey) (B0 B1 B1' B2 : Bytes) (h0 : B0.length = 8) (h1 : B1.length = 8) (h1' : B1'.length = 8) :
    (decryptRaw (.xtea key) (B0 ++ B1' ++ B2)).take 8 = (decryptRaw (.xtea key) (B0 ++ B1 ++ B2)).take 8 ∧
    (decryptRaw (.xtea key) (B0 ++ B1' ++ B2)).drop 16 = (decryptRaw (.xtea key) (B0 ++ B1 ++ B2)).drop 16 :=
  KeyTamper.xtea_block1_local key B0 B1 B1' B2 h0 h1 h1'

/-- a modification confined to cipher block 2 can change only target hash and expiry: whatever the
modified string is granted, the issued key carries that permission bit and is valid for the contract -/
theorem xtea_block2_grants (key : XteaKey) (ct : Contract) (now : Int) (k : Bytes) (hk : k.length = 24) (B2' : Bytes)
    (h2 : B2'.length = 8) (ch : Chan) (g : UInt8)
    (h : authorize (.xtea key) ct now (b64Encode ((encryptRaw (.xtea key) k).take 16 ++ B2')) ch g = .ok true) :
    hasPermission k g = true ∧ validate ct k = true ∧ keyContract k = ct.id :=
  KeyTamper.xtea_block2_grants key ct now k hk B2' h2 ch g h

/-- cut-and-paste: two issued keys with equal first 8 bytes (salt, master id, contract id) — block 1 of
the second between blocks 0 and 2 of the first IS the string the broker would issue for the key with
signature / bit-path / permissions of the second and target hash / expiry of the first -/
theorem xtea_splice (key : XteaKey) (A M1 C1 M2 C2 : Bytes) (hA : A.length = 8) (hM1 : M1.length = 8)
    (hC1 : C1.length = 8) (hM2 : M2.length = 8) :
    spliceString (issued (.xtea key) (A ++ M1 ++ C1)) (issued (.xtea key) (A ++ M2 ++ C2)) = issued (.xtea key) (A ++ M2 ++ C1) :=
  KeyTamper.xtea_splice key A M1 C1 M2 C2 hA hM1 hC1 hM2

/-- C12 REFUTED under license v1 for the holder of two such keys, under EVERY XTEA key: the spliced
string may publish where neither issued key may -/
theorem xtea_splice_escalates (key : XteaKey) :
    authorize (.xtea key) witnessContract 0
      (spliceString (issued (.xtea key) (spliceA ++ spliceM1 ++ spliceC1)) (issued (.xtea key) (spliceA ++ spliceM2 ++ spliceC2)))
      spliceChan allowWrite = .ok true ∧
    authorize (.xtea key) witnessContract 0 (issued (.xtea key) (spliceA ++ spliceM1 ++ spliceC1)) spliceChan allowWrite = .ok false ∧
    authorize (.xtea key) witnessContract 0 (issued (.xtea key) (spliceA ++ spliceM2 ++ spliceC2)) spliceChan allowWrite = .ok false :=
  KeyTamper.xtea_splice_escalates key

/-! ## non-vacuity -/

/-- the hypotheses of `escalation_write` are satisfiable: a read-only key on `#/` -/
example : grants witnessContract 0 witnessWeak witnessChan allowRead = true ∧ keyPerms witnessWeak &&& allowWrite = 0 ∧
    witnessWeak.length = 24 := by decide

/-- … and the theorem then says, for a concrete v3 secret, that the tampered string may publish -/
example : authorize (.shuffle (List.replicate 32 1) (List.replicate 16 2)) witnessContract 0
    (xorString (issued (.shuffle (List.replicate 32 1) (List.replicate 16 2)) witnessWeak) (permMask allowWrite))
    witnessChan allowWrite = .ok true :=
  (escalation_write _ rfl witnessContract 0 witnessWeak rfl witnessChan allowRead (by decide) (by decide)).2.1

/-- the hypotheses of `stream_universal_key` are satisfiable by an EXPIRED key without permissions -/
example : validate witnessContract (witnessWeak.take 12 ++ [0, 0, 0, 0, 1, 2, 3, 4, 0, 0, 0, 1]) = true ∧
    keyContract (witnessWeak.take 12 ++ [0, 0, 0, 0, 1, 2, 3, 4, 0, 0, 0, 1]) = witnessContract.id ∧
    expired 1700000000 (witnessWeak.take 12 ++ [0, 0, 0, 0, 1, 2, 3, 4, 0, 0, 0, 1]) = true := by decide

/-- `xtea_block2_grants` is not vacuous: leaving block 2 as it is, is such a modification -/
example (key : XteaKey) : authorize (.xtea key) witnessContract 0
    (b64Encode ((encryptRaw (.xtea key) witnessWeak).take 16 ++ (encryptRaw (.xtea key) witnessWeak).drop 16)) witnessChan allowRead
    = .ok true := by
  rw [List.take_append_drop]
  exact (authorize_issued (.xtea key) witnessContract 0 witnessWeak rfl witnessChan allowRead).trans (by decide)

end Emitter.C12
