/-
  C05 — Cluster routing follows the replicated subscription state.
  (placeholder while the pipeline is being brought up; statements follow)
-/
import Emitter.Model.Cluster
namespace Emitter.C05
open Emitter Emitter.Cluster

theorem init_no_routes (m : Trie.Mode) (n : Nat) : ∀ b ∈ (Cluster.init m n).brokers, b.routes = [] := by
  intro b hb
  simp only [Cluster.init, List.mem_map] at hb
  obtain ⟨p, _, rfl⟩ := hb
  rfl

end Emitter.C05
