/-
  C05 — Cluster routing follows the replicated subscription state.
  Property-level statements; proofs are in Emitter/Lemmas/Cluster*.lean.

  Model: Emitter/Model/Cluster.lean — `Swarm.Notify`, `Swarm.merge` (after the D5 repair),
  `findPeer` / `onPeerOnline`, `onPeerOffline`, `Peer` counters and activity, the trie's remote
  entries, and the gossip transport (gossipSender buckets with union-coalescing, per-link FIFO,
  relay of returned deltas, complete-state gossip, links and peers going away and coming back).
  A schedule is any list of `Ev`; nothing bounds the number of brokers, events, connections.
-/
import Emitter.Lemmas.ClusterOwn
namespace Emitter.C05
open Emitter Emitter.Lww Emitter.Cluster

/-! ## 1. The routing invariant (the title of the property)

For every broker `b`, remote peer `p` and ssid `σ`: the peer's counter equals the number of
ACTIVE entries of (p, σ) in b's replicated state, and the trie routes σ to p iff that number is
positive. -/

def RoutingFollowsState (b : Broker) : Prop :=
  ∀ p, p ≠ b.self → ∀ σ,
    counterOf b p σ = cnt b.state p σ ∧ (hasRoute b.routes σ p = true ↔ 0 < cnt b.state p σ)

/-- it holds initially … -/
theorem routing_inv_init (mode : Trie.Mode) (n : Nat) (hn : n < 18446744073709551615) :
    ∀ b ∈ (Cluster.init mode n).brokers, RoutingFollowsState b := by
  intro b hb p hp σ
  exact binv_routing b ((cinv_init mode n hn).brokers b hb) p hp σ

/-- … is preserved by EVERY kind of step — client subscribe / unsubscribe / disconnect with any
clock reading (ties and clocks that step back included), coalescing pick, delivery in either walk
order with any relaying and duplication, periodic and on-connect complete-state gossip, link down /
up, peer touched / silent, peer garbage collection — unless the step takes a flagged branch
(`C05.offline-local-delete`, `C05.offline-deletes-own-key`, `C05.online-bypasses-counters`,
`C05.inactive-peer-transition`; `C05.clock-not-advancing` does not matter here) … -/
theorem routing_inv_step (c : Cluster) (e : Ev) (hc : CInv c)
    (hf : ∀ f ∈ (c.step e).2.flags, f = clockFlag) : CInv (c.step e).1 := cinv_step c e hc hf

/-- … hence holds after every schedule: all client histories × all transport schedules. -/
theorem routing_inv (mode : Trie.Mode) (n : Nat) (hn : n < 18446744073709551615) (evs : List Ev)
    (hf : ∀ f ∈ ((Cluster.init mode n).run evs).2, f = clockFlag) :
    ∀ b ∈ ((Cluster.init mode n).run evs).1.brokers, RoutingFollowsState b := by
  intro b hb p hp σ
  exact binv_routing b ((cinv_run _ evs (cinv_init mode n hn) hf).brokers b hb) p hp σ

/-- The merge of ANY payload without repeated keys — single operations, coalesced unions, relayed
deltas, complete states, stale or duplicated ones, whatever a transport can deliver — keeps the
invariant, in every order in which the delta (a Go map) can be walked. -/
theorem merge_keeps_routing (ord : List Bytes → List Bytes) (b : Broker) (r : Map) (hb : BInv b) (hr : NoDup r)
    (hord : (ord ((merge b.state r).2.map Prod.fst)).Perm ((merge b.state r).2.map Prod.fst))
    (hf : (mergeStepOrd ord b r).flags = []) :
    RoutingFollowsState (mergeStepOrd ord b r).broker := by
  intro p hp σ
  exact binv_routing _ (binv_mergeOrd ord b r hb hr hord hf) p hp σ

/-- the replicated state itself evolves as the LWW maps of C04 / C13 do (so `C04.converge` and
`C13.relay_sufficient` speak about the states of this model) -/
theorem state_is_lww (ord : List Bytes → List Bytes) (b : Broker) (r : Map) (c : ConnId) (σ : Ssid) (now : Int) :
    (mergeStepOrd ord b r).broker.state = (merge b.state r).1 ∧
    (mergeStepOrd ord b r).delta = (if (merge b.state r).2.isEmpty then none else some (merge b.state r).2) ∧
    ((c, σ) ∉ b.locals → (localSub b c σ now).broker.state = add b.state (encKey b.self c σ) now []) ∧
    ((c, σ) ∈ b.locals → (localUnsub b c σ now).broker.state = del b.state (encKey b.self c σ) now) := by
  refine ⟨(mergeOrd_state ord b r).1, (mergeOrd_state ord b r).2.2.2, ?_, ?_⟩
  · intro h
    simp [localSub, h]
  · intro h
    simp [localUnsub, h]

/-! ## 2. Routing at quiescence -/

/-- Once every broker holds the same state (C04: every update reached every broker), own
entries tell the truth about the clients, and the known peers are active: a message published on
broker `a` is forwarded to EXACTLY the other brokers that have a live local subscriber whose
filter matches it (so a broker whose last matching subscriber left is no longer forwarded to). -/
theorem quiescent_routing (c : Cluster) (hc : CInv c) (a : Broker) (ha : a ∈ c.brokers)
    (heq : ∀ x ∈ c.brokers, Equiv a.state x.state)
    (hown : ∀ x ∈ c.brokers, OwnTruth x)
    (hact : ∀ p r, mget a.members p = some r → r.active = true)
    (hpeers : ∀ p σ, 0 < cnt a.state p σ → ∃ y ∈ c.brokers, y.self = p)
    (q : Ssid) (p : PeerName) :
    p ∈ forwardTo c.mode a q ↔
      p ≠ a.self ∧ ∃ y ∈ c.brokers, y.self = p ∧ ∃ cn σ, (cn, σ) ∈ y.locals ∧ Trie.matchesMode c.mode σ q = true :=
  forward_exact c.mode c.brokers a ha hc.brokers heq hown hact hpeers q p

/-- The same for every reachable cluster state, with the side conditions discharged: after ANY
schedule of well-formed events that raised no flag, if gossip has quiesced (every broker holds
the same add / remove times — C04's conclusion once every update has reached every broker) and
the peers a broker knows are active, a publish on any broker `a` is forwarded to exactly the other
brokers with a live local subscription whose filter matches. (`own_truth_run`: on such schedules
a broker's own entries are active exactly for its live subscriptions — nobody else ever stamps
them — and every active entry names a broker of the cluster.) -/
theorem quiescent_routing_run (mode : Trie.Mode) (n : Nat) (hn : n < 18446744073709551615) (evs : List Ev)
    (hok : ∀ e ∈ evs, e.ok) (hf : ((Cluster.init mode n).run evs).2 = [])
    (heq : ∀ x ∈ ((Cluster.init mode n).run evs).1.brokers, ∀ y ∈ ((Cluster.init mode n).run evs).1.brokers,
      Equiv x.state y.state)
    (hact : ∀ x ∈ ((Cluster.init mode n).run evs).1.brokers, ∀ p r, mget x.members p = some r → r.active = true)
    (a : Broker) (ha : a ∈ ((Cluster.init mode n).run evs).1.brokers) (q : Ssid) (p : PeerName) :
    p ∈ forwardTo mode a q ↔
      p ≠ a.self ∧ ∃ y ∈ ((Cluster.init mode n).run evs).1.brokers, y.self = p ∧
        ∃ cn σ, (cn, σ) ∈ y.locals ∧ Trie.matchesMode mode σ q = true := by
  have hc : CInv ((Cluster.init mode n).run evs).1 :=
    cinv_run _ evs (cinv_init mode n hn) (by rw [hf]; intro f hfm; cases hfm)
  have hown := own_truth_run mode n hn evs hok hf
  exact forward_exact mode _ a ha hc.brokers (heq a ha) hown.1 (hact a ha) (hown.2 a ha) q p

/-- … each broker at most once, and on a broker the message is written to every local direct
subscriber with a matching filter exactly once, and never forwarded again (`onPeerMessage`
looks up direct subscribers only). -/
theorem delivered_once (mode : Trie.Mode) (b : Broker) (q : Ssid) :
    (forwardTo mode b q).Nodup ∧ (localTo mode b q).Nodup ∧
    ∀ cn, cn ∈ localTo mode b q ↔ ∃ σ, (cn, σ) ∈ b.locals ∧ Trie.matchesMode mode σ q = true :=
  ⟨forwardTo_nodup mode b q, localTo_nodup mode b q, fun cn => mem_localTo mode b q cn⟩

/-! ## 3. Bursts and ties: the add bias, stated explicitly -/

/-- a subscribe and an unsubscribe stamped with the SAME clock reading leave the entry active
(`IsAdded`: add ≥ remove): the invariant above survives (routing follows the state), but the
state no longer tells the truth about the client — flag `C05.clock-not-advancing` -/
theorem tie_add_bias (s : Map) (k : Bytes) (now : Int) (p : Bytes)
    (h : (get s k).add < now ∧ (get s k).del ≤ now) (hnow : 0 < now) :
    has (del (add s k now p) k now) k = true := by
  obtain ⟨h1, h2⟩ := h
  have hadd : add s k now p = set s k { get s k with add := now, payload := p } := by
    unfold add; simp [h1]
  rw [hadd]
  unfold del
  simp only [get_set, if_true]
  split
  · unfold has
    simp only [get_set, if_true, Val.isAdded]
    simp only [Bool.and_eq_true, bne_iff_ne, ne_eq, decide_eq_true_eq]
    constructor <;> omega
  · unfold has
    simp only [get_set, if_true, Val.isAdded]
    simp only [Bool.and_eq_true, bne_iff_ne, ne_eq, decide_eq_true_eq]
    constructor <;> omega

/-- sub; unsub; sub within one clock reading: the third operation finds add = now already and
changes nothing, the entry is active — state and client agree again -/
theorem burst_tie (s : Map) (k : Bytes) (now : Int) (p p' : Bytes)
    (h : (get s k).add < now ∧ (get s k).del ≤ now) (hnow : 0 < now) :
    add (del (add s k now p) k now) k now p' = del (add s k now p) k now ∧
    has (add (del (add s k now p) k now) k now p') k = true := by
  have hget : (get (del (add s k now p) k now) k).add = now := by
    have hadd : add s k now p = set s k { get s k with add := now, payload := p } := by
      unfold add; simp [h.1]
    rw [hadd]; unfold del; simp only [get_set, if_true]
    split <;> simp [get_set]
  have noop : ∀ (m : Map), (get m k).add = now → add m k now p' = m := by
    intro m hm
    unfold add
    simp [hm]
  have e : add (del (add s k now p) k now) k now p' = del (add s k now p) k now := noop _ hget
  exact ⟨e, by rw [e]; exact tie_add_bias s k now p h hnow⟩

/-- the same at the level of a broker: one connection, one channel, one clock reading -/
theorem burst_on_a_broker :
    let b0 : Broker := { self := 1 }
    let b3 := (localSub (localUnsub (localSub b0 7 [1, 10] 5).broker 7 [1, 10] 5).broker 7 [1, 10] 5).broker
    has b3.state (encKey 1 7 [1, 10]) = true ∧ b3.locals = [(7, [1, 10])] ∧
    (localSub (localUnsub (localSub b0 7 [1, 10] 5).broker 7 [1, 10] 5).broker 7 [1, 10] 5).flags = [] := by decide

/-! ## 4. What the flags exclude: each flagged branch breaks the property (witnesses) -/

private def kx : Bytes := encKey 2 7 [1, 10]
private def ky : Bytes := encKey 2 8 [1, 20]
private def b0 : Broker := { self := 1 }

/-- D5 (a), the UNREPAIRED `Swarm.merge`: (5,0), then unsubscribe@7 and subscribe@10 in one
payload: one active entry, counter 2 — a final unsubscribe leaves the route for ever -/
theorem legacy_readd_double_counts :
    let b1 := (mergeLegacy b0 [(kx, ⟨5, 0, []⟩)]).broker
    let b2 := (mergeLegacy b1 [(kx, ⟨10, 7, []⟩)]).broker
    let b3 := (mergeLegacy b2 [(kx, ⟨0, 12, []⟩)]).broker
    counterOf b2 2 [1, 10] = 2 ∧ cnt b2.state 2 [1, 10] = 1 ∧
    cnt b3.state 2 [1, 10] = 0 ∧ hasRoute b3.routes [1, 10] 2 = true := by decide

/-- D5 (b), the UNREPAIRED `Swarm.merge`: a remove older than the current add arrives late and
unroutes a live subscriber -/
theorem legacy_stale_remove_unroutes :
    let b1 := (mergeLegacy b0 [(ky, ⟨10, 0, []⟩)]).broker
    let b2 := (mergeLegacy b1 [(ky, ⟨0, 7, []⟩)]).broker
    cnt b2.state 2 [1, 20] = 1 ∧ hasRoute b2.routes [1, 20] 2 = false := by decide

/-- the repaired merge on the same inputs -/
theorem repaired_on_the_same_inputs :
    let b1 := (mergeStep .forward b0 [(kx, ⟨5, 0, []⟩)]).broker
    let b2 := (mergeStep .forward b1 [(kx, ⟨10, 7, []⟩)]).broker
    let b3 := (mergeStep .forward b2 [(kx, ⟨0, 12, []⟩)]).broker
    let c1 := (mergeStep .forward b0 [(ky, ⟨10, 0, []⟩)]).broker
    let c2 := (mergeStep .forward c1 [(ky, ⟨0, 7, []⟩)]).broker
    counterOf b2 2 [1, 10] = 1 ∧ hasRoute b3.routes [1, 10] 2 = false ∧
    cnt c2.state 2 [1, 20] = 1 ∧ hasRoute c2.routes [1, 20] 2 = true := by decide

/-- the full statement, without the flag hypothesis: routing follows the state after EVERY step -/
def RoutingAfterEveryStep : Prop :=
  ∀ (b : Broker), BInv b → ∀ (p : PeerName) (now : Int), RoutingFollowsState (offline b p now).1

/-- finding `C05.offline-local-delete`: garbage collection drops the routes of a peer whose
entries stay active (the remove it stamps lands on the key (self, conn, ssid)) -/
theorem offline_refuted :
    let b1 := (mergeStep .forward b0 [(kx, ⟨5, 0, []⟩)]).broker
    let r := offline b1 2 9
    r.2 = ["C05.offline-local-delete"] ∧ cnt r.1.state 2 [1, 10] = 1 ∧ hasRoute r.1.routes [1, 10] 2 = false ∧
    get r.1.state (encKey 1 7 [1, 10]) = ⟨0, 9, []⟩ := by decide

/-- … hence the unconditional statement is false of the code: peer garbage collection breaks it -/
theorem routing_after_every_step_refuted : ¬ RoutingAfterEveryStep := by
  intro h
  have hb0 : BInv b0 := binv_init 1 (by decide)
  have hb1 : BInv (mergeStep .forward b0 [(kx, ⟨5, 0, []⟩)]).broker := by
    apply binv_mergeOrd _ b0 _ hb0 (nodup_singleton _ _)
    · exact List.Perm.refl _
    · decide
  have := (h _ hb1 2 9 2 (by decide) [1, 10]).2
  revert this
  decide

/-- finding `C05.online-bypasses-counters`: the peer object is created again by a later update,
the old entry is routed without being counted, its removal finds no counter: the route stays -/
theorem online_bypass_refuted :
    let b1 := (mergeStep .forward b0 [(kx, ⟨5, 0, []⟩)]).broker
    let b2 := (offline b1 2 9).1
    let m3 := mergeStep .forward b2 [(ky, ⟨11, 0, []⟩)]
    let m4 := mergeStep .forward m3.broker [(kx, ⟨0, 12, []⟩)]
    m3.flags = ["C05.online-bypasses-counters"] ∧
    cnt m4.broker.state 2 [1, 10] = 0 ∧ hasRoute m4.broker.routes [1, 10] 2 = true := by decide

/-- finding `C05.inactive-peer-transition`: a first subscription processed while the peer
counts as inactive is counted but never routed, also after the peer is touched again -/
theorem inactive_transition_refuted :
    let b1 := (mergeStep .forward b0 [(kx, ⟨5, 0, []⟩)]).broker
    let m2 := mergeStep .forward (expire b1 2) [(ky, ⟨6, 0, []⟩)]
    let b3 := touch m2.broker 2
    m2.flags = ["C05.inactive-peer-transition"] ∧
    counterOf b3 2 [1, 20] = 1 ∧ cnt b3.state 2 [1, 20] = 1 ∧ hasRoute b3.routes [1, 20] 2 = false := by decide

/-- finding `C05.offline-deletes-own-key`: the connection ids of two brokers coincide -/
theorem offline_own_key_refuted :
    let b1 := (localSub b0 7 [1, 10] 3).broker
    let b2 := (mergeStep .forward b1 [(kx, ⟨5, 0, []⟩)]).broker
    let r := offline b2 2 9
    r.2 = ["C05.offline-local-delete", "C05.offline-deletes-own-key"] ∧
    (7, [1, 10]) ∈ r.1.locals ∧ has r.1.state (encKey 1 7 [1, 10]) = false := by decide

/-- finding `C05.clock-not-advancing`: sub; unsub within one clock reading -/
theorem clock_tie_refuted :
    let r1 := localSub b0 7 [1, 10] 5
    let r2 := localUnsub r1.broker 7 [1, 10] 5
    r2.flags = ["C05.clock-not-advancing"] ∧ r2.broker.locals = [] ∧
    has r2.broker.state (encKey 1 7 [1, 10]) = true := by decide

/-! ## non-vacuity: a three-broker schedule with coalescing, relaying and a duplicate -/

private def σa : Ssid := [1, 10]
private def demo : List Ev :=
  [.sub 1 7 σa 5, .unsub 1 7 σa 7, .sub 1 7 σa 10,          -- burst on broker 1, coalesced on both links
   .pick 1 2 1, .deliver 1 2 [3] true .forward, .deliver 1 2 [] false .reverse,   -- delivered twice, relayed to 3
   .pick 2 3 1, .deliver 2 3 [] false .forward,
   .gossip 3 1, .pick 3 1 0, .deliver 3 1 [2] false .forward,
   .sub 3 4 [1, Trie.wildcard] 11, .pick 3 1 3, .pick 3 2 3, .deliver 3 2 [] false .forward, .deliver 3 1 [] false .forward]

example : ((Cluster.init .emitter 3).run demo).2 = [] := by decide
example : (((Cluster.init .emitter 3).run demo).1.brokers.map (fun b => (b.self, b.routes.map (fun r => (r.1, r.2.1))))) =
    [(1, [([1, Trie.wildcard], 3)]), (2, [([1, Trie.wildcard], 3), (σa, 1)]), (3, [(σa, 1)])] := by decide
example : (((Cluster.init .emitter 3).run demo).1.publish 2 [1, 10, 99]).fwd = [3, 1] := by decide

end Emitter.C05
