-- regenerated from internal/network/mqtt of the repository's working tree by tools/go2lean; do not edit
import Emitter.Generated.GoPrelude
set_option linter.unusedVariables false
namespace Emitter.Generated.GoMqtt
open Emitter.Generated.GoPrelude

/-- `fn boolToUInt8`: `func boolToUInt8(v bool) uint8` -/
def goBoolToUInt8 (v : Bool) : UInt8 :=
  if v then ((1 : UInt8)) else ((0 : UInt8))

/-- `fn writeUint16`: `func writeUint16(buf []byte, v uint16) int` -/
def goWriteUint16 (buf : List UInt8) (v : UInt16) : List UInt8 × Int64 :=
  let buf := buf.set 0 (((v &&& (65280 : UInt16)) >>> (8 : UInt16)).toUInt8);
  let buf := buf.set 1 ((v &&& (255 : UInt16)).toUInt8);
  (buf, (2 : Int64))

/-- `fn writeUint8`: `func writeUint8(buf []byte, v uint8) int` -/
def goWriteUint8 (buf : List UInt8) (v : UInt8) : List UInt8 × Int64 :=
  let buf := buf.set 0 v;
  (buf, (1 : Int64))

/-- `var writeHeader firstByte`: `func writeHeader(buf []byte, msgType uint8, h *Header, length int) int` -/
def goWriteHeader_firstByte (msgType : UInt8) (h_nonnil : Bool) (h_DUP : Bool) (h_Retain : Bool) (h_QOS : UInt8) : UInt8 :=
  let firstByte := (0 : UInt8);
  let firstByte := (firstByte ||| (msgType <<< (4 : UInt8)));
  let firstByte := if h_nonnil then (let firstByte := (firstByte ||| ((goBoolToUInt8 h_DUP) <<< (3 : UInt8)));
  let firstByte := (firstByte ||| (h_QOS <<< (1 : UInt8)));
  let firstByte := (firstByte ||| (goBoolToUInt8 h_Retain));
  firstByte) else (firstByte);
  firstByte

/-- `var Connect.EncodeTo flagByte`: `func (c *Connect) EncodeTo(w io.Writer) (int, error)` -/
def goEncodeTo_flagByte (c_UsernameFlag : Bool) (c_PasswordFlag : Bool) (c_WillRetainFlag : Bool) (c_WillQOS : UInt8) (c_WillFlag : Bool) (c_CleanSeshFlag : Bool) : UInt8 :=
  let flagByte := (0 : UInt8);
  let flagByte := (flagByte ||| ((goBoolToUInt8 c_UsernameFlag) <<< (7 : UInt8)));
  let flagByte := (flagByte ||| ((goBoolToUInt8 c_PasswordFlag) <<< (6 : UInt8)));
  let flagByte := (flagByte ||| ((goBoolToUInt8 c_WillRetainFlag) <<< (5 : UInt8)));
  let flagByte := (flagByte ||| (c_WillQOS <<< (3 : UInt8)));
  let flagByte := (flagByte ||| ((goBoolToUInt8 c_WillFlag) <<< (2 : UInt8)));
  let flagByte := (flagByte ||| ((goBoolToUInt8 c_CleanSeshFlag) <<< (1 : UInt8)));
  flagByte

/-- `var decodeHeader messageType`: `func decodeHeader(rdr Reader) (hdr Header, length uint32, messageType uint8, err error)` -/
def goDecodeHeader_messageType (firstByte : UInt8) : UInt8 :=
  let messageType := (0 : UInt8);
  let messageType := ((firstByte &&& (240 : UInt8)) >>> (4 : UInt8));
  messageType

/-- `var decodeHeader DUP`: `func decodeHeader(rdr Reader) (hdr Header, length uint32, messageType uint8, err error)` -/
def goDecodeHeader_DUP (firstByte : UInt8) : Bool :=
  let DUP := (decide ((firstByte &&& (8 : UInt8)) > (0 : UInt8)));
  DUP

/-- `var decodeHeader QOS`: `func decodeHeader(rdr Reader) (hdr Header, length uint32, messageType uint8, err error)` -/
def goDecodeHeader_QOS (firstByte : UInt8) : UInt8 :=
  let QOS := ((firstByte &&& (6 : UInt8)) >>> (1 : UInt8));
  QOS

/-- `var decodeHeader retain`: `func decodeHeader(rdr Reader) (hdr Header, length uint32, messageType uint8, err error)` -/
def goDecodeHeader_retain (firstByte : UInt8) : Bool :=
  let retain := (decide ((firstByte &&& (1 : UInt8)) > (0 : UInt8)));
  retain

/-- `field decodeConnect Connect.UsernameFlag`: `func decodeConnect(data []byte) (Message, error)` -/
def goDecodeConnect_UsernameFlag (flags : UInt8) : Bool :=
  (decide ((flags &&& (128 : UInt8)) > (0 : UInt8)))

/-- `field decodeConnect Connect.PasswordFlag`: `func decodeConnect(data []byte) (Message, error)` -/
def goDecodeConnect_PasswordFlag (flags : UInt8) : Bool :=
  (decide ((flags &&& (64 : UInt8)) > (0 : UInt8)))

/-- `field decodeConnect Connect.WillRetainFlag`: `func decodeConnect(data []byte) (Message, error)` -/
def goDecodeConnect_WillRetainFlag (flags : UInt8) : Bool :=
  (decide ((flags &&& (32 : UInt8)) > (0 : UInt8)))

/-- `field decodeConnect Connect.WillQOS`: `func decodeConnect(data []byte) (Message, error)` -/
def goDecodeConnect_WillQOS (flags : UInt8) : UInt8 :=
  ((flags >>> (3 : UInt8)) &&& (3 : UInt8))

/-- `field decodeConnect Connect.WillFlag`: `func decodeConnect(data []byte) (Message, error)` -/
def goDecodeConnect_WillFlag (flags : UInt8) : Bool :=
  (decide ((flags &&& (4 : UInt8)) > (0 : UInt8)))

/-- `field decodeConnect Connect.CleanSeshFlag`: `func decodeConnect(data []byte) (Message, error)` -/
def goDecodeConnect_CleanSeshFlag (flags : UInt8) : Bool :=
  (decide ((flags &&& (2 : UInt8)) > (0 : UInt8)))

-- outside the fragment, not translated: encodeLength and the length loops of writeHeader / decodeHeader (loops), readUint16 / readString (pointer cursor), the EncodeTo / decode* bodies beyond the flag bytes
end Emitter.Generated.GoMqtt
