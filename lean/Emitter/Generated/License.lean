-- regenerated from /repo by bin/vcore.py (consts group "license"); do not edit
namespace Emitter.Generated
def licenseTimeOffset : Int := 1262304000
end Emitter.Generated
