-- regenerated from /repo by bin/vcore.py (consts group "cluster"); do not edit
namespace Emitter.Generated
def peerDefaultFrameSize : Nat := 128
def peerMaxByteFrameSize : Nat := 10485760
end Emitter.Generated
