-- regenerated from /repo by bin/vcore.py (consts group "security"); do not edit
namespace Emitter.Generated
def secAllowAll : UInt8 := 254
def secAllowExecute : UInt8 := 128
def secAllowExtend : UInt8 := 64
def secAllowLoad : UInt8 := 16
def secAllowMaster : UInt8 := 1
def secAllowPresence : UInt8 := 32
def secAllowRead : UInt8 := 2
def secAllowStore : UInt8 := 8
def secAllowWrite : UInt8 := 4
def secChannelInvalid : Nat := 0
def secChannelStatic : Nat := 1
def secChannelWildcard : Nat := 2
def secKeyTimeOffset : Int := 1262304000
def secMaxTime : Int := 3029529600
def secMinTime : Int := 1514764800
end Emitter.Generated
