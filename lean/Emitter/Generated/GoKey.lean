-- regenerated from internal/security of the repository's working tree by tools/go2lean; do not edit
import Emitter.Generated.GoPrelude
set_option linter.unusedVariables false
namespace Emitter.Generated.GoKey
open Emitter.Generated.GoPrelude

/-- `fn Key.Salt`: `func (k Key) Salt() uint16` -/
def goSalt (k : List UInt8) : UInt16 :=
  ((((k.getD 0 0).toUInt16) <<< (8 : UInt16)) ||| ((k.getD 1 0).toUInt16))

/-- `fn Key.SetSalt`: `func (k Key) SetSalt(value uint16)` -/
def goSetSalt (k : List UInt8) (value : UInt16) : List UInt8 :=
  let k := k.set 0 ((value >>> (8 : UInt16)).toUInt8);
  let k := k.set 1 (value.toUInt8);
  k

/-- `fn Key.Master`: `func (k Key) Master() uint16` -/
def goMaster (k : List UInt8) : UInt16 :=
  ((((k.getD 2 0).toUInt16) <<< (8 : UInt16)) ||| ((k.getD 3 0).toUInt16))

/-- `fn Key.SetMaster`: `func (k Key) SetMaster(value uint16)` -/
def goSetMaster (k : List UInt8) (value : UInt16) : List UInt8 :=
  let k := k.set 2 ((value >>> (8 : UInt16)).toUInt8);
  let k := k.set 3 (value.toUInt8);
  k

/-- `fn Key.Contract`: `func (k Key) Contract() uint32` -/
def goContract (k : List UInt8) : UInt32 :=
  ((((((k.getD 4 0).toUInt32) <<< (24 : UInt32)) ||| (((k.getD 5 0).toUInt32) <<< (16 : UInt32))) ||| (((k.getD 6 0).toUInt32) <<< (8 : UInt32))) ||| ((k.getD 7 0).toUInt32))

/-- `fn Key.SetContract`: `func (k Key) SetContract(value uint32)` -/
def goSetContract (k : List UInt8) (value : UInt32) : List UInt8 :=
  let k := k.set 4 ((value >>> (24 : UInt32)).toUInt8);
  let k := k.set 5 ((value >>> (16 : UInt32)).toUInt8);
  let k := k.set 6 ((value >>> (8 : UInt32)).toUInt8);
  let k := k.set 7 (value.toUInt8);
  k

/-- `fn Key.Signature`: `func (k Key) Signature() uint32` -/
def goSignature (k : List UInt8) : UInt32 :=
  ((((((k.getD 8 0).toUInt32) <<< (24 : UInt32)) ||| (((k.getD 9 0).toUInt32) <<< (16 : UInt32))) ||| (((k.getD 10 0).toUInt32) <<< (8 : UInt32))) ||| ((k.getD 11 0).toUInt32))

/-- `fn Key.SetSignature`: `func (k Key) SetSignature(value uint32)` -/
def goSetSignature (k : List UInt8) (value : UInt32) : List UInt8 :=
  let k := k.set 8 ((value >>> (24 : UInt32)).toUInt8);
  let k := k.set 9 ((value >>> (16 : UInt32)).toUInt8);
  let k := k.set 10 ((value >>> (8 : UInt32)).toUInt8);
  let k := k.set 11 (value.toUInt8);
  k

/-- `fn Key.Permissions`: `func (k Key) Permissions() uint8` -/
def goPermissions (k : List UInt8) : UInt8 :=
  (k.getD 15 0)

/-- `fn Key.SetPermissions`: `func (k Key) SetPermissions(value uint8)` -/
def goSetPermissions (k : List UInt8) (value : UInt8) : List UInt8 :=
  let k := k.set 15 value;
  k

/-- `fn Key.IsMaster`: `func (k Key) IsMaster() bool` -/
def goIsMaster (k : List UInt8) : Bool :=
  ((goPermissions k) == (1 : UInt8))

/-- `fn Key.HasPermission`: `func (k Key) HasPermission(flag uint8) bool` -/
def goHasPermission (k : List UInt8) (flag : UInt8) : Bool :=
  let p := (goPermissions k);
  ((p &&& flag) == flag)

/-- `fn Key.SetPermission`: `func (k Key) SetPermission(flag uint8, value bool)` -/
def goSetPermission (k : List UInt8) (flag : UInt8) (value : Bool) : List UInt8 :=
  let k := if value then (let k := (goSetPermissions k ((goPermissions k) ||| flag));
  k) else (let k := (goSetPermissions k ((goPermissions k) &&& ~~~flag));
  k);
  k

/-- `var Key.Expires expire`: `func (k Key) Expires() time.Time` -/
def goExpires_expire (k : List UInt8) : Int64 :=
  let expire := (((((((k.getD 20 0).toUInt32) <<< (24 : UInt32)) ||| (((k.getD 21 0).toUInt32) <<< (16 : UInt32))) ||| (((k.getD 22 0).toUInt32) <<< (8 : UInt32))) ||| ((k.getD 23 0).toUInt32)).toUInt64.toInt64);
  let expire := if (decide (expire > (0 : Int64))) then (let expire := ((1262304000 : Int64) + expire);
  expire) else (expire);
  expire

/-- `fn Key.SetExpires`: `func (k Key) SetExpires(value time.Time)` -/
def goSetExpires (k : List UInt8) (unix : Int64) : List UInt8 :=
  let expire := unix;
  let expire := if (decide (expire > (0 : Int64))) then (let expire := (expire - (1262304000 : Int64));
  expire) else (expire);
  let k := k.set 20 (((expire.toUInt64.toUInt32) >>> (24 : UInt32)).toUInt8);
  let k := k.set 21 (((expire.toUInt64.toUInt32) >>> (16 : UInt32)).toUInt8);
  let k := k.set 22 (((expire.toUInt64.toUInt32) >>> (8 : UInt32)).toUInt8);
  let k := k.set 23 ((expire.toUInt64.toUInt32).toUInt8);
  k

/-- `var Key.ValidateChannel target`: `func (k Key) ValidateChannel(ch *Channel) bool` -/
def goValidateChannel_target (k : List UInt8) : UInt32 :=
  let target := ((((((k.getD 16 0).toUInt32) <<< (24 : UInt32)) ||| (((k.getD 17 0).toUInt32) <<< (16 : UInt32))) ||| (((k.getD 18 0).toUInt32) <<< (8 : UInt32))) ||| ((k.getD 19 0).toUInt32));
  target

/-- `var Key.ValidateChannel targetPath`: `func (k Key) ValidateChannel(ch *Channel) bool` -/
def goValidateChannel_targetPath (k : List UInt8) : UInt32 :=
  let targetPath := (((((k.getD 12 0).toUInt32) <<< (16 : UInt32)) ||| (((k.getD 13 0).toUInt32) <<< (8 : UInt32))) ||| ((k.getD 14 0).toUInt32));
  targetPath

/-- `stores Key.SetTarget`: `func (k Key) SetTarget(channel string) error` -/
def goSetTarget_stores (k : List UInt8) (bitPath : UInt32) (value : UInt32) : List UInt8 :=
  let k := k.set 12 ((bitPath >>> (16 : UInt32)).toUInt8);
  let k := k.set 13 ((bitPath >>> (8 : UInt32)).toUInt8);
  let k := k.set 14 (bitPath.toUInt8);
  let k := k.set 16 ((value >>> (24 : UInt32)).toUInt8);
  let k := k.set 17 ((value >>> (16 : UInt32)).toUInt8);
  let k := k.set 18 ((value >>> (8 : UInt32)).toUInt8);
  let k := k.set 19 (value.toUInt8);
  k

-- outside the fragment, not translated: Key.IsEmpty (len), Key.IsExpired (time.Time, time.Now), the time.Unix(...).UTC() result of Key.Expires, Key.ValidateChannel and Key.SetTarget beyond the byte reads / stores (strings, loops, hash)
end Emitter.Generated.GoKey
