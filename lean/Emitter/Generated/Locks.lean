-- regenerated from the Go sources by tools/gofacts; do not edit
namespace Emitter.Generated
def lockConnWrite : List String := ["recv.limit.Limit", "recv.enqueue", "recv.Len", "recv.enqueue", "recv.Flush", "recv.socket.Write"]
def lockConnFlush : List String := ["recv.Len", "recv.Lock", "recv.socket.Write", "recv.writer.Bytes", "recv.writer.Reset", "recv.Unlock"]
def lockConnLen : List String := ["recv.RLock", "recv.writer.Len", "recv.RUnlock"]
def lockConnEnqueue : List String := ["recv.Lock", "recv.writer.Write", "recv.Unlock"]
def lockWsWrite : List String := ["recv.Lock", "defer recv.Unlock", "recv.socket.NextWriter", "w.Write", "w.Close"]
def shapeBrokerSend : List String := ["packet.EncodeTo"]
def shapePublish : List String := ["subscriber.Send"]
def shapeEncodeTo : List String := ["Connect w.Write", "Connack w.Write", "Publish w.Write", "Puback w.Write", "Pubrec w.Write", "Pubrel w.Write", "Pubcomp w.Write", "Subscribe w.Write", "Suback w.Write", "Unsubscribe w.Write", "Unsuback w.Write", "Pingreq w.Write", "Pingresp w.Write", "Disconnect w.Write"]
end Emitter.Generated
