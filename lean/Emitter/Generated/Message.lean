-- regenerated from /repo by bin/vcore.py (consts group "message"); do not edit
namespace Emitter.Generated
def msgFixed : Nat := 16
def msgRetainedTTL : Nat := 4294967295
def msgTimeOffset : Int := 1514764800
def ssidMultiWild : UInt32 := 4285801373
def ssidPresence : UInt32 := 3869262148
def ssidQuery : UInt32 := 3939663052
def ssidShare : UInt32 := 1480642916
def ssidSystem : UInt32 := 0
def ssidWildcard : UInt32 := 1815237614
end Emitter.Generated
