-- regenerated from /repo by bin/vcore.py (consts group "mqtt"); do not edit
namespace Emitter.Generated
def mqttMaxHeaderSize : Nat := 6
def mqttMaxMessageSize : Nat := 65536
def mqttTypeConnack : UInt8 := 2
def mqttTypeConnect : UInt8 := 1
def mqttTypeDisconnect : UInt8 := 14
def mqttTypePingreq : UInt8 := 12
def mqttTypePingresp : UInt8 := 13
def mqttTypePuback : UInt8 := 4
def mqttTypePubcomp : UInt8 := 7
def mqttTypePublish : UInt8 := 3
def mqttTypePubrec : UInt8 := 5
def mqttTypePubrel : UInt8 := 6
def mqttTypeSuback : UInt8 := 9
def mqttTypeSubscribe : UInt8 := 8
def mqttTypeUnsuback : UInt8 := 11
def mqttTypeUnsubscribe : UInt8 := 10
end Emitter.Generated
