-- regenerated from /repo by bin/vcore.py (consts group "storage"); do not edit
namespace Emitter.Generated
def storeDefaultRetain : Nat := 2592000
end Emitter.Generated
