-- regenerated from internal/message of the repository's working tree by tools/go2lean; do not edit
import Emitter.Generated.GoPrelude
set_option linter.unusedVariables false
namespace Emitter.Generated.GoId
open Emitter.Generated.GoPrelude

/-- `fn ID.Contract`: `func (id ID) Contract() uint32` -/
def goContract (id : List UInt8) : UInt32 :=
  (beUInt32 id 16)

/-- `fn ID.Time`: `func (id ID) Time() int64` -/
def goTime (id : List UInt8) (offset : Int64) : Int64 :=
  ((((4294967295 : UInt32) - (beUInt32 id 4)).toUInt64.toInt64) + offset)

/-- `fn ID.SetTime`: `func (id ID) SetTime(t int64)` -/
def goSetTime (id : List UInt8) (t : Int64) (offset : Int64) : List UInt8 :=
  let id := putUInt32 id 4 ((4294967295 : UInt32) - ((t - offset).toUInt64.toUInt32));
  id

/-- `fn NewPrefix`: `func NewPrefix(ssid Ssid, from int64) ID` -/
def goNewPrefix (ssid : List UInt32) (from_ : Int64) (offset : Int64) : List UInt8 :=
  let id := (List.replicate 8 (0 : UInt8));
  let id := putUInt32 id 0 ((ssid.getD 0 0) ^^^ (ssid.getD 1 0));
  let id := putUInt32 id 4 ((4294967295 : UInt32) - ((from_ - offset).toUInt64.toUInt32));
  id

/-- `fn ID.HasPrefix`: `func (id ID) HasPrefix(ssid Ssid, cutoff int64) bool` -/
def goHasPrefix (id : List UInt8) (ssid : List UInt32) (cutoff : Int64) (offset : Int64) : Bool :=
  (((beUInt32 id 0) == ((ssid.getD 0 0) ^^^ (ssid.getD 1 0))) && (decide ((goTime id offset) ≥ cutoff)))

-- outside the fragment, not translated: NewID (make with a computed length, loop, time.Now, atomic), ID.Ssid and ID.Match (loops); `offset` is a package variable and becomes a parameter
end Emitter.Generated.GoId
