-- regenerated from /repo by bin/vcore.py (consts group "websocket"); do not edit
namespace Emitter.Generated
def wsBinaryMessage : Nat := 2
def wsTextMessage : Nat := 1
end Emitter.Generated
