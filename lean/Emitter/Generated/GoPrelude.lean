-- written by tools/go2lean (fixed text): encoding/binary.BigEndian on a sub-slice b[i:…], as in the Go source
-- of encoding/binary (`uint32(b[3]) | uint32(b[2])<<8 | uint32(b[1])<<16 | uint32(b[0])<<24`, `b[0] = byte(v >> 24)` …).
namespace Emitter.Generated.GoPrelude
def beUInt16 (b : List UInt8) (i : Nat) : UInt16 :=
  (b.getD (i+1) 0).toUInt16 ||| ((b.getD i 0).toUInt16 <<< (8 : UInt16))
def beUInt32 (b : List UInt8) (i : Nat) : UInt32 :=
  (b.getD (i+3) 0).toUInt32 ||| ((b.getD (i+2) 0).toUInt32 <<< (8 : UInt32)) ||| ((b.getD (i+1) 0).toUInt32 <<< (16 : UInt32)) |||
  ((b.getD i 0).toUInt32 <<< (24 : UInt32))
def beUInt64 (b : List UInt8) (i : Nat) : UInt64 :=
  (b.getD (i+7) 0).toUInt64 ||| ((b.getD (i+6) 0).toUInt64 <<< (8 : UInt64)) ||| ((b.getD (i+5) 0).toUInt64 <<< (16 : UInt64)) |||
  ((b.getD (i+4) 0).toUInt64 <<< (24 : UInt64)) ||| ((b.getD (i+3) 0).toUInt64 <<< (32 : UInt64)) |||
  ((b.getD (i+2) 0).toUInt64 <<< (40 : UInt64)) ||| ((b.getD (i+1) 0).toUInt64 <<< (48 : UInt64)) |||
  ((b.getD i 0).toUInt64 <<< (56 : UInt64))
def putUInt16 (b : List UInt8) (i : Nat) (v : UInt16) : List UInt8 :=
  (b.set i (v >>> (8 : UInt16)).toUInt8).set (i+1) v.toUInt8
def putUInt32 (b : List UInt8) (i : Nat) (v : UInt32) : List UInt8 :=
  (((b.set i (v >>> (24 : UInt32)).toUInt8).set (i+1) (v >>> (16 : UInt32)).toUInt8).set (i+2) (v >>> (8 : UInt32)).toUInt8).set (i+3) v.toUInt8
def putUInt64 (b : List UInt8) (i : Nat) (v : UInt64) : List UInt8 :=
  (((((((b.set i (v >>> (56 : UInt64)).toUInt8).set (i+1) (v >>> (48 : UInt64)).toUInt8).set (i+2) (v >>> (40 : UInt64)).toUInt8).set (i+3)
    (v >>> (32 : UInt64)).toUInt8).set (i+4) (v >>> (24 : UInt64)).toUInt8).set (i+5) (v >>> (16 : UInt64)).toUInt8).set (i+6)
    (v >>> (8 : UInt64)).toUInt8).set (i+7) v.toUInt8
end Emitter.Generated.GoPrelude
