-- regenerated from /repo by bin/vcore.py (consts group "cipher"); do not edit
namespace Emitter.Generated
def base64Alphabet : String := "ABCDEFGHIJKLMNOPQRSTUVWXYZabcdefghijklmnopqrstuvwxyz0123456789-_"
def xteaDelta : UInt32 := 2654435769
def xteaRounds : Nat := 32
def xteaSum : UInt32 := 3337565984
end Emitter.Generated
