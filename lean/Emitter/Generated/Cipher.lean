-- regenerated from /repo by bin/vcore.py (consts group "cipher"); do not edit
namespace Emitter.Generated
def base64Alphabet : List UInt8 := [65, 66, 67, 68, 69, 70, 71, 72, 73, 74, 75, 76, 77, 78, 79, 80, 81, 82, 83, 84, 85, 86, 87, 88, 89, 90, 97, 98, 99, 100, 101, 102, 103, 104, 105, 106, 107, 108, 109, 110, 111, 112, 113, 114, 115, 116, 117, 118, 119, 120, 121, 122, 48, 49, 50, 51, 52, 53, 54, 55, 56, 57, 45, 95]
def xteaDelta : UInt32 := 2654435769
def xteaRounds : Nat := 32
def xteaSum : UInt32 := 3337565984
end Emitter.Generated
