-- regenerated from /repo by bin/vcore.py (consts group "listener"); do not edit
namespace Emitter.Generated
def httpMethods : List String := ["OPTIONS", "GET", "HEAD", "POST", "PATCH", "PUT", "DELETE", "TRACE", "CONNECT"]
end Emitter.Generated
