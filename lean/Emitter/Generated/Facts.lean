-- regenerated from /repo by bin/vcore.py (consts group "facts"); do not edit
namespace Emitter.Generated
def factCloseRecovers : Nat := 1
def factOnBroadcastRecovers : Nat := 1
def factOnGossipRecovers : Nat := 1
def factOnUnicastRecovers : Nat := 1
def factProcessDefersClose : Nat := 1
end Emitter.Generated
