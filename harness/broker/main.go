//go:build verif

// Correspondence harness for the broker-level properties (C02, C07, C08, C18, C14, C11):
// a real broker service, clients attached over net.Pipe, one request per op line.
package main

import (
	"bytes"
	"encoding/json"
	"fmt"
	"runtime"
	"sort"
	"sync"
	"strconv"
	"strings"
	"time"

	"github.com/emitter-io/emitter/internal/network/mqtt"
	"github.com/emitter-io/emitter/internal/security"
	"github.com/emitter-io/emitter/internal/zverif/vbroker"
	"github.com/emitter-io/emitter/internal/zverif/vlib"
)

var (
	remote *vbroker.Broker
	sessNow int64
	b     *vbroker.Broker
	keys  = map[string]string{}
	order []string
	guids = map[string]string{}
)

func u(s string) uint64 {
	v, err := strconv.ParseUint(s, 10, 64)
	if err != nil {
		panic("harness: bad number " + s)
	}
	return v
}

func topic(k, rest string) []byte {
	r := vlib.UnHex(rest)
	switch k {
	case "-":
		return r
	case "emitter":
		return append([]byte("emitter"), r...)
	}
	ks, ok := keys[k]
	if !ok {
		ks = "nokey" // a key that was never minted (failed keygen): an invalid key string
	}
	return append([]byte(ks), r...)
}

func keyStr(k string) string {
	if k == "-" {
		return ""
	}
	if ks, ok := keys[k]; ok {
		return ks
	}
	return "nokey"
}

// canonJSON flattens a JSON payload into sorted key=value text (time and message dropped).
func canonJSON(payload []byte) string {
	var v map[string]interface{}
	if err := json.Unmarshal(payload, &v); err != nil {
		return "J{unparsable}"
	}
	var parts []string
	var walk func(prefix string, x interface{})
	walk = func(prefix string, x interface{}) {
		switch t := x.(type) {
		case map[string]interface{}:
			for k, y := range t {
				if prefix == "" && (k == "time" || k == "message") {
					continue
				}
				p := k
				if prefix != "" {
					p = prefix + "." + k
				}
				walk(p, y)
			}
		case []interface{}:
			var items []string
			for _, it := range t {
				if m, ok := it.(map[string]interface{}); ok {
					s := fmt.Sprint(m["id"])
					if un, ok := m["username"]; ok && un != "" {
						s += "/" + fmt.Sprint(un)
					}
					items = append(items, s)
				} else {
					items = append(items, fmt.Sprint(it))
				}
			}
			sort.Strings(items)
			parts = append(parts, prefix+"=["+strings.Join(items, ";")+"]")
		case float64:
			parts = append(parts, prefix+"="+strconv.FormatInt(int64(t), 10))
		case nil:
			parts = append(parts, prefix+"=[]")
		default:
			parts = append(parts, prefix+"="+fmt.Sprint(t))
		}
	}
	walk("", v)
	sort.Strings(parts)
	return "J{" + strings.Join(parts, ",") + "}"
}

// canon rewrites the JSON payloads of emitter/... publishes.
func canon(pkts []string) []string {
	out := make([]string, len(pkts))
	for i, p := range pkts {
		out[i] = p
		if strings.HasPrefix(p, "pub:") {
			f := strings.SplitN(p, ":", 3)
			t := vlib.UnHex(f[1])
			if strings.HasPrefix(string(t), "emitter/") {
				out[i] = "pub:" + f[1] + ":" + canonJSON(vlib.UnHex(f[2]))
			}
		}
	}
	return out
}

func sortHistory(ps []string) []string {
	idx := -1
	for i, p := range ps {
		if strings.HasPrefix(p, "suback:") {
			idx = i
			break
		}
	}
	if idx < 0 {
		return ps
	}
	start := idx
	for start > 0 && strings.HasPrefix(ps[start-1], "pub:") && !strings.Contains(ps[start-1], ":J{") {
		start--
	}
	sort.Strings(ps[start:idx])
	return ps
}

// collect renders what every client received since the last op.
func collect(sortAll, sortHist bool, drop string) string {
	b.Settle()
	var parts []string
	for _, name := range order {
		c, ok := b.Clients[name]
		if !ok {
			continue
		}
		got := canon(c.Take())
		if name == drop {
			continue
		}
		var keep []string
		for _, g := range got {
			if g != "closed" {
				keep = append(keep, g)
			}
		}
		if len(keep) == 0 {
			continue
		}
		// presence notifications come from their own goroutine: list them after the packets
		// written by the connection's goroutine (queue order among themselves)
		var syncPk, notif []string
		for _, g := range keep {
			if strings.Contains(g, "event=subscribe") || strings.Contains(g, "event=unsubscribe") {
				notif = append(notif, g)
			} else {
				syncPk = append(syncPk, g)
			}
		}
		keep = append(syncPk, notif...)
		if sortAll {
			sort.Strings(keep)
		} else if sortHist {
			keep = sortHistory(keep)
		}
		parts = append(parts, name+"<"+strings.Join(keep, "|"))
	}
	if len(parts) == 0 {
		return "-"
	}
	return strings.Join(parts, " ")
}

// willBody substitutes @KEY:<name>@ in a will message by that key's string (a will addressed to one of the
// broker's own request channels carries a JSON request).
func willBody(m []byte) []byte {
	s := string(m)
	for n, k := range keys {
		s = strings.ReplaceAll(s, "@KEY:"+n+"@", k)
	}
	return []byte(s)
}

func request(name string, mid uint16, what string, body interface{}) {
	payload, _ := json.Marshal(body)
	b.Clients[name].Send(&mqtt.Publish{Header: mqtt.Header{QOS: 1}, MessageID: mid, Topic: []byte("emitter/" + what + "/"), Payload: payload})
}

func step(w []string, line string) string {
	return vlib.Guard(func() string {
		switch w[0] {
		case "reset":
			if b != nil {
				b.Close()
			}
			matcher := ""
			if w[1] == "mqtt" {
				matcher = "mqtt"
			}
			if remote != nil {
				remote.Close()
				remote = nil
			}
			b = vbroker.New(vbroker.LicenseFor(w[2], uint32(u(w[3])), uint32(u(w[4]))), matcher, "00:00:00:00:00:01", "")
			keys, order, guids = map[string]string{}, nil, map[string]string{}
			sessNow = time.Now().Unix()
			return strings.Join(w[:5], " ") + fmt.Sprintf(" now=%d", sessNow) + "\x00ok"
		case "key":
			exp, _ := strconv.ParseInt(w[8], 10, 64)
			tgt := ""
			if !strings.HasPrefix(w[7], "raw:") {
				tgt = string(vlib.UnHex(w[7]))
			}
			k := b.MintKey(uint16(u(w[2])), uint16(u(w[3])), uint32(u(w[4])), uint32(u(w[5])), uint8(u(w[6])), tgt, time.Unix(exp, 0))
			keys[w[1]] = k
			return vlib.Hex([]byte(k))
		case "transport":
			// transport buffered|sync: how the connections attached from now on reach the broker
			b.Buffered = w[1] == "buffered"
			return "ok"
		case "conn":
			before := map[string]bool{}
			_, pairs0 := b.Svc.VerifTrie().VerifTrieDump()
			_ = pairs0
			c := b.Attach(w[1])
			_ = c
			_ = before
			order = append(order, w[1])
			// learn the connection's id through the "me" request
			c.Send(&mqtt.Publish{Header: mqtt.Header{QOS: 1}, MessageID: 1, Topic: []byte("emitter/me/"), Payload: []byte("{}")})
			c.Await("puback:")
			b.Settle()
			guid := ""
			for _, p := range c.Take() {
				if strings.HasPrefix(p, "pub:") {
					f := strings.SplitN(p, ":", 3)
					var v map[string]interface{}
					if json.Unmarshal(vlib.UnHex(f[2]), &v) == nil {
						if id, ok := v["id"].(string); ok {
							guid = id
						}
					}
				}
			}
			if guid == "" {
				return "no-id"
			}
			guids[w[1]] = guid
			return "conn " + w[1] + " guid=" + vlib.Hex([]byte(guid)) + "\x00ok"
		case "connect":
			pkt := &mqtt.Connect{ProtoName: []byte("MQTT"), Version: 4, ClientID: []byte(w[1]), Username: vlib.UnHex(w[2]), UsernameFlag: w[2] != "-",
				WillFlag: w[3] == "1", WillRetainFlag: w[4] == "1", WillTopic: topic(w[5], w[6]), WillMessage: willBody(vlib.UnHex(w[7]))}
			b.Clients[w[1]].Send(pkt)
			b.Clients[w[1]].Await("connack:")
			return collect(false, false, "")
		case "sub":
			b.Clients[w[1]].Send(&mqtt.Subscribe{Header: mqtt.Header{QOS: 1}, MessageID: uint16(u(w[2])),
				Subscriptions: []mqtt.TopicQOSTuple{{Topic: topic(w[3], w[4]), Qos: uint8(u(w[5]))}}})
			b.Clients[w[1]].Await("suback:")
			return collect(false, true, "")
		case "unsub":
			b.Clients[w[1]].Send(&mqtt.Unsubscribe{Header: mqtt.Header{QOS: 1}, MessageID: uint16(u(w[2])),
				Topics: []mqtt.TopicQOSTuple{{Topic: topic(w[3], w[4])}}})
			b.Clients[w[1]].Await("unsuback:")
			return collect(false, false, "")
		case "pub":
			b.Clients[w[1]].Send(&mqtt.Publish{Header: mqtt.Header{QOS: uint8(u(w[2])), Retain: w[3] == "1"}, MessageID: uint16(u(w[4])),
				Topic: topic(w[5], w[6]), Payload: vlib.UnHex(w[7])})
			if u(w[2]) > 0 {
				b.Clients[w[1]].Await("puback:")
			}
			return collect(false, false, "")
		case "burst":
			// burst <hold> <n> <mid0> <key> <channel> <watcher> <client,client,...>: every listed client sends n
			// SUBSCRIBE/UNSUBSCRIBE pairs for the channel back to back, all at the same time and without waiting
			// for acknowledgements, so the presence queue (capacity 100) runs full behind its single dispatcher;
			// with hold=1 the watcher additionally stops reading until the queue is saturated. Every transition
			// must be reported once, in the order in which its connection made it (the interleaving BETWEEN
			// connections is free: the notifications are grouped per source connection for the comparison).
			hold := w[1] == "1"
			if strings.HasPrefix(w[1], "p") {
				// few processors: goroutines the broker starts wait in a run queue while the connections'
				// read loops keep running (a loaded machine)
				defer runtime.GOMAXPROCS(runtime.GOMAXPROCS(int(u(w[1][1:]))))
			}
			n, mid0 := int(u(w[2])), int(u(w[3]))
			wc := b.Clients[w[6]]
			names := strings.Split(w[7], ",")
			if hold {
				wc.Hold()
			}
			var wg sync.WaitGroup
			for _, nm := range names {
				c := b.Clients[nm]
				var buf bytes.Buffer
				for i := 0; i < n; i++ {
					(&mqtt.Subscribe{Header: mqtt.Header{QOS: 1}, MessageID: uint16(mid0 + 2*i),
						Subscriptions: []mqtt.TopicQOSTuple{{Topic: topic(w[4], w[5]), Qos: 0}}}).EncodeTo(&buf)
					(&mqtt.Unsubscribe{Header: mqtt.Header{QOS: 1}, MessageID: uint16(mid0 + 2*i + 1),
						Topics: []mqtt.TopicQOSTuple{{Topic: topic(w[4], w[5])}}}).EncodeTo(&buf)
				}
				wg.Add(1)
				go func(c *vbroker.Client, raw []byte) {
					defer wg.Done()
					for len(raw) > 0 { // the broker stops reading while its presence queue is full: no write deadline
						k, err := c.RawConn().Write(raw)
						if err != nil {
							return
						}
						raw = raw[k:]
					}
				}(c, buf.Bytes())
			}
			if hold {
				for i := 0; i < 400; i++ {
					time.Sleep(500 * time.Microsecond)
					if b.Svc.VerifPresenceQueued() >= 90 {
						break
					}
				}
				time.Sleep(2 * time.Millisecond)
				wc.Release()
			}
			wg.Wait()
			for _, nm := range names {
				for i := 0; i < 60000 && b.Clients[nm].CountPrefix("unsuback:") < n; i++ {
					time.Sleep(500 * time.Microsecond)
				}
			}
			out := collect(false, false, "")
			// group every receiver's notifications by source connection (order of the op line), keeping the
			// order within a connection
			rank := func(g string) int {
				for i, nm := range names {
					if strings.Contains(g, "who.id="+guids[nm]+",") || strings.Contains(g, "who.id="+guids[nm]+"}") {
						return i
					}
				}
				return len(names)
			}
			parts := strings.Split(out, " ")
			for pi, part := range parts {
				k := strings.IndexByte(part, '<')
				if k < 0 {
					continue
				}
				pk := strings.Split(part[k+1:], "|")
				first := len(pk)
				for i, g := range pk {
					if strings.Contains(g, "event=subscribe") || strings.Contains(g, "event=unsubscribe") {
						first = i
						break
					}
				}
				notif := pk[first:]
				sort.SliceStable(notif, func(a, b int) bool { return rank(notif[a]) < rank(notif[b]) })
				parts[pi] = part[:k+1] + strings.Join(pk, "|")
			}
			return strings.Join(parts, " ")
		case "link":
			request(w[1], uint16(u(w[2])), "link", map[string]interface{}{"name": string(vlib.UnHex(w[3])), "key": keyStr(w[4]),
				"channel": string(vlib.UnHex(w[5])), "subscribe": w[6] == "1"})
			b.Clients[w[1]].Await("puback:")
			return collect(false, false, "")
		case "presence":
			req := map[string]interface{}{"key": keyStr(w[3]), "channel": string(vlib.UnHex(w[4])), "status": w[5] == "1"}
			if w[6] == "1" {
				req["changes"] = true
			} else if w[6] == "0" {
				req["changes"] = false
			}
			request(w[1], uint16(u(w[2])), "presence", req)
			b.Clients[w[1]].Await("puback:")
			return collect(false, false, "")
		case "keyban":
			// keyban <client> <mid> <secretKey> <targetKey> <0|1>
			request(w[1], uint16(u(w[2])), "keyban", map[string]interface{}{"secret": keyStr(w[3]), "target": keyStr(w[4]), "banned": w[5] == "1"})
			b.Clients[w[1]].Await("puback:")
			return collect(false, false, "")
		case "keygen":
			// keygen <client> <mid> <parentKey> <channel> <type> <ttl> <newKeyName>
			ttl, _ := strconv.ParseInt(w[6], 10, 32)
			request(w[1], uint16(u(w[2])), "keygen", map[string]interface{}{"key": keyStr(w[3]), "channel": string(vlib.UnHex(w[4])),
				"type": string(vlib.UnHex(w[5])), "ttl": ttl})
			c := b.Clients[w[1]]
			c.Await("puback:")
			b.Settle()
			// render the response with the minted key decrypted into its fields
			var out []string
			for _, p := range c.Take() {
				if strings.HasPrefix(p, "pub:") {
					f := strings.SplitN(p, ":", 3)
					var v map[string]interface{}
					if json.Unmarshal(vlib.UnHex(f[2]), &v) == nil {
						if ks, ok := v["key"].(string); ok && ks != "" {
							keys[w[7]] = ks
							k, err := b.Cipher.DecryptKey([]byte(ks))
							if err != nil {
								out = append(out, "undecryptable-key")
								continue
							}
							path := uint32(k[12])<<16 | uint32(k[13])<<8 | uint32(k[14])
							hash := uint32(k[16])<<24 | uint32(k[17])<<16 | uint32(k[18])<<8 | uint32(k[19])
							exp := k.Expires().Unix()
							if k.Expires().Equal(time.Unix(0, 0)) {
								exp = 0
							}
							out = append(out, fmt.Sprintf("keygen:status=%v:channel=%s:key=%s:master=%d:contract=%d:sign=%d:perms=%d:path=%d:hash=%d:expires=%d",
								v["status"], vlib.Hex([]byte(fmt.Sprint(v["channel"]))), vlib.Hex([]byte(ks)), k.Master(), k.Contract(), k.Signature(), k.Permissions(), path, hash, exp))
							continue
						}
						out = append(out, fmt.Sprintf("keygen:status=%v", v["status"]))
						continue
					}
				}
				out = append(out, p)
			}
			return w[1] + "<" + strings.Join(out, "|")
		case "ckey":
			// ckey <parentKey> <channel> <access> <expires> <newKeyName>: keygen.Service.CreateKey called
			// directly, as the HTTP keygen page does (no request handler in front of it)
			exp, _ := strconv.ParseInt(w[4], 10, 64)
			ks, kerr := b.Svc.VerifC12Keygen().CreateKey(keyStr(w[1]), string(vlib.UnHex(w[2])), uint8(u(w[3])), time.Unix(exp, 0))
			if kerr != nil {
				return fmt.Sprintf("ckey:status=%d", kerr.Status)
			}
			keys[w[5]] = ks
			k, err := b.Cipher.DecryptKey([]byte(ks))
			if err != nil {
				return "ckey:status=200:undecryptable-key"
			}
			path := uint32(k[12])<<16 | uint32(k[13])<<8 | uint32(k[14])
			hash := uint32(k[16])<<24 | uint32(k[17])<<16 | uint32(k[18])<<8 | uint32(k[19])
			kexp := int64(uint32(k[20])<<24 | uint32(k[21])<<16 | uint32(k[22])<<8 | uint32(k[23]))
			return fmt.Sprintf("ckey:status=200:key=%s:master=%d:contract=%d:sign=%d:perms=%d:path=%d:hash=%d:expires=%d",
				vlib.Hex([]byte(ks)), k.Master(), k.Contract(), k.Signature(), k.Permissions(), path, hash, kexp)
		case "saltspread":
			// saltspread <client> <parentKey> <n>: n keys minted from one master key must not all
			// carry the same salt (the salt is what ties the cipher blocks / keystream to one key)
			n := int(u(w[3]))
			c := b.Clients[w[1]]
			salts := map[uint16]bool{}
			for i := 0; i < n; i++ {
				request(w[1], uint16(1000+i), "keygen", map[string]interface{}{"key": keyStr(w[2]), "channel": "a/b/", "type": "rw", "ttl": 0})
				c.Await("puback:")
				for _, p := range c.Take() {
					if strings.HasPrefix(p, "pub:") {
						f := strings.SplitN(p, ":", 3)
						var v map[string]interface{}
						if json.Unmarshal(vlib.UnHex(f[2]), &v) == nil {
							if ks, ok := v["key"].(string); ok && ks != "" {
								if k, err := b.Cipher.DecryptKey([]byte(ks)); err == nil {
									salts[k.Salt()] = true
								}
							}
						}
					}
				}
			}
			if len(salts) == 0 {
				return "no-keys"
			}
			if len(salts) == 1 {
				return "same-salt"
			}
			return "distinct"
		case "restart":
			b.Restart()
			order, guids = nil, map[string]string{}
			return "ok"
		case "remote-new":
			if remote != nil {
				remote.Close()
			}
			remote = vbroker.New(vbroker.LicenseFor(w[1], uint32(u(w[2])), uint32(u(w[3]))), "", "00:00:00:00:00:02", "")
			return "ok"
		case "remote-use":
			// remote-use <key> <channel after the key> <perm>: Service.Authorize on the second broker
			ch := security.ParseChannel(topic(w[1], w[2]))
			return strconv.FormatBool(remote.Svc.VerifAuthorize(ch, uint8(u(w[3]))))
		case "remote-merge":
			// the second broker receives the first one's full state (periodic gossip)
			if _, err := remote.Svc.VerifCluster().OnGossip(b.Svc.VerifCluster().VerifStateBytes()); err != nil {
				return "err"
			}
			return "ok"
		case "cutsend":
			// cutsend <client> <k> <inner op...>: send the first k bytes of the packet of the inner
			// op (all of it if k >= its length), then drop the socket
			k := int(u(w[2]))
			inner := w[3:]
			var pkt mqtt.Message
			switch inner[0] {
			case "sub":
				pkt = &mqtt.Subscribe{Header: mqtt.Header{QOS: 1}, MessageID: uint16(u(inner[2])),
					Subscriptions: []mqtt.TopicQOSTuple{{Topic: topic(inner[3], inner[4]), Qos: uint8(u(inner[5]))}}}
			case "unsub":
				pkt = &mqtt.Unsubscribe{Header: mqtt.Header{QOS: 1}, MessageID: uint16(u(inner[2])),
					Topics: []mqtt.TopicQOSTuple{{Topic: topic(inner[3], inner[4])}}}
			case "pub":
				pkt = &mqtt.Publish{Header: mqtt.Header{QOS: uint8(u(inner[2])), Retain: inner[3] == "1"}, MessageID: uint16(u(inner[4])),
					Topic: topic(inner[5], inner[6]), Payload: vlib.UnHex(inner[7])}
			default:
				panic("harness: cutsend of " + inner[0])
			}
			var buf bytes.Buffer
			pkt.EncodeTo(&buf)
			raw := buf.Bytes()
			if k < len(raw) {
				raw = raw[:k]
			}
			c := b.Clients[w[1]]
			if len(raw) > 0 {
				c.SendRaw(raw)
			}
			if k >= buf.Len() {
				// the whole packet went out: give the broker the chance to serve it before the cut
				switch inner[0] {
				case "sub":
					c.Await("suback:")
				case "unsub":
					c.Await("unsuback:")
				case "pub":
					if u(inner[2]) > 0 {
						c.Await("puback:")
					} else {
						b.Settle()
					}
				}
			}
			c.CloseSocket()
			return collect(true, false, w[1])
		case "rawclose":
			// protocol error: bytes that are not a packet; the broker drops the connection itself
			c := b.Clients[w[1]]
			c.SendRaw(vlib.UnHex(w[2]))
			c.WaitClosed()
			c.CloseSocket()
			return collect(true, false, w[1])
		case "disc":
			c := b.Clients[w[1]]
			c.Send(&mqtt.Disconnect{})
			c.WaitClosed()
			c.CloseSocket()
			return collect(true, false, w[1])
		case "close":
			b.Clients[w[1]].CloseSocket()
			return collect(true, false, w[1])
		case "closeheld":
			// closeheld <client> <watcher>: the connection ends while a presence watcher does not read its socket
			// (the notification dispatcher is stuck behind it, the queue fills up); then the watcher reads again.
			// Every subscription the connection held must still be reported as gone.
			wc := b.Clients[w[2]]
			wc.Hold()
			done := make(chan struct{})
			go func() { defer close(done); b.Clients[w[1]].CloseSocket() }()
			// until the queue is saturated behind the stuck dispatcher (or the connection is already gone)
		waitFull:
			for i := 0; i < 10000; i++ {
				select {
				case <-done:
					break waitFull
				default:
				}
				if b.Svc.VerifPresenceQueued() >= 99 {
					time.Sleep(20 * time.Millisecond)
					break
				}
				time.Sleep(500 * time.Microsecond)
			}
			wc.Release()
			<-done
			return collect(true, false, w[1])
		case "deafen":
			// injected fault: from now on every write of the broker to this connection fails; it stays
			// connected and subscribed. Nobody else may notice.
			b.Clients[w[1]].FailWrites()
			return "ok"
		case "dump":
			nodes, pairs := b.Svc.VerifTrie().VerifTrieDump()
			ps := make([]string, len(pairs))
			for i, p := range pairs {
				owner := "#" + p[1]
				for n, g := range guids {
					if g == p[1] {
						owner = n
					}
				}
				ps[i] = p[0] + "=" + owner
			}
			sort.Strings(ps)
			return fmt.Sprintf("nodes=%d count=%d pairs=%s open=%d", nodes, b.Svc.VerifTrie().Count(), strings.Join(ps, ","), b.Svc.VerifConnections())
		}
		return "bad-op"
	})
}

func main() { vlib.Run(step) }
