//go:build verif

// Correspondence harness for C12 (a key cannot be altered into a more powerful one).
//
// Every operation runs against a real broker.Service built by broker.NewService from a license
// string (no listener, no cluster): keys are issued by the service's own keygen (CreateKey with a
// master key of the license), tampered with at the level of the key STRING only (applyMod never
// sees the license), and observed through Service.Authorize over a probe set of
// (channel, permission) pairs.
package main

import (
	"context"
	"encoding/base64"
	"fmt"
	"strconv"
	"strings"
	"time"

	"github.com/emitter-io/emitter/internal/broker"
	"github.com/emitter-io/emitter/internal/config"
	"github.com/emitter-io/emitter/internal/security"
	"github.com/emitter-io/emitter/internal/security/license"
	"github.com/emitter-io/emitter/internal/zverif/vlib"
)

const alphabet = "ABCDEFGHIJKLMNOPQRSTUVWXYZabcdefghijklmnopqrstuvwxyz0123456789-_"

type svc struct {
	b      *broker.Service
	master string
	cipher license.Cipher
}

var services = map[string]*svc{}

func u32(s string) uint32 {
	v, err := strconv.ParseUint(s, 10, 32)
	if err != nil {
		panic("harness: bad number " + s)
	}
	return uint32(v)
}

// mkLicense builds a license of the requested version around the given secret.
func mkLicense(spec string) license.License {
	p := strings.Split(spec, ":")
	switch p[0] {
	case "1":
		l := license.NewV1()
		l.EncryptionKey = base64.RawURLEncoding.EncodeToString(vlib.UnHex(p[1]))
		l.User, l.Sign = u32(p[2]), u32(p[3])
		return l
	case "2":
		l := license.NewV2()
		l.EncryptionKey, l.EncryptionSalt = vlib.UnHex(p[1]), vlib.UnHex(p[2])
		l.User, l.Sign, l.Index = u32(p[3]), u32(p[4]), 1
		return l
	case "3":
		l := license.NewV3()
		l.EncryptionKey, l.EncryptionSalt = vlib.UnHex(p[1]), vlib.UnHex(p[2])
		l.User, l.Sign, l.Index = u32(p[3]), u32(p[4]), 1
		return l
	}
	panic("harness: bad license spec")
}

func service(spec string) *svc {
	if s, ok := services[spec]; ok {
		return s
	}
	l := mkLicense(spec)
	cfg := config.NewDefault().(*config.Config)
	cfg.License = l.String() // the broker parses the license string itself
	cfg.Cluster = nil         // single node: no ban list, no sockets
	cfg.Storage = nil
	b, err := broker.NewService(context.Background(), cfg)
	if err != nil {
		panic("harness: NewService: " + err.Error())
	}
	mk, err := b.License.NewMasterKey(1)
	if err != nil {
		panic(err)
	}
	c, err := b.License.Cipher()
	if err != nil {
		panic(err)
	}
	master, err := c.EncryptKey(mk)
	if err != nil {
		panic(err)
	}
	s := &svc{b: b, master: master, cipher: c}
	services[spec] = s
	return s
}

// issue has the broker's keygen create a key (target|access|expires). The random salt CreateKey
// picked is then replaced by the generator's choice ("r" keeps it) so that runs are reproducible
// and boundary salts are covered; nothing else of the issued key is touched.
func (s *svc) issue(spec, salt string) string {
	p := strings.Split(spec, "|")
	access, _ := strconv.ParseUint(p[1], 10, 8)
	exp, _ := strconv.ParseInt(p[2], 10, 64)
	kg := s.b.VerifC12Keygen()
	k, e := kg.CreateKey(s.master, p[0], uint8(access), time.Unix(exp, 0))
	if e != nil {
		panic("harness: CreateKey: " + e.Error())
	}
	if salt == "r" {
		return k
	}
	v, err := strconv.ParseUint(salt, 10, 16)
	if err != nil {
		panic("harness: bad salt")
	}
	key, err := kg.DecryptKey(k)
	if err != nil {
		panic(err)
	}
	key.SetSalt(uint16(v))
	out, err := kg.EncryptKey(key)
	if err != nil {
		panic(err)
	}
	return out
}

func raw(s string) []byte {
	b, err := base64.RawURLEncoding.DecodeString(s)
	if err != nil {
		panic("harness: issued key is not base64")
	}
	return b
}

func atoi(s string) int {
	v, err := strconv.Atoi(s)
	if err != nil {
		panic("harness: bad int " + s)
	}
	return v
}

// applyMod derives a string from the issued key strings. It has no access to the license.
func applyMod(keys []string, desc string) []byte {
	p := strings.Split(desc, ":")
	k := keys[0]
	switch p[0] {
	case "id":
		return []byte(k)
	case "xor": // XOR a mask into the cipher bytes
		r := raw(k)
		for i, m := range vlib.UnHex(p[1]) {
			if i < len(r) {
				r[i] ^= m
			}
		}
		return []byte(base64.RawURLEncoding.EncodeToString(r))
	case "bit": // flip one bit of the cipher bytes
		r := raw(k)
		n := atoi(p[1])
		r[n/8] ^= 0x80 >> uint(n%8)
		return []byte(base64.RawURLEncoding.EncodeToString(r))
	case "chr": // substitute one character by an arbitrary byte
		b := []byte(k)
		b[atoi(p[1])] = vlib.UnHex(p[2])[0]
		return b
	case "cxor": // substitute one character by another character of the alphabet
		b := []byte(k)
		i := atoi(p[1])
		b[i] = alphabet[strings.IndexByte(alphabet, b[i])^atoi(p[2])]
		return b
	case "cswap":
		b := []byte(k)
		i, j := atoi(p[1]), atoi(p[2])
		b[i], b[j] = b[j], b[i]
		return b
	case "bswap": // swap two 8-byte cipher blocks
		r := raw(k)
		i, j := atoi(p[1])*8, atoi(p[2])*8
		for x := 0; x < 8; x++ {
			r[i+x], r[j+x] = r[j+x], r[i+x]
		}
		return []byte(base64.RawURLEncoding.EncodeToString(r))
	case "bcopy": // copy cipher block i over block j
		r := raw(k)
		copy(r[atoi(p[2])*8:atoi(p[2])*8+8], r[atoi(p[1])*8:atoi(p[1])*8+8])
		return []byte(base64.RawURLEncoding.EncodeToString(r))
	case "splice": // block b of the result is block b of key number p[1][b]
		out := make([]byte, 24)
		for b := 0; b < 3; b++ {
			src := raw(keys[int(p[1][b]-'1')])
			copy(out[b*8:b*8+8], src[b*8:b*8+8])
		}
		return []byte(base64.RawURLEncoding.EncodeToString(out))
	case "trunc":
		return []byte(k[:atoi(p[1])])
	case "ext":
		return append([]byte(k), vlib.UnHex(p[1])...)
	case "set":
		return vlib.UnHex(p[1])
	}
	panic("harness: bad modification " + desc)
}

// grants is the probe observable: per channel the mask of single permissions Authorize accepts.
func (s *svc) grants(key []byte, probes []string) string {
	out := make([]byte, 0, len(probes))
	for _, pr := range probes {
		ch := security.ParseChannel([]byte("k/" + pr))
		if ch.ChannelType == security.ChannelInvalid {
			panic("harness: bad probe channel " + pr)
		}
		var mask byte
		for i := uint(0); i < 8; i++ {
			ch.Key = append([]byte{}, key...)
			if _, _, ok := s.b.Authorize(ch, uint8(1)<<i); ok {
				mask |= 1 << i
			}
		}
		out = append(out, mask)
	}
	return vlib.Hex(out)
}

func step(w []string, _ string) string {
	switch w[0] {
	case "tamper": // tamper <lic> <salt> <issue>[;<issue>] <desc> <probes>   (+ now= key= mod=)
		if len(w) < 6 {
			return "bad-op"
		}
		var line string
		obs := vlib.Guard(func() string {
			s := service(w[1])
			var keys []string
			for _, is := range strings.Split(w[3], ";") {
				keys = append(keys, s.issue(is, w[2]))
			}
			mod := applyMod(keys, w[4])
			probes := strings.Split(w[5], ",")
			now := time.Now().Unix()
			// what the holder of the issued keys may do: the union over the keys he holds
			var orig []byte
			for _, k := range keys {
				g := vlib.UnHex(s.grants([]byte(k), probes))
				if orig == nil {
					orig = g
				} else {
					for i := range g {
						orig[i] |= g[i]
					}
				}
			}
			hexKeys := make([]string, len(keys))
			for i, k := range keys {
				hexKeys[i] = vlib.Hex([]byte(k))
			}
			line = fmt.Sprintf("%s now=%d key=%s mod=%s", strings.Join(w[:6], " "), now, strings.Join(hexKeys, ","), vlib.Hex(mod))
			return "orig=" + vlib.Hex(orig) + " mod=" + s.grants(mod, probes)
		})
		if line == "" {
			return obs
		}
		return line + "\x00" + obs
	case "salts": // salts <lic> <n>: n keys issued by the broker's keygen must not all carry one salt
		return vlib.Guard(func() string {
			s := service(w[1])
			seen := map[uint16]bool{}
			for i := 0; i < atoi(w[2]); i++ {
				k, err := s.b.VerifC12Keygen().DecryptKey(s.issue(fmt.Sprintf("a/%d/|6|0", i), "r"))
				if err != nil {
					return "undecryptable"
				}
				seen[k.Salt()] = true
			}
			if len(seen) <= 1 {
				return "same-salt"
			}
			return "distinct"
		})
	case "shape": // shape <lic> <p> <q>: cipher bytes of EncryptKey(p) XOR cipher bytes of EncryptKey(q)
		return vlib.Guard(func() string {
			s := service(w[1])
			ep, err1 := s.cipher.EncryptKey(security.Key(vlib.UnHex(w[2])))
			eq, err2 := s.cipher.EncryptKey(security.Key(vlib.UnHex(w[3])))
			if err1 != nil || err2 != nil {
				return "err"
			}
			rp, rq := raw(ep), raw(eq)
			for i := range rp {
				rp[i] ^= rq[i]
			}
			return vlib.Hex(rp)
		})
	}
	return "bad-op"
}

func main() { vlib.Run(step) }
