//go:build verif

// Correspondence harness for C16 (MQTT codec), cross-checked with paho.mqtt.golang/packets.
package main

import (
	"bufio"
	"bytes"
	"fmt"
	"runtime"
	"strconv"
	"strings"
	"sync"
	"time"

	"github.com/eclipse/paho.mqtt.golang/packets"
	"github.com/emitter-io/emitter/internal/network/mqtt"
	"github.com/emitter-io/emitter/internal/zverif/vlib"
)

func b01(b bool) string {
	if b {
		return "1"
	}
	return "0"
}
func pb(s string) bool { return s == "1" }
func pu(s string) uint64 {
	v, err := strconv.ParseUint(s, 10, 32)
	if err != nil {
		panic("harness: bad number " + s)
	}
	return v
}

func showSubs(withQos bool, l []mqtt.TopicQOSTuple) string {
	if len(l) == 0 {
		return "none"
	}
	parts := make([]string, len(l))
	for i, t := range l {
		if withQos {
			parts[i] = fmt.Sprintf("%s:%d", vlib.Hex(t.Topic), t.Qos)
		} else {
			parts[i] = vlib.Hex(t.Topic)
		}
	}
	return strings.Join(parts, ",")
}

func parseSubs(withQos bool, s string) []mqtt.TopicQOSTuple {
	if s == "none" {
		return nil
	}
	var out []mqtt.TopicQOSTuple
	for _, e := range strings.Split(s, ",") {
		if withQos {
			p := strings.Split(e, ":")
			out = append(out, mqtt.TopicQOSTuple{Topic: vlib.UnHex(p[0]), Qos: uint8(pu(p[1]))})
		} else {
			out = append(out, mqtt.TopicQOSTuple{Topic: vlib.UnHex(e)})
		}
	}
	return out
}

func hdr(h mqtt.Header) string { return fmt.Sprintf("%s %d %s", b01(h.DUP), h.QOS, b01(h.Retain)) }

func show(m mqtt.Message) string {
	switch p := m.(type) {
	case *mqtt.Connect:
		return fmt.Sprintf("connect %s %d %s %s %s %d %s %s %d %s %s %s %s %s", vlib.Hex(p.ProtoName), p.Version,
			b01(p.UsernameFlag), b01(p.PasswordFlag), b01(p.WillRetainFlag), p.WillQOS, b01(p.WillFlag), b01(p.CleanSeshFlag),
			p.KeepAlive, vlib.Hex(p.ClientID), vlib.Hex(p.WillTopic), vlib.Hex(p.WillMessage), vlib.Hex(p.Username), vlib.Hex(p.Password))
	case *mqtt.Connack:
		return fmt.Sprintf("connack %d", p.ReturnCode)
	case *mqtt.Publish:
		return fmt.Sprintf("publish %s %s %d %s", hdr(p.Header), vlib.Hex(p.Topic), p.MessageID, vlib.Hex(p.Payload))
	case *mqtt.Puback:
		return fmt.Sprintf("puback %d", p.MessageID)
	case *mqtt.Pubrec:
		return fmt.Sprintf("pubrec %d", p.MessageID)
	case *mqtt.Pubrel:
		return fmt.Sprintf("pubrel %s %d", hdr(p.Header), p.MessageID)
	case *mqtt.Pubcomp:
		return fmt.Sprintf("pubcomp %d", p.MessageID)
	case *mqtt.Subscribe:
		return fmt.Sprintf("subscribe %s %d %s", hdr(p.Header), p.MessageID, showSubs(true, p.Subscriptions))
	case *mqtt.Suback:
		return fmt.Sprintf("suback %d %s", p.MessageID, vlib.Hex(p.Qos))
	case *mqtt.Unsubscribe:
		return fmt.Sprintf("unsubscribe %s %d %s", hdr(p.Header), p.MessageID, showSubs(false, p.Topics))
	case *mqtt.Unsuback:
		return fmt.Sprintf("unsuback %d", p.MessageID)
	case *mqtt.Pingreq:
		return "pingreq"
	case *mqtt.Pingresp:
		return "pingresp"
	case *mqtt.Disconnect:
		return "disconnect"
	}
	return "?"
}

func parseHdr(w []string) mqtt.Header {
	return mqtt.Header{DUP: pb(w[0]), QOS: uint8(pu(w[1])), Retain: pb(w[2])}
}

func parse(w []string) mqtt.Message {
	switch w[0] {
	case "connect":
		return &mqtt.Connect{ProtoName: vlib.UnHex(w[1]), Version: uint8(pu(w[2])), UsernameFlag: pb(w[3]), PasswordFlag: pb(w[4]),
			WillRetainFlag: pb(w[5]), WillQOS: uint8(pu(w[6])), WillFlag: pb(w[7]), CleanSeshFlag: pb(w[8]), KeepAlive: uint16(pu(w[9])),
			ClientID: vlib.UnHex(w[10]), WillTopic: vlib.UnHex(w[11]), WillMessage: vlib.UnHex(w[12]), Username: vlib.UnHex(w[13]), Password: vlib.UnHex(w[14])}
	case "connack":
		return &mqtt.Connack{ReturnCode: uint8(pu(w[1]))}
	case "publish":
		return &mqtt.Publish{Header: parseHdr(w[1:4]), Topic: vlib.UnHex(w[4]), MessageID: uint16(pu(w[5])), Payload: vlib.UnHex(w[6])}
	case "puback":
		return &mqtt.Puback{MessageID: uint16(pu(w[1]))}
	case "pubrec":
		return &mqtt.Pubrec{MessageID: uint16(pu(w[1]))}
	case "pubrel":
		return &mqtt.Pubrel{Header: parseHdr(w[1:4]), MessageID: uint16(pu(w[4]))}
	case "pubcomp":
		return &mqtt.Pubcomp{MessageID: uint16(pu(w[1]))}
	case "subscribe":
		return &mqtt.Subscribe{Header: parseHdr(w[1:4]), MessageID: uint16(pu(w[4])), Subscriptions: parseSubs(true, w[5])}
	case "suback":
		return &mqtt.Suback{MessageID: uint16(pu(w[1])), Qos: vlib.UnHex(w[2])}
	case "unsubscribe":
		return &mqtt.Unsubscribe{Header: parseHdr(w[1:4]), MessageID: uint16(pu(w[4])), Topics: parseSubs(false, w[5])}
	case "unsuback":
		return &mqtt.Unsuback{MessageID: uint16(pu(w[1]))}
	case "pingreq":
		return &mqtt.Pingreq{}
	case "pingresp":
		return &mqtt.Pingresp{}
	case "disconnect":
		return &mqtt.Disconnect{}
	}
	panic("harness: bad packet " + w[0])
}

// toPaho converts a broker packet value into the reference implementation's packet value.
func toPaho(m mqtt.Message) packets.ControlPacket {
	fh := func(t byte, h mqtt.Header) packets.FixedHeader {
		return packets.FixedHeader{MessageType: t, Dup: h.DUP, Qos: h.QOS, Retain: h.Retain}
	}
	switch p := m.(type) {
	case *mqtt.Connect:
		return &packets.ConnectPacket{FixedHeader: fh(packets.Connect, mqtt.Header{}), ProtocolName: string(p.ProtoName), ProtocolVersion: p.Version,
			CleanSession: p.CleanSeshFlag, WillFlag: p.WillFlag, WillQos: p.WillQOS, WillRetain: p.WillRetainFlag, UsernameFlag: p.UsernameFlag,
			PasswordFlag: p.PasswordFlag, Keepalive: p.KeepAlive, ClientIdentifier: string(p.ClientID), WillTopic: string(p.WillTopic),
			WillMessage: p.WillMessage, Username: string(p.Username), Password: p.Password}
	case *mqtt.Connack:
		return &packets.ConnackPacket{FixedHeader: fh(packets.Connack, mqtt.Header{}), ReturnCode: p.ReturnCode}
	case *mqtt.Publish:
		return &packets.PublishPacket{FixedHeader: fh(packets.Publish, p.Header), TopicName: string(p.Topic), MessageID: p.MessageID, Payload: p.Payload}
	case *mqtt.Puback:
		return &packets.PubackPacket{FixedHeader: fh(packets.Puback, mqtt.Header{}), MessageID: p.MessageID}
	case *mqtt.Pubrec:
		return &packets.PubrecPacket{FixedHeader: fh(packets.Pubrec, mqtt.Header{}), MessageID: p.MessageID}
	case *mqtt.Pubrel:
		return &packets.PubrelPacket{FixedHeader: fh(packets.Pubrel, p.Header), MessageID: p.MessageID}
	case *mqtt.Pubcomp:
		return &packets.PubcompPacket{FixedHeader: fh(packets.Pubcomp, mqtt.Header{}), MessageID: p.MessageID}
	case *mqtt.Subscribe:
		s := &packets.SubscribePacket{FixedHeader: fh(packets.Subscribe, p.Header), MessageID: p.MessageID}
		for _, t := range p.Subscriptions {
			s.Topics = append(s.Topics, string(t.Topic))
			s.Qoss = append(s.Qoss, t.Qos)
		}
		return s
	case *mqtt.Suback:
		return &packets.SubackPacket{FixedHeader: fh(packets.Suback, mqtt.Header{}), MessageID: p.MessageID, ReturnCodes: p.Qos}
	case *mqtt.Unsubscribe:
		s := &packets.UnsubscribePacket{FixedHeader: fh(packets.Unsubscribe, p.Header), MessageID: p.MessageID}
		for _, t := range p.Topics {
			s.Topics = append(s.Topics, string(t.Topic))
		}
		return s
	case *mqtt.Unsuback:
		return &packets.UnsubackPacket{FixedHeader: fh(packets.Unsuback, mqtt.Header{}), MessageID: p.MessageID}
	case *mqtt.Pingreq:
		return &packets.PingreqPacket{FixedHeader: fh(packets.Pingreq, mqtt.Header{})}
	case *mqtt.Pingresp:
		return &packets.PingrespPacket{FixedHeader: fh(packets.Pingresp, mqtt.Header{})}
	case *mqtt.Disconnect:
		return &packets.DisconnectPacket{FixedHeader: fh(packets.Disconnect, mqtt.Header{})}
	}
	panic("harness: toPaho")
}

// fromPaho renders the reference implementation's packet in the canonical form.
func fromPaho(c packets.ControlPacket) string {
	h := func(f packets.FixedHeader) mqtt.Header { return mqtt.Header{DUP: f.Dup, QOS: f.Qos, Retain: f.Retain} }
	switch p := c.(type) {
	case *packets.ConnectPacket:
		return show(&mqtt.Connect{ProtoName: []byte(p.ProtocolName), Version: p.ProtocolVersion, UsernameFlag: p.UsernameFlag, PasswordFlag: p.PasswordFlag,
			WillRetainFlag: p.WillRetain, WillQOS: p.WillQos, WillFlag: p.WillFlag, CleanSeshFlag: p.CleanSession, KeepAlive: p.Keepalive,
			ClientID: []byte(p.ClientIdentifier), WillTopic: []byte(p.WillTopic), WillMessage: p.WillMessage, Username: []byte(p.Username), Password: p.Password})
	case *packets.ConnackPacket:
		return show(&mqtt.Connack{ReturnCode: p.ReturnCode})
	case *packets.PublishPacket:
		return show(&mqtt.Publish{Header: h(p.FixedHeader), Topic: []byte(p.TopicName), MessageID: p.MessageID, Payload: p.Payload})
	case *packets.PubackPacket:
		return show(&mqtt.Puback{MessageID: p.MessageID})
	case *packets.PubrecPacket:
		return show(&mqtt.Pubrec{MessageID: p.MessageID})
	case *packets.PubrelPacket:
		return show(&mqtt.Pubrel{Header: h(p.FixedHeader), MessageID: p.MessageID})
	case *packets.PubcompPacket:
		return show(&mqtt.Pubcomp{MessageID: p.MessageID})
	case *packets.SubscribePacket:
		s := &mqtt.Subscribe{Header: h(p.FixedHeader), MessageID: p.MessageID}
		for i, t := range p.Topics {
			s.Subscriptions = append(s.Subscriptions, mqtt.TopicQOSTuple{Topic: []byte(t), Qos: p.Qoss[i]})
		}
		return show(s)
	case *packets.SubackPacket:
		return show(&mqtt.Suback{MessageID: p.MessageID, Qos: p.ReturnCodes})
	case *packets.UnsubscribePacket:
		s := &mqtt.Unsubscribe{Header: h(p.FixedHeader), MessageID: p.MessageID}
		for _, t := range p.Topics {
			s.Topics = append(s.Topics, mqtt.TopicQOSTuple{Topic: []byte(t)})
		}
		return show(s)
	case *packets.UnsubackPacket:
		return show(&mqtt.Unsuback{MessageID: p.MessageID})
	case *packets.PingreqPacket:
		return "pingreq"
	case *packets.PingrespPacket:
		return "pingresp"
	case *packets.DisconnectPacket:
		return "disconnect"
	}
	return "?"
}

func step(w []string, _ string) string {
	return vlib.Guard(func() string {
		switch w[0] {
		case "enc":
			var buf bytes.Buffer
			if _, err := parse(w[1:]).EncodeTo(&buf); err != nil {
				return "err"
			}
			return "ok " + vlib.Hex(buf.Bytes())
		case "dec":
			max := int64(pu(w[1]))
			data := vlib.UnHex(w[2])
			rd := bufio.NewReaderSize(bytes.NewReader(data), 65536)
			m, err := mqtt.DecodePacket(rd, max)
			if err != nil {
				return "err"
			}
			rest := rd.Buffered()
			return fmt.Sprintf("ok %s rest=%d", show(m), rest+remaining(rd))
		case "refdec":
			var buf bytes.Buffer
			if _, err := parse(w[1:]).EncodeTo(&buf); err != nil {
				return "err"
			}
			rd := bytes.NewReader(buf.Bytes())
			cp, err := packets.ReadPacket(rd)
			if err != nil {
				return "ref-err"
			}
			return fmt.Sprintf("ok %s rest=%d", fromPaho(cp), rd.Len())
		case "conc":
			// conc <goroutines> <rounds> <payload size>: the broker encodes packets for many connections at
			// once (one goroutine per publisher, EncodeTo straight into the subscriber's socket). Every
			// goroutine encodes its own PUBLISH again and again into a writer that takes the frame in two
			// halves with a reschedule in between (a socket that accepts part of the data first); what
			// each writer received must be the sequential encoding of that goroutine's packet.
			g, rounds, size := int(pu(w[1])), int(pu(w[2])), int(pu(w[3]))
			bad := make(chan string, g)
			var wg sync.WaitGroup
			for i := 0; i < g; i++ {
				wg.Add(1)
				go func(i int) {
					defer wg.Done()
					pk := &mqtt.Publish{Header: mqtt.Header{QOS: uint8(i % 2)}, Topic: []byte(fmt.Sprintf("t/%d/", i)), MessageID: uint16(256*i + 7),
						Payload: bytes.Repeat([]byte{byte('a' + i%26)}, size+i)}
					var ref bytes.Buffer
					pk.EncodeTo(&ref)
					for r := 0; r < rounds; r++ {
						sw := &slowWriter{}
						if _, err := pk.EncodeTo(sw); err != nil || !bytes.Equal(sw.buf, ref.Bytes()) {
							select {
							case bad <- fmt.Sprintf("corrupt goroutine=%d round=%d", i, r):
							default:
							}
							return
						}
					}
				}(i)
			}
			wg.Wait()
			select {
			case m := <-bad:
				return m
			default:
				return "ok"
			}
		case "refenc":
			var buf bytes.Buffer
			if err := toPaho(parse(w[1:])).Write(&buf); err != nil {
				return "ref-err"
			}
			rd := bufio.NewReaderSize(bytes.NewReader(buf.Bytes()), 65536)
			m, err := mqtt.DecodePacket(rd, mqtt.MaxMessageSize)
			if err != nil {
				return "err"
			}
			return fmt.Sprintf("ok %s rest=%d", show(m), rd.Buffered()+remaining(rd))
		}
		return "bad-op"
	})
}

// slowWriter copies what it is given in two halves and lets other goroutines run in between.
type slowWriter struct{ buf []byte }

func (s *slowWriter) Write(p []byte) (int, error) {
	h := len(p) / 2
	s.buf = append(s.buf, p[:h]...)
	runtime.Gosched()
	time.Sleep(20 * time.Microsecond)
	s.buf = append(s.buf, p[h:]...)
	return len(p), nil
}

// remaining counts the bytes not yet pulled into the bufio buffer.
func remaining(rd *bufio.Reader) int {
	n := 0
	buf := make([]byte, 4096)
	// Buffered bytes were already counted by the caller; discard them first
	rd.Discard(rd.Buffered())
	for {
		k, err := rd.Read(buf)
		n += k
		if err != nil {
			return n
		}
	}
}

func main() { vlib.Run(step) }
