//go:build verif

// Correspondence harness for C19 (message ids, message/frame codec, Frame.Split, peer send queue).
package main

import (
	"bytes"
	"fmt"
	"sort"
	"strconv"
	"strings"
	"sync"

	"github.com/emitter-io/emitter/internal/message"
	"github.com/emitter-io/emitter/internal/service/cluster"
	"github.com/emitter-io/emitter/internal/zverif/vlib"
	"github.com/golang/snappy"
	"github.com/weaveworks/mesh"
)

func parseSsid(s string) message.Ssid {
	if s == "none" {
		return message.Ssid{}
	}
	var out message.Ssid
	for _, w := range strings.Split(s, ",") {
		v, err := strconv.ParseUint(w, 10, 32)
		if err != nil {
			panic("harness: bad ssid")
		}
		out = append(out, uint32(v))
	}
	return out
}

func showSsid(s message.Ssid) string {
	if len(s) == 0 {
		return "none"
	}
	p := make([]string, len(s))
	for i, w := range s {
		p[i] = strconv.FormatUint(uint64(w), 10)
	}
	return strings.Join(p, ",")
}

func showMsg(m message.Message) string {
	return fmt.Sprintf("%s:%s:%s:%d", vlib.Hex(m.ID), vlib.Hex(m.Channel), vlib.Hex(m.Payload), m.TTL)
}

func parseMsg(s string) message.Message {
	p := strings.Split(s, ":")
	ttl, _ := strconv.ParseUint(p[3], 10, 32)
	return message.Message{ID: vlib.UnHex(p[0]), Channel: vlib.UnHex(p[1]), Payload: vlib.UnHex(p[2]), TTL: uint32(ttl)}
}

func showMsgs(f message.Frame) string {
	if len(f) == 0 {
		return "none"
	}
	p := make([]string, len(f))
	for i, m := range f {
		p[i] = showMsg(m)
	}
	return strings.Join(p, ",")
}

// fakeSender records what the peer hands to the transport.
type fakeSender struct {
	sync.Mutex
	frames [][]byte
}

func (f *fakeSender) GossipUnicast(dst mesh.PeerName, msg []byte) error {
	f.Lock()
	f.frames = append(f.frames, append([]byte{}, msg...))
	f.Unlock()
	return nil
}
func (f *fakeSender) GossipBroadcast(update mesh.GossipData)       {}
func (f *fakeSender) GossipNeighbourSubset(update mesh.GossipData) {}

func (f *fakeSender) take() [][]byte {
	f.Lock()
	defer f.Unlock()
	out := f.frames
	f.frames = nil
	return out
}

// hookSender is a transport whose first unicast runs a callback before it returns.
type hookSender struct {
	fakeSender
	once   sync.Once
	during func()
}

func (h *hookSender) GossipUnicast(dst mesh.PeerName, msg []byte) error {
	h.fakeSender.GossipUnicast(dst, msg)
	h.once.Do(func() {
		if h.during != nil {
			h.during()
		}
	})
	return nil
}

func mkMsg(tag, size int) *message.Message {
	return &message.Message{Payload: bytes.Repeat([]byte{byte(tag)}, size), TTL: uint32(tag)}
}

var (
	sender = &fakeSender{}
	peer   = cluster.VerifNewPeer(sender, 1)
)

func chunks(frames [][]byte) string {
	if len(frames) == 0 {
		return "none"
	}
	var parts []string
	for _, fr := range frames {
		f, err := message.DecodeFrame(fr)
		if err != nil {
			parts = append(parts, "undecodable")
			continue
		}
		tags := make([]string, len(f))
		for i, m := range f {
			tags[i] = strconv.FormatUint(uint64(m.TTL), 10)
		}
		parts = append(parts, strings.Join(tags, ","))
	}
	return strings.Join(parts, "|")
}

func step(w []string, line string) string {
	return vlib.Guard(func() string {
		switch w[0] {
		case "id":
			ssid := parseSsid(w[1])
			id, unix, seq, uniq := message.VerifNewID(ssid)
			newLine := fmt.Sprintf("id %s unix=%d seq=%d uniq=%d", w[1], unix, seq, uniq)
			return newLine + "\x00" + fmt.Sprintf("%s time=%d contract=%d ssid=%s", vlib.Hex(id), id.Time(), id.Contract(), showSsid(id.Ssid()))
		case "idwrap":
			ssid := parseSsid(w[1])
			n, _ := strconv.Atoi(w[2])
			v, _ := strconv.ParseUint(w[3], 10, 32)
			for {
				message.VerifSetNext(uint32(v))
				ids := make([]message.ID, n)
				for i := range ids {
					ids[i] = message.NewID(ssid)
				}
				if ids[0].Time() != ids[n-1].Time() {
					continue // the second ticked over: retry
				}
				order, distinct := "desc", "distinct"
				for i := 1; i < n; i++ {
					if bytes.Compare(ids[i], ids[i-1]) >= 0 {
						order = "not-descending"
					}
					for j := 0; j < i; j++ {
						if bytes.Equal(ids[i], ids[j]) {
							distinct = "duplicate"
						}
					}
				}
				return order + " " + distinct
			}
		case "idseq":
			ssid := parseSsid(w[1])
			n, _ := strconv.Atoi(w[2])
			var prev message.ID
			seen := map[string]bool{}
			for i := 0; i < n; i++ {
				id := message.NewID(ssid)
				if seen[string(id)] {
					return "duplicate"
				}
				seen[string(id)] = true
				if prev != nil && id.Time() == prev.Time() && bytes.Compare(id, prev) >= 0 {
					return "not-descending"
				}
				if prev != nil && id.Time() > prev.Time() && bytes.Compare(id, prev) >= 0 {
					return "not-descending"
				}
				prev = id
			}
			return "desc distinct"
		case "idconc":
			g, _ := strconv.Atoi(w[1])
			per, _ := strconv.Atoi(w[2])
			ssid := message.Ssid{1, 2, 3}
			out := make([][]string, g)
			var wg sync.WaitGroup
			for i := 0; i < g; i++ {
				wg.Add(1)
				go func(i int) {
					defer wg.Done()
					ids := make([]string, per)
					for j := range ids {
						ids[j] = string(message.NewID(ssid))
					}
					out[i] = ids
				}(i)
			}
			wg.Wait()
			all := []string{}
			for _, o := range out {
				all = append(all, o...)
			}
			sort.Strings(all)
			dups := 0
			for i := 1; i < len(all); i++ {
				if all[i] == all[i-1] {
					dups++
				}
			}
			return fmt.Sprintf("dups=%d", dups)
		case "settime":
			id := message.ID(vlib.UnHex(w[1]))
			t, _ := strconv.ParseInt(w[2], 10, 64)
			id.SetTime(t)
			return fmt.Sprintf("%s time=%d", vlib.Hex(id), id.Time())
		case "msg":
			m := parseMsg(w[1])
			enc := m.Encode()
			inner, err := snappy.Decode(nil, enc)
			if err != nil {
				return "snappy-err"
			}
			back, err := message.DecodeMessage(enc)
			if err != nil {
				return vlib.Hex(inner) + " err"
			}
			return vlib.Hex(inner) + " ok " + showMsg(back) + " rest=0"
		case "frame":
			var f message.Frame
			if w[1] != "none" {
				for _, s := range strings.Split(w[1], ",") {
					f = append(f, parseMsg(s))
				}
			}
			enc := f.Encode()
			inner, err := snappy.Decode(nil, enc)
			if err != nil {
				return "snappy-err"
			}
			back, err := message.DecodeFrame(enc)
			if err != nil {
				return vlib.Hex(inner) + " err"
			}
			return vlib.Hex(inner) + " ok " + showMsgs(back)
		case "split":
			max, _ := strconv.Atoi(w[1])
			var f message.Frame
			for _, s := range w[2:] {
				n, _ := strconv.Atoi(s)
				f = append(f, *mkMsg(0, n))
			}
			h, t := f.Split(max)
			return fmt.Sprintf("head=%d tail=%d", len(h), len(t))
		case "reset":
			sender = &fakeSender{}
			peer = cluster.VerifNewPeer(sender, 1)
			return "ok"
		case "psend":
			tag, _ := strconv.Atoi(w[2])
			size, _ := strconv.Atoi(w[3])
			peer.VerifSetActive(w[1] == "1")
			peer.Send(mkMsg(tag, size))
			return fmt.Sprintf("queued=%d", peer.VerifQueued())
		case "pflush":
			peer.VerifFlush()
			return fmt.Sprintf("sent=%s queued=%d", chunks(sender.take()), peer.VerifQueued())
		case "pduring":
			// pduring <k>: a message handed to the peer WHILE a flush is writing a frame to the transport (the
			// transport's callback does the Send), then k further flushes with no other traffic: the late message
			// must reach the transport once, after the first
			k, _ := strconv.Atoi(w[1])
			hs := &hookSender{}
			p := cluster.VerifNewPeer(hs, 3)
			hs.during = func() { p.Send(mkMsg(2, 5)) }
			p.Send(mkMsg(1, 5))
			p.VerifFlush()
			for i := 0; i < k; i++ {
				p.VerifFlush()
			}
			var ttls []string
			for _, fr := range hs.take() {
				f, err := message.DecodeFrame(fr)
				if err != nil {
					return "undecodable"
				}
				for _, m := range f {
					ttls = append(ttls, strconv.Itoa(int(m.TTL)))
				}
			}
			return "sent=" + strings.Join(ttls, ",") + fmt.Sprintf(" queued=%d", p.VerifQueued())
		case "pconc":
			// concurrent senders against a concurrently running flusher: every message must
			// reach the transport exactly once and each sender's messages in order
			g, _ := strconv.Atoi(w[1])
			per, _ := strconv.Atoi(w[2])
			s := &fakeSender{}
			p := cluster.VerifNewPeer(s, 2)
			stop := make(chan struct{})
			var fw sync.WaitGroup
			fw.Add(1)
			go func() {
				defer fw.Done()
				for {
					select {
					case <-stop:
						return
					default:
						p.VerifFlush()
					}
				}
			}()
			var wg sync.WaitGroup
			for i := 0; i < g; i++ {
				wg.Add(1)
				go func(i int) {
					defer wg.Done()
					for j := 0; j < per; j++ {
						p.Send(&message.Message{Channel: []byte{byte(i)}, TTL: uint32(j + 1), Payload: []byte("x")})
					}
				}(i)
			}
			wg.Wait()
			close(stop)
			fw.Wait()
			p.VerifFlush()
			next := make([]uint32, g)
			total := 0
			for _, fr := range s.take() {
				f, err := message.DecodeFrame(fr)
				if err != nil {
					return "undecodable"
				}
				for _, m := range f {
					i := int(m.Channel[0])
					if m.TTL != next[i]+1 {
						return fmt.Sprintf("sender %d: got %d after %d", i, m.TTL, next[i])
					}
					next[i] = m.TTL
					total++
				}
			}
			if total != g*per {
				return fmt.Sprintf("lost %d", g*per-total)
			}
			return "ok"
		}
		return "bad-op"
	})
}

func main() { vlib.Run(step) }
