//go:build verif

// Correspondence harness for C10 (concurrent delivery keeps framing and per-publisher order).
//
// Two kinds of operation lines:
//
//	run plain|ws rate= pubs= per= procs= seed= big= flush=
//	    a stress run: real listener.Conn (with its timer) or the real WebSocket transport over a
//	    fake socket that serialises Write calls and delays them pseudo-randomly; the observable is
//	    the raw byte stream the subscriber side received (decoded and judged by the Lean driver).
//
//	reset plain|ws / tokens n / hold / open / w t seq size / flush t / release t
//	    a scripted schedule: the fake socket parks every Write at a gate and the script releases
//	    them one by one, the limiter is pinned, there is no timer; every line reports the stream,
//	    the queue length and which calls are parked / waiting for the lock.
package main

import (
	"errors"
	"fmt"
	"io"
	"net"
	"runtime"
	"sort"
	"strconv"
	"strings"
	"sync"
	"sync/atomic"
	"time"

	"github.com/emitter-io/emitter/internal/network/listener"
	"github.com/emitter-io/emitter/internal/network/mqtt"
	"github.com/emitter-io/emitter/internal/network/websocket"
	"github.com/emitter-io/emitter/internal/zverif/vlib"
)

// ------------------------------------------------------------------ fake socket

type parkedWrite struct {
	rel chan struct{}
}

// gate is the fake socket: one Write call is atomic (as the fd write lock of a TCP socket
// makes it), but when it takes effect is decided by the schedule.
type gate struct {
	mu       sync.Mutex
	hold     bool
	stream   []byte
	frames   [][]byte
	writes   int
	arrivals chan *parkedWrite
	jitter   uint64 // xorshift state; 0 = no jitter
}

func newGate(seed uint64) *gate {
	return &gate{arrivals: make(chan *parkedWrite, 256), jitter: seed}
}

// pause parks the caller while the gate is closed, or delays it pseudo-randomly in a stress run.
func (g *gate) pause() {
	g.mu.Lock()
	hold := g.hold
	var r uint64
	if g.jitter != 0 {
		g.jitter ^= g.jitter << 13
		g.jitter ^= g.jitter >> 7
		g.jitter ^= g.jitter << 17
		r = g.jitter
	}
	g.mu.Unlock()
	if hold {
		pw := &parkedWrite{rel: make(chan struct{})}
		g.arrivals <- pw
		<-pw.rel
		return
	}
	switch r % 16 {
	case 1, 2, 3, 4:
		runtime.Gosched()
	case 5:
		for i := 0; i < int(r>>8%4)+1; i++ {
			runtime.Gosched()
		}
	case 6:
		time.Sleep(time.Duration(r>>8%40) * time.Microsecond)
	}
}

func (g *gate) Write(p []byte) (int, error) {
	g.pause()
	g.mu.Lock()
	g.stream = append(g.stream, p...) // the bytes are read when the write takes effect
	g.writes++
	g.mu.Unlock()
	return len(p), nil
}

func (g *gate) Read(p []byte) (int, error)       { return 0, io.EOF }
func (g *gate) Close() error                     { return nil }
func (g *gate) LocalAddr() net.Addr              { return &net.TCPAddr{} }
func (g *gate) RemoteAddr() net.Addr             { return &net.TCPAddr{} }
func (g *gate) SetDeadline(time.Time) error      { return nil }
func (g *gate) SetReadDeadline(time.Time) error  { return nil }
func (g *gate) SetWriteDeadline(time.Time) error { return nil }

func (g *gate) snapshot() []byte {
	g.mu.Lock()
	defer g.mu.Unlock()
	return append([]byte(nil), g.stream...)
}

// fakeWS is the frame sink below the WebSocket transport.  gorilla/websocket allows one open
// writer at a time; a second NextWriter before Close is counted as an overlap.
type fakeWS struct {
	g       *gate
	open    int32
	overlap int32
}

type wsWriter struct {
	ws  *fakeWS
	buf []byte
}

func (f *fakeWS) NextReader() (int, io.Reader, error) { return 0, nil, errors.New("closed") }
func (f *fakeWS) NextWriter(int) (io.WriteCloser, error) {
	if atomic.AddInt32(&f.open, 1) > 1 {
		atomic.AddInt32(&f.overlap, 1)
	}
	return &wsWriter{ws: f}, nil
}
func (f *fakeWS) Close() error                     { return nil }
func (f *fakeWS) LocalAddr() net.Addr              { return &net.TCPAddr{} }
func (f *fakeWS) RemoteAddr() net.Addr             { return &net.TCPAddr{} }
func (f *fakeWS) SetReadDeadline(time.Time) error  { return nil }
func (f *fakeWS) SetWriteDeadline(time.Time) error { return nil }

func (w *wsWriter) Write(p []byte) (int, error) {
	w.ws.g.pause()
	w.buf = append(w.buf, p...)
	return len(p), nil
}

func (w *wsWriter) Close() error {
	g := w.ws.g
	g.mu.Lock()
	g.frames = append(g.frames, w.buf)
	g.stream = append(g.stream, w.buf...)
	g.writes++
	g.mu.Unlock()
	atomic.AddInt32(&w.ws.open, -1)
	return nil
}

// ------------------------------------------------------------------ packets

func payload(t, seq, size int) []byte {
	return append([]byte(fmt.Sprintf("%d:%d:", t, seq)), []byte(strings.Repeat("x", size))...)
}

func publish(w io.Writer, t, seq, size int) {
	p := mqtt.Publish{Header: mqtt.Header{QOS: 0}, Topic: []byte("c"), Payload: payload(t, seq, size)}
	p.EncodeTo(w)
}

// ------------------------------------------------------------------ stress run

func kvInt(words []string, key string, def int) int {
	for _, w := range words {
		if strings.HasPrefix(w, key+"=") {
			v, err := strconv.Atoi(w[len(key)+1:])
			if err == nil {
				return v
			}
		}
	}
	return def
}

func stress(words []string) string {
	tr := words[1]
	rate := kvInt(words, "rate", 60)
	pubs := kvInt(words, "pubs", 2)
	per := kvInt(words, "per", 10)
	procs := kvInt(words, "procs", 4)
	seed := kvInt(words, "seed", 1)
	big := kvInt(words, "big", 0)
	flusher := kvInt(words, "flush", 1)

	old := runtime.GOMAXPROCS(procs)
	defer runtime.GOMAXPROCS(old)

	g := newGate(uint64(seed)*2654435761 + 88172645463325252)
	fw := &fakeWS{g: g}
	var w io.Writer
	var conn *listener.Conn
	if tr == "ws" {
		w = websocket.VerifC10NewTransport(fw)
	} else {
		conn = listener.VerifC10NewConn(g, rate)
		w = conn
	}

	stop := make(chan struct{})
	var fwg sync.WaitGroup
	if conn != nil && flusher > 0 {
		fwg.Add(1)
		go func() {
			defer fwg.Done()
			for i := 0; ; i++ {
				select {
				case <-stop:
					return
				default:
				}
				conn.Flush()
				if i%3 == 0 {
					time.Sleep(time.Duration(20+i%7*30) * time.Microsecond)
				} else {
					runtime.Gosched()
				}
			}
		}()
	}
	var wg sync.WaitGroup
	start := make(chan struct{})
	for t := 0; t < pubs; t++ {
		wg.Add(1)
		go func(t int) {
			defer wg.Done()
			<-start
			for seq := 1; seq <= per; seq++ {
				size := (t*7 + seq*13) % 48
				if big > 0 && seq%big == 0 {
					// large payloads of several magnitudes (an encoder may treat them differently from small ones)
					bigs := []int{3000, 4096, 5000, 9000, 20000, 45000}
					size = bigs[(seq/big)%len(bigs)] + t
				}
				publish(w, t, seq, size)
				if (seq+t)%5 == 0 {
					runtime.Gosched()
				}
			}
		}(t)
	}
	close(start)
	wg.Wait()
	close(stop)
	fwg.Wait()
	frames := "-"
	if conn != nil {
		conn.Flush() // "one more flush has run"
		conn.Close()
	} else {
		frames = strconv.Itoa(len(g.frames))
	}
	return fmt.Sprintf("stream=%s frames=%s overlap=%d sockwrites=%d", vlib.Hex(g.snapshot()), frames,
		atomic.LoadInt32(&fw.overlap), g.writes)
}

// ------------------------------------------------------------------ scripted schedule

type gor struct {
	tid  int
	done chan struct{}
	pw   *parkedWrite
}

type session struct {
	ws      bool
	g       *gate
	fw      *fakeWS
	conn    *listener.Conn
	w       io.Writer
	parked  map[int]*gor
	holder  *gor
	blocked *gor
	dead    bool // a call that had to make progress did not: the rest of the script is void
}

const (
	shortWait = 40 * time.Millisecond // a call expected to wait for the lock: how long to watch it
	longWait  = 8 * time.Second       // a call expected to make progress
)

func newSession(ws bool) *session {
	s := &session{ws: ws, g: newGate(0), parked: map[int]*gor{}}
	s.fw = &fakeWS{g: s.g}
	if ws {
		s.w = websocket.VerifC10NewTransport(s.fw)
	} else {
		s.conn = listener.VerifC10NewScripted(s.g, 1000)
		s.w = s.conn
	}
	return s
}

// abandon lets every goroutine of a finished session run to completion.
func (s *session) abandon() {
	s.g.mu.Lock()
	s.g.hold = false
	s.g.mu.Unlock()
	for _, p := range s.parked {
		close(p.pw.rel)
	}
	for {
		select {
		case pw := <-s.g.arrivals:
			close(pw.rel)
		default:
			return
		}
	}
}

func (s *session) lockBusy() bool {
	if s.ws {
		return true // a parked WebSocket write sits inside the transport mutex
	}
	return !s.conn.VerifC10LockFree()
}

// settle watches a running call until it returns, parks at the gate, or (when a parked call
// holds the lock) has visibly not moved.
func (s *session) settle(gr *gor) string {
	wait := long()
	if s.holder != nil {
		wait = shortWait
	}
	select {
	case <-gr.done:
	case pw := <-s.g.arrivals:
		gr.pw = pw
		s.parked[gr.tid] = gr
		if s.holder == nil && s.lockBusy() {
			s.holder = gr
		}
	case <-time.After(wait):
		if s.holder == nil {
			return "stuck"
		}
		s.blocked = gr
	}
	return ""
}

func (s *session) launch(tid int, f func()) string {
	gr := &gor{tid: tid, done: make(chan struct{})}
	go func() {
		f()
		close(gr.done)
	}()
	return s.settle(gr)
}

func (s *session) busy(tid int) bool {
	if _, ok := s.parked[tid]; ok {
		return true
	}
	if s.blocked != nil && s.blocked.tid == tid {
		return true
	}
	return s.holder != nil && s.blocked != nil
}

func (s *session) render() string {
	var stream, q string
	if s.ws {
		s.g.mu.Lock()
		fr := make([]string, len(s.g.frames))
		for i, f := range s.g.frames {
			fr[i] = vlib.Hex(f)
		}
		s.g.mu.Unlock()
		stream = "-"
		if len(fr) > 0 {
			stream = strings.Join(fr, ",")
		}
		q = "-"
	} else {
		stream = vlib.Hex(s.g.snapshot())
		if s.holder != nil {
			q = "?"
		} else {
			q = strconv.Itoa(s.conn.Len())
		}
	}
	var pk []int
	for t := range s.parked {
		pk = append(pk, t)
	}
	sort.Ints(pk)
	ps := "-"
	if len(pk) > 0 {
		x := make([]string, len(pk))
		for i, t := range pk {
			x[i] = strconv.Itoa(t)
		}
		ps = strings.Join(x, ",")
	}
	bs := "-"
	if s.blocked != nil {
		bs = strconv.Itoa(s.blocked.tid)
	}
	out := fmt.Sprintf("stream=%s q=%s parked=%s blocked=%s", stream, q, ps, bs)
	if n := atomic.LoadInt32(&s.fw.overlap); n > 0 {
		out += fmt.Sprintf(" overlapping-writers=%d", n)
	}
	return out
}

// once a few scripts have hung, further hangs are only watched briefly (keeps a run against a
// broken tree short; the first hangs are already reported)
var stuckSeen int

func long() time.Duration {
	if stuckSeen >= 3 {
		return 300 * time.Millisecond
	}
	return longWait
}

func (s *session) step(w []string) string {
	if s.dead {
		return "stuck"
	}
	r := s.step1(w)
	if r == "stuck" {
		s.dead = true
		stuckSeen++
	}
	return r
}

func (s *session) step1(w []string) string {
	switch w[0] {
	case "tokens":
		if s.blocked != nil {
			return "skip"
		}
		n, _ := strconv.Atoi(w[1])
		if s.conn != nil {
			s.conn.VerifC10SetTokens(n)
		}
		return "ok"
	case "hold":
		if s.blocked != nil {
			return "skip"
		}
		s.g.mu.Lock()
		s.g.hold = true
		s.g.mu.Unlock()
		return "ok"
	case "open":
		if len(s.parked) > 0 {
			return "skip"
		}
		s.g.mu.Lock()
		s.g.hold = false
		s.g.mu.Unlock()
		return "ok"
	case "w":
		t, _ := strconv.Atoi(w[1])
		seq, _ := strconv.Atoi(w[2])
		size, _ := strconv.Atoi(w[3])
		if s.busy(t) {
			return "skip"
		}
		if r := s.launch(t, func() { publish(s.w, t, seq, size) }); r != "" {
			return r
		}
		return s.render()
	case "flush":
		t, _ := strconv.Atoi(w[1])
		if s.ws || s.busy(t) {
			return "skip"
		}
		if r := s.launch(t, func() { s.conn.Flush() }); r != "" {
			return r
		}
		return s.render()
	case "release":
		t, _ := strconv.Atoi(w[1])
		gr, ok := s.parked[t]
		if !ok {
			return "skip"
		}
		delete(s.parked, t)
		wasHolder := s.holder == gr
		if wasHolder {
			s.holder = nil
		}
		close(gr.pw.rel)
		select {
		case <-gr.done:
		case <-time.After(long()):
			return "stuck"
		}
		if b := s.blocked; wasHolder && b != nil {
			s.blocked = nil
			if r := s.settle(b); r != "" {
				return r
			}
		}
		return s.render()
	}
	return "bad-op"
}

func main() {
	var s *session
	vlib.Run(func(w []string, line string) string {
		return vlib.Guard(func() string {
			switch w[0] {
			case "run":
				return stress(w)
			case "reset":
				if s != nil {
					s.abandon()
				}
				s = newSession(len(w) > 1 && w[1] == "ws")
				return "ok"
			}
			if s == nil {
				s = newSession(false) // a script without a reset line runs on a fresh plain connection
			}
			return s.step(w)
		})
	})
}
