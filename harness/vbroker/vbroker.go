//go:build verif

// Package vbroker is the in-process broker scaffold shared by the broker-level harnesses:
// a real broker.Service without listeners, clients attached over net.Pipe, every client
// drained by a reader goroutine into a packet buffer.
package vbroker

import (
	"bufio"
	"bytes"
	"encoding/base64"
	"errors"
	"fmt"
	"io"
	"net"
	"os"
	"strings"
	"sync"
	"sync/atomic"
	"time"

	"github.com/emitter-io/emitter/internal/broker"
	"github.com/emitter-io/emitter/internal/network/mqtt"
	"github.com/emitter-io/emitter/internal/security"
	"github.com/emitter-io/emitter/internal/security/license"
	"github.com/emitter-io/emitter/internal/zverif/vlib"
)

// LicenseFor builds the license string of the given version from explicit key material.
// spec is the cipher spec of the op lines: x:<key16> | s:<key32>:<nonce24> | h:<key32>:<nonce16>
func LicenseFor(spec string, contract, sign uint32) string {
	p := strings.Split(spec, ":")
	switch p[0] {
	case "x":
		l := license.NewV1()
		l.EncryptionKey = base64.RawURLEncoding.EncodeToString(vlib.UnHex(p[1]))
		l.User, l.Sign = contract, sign
		return l.String()
	case "s":
		l := license.NewV2()
		l.EncryptionKey, l.EncryptionSalt = vlib.UnHex(p[1]), vlib.UnHex(p[2])
		l.User, l.Sign, l.Index = contract, sign, 1
		return l.String()
	case "h":
		l := license.NewV3()
		l.EncryptionKey, l.EncryptionSalt = vlib.UnHex(p[1]), vlib.UnHex(p[2])
		l.User, l.Sign, l.Index = contract, sign, 1
		return l.String()
	}
	panic("harness: bad cipher spec")
}

// Broker wraps a service and its attached clients.
type Broker struct {
	Svc     *broker.Service
	Cipher  license.Cipher
	dir     string
	lic     string
	matcher string
	node    string
	store   string
	Clients map[string]*Client
	// Buffered: connections attached from now on use buffered in-memory pipes (writes never block, as on
	// a TCP socket with free buffer space) instead of the synchronous net.Pipe
	Buffered bool
}

// New starts a broker. storeName "" = in-memory history.
func New(lic, matcher, node, storeName string) *Broker {
	dir, err := os.MkdirTemp("", "vbroker")
	if err != nil {
		panic(err)
	}
	if storeName == "" {
		storeName = "inmemory"
	}
	svc, err := broker.VerifNewBroker(lic, matcher, dir, node, storeName, dir+"/store")
	if err != nil {
		panic(err)
	}
	c, err := svc.License.Cipher()
	if err != nil {
		panic(err)
	}
	return &Broker{Svc: svc, Cipher: c, dir: dir, lic: lic, matcher: matcher, node: node, store: storeName, Clients: map[string]*Client{}}
}

// Restart closes the service (all connections are dropped first) and creates a new one on
// the same state directory.
func (b *Broker) Restart() {
	b.stop()
	svc, err := broker.VerifNewBroker(b.lic, b.matcher, b.dir, b.node, b.store, b.dir+"/store")
	if err != nil {
		panic(err)
	}
	b.Svc = svc
	b.Clients = map[string]*Client{}
}

// Close stops the broker and removes its directory.
func (b *Broker) Close() {
	b.stop()
	os.RemoveAll(b.dir)
}

func (b *Broker) stop() {
	for _, c := range b.Clients {
		c.conn.Close()
	}
	// let every connection goroutine finish its Close() (unsubscribes, last will) before the
	// cluster state and the store go away underneath it
	for _, c := range b.Clients {
		c.WaitClosed()
	}
	b.Settle()
	b.Svc.Close()
	b.Svc.VerifRelease()
}

// MintKey encrypts a key built from explicit fields.
func (b *Broker) MintKey(salt, master uint16, contract, sign uint32, perms uint8, target string, expires time.Time) string {
	k := security.Key(make([]byte, 24))
	k.SetSalt(salt)
	k.SetMaster(master)
	k.SetContract(contract)
	k.SetSignature(sign)
	k.SetPermissions(perms)
	k.SetExpires(expires)
	if target != "" {
		if err := k.SetTarget(target); err != nil {
			panic("harness: bad target " + target)
		}
	}
	s, err := b.Cipher.EncryptKey(k)
	if err != nil {
		panic(err)
	}
	return s
}

// trackedConn is the broker's end of the pipe; Conn.Close() closes the socket as its very
// last action, which tells the harness that the connection has been fully torn down.
type trackedConn struct {
	net.Conn
	once   sync.Once
	closed chan struct{}
	deaf   int32 // != 0: every Write fails (injected fault: reset / unreachable peer), reads still work
}

// Write fails once the fault has been injected, without touching the pipe.
func (t *trackedConn) Write(p []byte) (int, error) {
	if atomic.LoadInt32(&t.deaf) != 0 {
		return 0, errors.New("verif: injected write failure")
	}
	return t.Conn.Write(p)
}

func (t *trackedConn) Close() error {
	err := t.Conn.Close()
	t.once.Do(func() { close(t.closed) })
	return err
}

// Client is one attached connection.
type Client struct {
	Name string
	srv  *trackedConn
	conn net.Conn
	mu   sync.Mutex
	got  []string
	dead bool
	n    int
	gate sync.RWMutex // held for writing while the client does not read from its socket (slow consumer)
}

// Hold stops the client from reading its socket (the broker's writes to it block); Release resumes.
func (c *Client) Hold()    { c.gate.Lock() }
func (c *Client) Release() { c.gate.Unlock() }

// CountPrefix is the number of packets received so far (and not yet taken) that start with prefix.
func (c *Client) CountPrefix(prefix string) int {
	c.mu.Lock()
	defer c.mu.Unlock()
	n := 0
	for _, g := range c.got {
		if strings.HasPrefix(g, prefix) || g == "closed" {
			n++
		}
	}
	return n
}

// Attach connects a new client.
// bufHalf is one direction of a buffered in-memory connection: writes never block (like a TCP socket
// with room in its send buffer), reads block until data arrives or the connection is closed.
type bufHalf struct {
	mu     sync.Mutex
	cond   *sync.Cond
	data   []byte
	closed bool
}

func newBufHalf() *bufHalf { h := &bufHalf{}; h.cond = sync.NewCond(&h.mu); return h }

type bufConn struct {
	rd, wr *bufHalf
}

func (c *bufConn) Read(p []byte) (int, error) {
	c.rd.mu.Lock()
	defer c.rd.mu.Unlock()
	for len(c.rd.data) == 0 {
		if c.rd.closed {
			return 0, io.EOF
		}
		c.rd.cond.Wait()
	}
	n := copy(p, c.rd.data)
	c.rd.data = c.rd.data[n:]
	return n, nil
}

func (c *bufConn) Write(p []byte) (int, error) {
	c.wr.mu.Lock()
	defer c.wr.mu.Unlock()
	if c.wr.closed {
		return 0, io.ErrClosedPipe
	}
	c.wr.data = append(c.wr.data, p...)
	c.wr.cond.Broadcast()
	return len(p), nil
}

func (c *bufConn) Close() error {
	for _, h := range []*bufHalf{c.rd, c.wr} {
		h.mu.Lock()
		h.closed = true
		h.cond.Broadcast()
		h.mu.Unlock()
	}
	return nil
}

type bufAddr struct{}

func (bufAddr) Network() string { return "verif" }
func (bufAddr) String() string  { return "verif" }

func (c *bufConn) LocalAddr() net.Addr                { return bufAddr{} }
func (c *bufConn) RemoteAddr() net.Addr               { return bufAddr{} }
func (c *bufConn) SetDeadline(t time.Time) error      { return nil }
func (c *bufConn) SetReadDeadline(t time.Time) error  { return nil }
func (c *bufConn) SetWriteDeadline(t time.Time) error { return nil }

// bufPipe is net.Pipe with unbounded buffers in both directions.
func bufPipe() (net.Conn, net.Conn) {
	a, b := newBufHalf(), newBufHalf()
	return &bufConn{rd: a, wr: b}, &bufConn{rd: b, wr: a}
}

func (b *Broker) Attach(name string) *Client {
	srv, cli := net.Pipe()
	if b.Buffered {
		srv, cli = bufPipe()
	}
	t := &trackedConn{Conn: srv, closed: make(chan struct{})}
	c := &Client{Name: name, conn: cli, srv: t}
	b.Clients[name] = c
	b.Svc.VerifAttach(t)
	go c.reader()
	return c
}

func (c *Client) reader() {
	r := bufio.NewReaderSize(c.conn, 65536)
	for {
		c.gate.RLock()
		c.gate.RUnlock()
		m, err := mqtt.DecodePacket(r, 1<<20)
		c.mu.Lock()
		if err != nil {
			c.dead = true
			c.got = append(c.got, "closed")
			c.n++
			c.mu.Unlock()
			return
		}
		// the broker publishes its own statistics into the owner's contract every second (monitoring sink "self",
		// channel stats/<node>/): a wildcard subscriber receives them at arbitrary moments. They are not an answer
		// to any request of the session and are left out of the observables.
		if p, ok := m.(*mqtt.Publish); ok && bytes.HasPrefix(p.Topic, []byte("stats/")) {
			c.mu.Unlock()
			continue
		}
		c.got = append(c.got, Show(m))
		c.n++
		c.mu.Unlock()
	}
}

// Show renders a packet received by a client.
func Show(m mqtt.Message) string {
	switch p := m.(type) {
	case *mqtt.Publish:
		return fmt.Sprintf("pub:%s:%s", vlib.Hex(p.Topic), vlib.Hex(p.Payload))
	case *mqtt.Suback:
		return fmt.Sprintf("suback:%d:%s", p.MessageID, vlib.Hex(p.Qos))
	case *mqtt.Unsuback:
		return fmt.Sprintf("unsuback:%d", p.MessageID)
	case *mqtt.Puback:
		return fmt.Sprintf("puback:%d", p.MessageID)
	case *mqtt.Connack:
		return fmt.Sprintf("connack:%d", p.ReturnCode)
	case *mqtt.Pingresp:
		return "pingresp"
	}
	return m.String()
}

// Send writes a packet on the client's socket (blocks until the broker has read it).
func (c *Client) Send(m mqtt.Message) error {
	c.conn.SetWriteDeadline(time.Now().Add(2 * time.Second))
	_, err := m.EncodeTo(c.conn)
	return err
}

// SendRaw writes raw bytes.
func (c *Client) SendRaw(b []byte) error {
	c.conn.SetWriteDeadline(time.Now().Add(2 * time.Second))
	_, err := c.conn.Write(b)
	return err
}

// CloseSocket closes the client's end and waits until the broker has torn the connection down.
// FailWrites makes every further write of the broker to this connection fail while the
// connection stays open and subscribed (its read loop keeps blocking on the pipe).
// RawConn is the client end of the pipe (for writes without a deadline).
func (c *Client) RawConn() net.Conn { return c.conn }

func (c *Client) FailWrites() { atomic.StoreInt32(&c.srv.deaf, 1) }

func (c *Client) CloseSocket() {
	c.conn.Close()
	c.WaitClosed()
}

// WaitClosed waits for the broker-side Close() of this connection to finish.
func (c *Client) WaitClosed() {
	select {
	case <-c.srv.closed:
	case <-time.After(15 * time.Second):
	}
}

func (c *Client) count() int {
	c.mu.Lock()
	defer c.mu.Unlock()
	return c.n
}

// Take returns and clears what the client received.
func (c *Client) Take() []string {
	c.mu.Lock()
	defer c.mu.Unlock()
	out := c.got
	c.got = nil
	return out
}

// Await waits until the client has received a packet whose rendering starts with prefix
// (the acknowledgement of the request just sent), or the connection died, or 3 s passed.
func (c *Client) Await(prefix string) bool {
	deadline := time.Now().Add(15 * time.Second)
	for time.Now().Before(deadline) {
		c.mu.Lock()
		for _, g := range c.got {
			if strings.HasPrefix(g, prefix) || g == "closed" {
				c.mu.Unlock()
				return true
			}
		}
		c.mu.Unlock()
		time.Sleep(100 * time.Microsecond)
	}
	return false
}

// Settle waits until no client has received anything new for a short while and the presence
// queue is empty.
func (b *Broker) Settle() {
	total := func() int {
		n := 0
		for _, c := range b.Clients {
			n += c.count()
		}
		return n
	}
	// every presence notification queued so far has been dispatched after this
	b.Svc.VerifPresenceBarrier()
	last, stable := total(), 0
	deadline := time.Now().Add(2 * time.Second)
	for stable < 3 && time.Now().Before(deadline) {
		time.Sleep(300 * time.Microsecond)
		cur := total()
		if cur == last && b.Svc.VerifPresenceQueued() == 0 {
			stable++
		} else {
			stable = 0
			last = cur
		}
	}
}

// Collect renders everything every client received since the last call: "c1<a|b c2<c".
func (b *Broker) Collect(order []string) string {
	var parts []string
	for _, name := range order {
		c, ok := b.Clients[name]
		if !ok {
			continue
		}
		if got := c.Take(); len(got) > 0 {
			parts = append(parts, name+"<"+strings.Join(got, "|"))
		}
	}
	if len(parts) == 0 {
		return "-"
	}
	return strings.Join(parts, " ")
}
