//go:build verif

// Package gofacts is the fact extractor (DESIGN §2.3a, "tools/gofacts"): it reads the Go
// sources of the working tree with go/parser + go/ast (standard library only) and reports
// syntactic shape facts -- which functions defer what, which deferred functions call recover --
// as constants for lean/Emitter/Generated/Facts.lean. It lives under harness/ so that the
// orchestrator compiles it with the same overlay build as the constant extractors.
package gofacts

import (
	"go/ast"
	"go/parser"
	"go/token"
	"os"
	"path/filepath"
)

func repoRoot() string {
	if r := os.Getenv("VERIF_REPO"); r != "" {
		return r
	}
	return "/repo"
}

// funcs parses one package directory (non-test files) and indexes its functions by
// "Recv.Name" / "Name".
func funcs(dir string) map[string]*ast.FuncDecl {
	out := map[string]*ast.FuncDecl{}
	fset := token.NewFileSet()
	pkgs, err := parser.ParseDir(fset, dir, func(fi os.FileInfo) bool {
		n := fi.Name()
		return len(n) < 8 || n[len(n)-8:] != "_test.go"
	}, 0)
	if err != nil {
		return out
	}
	for _, p := range pkgs {
		for _, f := range p.Files {
			for _, d := range f.Decls {
				fd, ok := d.(*ast.FuncDecl)
				if !ok || fd.Body == nil {
					continue
				}
				name := fd.Name.Name
				if fd.Recv != nil && len(fd.Recv.List) == 1 {
					t := fd.Recv.List[0].Type
					if s, ok := t.(*ast.StarExpr); ok {
						t = s.X
					}
					if id, ok := t.(*ast.Ident); ok {
						name = id.Name + "." + name
					}
				}
				out[name] = fd
			}
		}
	}
	return out
}

// callsRecoverDirectly: the body contains a call of the builtin recover that is not nested in a
// function literal (recover only stops a panic when called directly by the deferred function).
func callsRecoverDirectly(body *ast.BlockStmt) bool {
	found := false
	ast.Inspect(body, func(n ast.Node) bool {
		switch x := n.(type) {
		case *ast.FuncLit:
			return false
		case *ast.CallExpr:
			if id, ok := x.Fun.(*ast.Ident); ok && id.Name == "recover" && len(x.Args) == 0 {
				found = true
			}
		}
		return true
	})
	return found
}

// deferredCalls lists the calls deferred by top-level defer statements that come before the
// first statement which is not a defer.
func leadingDefers(fd *ast.FuncDecl) (out []*ast.CallExpr) {
	for _, st := range fd.Body.List {
		d, ok := st.(*ast.DeferStmt)
		if !ok {
			break
		}
		out = append(out, d.Call)
	}
	return
}

// defersMethod: a leading `defer <recv>.<method>()`.
func defersMethod(fd *ast.FuncDecl, method string) bool {
	if fd == nil {
		return false
	}
	for _, c := range leadingDefers(fd) {
		if sel, ok := c.Fun.(*ast.SelectorExpr); ok && sel.Sel.Name == method {
			return true
		}
	}
	return false
}

// defersRecover: a leading defer of a function literal, or of a function of the same package,
// whose body calls recover directly.
func defersRecover(fd *ast.FuncDecl, pkg map[string]*ast.FuncDecl) bool {
	if fd == nil {
		return false
	}
	for _, c := range leadingDefers(fd) {
		switch f := c.Fun.(type) {
		case *ast.FuncLit:
			if callsRecoverDirectly(f.Body) {
				return true
			}
		case *ast.Ident:
			if g, ok := pkg[f.Name]; ok && callsRecoverDirectly(g.Body) {
				return true
			}
		}
	}
	return false
}

func b(v bool) string {
	if v {
		return "N:1"
	}
	return "N:0"
}

// VerifConsts reports the shape facts C09 relies on.
func VerifConsts() map[string]string {
	root := repoRoot()
	br := funcs(filepath.Join(root, "internal", "broker"))
	cl := funcs(filepath.Join(root, "internal", "service", "cluster"))
	closeFn := br["Conn.Close"]
	return map[string]string{
		"factProcessDefersClose":  b(defersMethod(br["Conn.Process"], "Close")),
		"factCloseRecovers":       b(closeFn != nil && callsRecoverDirectly(closeFn.Body)),
		"factOnGossipRecovers":    b(defersRecover(cl["Swarm.OnGossip"], cl)),
		"factOnBroadcastRecovers": b(defersRecover(cl["Swarm.OnGossipBroadcast"], cl)),
		"factOnUnicastRecovers":   b(defersRecover(cl["Swarm.OnGossipUnicast"], cl)),
	}
}
