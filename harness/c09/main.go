//go:build verif

// Correspondence harness for C09 (hostile or malformed input cannot take the broker down).
//
// In-process operations run the real decoders, the real swarm callbacks and the real history
// lookup under recover and report the outcome class. `attack` operations are run against a
// child broker process (this binary re-executed with -child) that has a memory ceiling
// (GOMEMLIMIT + RLIMIT_AS); gossip payloads are handed to the callbacks on bare goroutines, as
// the mesh router does, so an unrecovered panic ends the child exactly as it would end a broker.
// A canary client's publish/receive loop must keep working after every attack.
package main

import (
	"bufio"
	"bytes"
	"encoding/binary"
	"fmt"
	"io"
	"net"
	"os"
	"os/exec"
	"path/filepath"
	"reflect"
	"runtime"
	"strconv"
	"strings"
	"syscall"
	"time"

	"github.com/emitter-io/emitter/internal/broker"
	"github.com/emitter-io/emitter/internal/event"
	"github.com/emitter-io/emitter/internal/message"
	"github.com/emitter-io/emitter/internal/network/mqtt"
	"github.com/emitter-io/emitter/internal/provider/storage"
	"github.com/emitter-io/emitter/internal/security"
	"github.com/emitter-io/emitter/internal/service/cluster"
	"github.com/emitter-io/emitter/internal/zverif/vlib"
	"github.com/golang/snappy"
	"github.com/weaveworks/mesh"
)

const (
	bigAlloc   = 4 << 20   // in-process: an operation that allocates more than this is "big"
	childAS    = 3 << 30   // RLIMIT_AS of the child broker
	childBloat = 512 << 20 // growth of the child's address space that counts as bloat
	peer2      = mesh.PeerName(2)
)

// ---------------------------------------------------------------------------------- in-process

type local struct {
	b     *broker.Service
	sw    *cluster.Swarm
	st    *storage.InMemory
	dir   string
	ssid  message.Ssid
	ready bool
}

var loc local

func (l *local) init() {
	if l.ready {
		return
	}
	if l.dir != "" {
		os.RemoveAll(l.dir) // a damaged broker is abandoned, not reused
	}
	dir, err := os.MkdirTemp("", "c09-local")
	if err != nil {
		panic(err)
	}
	b, err := broker.VerifC09Broker(dir, 0)
	if err != nil {
		panic(err)
	}
	l.b, l.sw, l.dir = b, b.VerifC09Swarm(), dir
	l.st = b.VerifC09Store().(*storage.InMemory)
	// ten stored messages on one channel for the lookup operations
	l.ssid = message.Ssid{7, 1815237614}
	for i := 0; i < 10; i++ {
		m := message.New(l.ssid, []byte("a/"), []byte{byte(i)})
		m.TTL = 3600
		if err := l.st.Store(m); err != nil {
			panic(err)
		}
	}
	l.ready = true
}

// measured runs f and tells whether it allocated more than bigAlloc bytes.
func measured(f func() string) string {
	var m0, m1 runtime.MemStats
	runtime.ReadMemStats(&m0)
	out := vlib.Guard(f)
	runtime.ReadMemStats(&m1)
	if m1.TotalAlloc-m0.TotalAlloc > bigAlloc {
		out += " alloc=big"
	}
	return out
}

func class(err error, ok string) string {
	if err != nil {
		if os.Getenv("VERIF_DEBUG") != "" {
			fmt.Fprintln(os.Stderr, "err:", err)
		}
		return "err"
	}
	return ok
}

// fatal maps a panic that would escape on a mesh goroutine to "fatal".
func fatal(f func() string) string {
	out := vlib.Guard(f)
	if out == "panic" {
		return "fatal"
	}
	return out
}

func measuredFatal(f func() string) string {
	return measured(func() string { return fatal(f) })
}

// uvarintOf reads kelindar's uvarint; ok=false when malformed.
func uvarintOf(b []byte) (uint64, bool) {
	var x uint64
	var s uint
	for i, c := range b {
		if i == 10 {
			return 0, false
		}
		if c < 0x80 {
			if i == 9 && c > 1 {
				return 0, false
			}
			return x | uint64(c)<<s, true
		}
		x |= uint64(c&0x7f) << s
		s += 7
	}
	return 0, false
}

const refused = "refused-unsafe-in-process"

// unsafeFrame: a frame whose announced element count would make an unrepaired DecodeFrame try to
// allocate between 80 MB and the address space (above 2^50 elements makeslice panics right away).
// Such inputs are only ever sent to the child process.
func unsafeFrame(inner []byte) bool {
	n, ok := uvarintOf(inner)
	return ok && n > 1000000 && n < 1<<50
}

// unsafeRaw: a snappy preamble announcing more than 64 MiB.
func unsafeRaw(raw []byte) bool {
	n, err := snappy.DecodedLen(raw)
	return err == nil && n > 64<<20
}

// guarded runs one callback operation of the local broker with a deadline, checks afterwards that
// it did not leave the subscription trie locked, and replaces the broker when it is damaged.
func guarded(f func() string) string {
	done := make(chan string, 1)
	go func() { done <- measuredFatal(f) }()
	var out string
	select {
	case out = <-done:
	case <-time.After(20 * time.Second):
		loc.ready = false
		return "hang"
	}
	if !loc.b.VerifC09TrieFree() {
		out += " lock-leak"
		// a lookup panicked between RLock and RUnlock: drop the orphaned read lock
		for i := 0; i < 4 && !loc.b.VerifC09TrieFree(); i++ {
			vlib.Guard(func() string { loc.b.VerifC09TrieRelease(); return "" })
		}
		if !loc.b.VerifC09TrieFree() {
			loc.ready = false
		}
	}
	return out
}

func deltaCount(d mesh.GossipData) int {
	if d == nil {
		return 0
	}
	// whatever type the swarm hands to the gossip library: count what a peer would decode from it
	if rv := reflect.ValueOf(d); rv.Kind() == reflect.Ptr && rv.IsNil() {
		return 0
	}
	bufs := d.Encode()
	if len(bufs) == 0 {
		return 0
	}
	st, err := event.DecodeState(bufs[0])
	if err != nil || st == nil {
		return 0
	}
	n := 0
	for _, t := range event.VerifSetIDs() {
		n += st.VerifSubset(t).Count()
	}
	return n
}

func surveyFrame(limit int) []byte {
	m := message.New(message.Ssid{0, 3939663052, 7}, []byte("ssdstore/2"), storage.VerifC09Query(message.Ssid{7, 1815237614}, limit))
	f := message.Frame{*m}
	return f.Encode()
}

// rawInner reports what snappy makes of a raw payload without allocating for absurd preambles.
func rawInner(raw []byte) string {
	n, err := snappy.DecodedLen(raw)
	if err != nil {
		return "err"
	}
	if n > 64<<20 {
		return "big"
	}
	in, err := snappy.Decode(nil, raw)
	if err != nil {
		return "err"
	}
	return vlib.Hex(in)
}

func step(w []string, line string) string {
	switch w[0] {
	case "mqtt":
		max, _ := strconv.ParseInt(w[1], 10, 64)
		if max > 1<<24 {
			return refused
		}
		data := vlib.UnHex(w[2])
		return vlib.Guard(func() string {
			r := bytes.NewReader(data)
			m, err := mqtt.DecodePacket(r, max)
			if err != nil {
				return "err"
			}
			return fmt.Sprintf("ok t=%d used=%d", m.Type(), len(data)-r.Len())
		})
	case "pubenc":
		// pubenc <topic length> <payload length> <qos>: the PUBLISH encoder on packets whose size clients and
		// peers choose (presence notifications carry the CONNECT username, forwarded messages any payload);
		// several callers run on goroutines without a recover, so an oversize body must be an error, not a panic
		tl, _ := strconv.Atoi(w[1])
		pl, _ := strconv.Atoi(w[2])
		q, _ := strconv.Atoi(w[3])
		return vlib.Guard(func() string {
			p := &mqtt.Publish{Header: mqtt.Header{QOS: uint8(q)}, Topic: bytes.Repeat([]byte{'t'}, tl), MessageID: 7, Payload: bytes.Repeat([]byte{'p'}, pl)}
			var buf bytes.Buffer
			n, err := p.EncodeTo(&buf)
			if err != nil {
				return "err"
			}
			return fmt.Sprintf("ok n=%d", n)
		})
	case "chan":
		// the topic of every SUBSCRIBE / UNSUBSCRIBE / PUBLISH / last will and of every request goes
		// through ParseChannel before its key is looked at: it must terminate, with options bounded by the text
		data := vlib.UnHex(w[1])
		return vlib.Guard(func() string {
			c := security.ParseChannel(data)
			if c.ChannelType == security.ChannelInvalid {
				return "type=0"
			}
			return fmt.Sprintf("type=%d levels=%d opts=%d", c.ChannelType, len(c.Query), len(c.Options))
		})
	case "frame":
		if unsafeFrame(vlib.UnHex(w[1])) {
			return refused
		}
		buf := snappy.Encode(nil, vlib.UnHex(w[1]))
		return measured(func() string {
			f, err := message.DecodeFrame(buf)
			return class(err, fmt.Sprintf("ok n=%d", len(f)))
		})
	case "state":
		buf := snappy.Encode(nil, vlib.UnHex(w[1]))
		return measured(func() string {
			_, err := event.DecodeState(buf)
			return class(err, "ok")
		})
	case "rawgossip", "rawunicast":
		loc.init()
		loc.sw.VerifC09ResetState()
		raw := vlib.UnHex(w[1])
		inner := rawInner(raw)
		line = w[0] + " " + w[1] + " inner=" + inner
		if unsafeRaw(raw) || (w[0] == "rawunicast" && inner != "err" && inner != "big" && unsafeFrame(vlib.UnHex(inner))) {
			return line + "\x00" + refused
		}
		obs := guarded(func() string {
			if w[0] == "rawunicast" {
				return class(loc.sw.OnGossipUnicast(peer2, raw), "ok")
			}
			d, err := loc.sw.OnGossip(raw)
			return class(err, fmt.Sprintf("ok delta=%d", deltaCount(d)))
		})
		return line + "\x00" + obs
	case "gossip", "bcast":
		loc.init()
		loc.sw.VerifC09ResetState()
		buf := snappy.Encode(nil, vlib.UnHex(w[1]))
		return guarded(func() string {
			var d mesh.GossipData
			var err error
			if w[0] == "gossip" {
				d, err = loc.sw.OnGossip(buf)
			} else {
				d, err = loc.sw.OnGossipBroadcast(peer2, buf)
			}
			return class(err, fmt.Sprintf("ok delta=%d", deltaCount(d)))
		})
	case "unicast":
		loc.init()
		if unsafeFrame(vlib.UnHex(w[1])) {
			return refused
		}
		buf := snappy.Encode(nil, vlib.UnHex(w[1]))
		return guarded(func() string { return class(loc.sw.OnGossipUnicast(peer2, buf), "ok") })
	case "survey":
		loc.init()
		limit, _ := strconv.Atoi(w[1])
		if limit > 1000000 {
			return refused
		}
		buf := surveyFrame(limit)
		return guarded(func() string { return class(loc.sw.OnGossipUnicast(peer2, buf), "ok") })
	case "lookup":
		loc.init()
		limit, _ := strconv.Atoi(w[1])
		if limit > 1000000 {
			return refused
		}
		return vlib.Guard(func() string {
			n, c := loc.st.VerifC09Lookup(loc.ssid, limit)
			return fmt.Sprintf("n=%d cap=%d", n, c)
		})
	case "attack":
		if len(w) >= 3 && (w[1] == "rawgossip" || w[1] == "rawunicast") {
			line = strings.Join(w[:3], " ") + " inner=" + rawInner(vlib.UnHex(w[2]))
			return line + "\x00" + attack(w[1:3])
		}
		return attack(w[1:])
	}
	return "bad-op"
}

// ---------------------------------------------------------------------------------- child side

func childMain(dir string) {
	lim := syscall.Rlimit{Cur: childAS, Max: childAS}
	if err := syscall.Setrlimit(syscall.RLIMIT_AS, &lim); err != nil {
		fmt.Println("ERROR setrlimit", err)
		os.Exit(3)
	}
	b, err := broker.VerifC09Broker(filepath.Join(dir, "data"), 0)
	if err != nil {
		fmt.Println("ERROR broker", err)
		os.Exit(3)
	}
	sw := b.VerifC09Swarm()
	st := b.VerifC09Store().(*storage.InMemory)
	for i := 0; i < 10; i++ {
		m := message.New(message.Ssid{7, 1815237614}, []byte("a/"), []byte{byte(i)})
		m.TTL = 3600
		st.Store(m)
	}
	key := b.VerifC09Key("#/", 0x3E) // read, write, store, load, presence
	cl, err := net.Listen("unix", filepath.Join(dir, "client.sock"))
	if err != nil {
		fmt.Println("ERROR listen", err)
		os.Exit(3)
	}
	gl, err := net.Listen("unix", filepath.Join(dir, "gossip.sock"))
	if err != nil {
		fmt.Println("ERROR listen", err)
		os.Exit(3)
	}
	go func() {
		for {
			c, err := cl.Accept()
			if err != nil {
				return
			}
			b.VerifC09Attach(c)
		}
	}()
	go func() {
		for {
			c, err := gl.Accept()
			if err != nil {
				return
			}
			go serveGossip(sw, c)
		}
	}()
	fmt.Printf("READY key=%s\n", key)
	// the parent closes our stdin when it is done
	io.Copy(io.Discard, os.Stdin)
	os.Exit(0)
}

// serveGossip: frames of kind byte, 4-byte length, payload; every payload is handed to the
// callback on a bare goroutine (no recover), one ack byte follows when the callback returned.
func serveGossip(sw *cluster.Swarm, c net.Conn) {
	defer c.Close()
	r := bufio.NewReader(c)
	for {
		hdr := make([]byte, 5)
		if _, err := io.ReadFull(r, hdr); err != nil {
			return
		}
		buf := make([]byte, binary.BigEndian.Uint32(hdr[1:]))
		if _, err := io.ReadFull(r, buf); err != nil {
			return
		}
		done := make(chan struct{})
		go func() {
			switch hdr[0] {
			case 'g':
				sw.OnGossip(buf)
			case 'b':
				sw.OnGossipBroadcast(peer2, buf)
			case 'u':
				sw.OnGossipUnicast(peer2, buf)
			}
			close(done)
		}()
		<-done
		c.Write([]byte{1})
	}
}

// ---------------------------------------------------------------------------------- parent side

type child struct {
	cmd    *exec.Cmd
	dir    string
	key    string
	stdin  io.WriteCloser
	exited chan struct{}
	state  *os.ProcessState
	canary net.Conn
	cr     *bufio.Reader
	nonce  int
}

var kid *child

func spawn() (*child, error) {
	dir, err := os.MkdirTemp("", "c09-child")
	if err != nil {
		return nil, err
	}
	cmd := exec.Command(os.Args[0], "-child", dir)
	cmd.Env = append(os.Environ(), "GOMEMLIMIT=1GiB")
	cmd.Stderr = nil
	if os.Getenv("VERIF_DEBUG") != "" {
		cmd.Stderr = os.Stderr
	}
	in, _ := cmd.StdinPipe()
	out, _ := cmd.StdoutPipe()
	if err := cmd.Start(); err != nil {
		return nil, err
	}
	k := &child{cmd: cmd, dir: dir, stdin: in, exited: make(chan struct{})}
	rd := bufio.NewReader(out)
	ln, err := rd.ReadString('\n')
	if err != nil || !strings.HasPrefix(ln, "READY key=") {
		cmd.Process.Kill()
		cmd.Wait()
		return nil, fmt.Errorf("child did not start: %q %v", ln, err)
	}
	k.key = strings.TrimSpace(strings.TrimPrefix(ln, "READY key="))
	go func() {
		io.Copy(io.Discard, rd)
		cmd.Wait()
		k.state = cmd.ProcessState
		close(k.exited)
	}()
	// canary: connect, subscribe, then one round trip
	c, err := net.Dial("unix", filepath.Join(dir, "client.sock"))
	if err != nil {
		return nil, err
	}
	k.canary, k.cr = c, bufio.NewReader(c)
	(&mqtt.Connect{ClientID: []byte("canary")}).EncodeTo(c)
	(&mqtt.Subscribe{MessageID: 1, Subscriptions: []mqtt.TopicQOSTuple{{Topic: []byte(k.key + "/canary/")}}}).EncodeTo(c)
	if !k.roundTrip() {
		k.stop()
		return nil, fmt.Errorf("canary does not work on a fresh child")
	}
	return k, nil
}

func (k *child) alive() bool {
	select {
	case <-k.exited:
		return false
	default:
		return true
	}
}

// roundTrip publishes a nonce on the canary channel and waits for it to come back.
func (k *child) roundTrip() bool {
	k.nonce++
	want := fmt.Sprintf("canary-%d", k.nonce)
	k.canary.SetDeadline(time.Now().Add(8 * time.Second))
	if _, err := (&mqtt.Publish{Topic: []byte(k.key + "/canary/"), Payload: []byte(want)}).EncodeTo(k.canary); err != nil {
		return false
	}
	for {
		m, err := mqtt.DecodePacket(k.cr, 65536)
		if err != nil {
			return false
		}
		if p, ok := m.(*mqtt.Publish); ok && string(p.Payload) == want {
			return true
		}
	}
}

func (k *child) vmSize() int64 {
	data, err := os.ReadFile(fmt.Sprintf("/proc/%d/status", k.cmd.Process.Pid))
	if err != nil {
		return 0
	}
	for _, ln := range strings.Split(string(data), "\n") {
		if strings.HasPrefix(ln, "VmSize:") {
			f := strings.Fields(ln)
			v, _ := strconv.ParseInt(f[1], 10, 64)
			return v * 1024
		}
	}
	return 0
}

func (k *child) peakRSS() int64 {
	data, err := os.ReadFile(fmt.Sprintf("/proc/%d/status", k.cmd.Process.Pid))
	if err != nil {
		return 0
	}
	for _, ln := range strings.Split(string(data), "\n") {
		if strings.HasPrefix(ln, "VmHWM:") {
			f := strings.Fields(ln)
			v, _ := strconv.ParseInt(f[1], 10, 64)
			return v * 1024
		}
	}
	return 0
}

func (k *child) stop() {
	if k.canary != nil {
		k.canary.Close()
	}
	k.stdin.Close()
	select {
	case <-k.exited:
	case <-time.After(3 * time.Second):
		k.cmd.Process.Kill()
		<-k.exited
	}
	os.RemoveAll(k.dir)
}

func (k *child) gossip(kind byte, payload []byte) {
	c, err := net.Dial("unix", filepath.Join(k.dir, "gossip.sock"))
	if err != nil {
		return
	}
	defer c.Close()
	hdr := make([]byte, 5)
	hdr[0] = kind
	binary.BigEndian.PutUint32(hdr[1:], uint32(len(payload)))
	c.Write(hdr)
	c.Write(payload)
	c.SetReadDeadline(time.Now().Add(8 * time.Second))
	c.Read(make([]byte, 1)) // ack, or EOF when the child died
}

// client writes data on a fresh client connection, followed by a PINGREQ, and waits until the
// broker has answered the ping (everything before it was handled), closed the connection, or
// `wait` has passed (the input left the decoder waiting for more bytes).
func (k *child) client(data []byte, wait time.Duration) {
	c, err := net.Dial("unix", filepath.Join(k.dir, "client.sock"))
	if err != nil {
		return
	}
	defer c.Close()
	c.SetWriteDeadline(time.Now().Add(5 * time.Second))
	if _, err := c.Write(append(append([]byte{}, data...), 0xc0, 0x00)); err != nil {
		return
	}
	c.SetReadDeadline(time.Now().Add(wait))
	r := bufio.NewReader(c)
	for {
		m, err := mqtt.DecodePacket(r, 1<<20)
		if err != nil {
			return
		}
		if m.Type() == mqtt.TypeOfPingresp {
			return
		}
	}
}

func packets(ms ...mqtt.Message) []byte {
	var b bytes.Buffer
	for _, m := range ms {
		m.EncodeTo(&b)
	}
	return b.Bytes()
}

func attack(w []string) string {
	if kid == nil || !kid.alive() {
		if kid != nil {
			kid.stop()
		}
		k, err := spawn()
		if err != nil {
			kid = nil
			return "harness-error " + strings.ReplaceAll(err.Error(), " ", "_")
		}
		kid = k
	}
	k := kid
	vm0 := k.vmSize()
	switch w[0] {
	case "client": // raw bytes on a fresh client connection
		k.client(vlib.UnHex(w[1]), 150*time.Millisecond)
	case "session": // CONNECT first, then the raw bytes
		k.client(append(packets(&mqtt.Connect{ClientID: []byte("x")}), vlib.UnHex(w[1])...), 3*time.Second)
	case "sub": // SUBSCRIBE <key>/<channel-with-options>
		k.client(packets(&mqtt.Connect{ClientID: []byte("x")},
			&mqtt.Subscribe{MessageID: 1, Subscriptions: []mqtt.TopicQOSTuple{{Topic: []byte(k.key + "/" + w[1])}}}), 5*time.Second)
	case "request": // PUBLISH emitter/<name>/ <json payload (hex)>
		k.client(packets(&mqtt.Connect{ClientID: []byte("x")},
			&mqtt.Publish{Header: mqtt.Header{QOS: 1}, MessageID: 9, Topic: []byte("emitter/" + w[1] + "/"),
				Payload: bytes.ReplaceAll(vlib.UnHex(w[2]), []byte("$KEY"), []byte(k.key))}), 5*time.Second)
	case "gossip":
		k.gossip('g', snappy.Encode(nil, vlib.UnHex(w[1])))
	case "bcast":
		k.gossip('b', snappy.Encode(nil, vlib.UnHex(w[1])))
	case "unicast":
		k.gossip('u', snappy.Encode(nil, vlib.UnHex(w[1])))
	case "rawgossip":
		k.gossip('g', vlib.UnHex(w[1]))
	case "rawunicast":
		k.gossip('u', vlib.UnHex(w[1]))
	case "survey":
		limit, _ := strconv.Atoi(w[1])
		k.gossip('u', surveyFrame(limit))
	default:
		return "bad-op"
	}
	ok := k.roundTrip()
	if ok {
		// a dying process closes its sockets first: give the exit a moment to become visible,
		// then make sure the canary still works
		select {
		case <-k.exited:
		case <-time.After(25 * time.Millisecond):
		}
		ok = k.alive() && k.roundTrip()
	}
	if !k.alive() || !ok {
		// give a dying process a moment to be reaped, then tell death from hang
		select {
		case <-k.exited:
		case <-time.After(2 * time.Second):
		}
		if !k.alive() {
			how := "exit"
			if k.state != nil {
				how = strings.ReplaceAll(k.state.String(), " ", "-")
			}
			fmt.Fprintf(os.Stderr, "c09: child died (%s) on: attack %s\n", how, strings.Join(w, " ")[:min(80, len(strings.Join(w, " ")))])
			k.stop()
			kid = nil
			return "fatal"
		}
		k.cmd.Process.Kill()
		k.stop()
		kid = nil
		return "hang"
	}
	grown := k.vmSize() - vm0
	fmt.Fprintf(os.Stderr, "c09: attack %s: alive, address space %+d MiB, peak RSS %d MiB\n", w[0], grown>>20, k.peakRSS()>>20)
	if grown > childBloat {
		return "alive bloat"
	}
	return "alive"
}

func main() {
	if len(os.Args) >= 3 && os.Args[1] == "-child" {
		childMain(os.Args[2])
		return
	}
	vlib.Run(step)
	if kid != nil {
		kid.stop()
	}
	if loc.ready {
		os.RemoveAll(loc.dir)
	}
}
