//go:build verif

// Correspondence harness for C06 (history queries): the real storage.SSD (badger on a temp
// directory) and storage.InMemory behind the Storage interface, driven through Store / Query,
// plus message.Frame.Limit on its own (the merge step for cluster-wide answers).
//
// Line protocol (fields after the fixed ones are enrichment written by this harness and
// ignored when a line is replayed):
//
//	reset <ssd|mem> <retain>                         [base=<unix>]
//	store <ssid> <time> <ttl> <chanhex> <size> <tag> [t=<unix> seq=<n> uniq=<n>]   => ok <idhex>
//	again <k> <ttl> <size> <tag>                     store under the id of the k-th store again
//	query <ssid> <from> <until> <limit> <start>      [from=<unix> until=<unix> sid=<hex> now=<unix>]
//	wait <k>                                         sleep until the clock reads base+k
//	flimit <n> <t1,t2,...>                           Frame.Limit(n) on messages with these times
//
// <time> is r<int> (relative to base) or a<int> (absolute); <start> is - (none), p<i> (i-th id
// of the previous query result, canonical order), plast, s<k> (id of the k-th store), x<hex>.
package main

import (
	"bytes"
	"fmt"
	"os"
	"sort"
	"strconv"
	"strings"
	"time"

	"github.com/emitter-io/emitter/internal/message"
	"github.com/emitter-io/emitter/internal/provider/storage"
	"github.com/emitter-io/emitter/internal/zverif/vlib"
)

var (
	store    storage.Storage
	dir      string
	base     int64
	ids      []message.ID // ids of the stores of this session, in order
	chans    [][]byte
	prev     []message.ID // ids of the previous query result, key order
)

func parseSsid(s string) message.Ssid {
	if s == "none" {
		return message.Ssid{}
	}
	var out message.Ssid
	for _, w := range strings.Split(s, ",") {
		v, err := strconv.ParseUint(w, 10, 32)
		if err != nil {
			panic("harness: bad ssid")
		}
		out = append(out, uint32(v))
	}
	return out
}

func atoi(s string) int64 {
	v, err := strconv.ParseInt(s, 10, 64)
	if err != nil {
		panic("harness: bad number " + s)
	}
	return v
}

func absTime(s string) int64 {
	switch s[0] {
	case 'r':
		return base + atoi(s[1:])
	case 'a':
		return atoi(s[1:])
	}
	panic("harness: bad time " + s)
}

func showPayload(p []byte) string {
	if len(p) > 8 {
		uniform := true
		for _, b := range p {
			if b != p[0] {
				uniform = false
				break
			}
		}
		if uniform {
			return fmt.Sprintf("%dx%02x", len(p), p[0])
		}
	}
	return vlib.Hex(p)
}

func showMsg(m message.Message) string {
	return fmt.Sprintf("%s:%s:%s:%d", vlib.Hex(m.ID), vlib.Hex(m.Channel), showPayload(m.Payload), m.TTL)
}

func closeStore() {
	if store != nil {
		store.Close()
		store = nil
	}
	if dir != "" {
		os.RemoveAll(dir)
		dir = ""
	}
}

// a session that lost its reset line (shrunk replays): in-memory provider, retain 1, base 0
func ensureStore() {
	if store == nil {
		s := storage.NewInMemory(nil)
		if err := s.Configure(map[string]interface{}{"retain": float64(1)}); err != nil {
			panic(err)
		}
		store = s
		base = 0
		ids, chans, prev = nil, nil, nil
	}
}

func step(w []string, line string) string {
	return vlib.Guard(func() string {
		if w[0] == "store" || w[0] == "again" || w[0] == "query" {
			ensureStore()
		}
		switch w[0] {
		case "reset":
			closeStore()
			retain := atoi(w[2])
			cfg := map[string]interface{}{"retain": float64(retain)}
			switch w[1] {
			case "ssd":
				d, err := os.MkdirTemp("", "verif-c06-")
				if err != nil {
					panic(err)
				}
				dir = d
				cfg["dir"] = d
				s := storage.NewSSD(nil)
				if err := s.Configure(cfg); err != nil {
					panic(err)
				}
				store = s
			case "mem":
				s := storage.NewInMemory(nil)
				if err := s.Configure(cfg); err != nil {
					panic(err)
				}
				store = s
			default:
				panic("harness: bad provider")
			}
			base = time.Now().Unix()
			ids, chans, prev = nil, nil, nil
			return fmt.Sprintf("reset %s %s base=%d", w[1], w[2], base) + "\x00ok"
		case "store":
			ssid := parseSsid(w[1])
			t := absTime(w[2])
			ttl := uint32(atoi(w[3]))
			ch := vlib.UnHex(w[4])
			payload := bytes.Repeat([]byte{byte(atoi(w[6]))}, int(atoi(w[5])))
			newLine := strings.Join(w[:7], " ")
			if len(ssid) < 2 {
				return newLine + "\x00" + "skipped" // NewID panics (C19); nothing to store
			}
			id, _, seq, uniq := message.VerifNewID(ssid)
			id.SetTime(t)
			newLine += fmt.Sprintf(" t=%d seq=%d uniq=%d", t, seq, uniq)
			m := &message.Message{ID: id, Channel: ch, Payload: payload, TTL: ttl}
			ids = append(ids, id)
			chans = append(chans, ch)
			if err := store.Store(m); err != nil {
				return newLine + "\x00err"
			}
			return newLine + "\x00ok " + vlib.Hex(id)
		case "again":
			if len(ids) == 0 {
				return "skipped"
			}
			k := int(atoi(w[1])) % len(ids)
			payload := bytes.Repeat([]byte{byte(atoi(w[4]))}, int(atoi(w[3])))
			m := &message.Message{ID: append(message.ID{}, ids[k]...), Channel: chans[k], Payload: payload, TTL: uint32(atoi(w[2]))}
			if err := store.Store(m); err != nil {
				return "err"
			}
			return "ok " + vlib.Hex(m.ID)
		case "query":
			ssid := parseSsid(w[1])
			from, until := absTime(w[2]), absTime(w[3])
			limit := int(atoi(w[4]))
			var sid message.ID
			switch {
			case w[5] == "-":
			case w[5] == "plast":
				if len(prev) > 0 {
					sid = prev[len(prev)-1]
				}
			case w[5][0] == 'p':
				if len(prev) > 0 {
					sid = prev[int(atoi(w[5][1:]))%len(prev)]
				}
			case w[5][0] == 's':
				if len(ids) > 0 {
					sid = ids[int(atoi(w[5][1:]))%len(ids)]
				}
			case w[5][0] == 'x':
				sid = vlib.UnHex(w[5][1:])
			default:
				panic("harness: bad start")
			}
			var now int64
			var out string
			for {
				now = time.Now().Unix()
				out = vlib.Guard(func() string {
					f, err := store.Query(ssid, time.Unix(from, 0), time.Unix(until, 0), sid, limit)
					if err != nil {
						return "err"
					}
					order := "asc"
					for i := 1; i < len(f); i++ {
						if f[i].Time() < f[i-1].Time() {
							order = "unsorted"
						}
					}
					// canonical: key order (tie order inside one second is left open by sort.Slice)
					c := append(message.Frame{}, f...)
					sort.SliceStable(c, func(i, j int) bool { return bytes.Compare(c[i].ID, c[j].ID) < 0 })
					prev = prev[:0]
					parts := make([]string, len(c))
					for i, m := range c {
						parts[i] = showMsg(m)
						prev = append(prev, append(message.ID{}, m.ID...))
					}
					if len(parts) == 0 {
						return order + " none"
					}
					return order + " " + strings.Join(parts, ",")
				})
				if time.Now().Unix() == now {
					break
				}
			}
			newLine := strings.Join(w[:6], " ") + fmt.Sprintf(" from=%d until=%d sid=%s now=%d", from, until, vlib.Hex(sid), now)
			return newLine + "\x00" + out
		case "wait":
			k := atoi(w[1])
			for time.Now().Unix() < base+k {
				time.Sleep(20 * time.Millisecond)
			}
			return "ok"
		case "flimit":
			n := int(atoi(w[1]))
			var f message.Frame
			if w[2] != "none" {
				for _, ts := range strings.Split(w[2], ",") {
					id := message.NewID(message.Ssid{1, 2})
					id.SetTime(atoi(ts))
					f = append(f, message.Message{ID: id})
				}
			}
			f.Limit(n)
			if len(f) == 0 {
				return "none"
			}
			parts := make([]string, len(f))
			for i, m := range f {
				parts[i] = strconv.FormatInt(m.Time(), 10)
			}
			return strings.Join(parts, ",")
		}
		panic("harness: unknown op " + w[0])
	})
}

func main() {
	vlib.Run(step)
	closeStore()
}
