//go:build verif

// Correspondence harness for C04 / C13(a): replicas of event.State, scripted clock,
// merges of snapshots, deltas and single operations, with and without an encode/decode hop.
package main

import (
	"fmt"
	"sort"
	"strconv"
	"strings"

	"github.com/emitter-io/emitter/internal/event"
	"github.com/emitter-io/emitter/internal/event/crdt"
	"github.com/emitter-io/emitter/internal/zverif/vlib"
	"github.com/weaveworks/mesh"
)

var (
	reps  []*event.State
	last  []*event.State // last delta returned at each replica (nil = none)
	clock int64
	ids   = event.VerifSetIDs()
)

func setID(s string) uint8 {
	switch s {
	case "sub":
		return ids[0]
	case "ban":
		return ids[1]
	case "conn":
		return ids[2]
	}
	panic("harness: bad set " + s)
}

func dump(st *event.State) string {
	if st == nil {
		return "nil"
	}
	var parts []string
	for i, name := range []string{"sub", "ban", "conn"} {
		st.VerifSubset(ids[i]).Range(nil, true, func(k string, v crdt.Value) bool {
			parts = append(parts, fmt.Sprintf("%s:%s:(%d,%d):%s", name, vlib.Hex([]byte(k)), v.AddTime(), v.DelTime(), vlib.Hex(v.Value())))
			return true
		})
	}
	if len(parts) == 0 {
		return "empty"
	}
	sort.Strings(parts)
	return strings.Join(parts, ",")
}

func closeAll() {
	for _, r := range reps {
		if r != nil {
			r.Close()
		}
	}
}

func mergeInto(dst int, other *event.State) string {
	d := reps[dst].Merge(other)
	if d == nil {
		last[dst] = nil
		return "nil"
	}
	last[dst] = d.(*event.State)
	return dump(last[dst])
}

func decode(st *event.State) *event.State {
	out, err := event.DecodeState(st.Encode()[0])
	if err != nil {
		panic(err)
	}
	return out
}

func step(w []string, _ string) string {
	return vlib.Guard(func() string {
		switch w[0] {
		case "reset":
			closeAll()
			n, _ := strconv.Atoi(w[1])
			reps = make([]*event.State, n)
			last = make([]*event.State, n)
			for i := range reps {
				// w[2] = "v" all volatile, "d" all durable, "m" mixed (even replicas durable)
				if w[2] == "d" || (w[2] == "m" && i%2 == 0) {
					reps[i] = event.NewState(":memory:")
				} else {
					reps[i] = event.NewState("")
				}
			}
			clock = 1
			crdt.Now = func() int64 { return clock }
			return "ok"
		case "clock":
			clock, _ = strconv.ParseInt(w[1], 10, 64)
			return "ok"
		case "add":
			r, _ := strconv.Atoi(w[1])
			reps[r].VerifSubset(setID(w[2])).Add(string(vlib.UnHex(w[3])), vlib.UnHex(w[4]))
			return "ok"
		case "del":
			r, _ := strconv.Atoi(w[1])
			reps[r].VerifSubset(setID(w[2])).Del(string(vlib.UnHex(w[3])))
			return "ok"
		case "sync":
			dst, _ := strconv.Atoi(w[1])
			src, _ := strconv.Atoi(w[2])
			return mergeInto(dst, decode(reps[src]))
		case "relay":
			dst, _ := strconv.Atoi(w[1])
			from, _ := strconv.Atoi(w[2])
			if last[from] == nil {
				return "nil"
			}
			if w[3] == "enc" {
				return mergeInto(dst, decode(last[from]))
			}
			if dst == from {
				return "nil"
			}
			// the object moves: Merge turns it into the new delta
			obj := last[from]
			last[from] = nil
			return mergeInto(dst, obj)
		case "inject":
			dst, _ := strconv.Atoi(w[1])
			a, _ := strconv.ParseInt(w[4], 10, 64)
			d, _ := strconv.ParseInt(w[5], 10, 64)
			st := event.VerifStateWith(setID(w[2]), map[string]crdt.Value{string(vlib.UnHex(w[3])): crdt.VerifValue(a, d, vlib.UnHex(w[6]))})
			if len(w) > 7 && w[7] == "enc" {
				st = decode(st)
			}
			return mergeInto(dst, st)
		case "get":
			r, _ := strconv.Atoi(w[1])
			m := reps[r].VerifSubset(setID(w[2]))
			k := string(vlib.UnHex(w[3]))
			v := m.Get(k)
			return fmt.Sprintf("(%d,%d) has=%v", v.AddTime(), v.DelTime(), m.Has(k))
		case "dump":
			r, _ := strconv.Atoi(w[1])
			return dump(reps[r])
		}
		return "bad-op"
	})
}

var _ mesh.GossipData = (*event.State)(nil)

func main() { vlib.Run(step) }
