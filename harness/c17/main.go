//go:build verif

// Correspondence harness for C17 (transport adapters deliver the byte stream unchanged):
// the real listener serve loop / sniffer / Conn write queue and the real websocket transport
// over fake sockets and frame sources that chunk exactly as the op line says.
package main

import (
	"fmt"
	"io"
	"net"
	"strconv"
	"strings"
	"sync"
	"sync/atomic"
	"time"

	"github.com/emitter-io/emitter/internal/network/listener"
	"github.com/emitter-io/emitter/internal/network/websocket"
	"github.com/emitter-io/emitter/internal/zverif/vlib"
)

// ------------------------------------------------------------------ chunked byte source

// chunked hands out its stream in the given pieces: a Read gets at most the rest of the
// head chunk; an empty chunk is a (0, nil) read; after the last chunk (0, EOF). With tailErr
// the read that takes the last byte of the last chunk returns EOF together with the data.
type chunked struct {
	chunks  [][]byte
	tailErr bool
}

func (f *chunked) Read(p []byte) (int, error) {
	if len(f.chunks) == 0 {
		return 0, io.EOF
	}
	c := f.chunks[0]
	if len(c) <= len(p) {
		copy(p, c)
		f.chunks = f.chunks[1:]
		if f.tailErr && len(f.chunks) == 0 {
			return len(c), io.EOF
		}
		return len(c), nil
	}
	n := copy(p, c)
	f.chunks[0] = c[n:]
	return n, nil
}

func (f *chunked) unread() int {
	n := 0
	for _, c := range f.chunks {
		n += len(c)
	}
	return n
}

// fakeSock is the client socket.
type fakeSock struct {
	chunked
	writes [][]byte
	closed bool
}

func (f *fakeSock) Write(p []byte) (int, error) {
	f.writes = append(f.writes, append([]byte{}, p...))
	return len(p), nil
}
func (f *fakeSock) Close() error                       { f.closed = true; return nil }
func (f *fakeSock) LocalAddr() net.Addr                { return &net.IPAddr{} }
func (f *fakeSock) RemoteAddr() net.Addr               { return &net.IPAddr{} }
func (f *fakeSock) SetDeadline(t time.Time) error      { return nil }
func (f *fakeSock) SetReadDeadline(t time.Time) error  { return nil }
func (f *fakeSock) SetWriteDeadline(t time.Time) error { return nil }

// ------------------------------------------------------------------ parsing / printing

func parseList(s, sep string) []string {
	if s == "none" {
		return nil
	}
	return strings.Split(s, sep)
}

func parseChunks(s, sep string) [][]byte {
	var out [][]byte
	for _, h := range parseList(s, sep) {
		out = append(out, vlib.UnHex(h))
	}
	return out
}

func parseSizes(s, sep string) []int {
	var out []int
	for _, h := range parseList(s, sep) {
		n, err := strconv.Atoi(h)
		if err != nil {
			panic("harness: bad size " + h)
		}
		out = append(out, n)
	}
	return out
}

func showRead(p []byte, err error) string {
	if err != nil {
		return vlib.Hex(p) + "!"
	}
	return vlib.Hex(p)
}

func showReads(l []string) string {
	if len(l) == 0 {
		return "none"
	}
	return strings.Join(l, ",")
}

// recorder notes what every Read of a matcher returned.
// holdSock is a slow peer: the first Write stalls until released and only then takes the bytes.
type holdSock struct {
	chunked
	mu      sync.Mutex
	got     []byte
	first   int32
	entered chan struct{}
	release chan struct{}
}

func (h *holdSock) Write(p []byte) (int, error) {
	if atomic.CompareAndSwapInt32(&h.first, 0, 1) { // only the first call stalls; later calls go straight through
		close(h.entered)
		<-h.release
	}
	h.mu.Lock()
	h.got = append(h.got, p...)
	h.mu.Unlock()
	return len(p), nil
}

func (h *holdSock) all() []byte {
	h.mu.Lock()
	defer h.mu.Unlock()
	return append([]byte{}, h.got...)
}

func (h *holdSock) Close() error                       { return nil }
func (h *holdSock) LocalAddr() net.Addr                { return nil }
func (h *holdSock) RemoteAddr() net.Addr               { return nil }
func (h *holdSock) SetDeadline(t time.Time) error      { return nil }
func (h *holdSock) SetReadDeadline(t time.Time) error  { return nil }
func (h *holdSock) SetWriteDeadline(t time.Time) error { return nil }

type recorder struct {
	r   io.Reader
	log *[]string
}

func (r recorder) Read(p []byte) (int, error) {
	n, err := r.r.Read(p)
	*r.log = append(*r.log, showRead(p[:n], err))
	return n, err
}

// mkMatcher builds the matcher the op line names, wrapped so that its reads are recorded.
func mkMatcher(s string, seen *[][]string) listener.Matcher {
	var inner listener.Matcher
	w := strings.Split(s, ":")
	switch {
	case s == "any":
		inner = listener.MatchAny()
	case s == "http":
		inner = listener.MatchHTTP()
	case w[0] == "p" && len(w) == 2:
		var strs []string
		for _, b := range parseChunks(w[1], ";") {
			strs = append(strs, string(b))
		}
		inner = listener.MatchPrefix(strs...)
	case w[0] == "r" && len(w) == 3:
		sizes := parseSizes(w[1], ";")
		verdict := w[2] == "1"
		inner = func(r io.Reader) bool {
			for _, n := range sizes {
				r.Read(make([]byte, n))
			}
			return verdict
		}
	default:
		panic("harness: bad matcher " + s)
	}
	return func(r io.Reader) bool {
		log := []string{}
		ok := inner(recorder{r, &log})
		*seen = append(*seen, log)
		return ok
	}
}

// readPlan issues the listed reads, then keeps reading with buffer size drain until a read
// reports an error.
func readPlan(c io.Reader, after []int, drain int, cap int) []string {
	var out []string
	for _, n := range after {
		p := make([]byte, n)
		k, err := c.Read(p)
		out = append(out, showRead(p[:k], err))
	}
	p := make([]byte, drain)
	for i := 0; i < cap; i++ {
		k, err := c.Read(p)
		out = append(out, showRead(p[:k], err))
		if err != nil {
			break
		}
	}
	return out
}

// ------------------------------------------------------------------ websocket frame source

type wsFrame struct {
	opcode int
	body   *chunked
}

type frameSource struct {
	frames   []wsFrame
	cur      *chunked
	curData  bool
	dropped  int
	msgs     []string
	open     *wsWriter
	unclosed int
}

// NextReader behaves like gorilla's: what is left of the previous message is discarded.
func (s *frameSource) NextReader() (int, io.Reader, error) {
	if s.cur != nil {
		if s.curData { // unread payload of a binary / text message is lost to the reader
			s.dropped += s.cur.unread()
		}
		s.cur = nil
	}
	if len(s.frames) == 0 {
		return 0, nil, io.EOF
	}
	f := s.frames[0]
	s.frames = s.frames[1:]
	s.cur = f.body
	s.curData = f.opcode == 1 || f.opcode == 2
	return f.opcode, f.body, nil
}

type wsWriter struct {
	src    *frameSource
	opcode int
	buf    []byte
	closed bool
}

func (w *wsWriter) Write(p []byte) (int, error) {
	w.buf = append(w.buf, p...)
	return len(p), nil
}

func (w *wsWriter) Close() error {
	if !w.closed {
		w.closed = true
		w.src.msgs = append(w.src.msgs, fmt.Sprintf("%d:%s", w.opcode, vlib.Hex(w.buf)))
		w.src.open = nil
	}
	return nil
}

func (s *frameSource) NextWriter(messageType int) (io.WriteCloser, error) {
	if s.open != nil {
		s.unclosed++
	}
	s.open = &wsWriter{src: s, opcode: messageType}
	return s.open, nil
}

// ------------------------------------------------------------------ ops

func showWrites(l [][]byte) string {
	if len(l) == 0 {
		return "."
	}
	p := make([]string, len(l))
	for i, b := range l {
		p[i] = vlib.Hex(b)
	}
	return strings.Join(p, "+")
}

func step(w []string, line string) string {
	return vlib.Guard(func() string {
		switch w[0] {
		case "sniff": // sniff <chunks> <tailErr> <sets> <after> <drain>
			sock := &fakeSock{chunked: chunked{chunks: parseChunks(w[1], ","), tailErr: w[2] == "1"}}
			total := sock.unread()
			nchunks := len(sock.chunks)
			var seen [][]string
			var sets [][]listener.Matcher
			for _, set := range parseList(w[3], "/") {
				var ms []listener.Matcher
				for _, m := range parseList(set, "+") {
					ms = append(ms, mkMatcher(m, &seen))
				}
				sets = append(sets, ms)
			}
			idx, conn := listener.VerifServe(sock, 0, sets...)
			ss := make([]string, len(seen))
			for i, l := range seen {
				ss[i] = showReads(l)
			}
			seenStr := "none"
			if len(ss) > 0 {
				seenStr = strings.Join(ss, "/")
			}
			if conn == nil {
				return fmt.Sprintf("m=none seen=%s closed=%v", seenStr, sock.closed)
			}
			drain, _ := strconv.Atoi(w[5])
			out := readPlan(conn, parseSizes(w[4], ","), drain, total+nchunks+2)
			conn.Close()
			return fmt.Sprintf("m=%d seen=%s out=%s", idx, seenStr, showReads(out))
		case "wq": // wq <op,op,...>   op = w0:<hex> | w1:<hex> (rate limited) | f
			sock := &fakeSock{}
			conn := listener.VerifNewConn(sock)
			var outs []string
			for _, op := range parseList(w[1], ",") {
				before := len(sock.writes)
				var n int
				var err error
				if op == "f" {
					n, err = conn.Flush()
				} else {
					conn.VerifSetLimited(strings.HasPrefix(op, "w1:"))
					n, err = conn.Write(vlib.UnHex(op[3:]))
				}
				if err != nil {
					return "err"
				}
				outs = append(outs, fmt.Sprintf("%d:%s", n, showWrites(sock.writes[before:])))
			}
			q := conn.Len()
			before := len(sock.writes)
			n, err := conn.Flush()
			if err != nil {
				return "err"
			}
			fin := fmt.Sprintf("%d:%s", n, showWrites(sock.writes[before:]))
			var all []byte
			for _, b := range sock.writes {
				all = append(all, b...)
			}
			return fmt.Sprintf("ops=%s q=%d fin=%s all=%s", showReads(outs), q, fin, vlib.Hex(all))
		case "wqc": // wqc <a> <b> <limitedB>: a write arrives while a flush is inside the socket's Write
			// a is queued (rate limited); a flush starts and stalls inside socket.Write (slow peer); meanwhile
			// another goroutine writes b (rate limited or not); then the socket takes the data. The client must
			// receive a then b, each once.
			sock := &holdSock{entered: make(chan struct{}), release: make(chan struct{})}
			conn := listener.VerifNewConn(sock)
			a, bb := vlib.UnHex(w[1]), vlib.UnHex(w[2])
			conn.VerifSetLimited(true)
			if _, err := conn.Write(a); err != nil {
				return "err"
			}
			var wg sync.WaitGroup
			wg.Add(1)
			go func() { defer wg.Done(); conn.Flush() }()
			select {
			case <-sock.entered:
			case <-time.After(5 * time.Second):
				return "flush-never-wrote"
			}
			conn.VerifSetLimited(w[3] == "1")
			wg.Add(1)
			go func() { defer wg.Done(); conn.Write(bb) }()
			time.Sleep(3 * time.Millisecond) // the writer is now waiting for the flush to finish (or has gone ahead)
			close(sock.release)
			wg.Wait()
			if _, err := conn.Flush(); err != nil {
				return "err"
			}
			return "all=" + vlib.Hex(sock.all())
		case "wsr": // wsr <frames> <after> <drain>   frame = <opcode>:<chunk.chunk...>[!]
			src := &frameSource{}
			total, nchunks := 0, 0
			for _, f := range parseList(w[1], ",") {
				p := strings.SplitN(f, ":", 2)
				op, _ := strconv.Atoi(p[0])
				tail := strings.HasSuffix(p[1], "!")
				body := &chunked{chunks: parseChunks(strings.TrimSuffix(p[1], "!"), "."), tailErr: tail}
				total += body.unread()
				nchunks += len(body.chunks) + 1
				src.frames = append(src.frames, wsFrame{op, body})
			}
			t := websocket.VerifNewTransport(src)
			drain, _ := strconv.Atoi(w[3])
			out := readPlan(t, parseSizes(w[2], ","), drain, total+nchunks+2)
			return fmt.Sprintf("out=%s dropped=%d", showReads(out), src.dropped)
		case "wsw": // wsw <hex,hex,...>
			src := &frameSource{}
			t := websocket.VerifNewTransport(src)
			var ns []string
			for _, p := range parseChunks(w[1], ",") {
				n, err := t.Write(p)
				if err != nil {
					return "err"
				}
				ns = append(ns, strconv.Itoa(n))
			}
			unclosed := src.unclosed
			if src.open != nil {
				unclosed++
			}
			return fmt.Sprintf("n=%s msgs=%s unclosed=%d", showReads(ns), showReads(src.msgs), unclosed)
		}
		return "bad-op"
	})
}

func main() { vlib.Run(step) }
