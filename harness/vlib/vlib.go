//go:build verif

// Package vlib holds the shared plumbing of the correspondence harnesses: they read one
// operation per line, execute it against the real packages and append " => <observable>".
package vlib

import (
	"bufio"
	"encoding/hex"
	"fmt"
	"os"
	"runtime"
	"runtime/pprof"
	"strings"
	"time"
)

// Hex renders bytes the way the Lean driver does ("-" for empty).
func Hex(b []byte) string {
	if len(b) == 0 {
		return "-"
	}
	return hex.EncodeToString(b)
}

// UnHex parses Hex output.
func UnHex(s string) []byte {
	if s == "-" {
		return []byte{}
	}
	b, err := hex.DecodeString(s)
	if err != nil {
		panic("harness: bad hex " + s)
	}
	return b
}

// Guard runs f and maps a Go panic to the observable "panic".
func Guard(f func() string) (out string) {
	defer func() {
		if r := recover(); r != nil {
			out = "panic"
			if os.Getenv("VERIF_DEBUG") != "" {
				fmt.Fprintln(os.Stderr, "panic:", r)
			}
		}
	}()
	return f()
}

// Run feeds every line of the ops file to step and writes "<line> => <observable>".
// Lines starting with '#' and empty lines are copied through.
var nreset int

func Run(step func(words []string, line string) string) {
	if len(os.Args) < 3 {
		fmt.Fprintln(os.Stderr, "usage: <harness> <ops-file> <trace-file>")
		os.Exit(2)
	}
	in, err := os.Open(os.Args[1])
	if err != nil {
		fmt.Fprintln(os.Stderr, err)
		os.Exit(2)
	}
	defer in.Close()
	out, err := os.Create(os.Args[2])
	if err != nil {
		fmt.Fprintln(os.Stderr, err)
		os.Exit(2)
	}
	w := bufio.NewWriterSize(out, 1<<20)
	sc := bufio.NewScanner(in)
	sc.Buffer(make([]byte, 1<<20), 64<<20)
	for sc.Scan() {
		line := strings.TrimSpace(sc.Text())
		if line == "" || strings.HasPrefix(line, "#") {
			fmt.Fprintln(w, line)
			continue
		}
		// an op line may already carry enrichment after " => " from a previous run: drop it
		if i := strings.Index(line, " => "); i >= 0 {
			line = line[:i]
		}
		words := strings.Fields(line)
		t0 := time.Now()
		obs := step(words, line)
		if d := time.Since(t0); d > time.Second && os.Getenv("VERIF_TIMING") != "" {
			fmt.Fprintf(os.Stderr, "SLOW %v %s\n", d, line)
		}
		// step may rewrite the op line (enrichment) by returning "LINE\x00OBS"
		if i := strings.IndexByte(obs, 0); i >= 0 {
			line, obs = obs[:i], obs[i+1:]
		}
		fmt.Fprintf(w, "%s => %s\n", line, obs)
		w.Flush() // line by line: if the process dies, the trace tells which op it was executing
		if hp := os.Getenv("VERIF_HEAPPROFILE"); hp != "" && words[0] == "reset" {
			nreset++
			if nreset%40 == 0 {
				runtime.GC()
				if f, err := os.Create(hp); err == nil {
					pprof.Lookup("heap").WriteTo(f, 0)
					f.Close()
				}
				if f, err := os.Create(hp + ".goroutines"); err == nil {
					pprof.Lookup("goroutine").WriteTo(f, 1)
					f.Close()
				}
			}
		}
	}
	w.Flush()
	out.Close()
}
