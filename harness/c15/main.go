//go:build verif

// Correspondence harness for C15 (stored messages survive broker restarts and crashes).
//
// The binary plays three roles. Without a role argument it is the parent that reads operation
// lines. For a `run` line it re-executes itself as `child-store`: a process that opens the
// disk-backed store (storage.SSD over badger) on the session directory, stores the messages of
// the line and writes "B i" / "A i" to a pipe immediately before / after every Store call; the
// parent kills it with SIGKILL at the instant the line asks for (after k acknowledgements, during
// open, during Close) or lets it stop cleanly. For a `check` line it re-executes itself as
// `child-query`: a FRESH process that opens the same directory, pages through Storage.Query with
// continuation ids for every channel of the session and reports what it finds.
package main

import (
	"bufio"
	"bytes"
	"encoding/binary"
	"fmt"
	"math"
	"math/rand"
	"os"
	"os/exec"
	"path/filepath"
	"sort"
	"strconv"
	"strings"
	"sync"
	"syscall"
	"time"

	"github.com/emitter-io/emitter/internal/message"
	"github.com/emitter-io/emitter/internal/provider/storage"
	"github.com/emitter-io/emitter/internal/zverif/vlib"
)

// ------------------------------------------------------------------------------------ shared

func emit(s string) { os.Stdout.Write([]byte(s + "\n")) }

func openStore(dir string, retain uint64) (*storage.SSD, error) {
	s := storage.NewSSD(nil)
	cfg := map[string]interface{}{"dir": dir}
	if retain > 0 {
		cfg["retain"] = float64(retain)
	}
	return s, s.Configure(cfg)
}

func parseSsid(s string) message.Ssid {
	var out message.Ssid
	for _, w := range strings.Split(s, ",") {
		v, err := strconv.ParseUint(w, 10, 32)
		if err != nil {
			panic("harness: bad ssid " + s)
		}
		out = append(out, uint32(v))
	}
	return out
}

func blockForever() {
	// the parent holds our stdin open until it kills us
	buf := make([]byte, 1)
	for {
		if _, err := os.Stdin.Read(buf); err != nil {
			time.Sleep(time.Hour)
		}
	}
}

// ------------------------------------------------------------------------------------ child: store

// child-store <dir> <retain> <workers> <mode> <fillPer> <fillSize> <t0>; stdin: n, then n lines
// "idhex chanhex payloadhex ttl"
func childStore() {
	dir := os.Args[2]
	retain, _ := strconv.ParseUint(os.Args[3], 10, 32)
	workers, _ := strconv.Atoi(os.Args[4])
	mode := os.Args[5]
	fillPer, _ := strconv.Atoi(os.Args[6])
	fillSize, _ := strconv.Atoi(os.Args[7])
	t0, _ := strconv.ParseInt(os.Args[8], 10, 64)
	closeAt := -1
	if len(os.Args) > 9 && mode == "lateclose" {
		closeAt, _ = strconv.Atoi(os.Args[9])
	}

	rd := bufio.NewReaderSize(os.Stdin, 1<<20)
	line, _ := rd.ReadString('\n')
	n, _ := strconv.Atoi(strings.TrimSpace(line))
	msgs := make([]message.Message, n)
	for i := range msgs {
		line, _ = rd.ReadString('\n')
		p := strings.Fields(line)
		ttl, _ := strconv.ParseUint(p[3], 10, 32)
		msgs[i] = message.Message{ID: vlib.UnHex(p[0]), Channel: vlib.UnHex(p[1]), Payload: vlib.UnHex(p[2]), TTL: uint32(ttl)}
	}

	s, err := openStore(dir, retain)
	if err != nil {
		emit("X " + strings.ReplaceAll(err.Error(), "\n", " "))
		os.Exit(3)
	}
	emit("R")

	fillSsid := message.Ssid{0xF111F111, 0xF1}
	var wg sync.WaitGroup
	for w := 0; w < workers; w++ {
		wg.Add(1)
		go func(w int) {
			defer wg.Done()
			rng := rand.New(rand.NewSource(int64(os.Getpid())*131 + int64(w)))
			for i := w; i < n; i += workers {
				// filler: messages that are already expired when they are stored (never visible, the
				// model does not know them); they only add volume so that memtable flushes and
				// compactions happen while real messages are stored and the process is killed
				for f := 0; f < fillPer; f++ {
					id := message.NewID(fillSsid)
					id.SetTime(t0 - 50000)
					pl := make([]byte, fillSize)
					rng.Read(pl)
					s.Store(&message.Message{ID: id, Channel: []byte("fill/"), Payload: pl, TTL: 1})
				}
				m := msgs[i]
				if i == closeAt {
					// the store is closed while the broker still has messages to store (a clean stop that
					// overlaps publishing connections): later Store calls must not be acknowledged
					emit("C")
					if err := s.Close(); err != nil {
						emit("F")
					} else {
						emit("D")
					}
				}
				emit("B " + strconv.Itoa(i))
				res := func() (res string) {
					defer func() {
						if r := recover(); r != nil {
							res = "P "
						}
					}()
					if err := s.Store(&m); err != nil {
						return "E "
					}
					return "A "
				}()
				emit(res + strconv.Itoa(i))
			}
		}(w)
	}
	wg.Wait()
	switch mode {
	case "lateclose":
		if closeAt < 0 || closeAt >= n {
			emit("C")
			if err := s.Close(); err != nil {
				emit("F")
			} else {
				emit("D")
			}
		}
		os.Exit(0)
	case "clean", "killclose":
		emit("C")
		if err := s.Close(); err != nil {
			emit("F")
		} else {
			emit("D")
		}
		if mode == "clean" {
			os.Exit(0)
		}
	default:
		emit("I")
	}
	blockForever()
}

// ------------------------------------------------------------------------------------ child: query

// child-query <dir> <retain> <limit> <mode> <t0>; stdin: n, then n lines "w,w,w" (ssids)
func childQuery() {
	dir := os.Args[2]
	retain, _ := strconv.ParseUint(os.Args[3], 10, 32)
	limit, _ := strconv.Atoi(os.Args[4])
	mode := os.Args[5]
	t0, _ := strconv.ParseInt(os.Args[6], 10, 64)

	rd := bufio.NewReader(os.Stdin)
	line, _ := rd.ReadString('\n')
	n, _ := strconv.Atoi(strings.TrimSpace(line))
	ssids := make([]message.Ssid, n)
	for i := range ssids {
		line, _ = rd.ReadString('\n')
		ssids[i] = parseSsid(strings.TrimSpace(line))
	}

	s, err := openStore(dir, retain)
	if err != nil {
		emit("X " + strings.ReplaceAll(err.Error(), "\n", " "))
		os.Exit(3)
	}
	emit("R")
	now0 := time.Now().Unix()
	raw := s.VerifRaw()
	exp := map[string]uint64{}
	for _, e := range raw {
		exp[string(e.Key)] = e.ExpiresAt
	}
	from, until := time.Unix(t0-1000000, 0), time.Unix(t0+1000000, 0)
	seen := map[string]bool{}
	var all []message.Message
	pages := 0
	for _, ssid := range ssids {
		var start message.ID
		for {
			f, err := s.Query(ssid, from, until, start, limit)
			if err != nil {
				emit("Q")
				break
			}
			if len(f) == 0 {
				break
			}
			pages++
			if len(f) > limit {
				emit("L") // a page larger than the limit
			}
			// continue after the last key in iteration (= byte) order
			last := f[0].ID
			for _, m := range f {
				if bytes.Compare(m.ID, last) > 0 {
					last = m.ID
				}
				if start != nil && bytes.Compare(m.ID, start) <= 0 {
					emit("W") // a page went backwards: continuation broken
				}
				if !seen[string(m.ID)] {
					seen[string(m.ID)] = true
					all = append(all, m)
				}
			}
			start = append(message.ID{}, last...)
		}
	}
	now1 := time.Now().Unix()
	sort.Slice(all, func(i, j int) bool { return bytes.Compare(all[i].ID, all[j].ID) < 0 })
	for _, m := range all {
		e := "-"
		if v, ok := exp[string(m.ID)]; ok {
			e = strconv.FormatUint(v, 10)
		}
		emit(fmt.Sprintf("M %s:%s:%s:%d:%s", vlib.Hex(m.ID), vlib.Hex(m.Channel), vlib.Hex(m.Payload), m.TTL, e))
	}
	for _, e := range raw {
		if !seen[string(e.Key)] {
			emit("O " + vlib.Hex(e.Key))
		}
	}
	emit(fmt.Sprintf("N %d %d", len(raw), pages))
	emit(fmt.Sprintf("T %d %d", now0, now1))
	if mode == "clean" {
		emit("C")
		if err := s.Close(); err != nil {
			emit("F")
		} else {
			emit("D")
		}
		os.Exit(0)
	}
	emit("I")
	blockForever()
}

// ------------------------------------------------------------------------------------ parent

type session struct {
	dir     string
	t0      int64
	retain  uint64
	ssids   []string // every channel a message of this session was addressed to
	hasSsid map[string]bool
	expires []int64 // expiry of every message handed to a child (for the clock-straddle test)
}

var (
	cleanup sync.WaitGroup
	base    string
	nses int
	cur  *session
	self string
)

type msgSpec struct {
	m      message.Message
	ssid   string
	expire int64
}

// <ssid>[/k]:<dt>:<seq>:<uniq>:<chan>:<payload>:<ttl>
func parseMsg(s string, t0 int64, retain uint64) msgSpec {
	p := strings.Split(s, ":")
	if len(p) != 7 {
		panic("harness: bad message " + s)
	}
	cut := -1
	ss := p[0]
	if i := strings.IndexByte(ss, '/'); i >= 0 {
		cut, _ = strconv.Atoi(ss[i+1:])
		ss = ss[:i]
	}
	ssid := parseSsid(ss)
	dt, _ := strconv.ParseInt(p[1], 10, 64)
	seq, _ := strconv.ParseUint(p[2], 10, 32)
	uniq, _ := strconv.ParseUint(p[3], 10, 32)
	ttl, _ := strconv.ParseUint(p[6], 10, 32)
	id := message.NewID(ssid)
	id.SetTime(t0 + dt)
	binary.BigEndian.PutUint32(id[8:12], math.MaxUint32-uint32(seq))
	binary.BigEndian.PutUint32(id[12:16], uint32(uniq))
	if cut >= 0 && cut < len(id) {
		id = id[:cut]
	}
	eff := ttl
	if uint32(ttl) == message.RetainedTTL {
		eff = retain
		if retain == 0 {
			eff = 2592000
		}
	}
	return msgSpec{
		m:      message.Message{ID: id, Channel: vlib.UnHex(p[4]), Payload: vlib.UnHex(p[5]), TTL: uint32(ttl)},
		ssid:   ss,
		expire: t0 + dt + int64(eff),
	}
}

// sanitize turns an error text into one word (the model never predicts an error; the text is
// only there for whoever reads the replay)
func sanitize(s string) string {
	s = strings.TrimSpace(s)
	if cur != nil {
		s = strings.ReplaceAll(s, cur.dir, "DIR")
	}
	s = strings.Map(func(r rune) rune {
		if r == ' ' || r == '\t' || r == ',' {
			return '_'
		}
		return r
	}, s)
	if i := strings.Index(s, "Create_a_new_file"); i >= 0 {
		s = s[:i+len("Create_a_new_file")] // what follows is a stack trace
	}
	if len(s) > 160 {
		s = s[:160]
	}
	return s
}

func ranges(idx []int) string {
	if len(idx) == 0 {
		return "none"
	}
	sort.Ints(idx)
	var parts []string
	for i := 0; i < len(idx); {
		j := i
		for j+1 < len(idx) && idx[j+1] == idx[j]+1 {
			j++
		}
		if j > i {
			parts = append(parts, fmt.Sprintf("%d-%d", idx[i], idx[j]))
		} else {
			parts = append(parts, strconv.Itoa(idx[i]))
		}
		i = j + 1
	}
	return strings.Join(parts, ",")
}

func spin(us int) {
	if us <= 0 {
		return
	}
	end := time.Now().Add(time.Duration(us) * time.Microsecond)
	for time.Now().Before(end) {
	}
}

type child struct {
	cmd   *exec.Cmd
	in    *os.File
	lines chan string
}

func spawn(args []string, stdin string) (*child, error) {
	cmd := exec.Command(self, args...)
	pr, pw, err := os.Pipe()
	if err != nil {
		return nil, err
	}
	ir, iw, err := os.Pipe()
	if err != nil {
		return nil, err
	}
	cmd.Stdout = pw
	cmd.Stdin = ir
	if os.Getenv("VERIF_DEBUG") != "" {
		cmd.Stderr = os.Stderr
	}
	if err := cmd.Start(); err != nil {
		return nil, err
	}
	pw.Close()
	ir.Close()
	c := &child{cmd: cmd, in: iw, lines: make(chan string, 1<<16)}
	go func() {
		iw.Write([]byte(stdin))
	}()
	go func() {
		sc := bufio.NewScanner(pr)
		sc.Buffer(make([]byte, 1<<20), 64<<20)
		for sc.Scan() {
			c.lines <- sc.Text()
		}
		pr.Close()
		close(c.lines)
	}()
	return c, nil
}

func (c *child) kill() { c.cmd.Process.Signal(syscall.SIGKILL) }

func (c *child) wait() string {
	err := c.cmd.Wait()
	c.in.Close()
	if err == nil {
		return "0"
	}
	if ee, ok := err.(*exec.ExitError); ok {
		if ws, ok := ee.Sys().(syscall.WaitStatus); ok && ws.Signaled() {
			if ws.Signal() == syscall.SIGKILL {
				return "killed"
			}
			return "signal"
		}
		return strconv.Itoa(ee.ExitCode())
	}
	return "err"
}

// run <how> <k> <d> <workers> <fillPer>x<fillSize> <msg>...
func doRun(w []string) string {
	if cur == nil || len(w) < 6 {
		return "bad-op"
	}
	how := w[1]
	k, _ := strconv.Atoi(w[2])
	d, _ := strconv.Atoi(w[3])
	workers, _ := strconv.Atoi(w[4])
	if workers < 1 {
		workers = 1
	}
	fill := strings.Split(w[5], "x")
	var sb strings.Builder
	n := len(w) - 6
	sb.WriteString(strconv.Itoa(n) + "\n")
	for _, s := range w[6:] {
		ms := parseMsg(s, cur.t0, cur.retain)
		if !cur.hasSsid[ms.ssid] {
			cur.hasSsid[ms.ssid] = true
			cur.ssids = append(cur.ssids, ms.ssid)
		}
		cur.expires = append(cur.expires, ms.expire)
		fmt.Fprintf(&sb, "%s %s %s %d\n", vlib.Hex(ms.m.ID), vlib.Hex(ms.m.Channel), vlib.Hex(ms.m.Payload), ms.m.TTL)
	}
	mode := "kill"
	if how == "clean" || how == "killclose" || how == "lateclose" {
		mode = how
	}
	if how == "lateclose" {
		workers = 1
	}
	c, err := spawn([]string{"child-store", cur.dir, strconv.FormatUint(cur.retain, 10), strconv.Itoa(workers), mode,
		fill[0], fill[1], strconv.FormatInt(cur.t0, 10), strconv.Itoa(k)}, sb.String())
	if err != nil {
		return "spawn-failed"
	}
	killed := false
	doKill := func() {
		if !killed {
			killed = true
			spin(d)
			c.kill()
		}
	}
	if how == "killopen" {
		spin(k) // here k is a delay in microseconds after the process was started
		doKill()
	}
	var acked, begun, errs, panics []int
	open, closed := "no", "no"
	done := map[int]bool{}
	timeout := time.After(120 * time.Second)
	timedOut := false
loop:
	for {
		select {
		case ln, ok := <-c.lines:
			if !ok {
				break loop
			}
			switch ln[0] {
			case 'R':
				open = "ok"
				if how == "kill" && k <= 0 {
					doKill()
				}
			case 'X':
				open = "err:" + sanitize(ln[1:])
			case 'B', 'A', 'E', 'P':
				i, _ := strconv.Atoi(ln[2:])
				switch ln[0] {
				case 'B':
					begun = append(begun, i)
				case 'A':
					acked = append(acked, i)
					done[i] = true
					if how == "kill" && len(acked) >= k {
						doKill()
					}
				case 'E':
					errs = append(errs, i)
					done[i] = true
				case 'P':
					panics = append(panics, i)
					done[i] = true
				}
			case 'C':
				if how == "killclose" {
					doKill()
				}
			case 'D':
				closed = "yes"
				if how == "killclose" {
					doKill()
				}
			case 'F':
				closed = "err"
				if how == "killclose" {
					doKill()
				}
			case 'I':
				if how == "kill" {
					doKill()
				}
			}
		case <-timeout:
			timedOut = true
			c.kill()
			timeout = nil
		}
	}
	exit := c.wait()
	if timedOut {
		exit = "timeout"
	}
	var inflight []int
	for _, i := range begun {
		if !done[i] {
			inflight = append(inflight, i)
		}
	}
	return fmt.Sprintf("exit=%s open=%s acked=%s inflight=%s errs=%s panics=%s closed=%s", exit, open,
		ranges(acked), ranges(inflight), ranges(errs), ranges(panics), closed)
}

// check <limit> <how>   (how: clean | kill)
func doCheck(w []string) string {
	if cur == nil || len(w) < 3 {
		return "bad-op"
	}
	var sb strings.Builder
	sb.WriteString(strconv.Itoa(len(cur.ssids)) + "\n")
	for _, s := range cur.ssids {
		sb.WriteString(s + "\n")
	}
	for attempt := 0; ; attempt++ {
		c, err := spawn([]string{"child-query", cur.dir, strconv.FormatUint(cur.retain, 10), w[1], w[2], strconv.FormatInt(cur.t0, 10)}, sb.String())
		if err != nil {
			return "spawn-failed"
		}
		open, closed := "no", "na"
		var hist, orphans, odd []string
		nraw, pages := "?", "?"
		var now0, now1 int64
		timeout := time.After(120 * time.Second)
		timedOut := false
	loop:
		for {
			select {
			case ln, ok := <-c.lines:
				if !ok {
					break loop
				}
				switch ln[0] {
				case 'R':
					open = "ok"
				case 'X':
					open = "err:" + sanitize(ln[1:])
				case 'M':
					hist = append(hist, ln[2:])
				case 'O':
					orphans = append(orphans, ln[2:])
				case 'N':
					p := strings.Fields(ln)
					nraw, pages = p[1], p[2]
				case 'T':
					p := strings.Fields(ln)
					now0, _ = strconv.ParseInt(p[1], 10, 64)
					now1, _ = strconv.ParseInt(p[2], 10, 64)
				case 'Q', 'L', 'W':
					odd = append(odd, ln[:1])
				case 'D':
					closed = "yes"
				case 'F':
					closed = "err"
				case 'I':
					c.kill()
				}
			case <-timeout:
				timedOut = true
				c.kill()
				timeout = nil
			}
		}
		exit := c.wait()
		if timedOut {
			exit = "timeout"
		}
		// a message whose expiry falls inside the second(s) the query ran in is visible or not
		// depending on the instant: wait and ask again
		straddle := false
		for _, e := range cur.expires {
			if e > now0 && e <= now1 {
				straddle = true
			}
		}
		if straddle && attempt < 6 && open == "ok" {
			time.Sleep(1100 * time.Millisecond)
			continue
		}
		_ = pages
		j := func(l []string) string {
			if len(l) == 0 {
				return "none"
			}
			return strings.Join(l, ",")
		}
		want := "0"
		if w[2] != "clean" {
			want = "killed"
		}
		if exit == want {
			exit = "ok"
		}
		obs := fmt.Sprintf("open=%s exit=%s closed=%s odd=%s n=%s orphans=%s hist=%s", open, exit, closed, j(odd), nraw, j(orphans), j(hist))
		return fmt.Sprintf("check %s %s now=%d", w[1], w[2], now0) + "\x00" + obs
	}
}

func step(w []string, line string) string {
	if os.Getenv("VERIF_TIMING") != "" {
		st := time.Now()
		defer func() { fmt.Fprintf(os.Stderr, "%8.3fs %s\n", time.Since(st).Seconds(), strings.Join(w[:min(len(w), 6)], " ")) }()
	}
	return vlib.Guard(func() string {
		switch w[0] {
		case "reset":
			if cur != nil {
				old := cur.dir
				cleanup.Add(1)
				go func() { defer cleanup.Done(); os.RemoveAll(old) }()
			}
			nses++
			retain, _ := strconv.ParseUint(w[1], 10, 32)
			cur = &session{dir: filepath.Join(base, fmt.Sprintf("s%d", nses)), t0: time.Now().Unix(), retain: retain, hasSsid: map[string]bool{}}
			if err := os.MkdirAll(cur.dir, 0777); err != nil {
				return "mkdir-failed"
			}
			return fmt.Sprintf("reset %s t0=%d", w[1], cur.t0) + "\x00ok"
		case "run":
			return doRun(w)
		case "check":
			return doCheck(w)
		case "plant":
			// plant: what a kill while badger creates (or deletes) a memtable file leaves behind — a zero-length
			// NNNNN.mem with the next file id. The store must open all the same.
			if cur == nil {
				return "bad-op"
			}
			next := 1
			if ents, err := os.ReadDir(cur.dir); err == nil {
				for _, e := range ents {
					if strings.HasSuffix(e.Name(), ".mem") {
						if v, err := strconv.Atoi(strings.TrimSuffix(e.Name(), ".mem")); err == nil && v >= next {
							next = v + 1
						}
					}
				}
			}
			f, err := os.Create(filepath.Join(cur.dir, fmt.Sprintf("%05d.mem", next)))
			if err != nil {
				return "plant-failed"
			}
			f.Close()
			return "ok"
		case "incarnations":
			// incarnations <p> <n>: p successive broker processes each create their first n message ids for
			// one channel within one second; the id is the key of the stored message, so an id a later
			// incarnation repeats overwrites a message acknowledged before the restart
			seen := map[string]int{}
			np, _ := strconv.Atoi(w[1])
			for pi := 0; pi < np; pi++ {
				c, err := spawn([]string{"child-ids", w[2]}, "")
				if err != nil {
					return "spawn-failed"
				}
				got := 0
				for ln := range c.lines {
					if strings.HasPrefix(ln, "K ") {
						got++
						if q, dup := seen[ln[2:]]; dup {
							c.wait()
							return fmt.Sprintf("repeated id=%s processes=%d,%d", ln[2:], q, pi)
						}
						seen[ln[2:]] = pi
					}
				}
				c.wait()
				if got == 0 {
					return "no-ids"
				}
			}
			return "distinct"
		case "sleep":
			ms, _ := strconv.Atoi(w[1])
			time.Sleep(time.Duration(ms) * time.Millisecond)
			return "ok"
		}
		return "bad-op"
	})
}

func main() {
	if len(os.Args) > 1 && os.Args[1] == "child-store" {
		childStore()
		return
	}
	if len(os.Args) > 1 && os.Args[1] == "child-ids" {
		// one broker incarnation: the first n message ids it creates for one channel, all forced into
		// the same second (a restart within a second of the previous run)
		n, _ := strconv.Atoi(os.Args[2])
		for i := 0; i < n; i++ {
			id := message.NewID(message.Ssid{7, 9})
			id.SetTime(1700000000)
			emit("K " + vlib.Hex(id))
		}
		return
	}
	if len(os.Args) > 1 && os.Args[1] == "child-query" {
		childQuery()
		return
	}
	var err error
	if self, err = os.Executable(); err != nil {
		fmt.Fprintln(os.Stderr, err)
		os.Exit(2)
	}
	if len(os.Args) >= 3 {
		// temporary directories live next to the trace file (the framework's .work) and are removed
		base = filepath.Join(filepath.Dir(os.Args[2]), fmt.Sprintf("c15-dirs-%d", os.Getpid()))
	} else {
		base = filepath.Join(os.TempDir(), fmt.Sprintf("c15-dirs-%d", os.Getpid()))
	}
	defer os.RemoveAll(base)
	vlib.Run(step)
	cleanup.Wait()
	os.RemoveAll(base)
}
