//go:build verif

package listener

import (
	"net"
	"strings"
	"sync"
	"time"

	"github.com/kelindar/rate"
)

// VerifConsts reports the constants the Lean model is parameterised by.
func VerifConsts() map[string]string {
	return map[string]string{
		"httpMethods": "LS:" + strings.Join(defaultHTTPMethods, "\x1f"),
	}
}

// VerifServe runs the listener's own serve loop (newConn, startSniffing per matcher,
// doneSniffing on the first match, hand-over through the mux channel) on one accepted
// connection, without a TCP listener. It returns the index of the matcher set that took the
// connection and the sniffing connection that set's Accept would return, or (-1, nil) when
// nothing matched (serve then closes c).
func VerifServe(c net.Conn, flushRate int, sets ...[]Matcher) (int, net.Conn) {
	l := &Listener{
		bufferSize:   4,
		errorHandler: func(error) bool { return true },
		closing:      make(chan struct{}),
		readTimeout:  noTimeout,
		config:       Config{FlushRate: flushRate},
	}
	ls := make([]muxListener, 0, len(sets))
	for _, s := range sets {
		ls = append(ls, l.Match(s...).(muxListener))
	}
	var wg sync.WaitGroup
	wg.Add(1)
	l.serve(c, l.closing, &wg)
	for i, ml := range ls {
		select {
		case conn := <-ml.connections:
			return i, conn
		default:
		}
	}
	return -1, nil
}

// VerifNewConn builds a sniffing connection over c without the background flush timer, so
// that the harness decides when Flush runs; the rate limiter is the real one.
func VerifNewConn(c net.Conn) *Conn {
	return &Conn{
		socket: c,
		reader: sniffer{source: c},
		limit:  rate.New(1, time.Hour),
		cancel: func() {},
	}
}

// VerifSetLimited drives the (real) limiter into the state in which its next verdict is
// `limited`: the allowance is drained, and one unit is given back for "not limited".
func (m *Conn) VerifSetLimited(limited bool) {
	for !m.limit.Limit() {
	}
	if !limited {
		m.limit.Undo()
	}
}
