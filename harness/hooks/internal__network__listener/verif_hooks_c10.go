//go:build verif

package listener

import (
	"net"
	"time"

	"github.com/kelindar/rate"
)

// VerifC10NewConn wraps a socket with the sniffing/buffering connection at the given flush
// rate, exactly as the listener does for an accepted connection (periodic flush timer included).
func VerifC10NewConn(c net.Conn, writeRate int) *Conn {
	return newConn(c, writeRate)
}

// VerifC10NewScripted builds the same connection without the background flush timer and with a
// pinned limiter (see VerifC10SetTokens), so that a harness decides when Flush runs and what
// Limit() answers.
func VerifC10NewScripted(c net.Conn, tokens int) *Conn {
	conn := &Conn{
		socket: c,
		reader: sniffer{source: c},
		cancel: func() {},
	}
	conn.VerifC10SetTokens(tokens)
	return conn
}

// VerifC10SetTokens replaces the limiter by one that admits exactly n (at most 1000) more writes
// and then limits: its bucket refills over 1000 hours.
func (m *Conn) VerifC10SetTokens(n int) {
	k := n
	if k < 1 {
		k = 1
	}
	if k > 1000 {
		k = 1000
	}
	l := rate.New(k, 1000*time.Hour)
	if n < 1 {
		l.Limit()
	}
	m.limit = l
}

// VerifC10LockFree reports whether the connection's mutex is free right now.
func (m *Conn) VerifC10LockFree() bool {
	if m.TryLock() {
		m.Unlock()
		return true
	}
	return false
}
