//go:build verif

package crdt

// VerifValue builds a value with explicit add / remove times.
func VerifValue(add, del int64, payload []byte) Value {
	v := newValue()
	v.setAddTime(add)
	v.setDelTime(del)
	v.setValue(payload)
	return v
}

// VerifVolatile builds a volatile set holding exactly the given entries.
func VerifVolatile(items map[string]Value) *Volatile { return newVolatileWith(items) }
