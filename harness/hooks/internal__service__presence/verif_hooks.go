//go:build verif

package presence

// VerifQueued is the number of presence notifications not yet dispatched.
func (s *Service) VerifQueued() int { return len(s.queue) }
