//go:build verif

package presence

import (
	"time"

	"github.com/emitter-io/emitter/internal/message"
)

// VerifQueued is the number of presence notifications not yet dispatched.
func (s *Service) VerifQueued() int { return len(s.queue) }

// VerifBarrier returns once every notification queued before the call has been dispatched:
// it queues two markers nobody is subscribed to; the single dispatcher goroutine takes the
// second one only after it has finished the first, hence everything queued earlier.
func (s *Service) VerifBarrier() {
	marker := func() *Notification {
		return &Notification{Ssid: message.Ssid{0xFFFFFFFF, 0xFFFFFFFE, 0xFFFFFFFD}, Event: EventTypeStatus}
	}
	s.queue <- marker()
	s.queue <- marker()
	deadline := time.Now().Add(3 * time.Second)
	for len(s.queue) > 0 && time.Now().Before(deadline) {
		time.Sleep(50 * time.Microsecond)
	}
}
