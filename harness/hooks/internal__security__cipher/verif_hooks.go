//go:build verif

package cipher

// VerifDecodeKey exposes the in-place base64 decoder to the correspondence harness.
func VerifDecodeKey(dst, src []byte) (int, error) { return decodeKey(dst, src) }

// VerifConsts reports the constants the Lean model is parameterised by.
func VerifConsts() map[string]string {
	return map[string]string{
		"base64DecodeMap": "LB:" + byteList(decodeMap[:]),
		"xteaRounds":     "N:" + itoa(uint64(xteaRounds)),
		"xteaDelta":      "U32:" + itoa(uint64(xteaDelta)),
		"xteaSum":        "U32:" + itoa(uint64(xteaSum)),
	}
}

func itoa(v uint64) string {
	if v == 0 {
		return "0"
	}
	var b []byte
	for v > 0 {
		b = append([]byte{byte('0' + v%10)}, b...)
		v /= 10
	}
	return string(b)
}

func byteList(b []byte) string {
	out := ""
	for i, c := range b {
		if i > 0 {
			out += ","
		}
		out += itoa(uint64(c))
	}
	return out
}
