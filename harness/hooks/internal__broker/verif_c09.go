//go:build verif

package broker

import (
	"context"
	"net"
	"sync/atomic"
	"time"

	conf "github.com/emitter-io/config"
	"github.com/emitter-io/emitter/internal/config"
	"github.com/emitter-io/emitter/internal/provider/contract"
	"github.com/emitter-io/emitter/internal/provider/logging"
	"github.com/emitter-io/emitter/internal/provider/storage"
	"github.com/emitter-io/emitter/internal/provider/usage"
	"github.com/emitter-io/emitter/internal/service/cluster"
)

const verifC09License = "zT83oDV0DWY5_JysbSTPTDr8KB0AAAAAAAAAAAAAAAI"

type verifC09Quiet struct{}

func (verifC09Quiet) Name() string                           { return "quiet" }
func (verifC09Quiet) Configure(map[string]interface{}) error { return nil }
func (verifC09Quiet) Printf(format string, v ...interface{}) {}

// VerifC09Broker builds a complete broker (cluster side included, router not started, no
// ports) over an in-memory message store; `dir` receives the durable ban set.
func VerifC09Broker(dir string, maxMessage int) (*Service, error) {
	cfg := config.NewDefault().(*config.Config)
	cfg.License = verifC09License
	cfg.TLS = &conf.TLSConfig{}
	cfg.Limit.MessageSize = maxMessage
	cfg.Cluster = &config.ClusterConfig{NodeName: "00:00:00:00:00:01", ListenAddr: ":4000", AdvertiseAddr: ":4001", Directory: dir}
	b, err := NewService(context.Background(), cfg)
	if err != nil {
		return nil, err
	}
	logging.Logger = verifC09Quiet{}
	b.contracts = contract.NewSingleContractProvider(b.License, usage.NewNoop())
	st := storage.NewInMemory(b)
	if err := st.Configure(nil); err != nil {
		return nil, err
	}
	b.storage = st
	b.surveyor.HandleFunc(st)
	b.surveyor.Start()
	return b, nil
}

// VerifC09Attach hands a transport to the broker exactly as the TCP listener does.
func (s *Service) VerifC09Attach(c net.Conn) { s.onAcceptConn(c) }

// VerifC09Swarm exposes the cluster side (gossip callbacks are exported methods).
func (s *Service) VerifC09Swarm() *cluster.Swarm { return s.cluster }

// VerifC09Store exposes the message store.
func (s *Service) VerifC09Store() storage.Storage { return s.storage }

// VerifC09Connections is the live connection counter.
func (s *Service) VerifC09Connections() int64 { return atomic.LoadInt64(&s.connections) }

// VerifC09Key mints a channel key from the license's master key.
func (s *Service) VerifC09Key(channel string, access uint8) string {
	mk, err := s.License.NewMasterKey(1)
	if err != nil {
		panic(err)
	}
	c, err := s.License.Cipher()
	if err != nil {
		panic(err)
	}
	master, err := c.EncryptKey(mk)
	if err != nil {
		panic(err)
	}
	k, kerr := s.keygen.CreateKey(master, channel, access, time.Unix(0, 0))
	if kerr != nil {
		panic(kerr.Error())
	}
	return k
}

// VerifC09TrieFree tells whether the subscription trie's lock can be taken for writing, i.e.
// that no earlier operation left it held.
func (s *Service) VerifC09TrieFree() bool {
	// other goroutines (monitoring, timers) take the read lock for microseconds: only a lock
	// that stays unavailable for 30 ms counts as left behind
	for i := 0; i < 30; i++ {
		if s.subscriptions.TryLock() {
			s.subscriptions.Unlock()
			return true
		}
		time.Sleep(time.Millisecond)
	}
	return false
}

// VerifC09TrieRelease drops one read lock that a panicking lookup left behind (the harness
// repairs its local broker this way instead of building a new one).
func (s *Service) VerifC09TrieRelease() { s.subscriptions.RUnlock() }
