//go:build verif

package broker

import "github.com/emitter-io/emitter/internal/service/keygen"

// VerifC12Keygen exposes the key generation service NewService wired up from the license, so
// that the C12 harness issues keys exactly as the broker does (CreateKey) before tampering.
func (s *Service) VerifC12Keygen() *keygen.Service { return s.keygen }
