//go:build verif

package broker

import (
	"context"
	"net"

	conf "github.com/emitter-io/config"
	"github.com/emitter-io/emitter/internal/config"
	"github.com/emitter-io/emitter/internal/event"
	"github.com/emitter-io/emitter/internal/message"
	"github.com/emitter-io/emitter/internal/provider/logging"
	"github.com/emitter-io/emitter/internal/provider/storage"
	"github.com/emitter-io/emitter/internal/security"
	"github.com/emitter-io/emitter/internal/service/cluster"
	"github.com/emitter-io/emitter/internal/service/keygen"
)

type quietLogger struct{}

func (quietLogger) Name() string                                  { return "quiet" }
func (quietLogger) Configure(config map[string]interface{}) error { return nil }
func (quietLogger) Printf(format string, v ...interface{})        {}

// VerifNewBroker builds a broker service that listens on no port: single-contract provider
// of the license (the default), storage provider by name ("inmemory", or "ssd" under
// storeDir), cluster state kept under dir.
func VerifNewBroker(lic, matcher, dir, node, storeName, storeDir string) (*Service, error) {
	cfg := config.NewDefault().(*config.Config)
	cfg.License = lic
	cfg.Matcher = matcher
	cfg.TLS = &conf.TLSConfig{}
	cfg.Cluster = &config.ClusterConfig{NodeName: node, ListenAddr: ":4000", AdvertiseAddr: ":4001", Directory: dir}
	if storeName != "" {
		cfg.Storage = &conf.ProviderConfig{Provider: storeName, Config: map[string]interface{}{"dir": storeDir}}
	}
	logging.Logger = quietLogger{}
	b, err := NewService(context.Background(), cfg)
	logging.Logger = quietLogger{}
	if err != nil {
		return nil, err
	}
	return b, nil
}

// VerifAttach hands a connection to the broker exactly as the TCP listener does.
func (s *Service) VerifAttach(c net.Conn) { s.onAcceptConn(c) }

// VerifAuthorize calls Service.Authorize.
func (s *Service) VerifAuthorize(ch *security.Channel, perm uint8) bool {
	_, _, ok := s.Authorize(ch, perm)
	return ok
}

func (s *Service) VerifTrie() *message.Trie      { return s.subscriptions }
func (s *Service) VerifConnections() int64       { return s.connections }
func (s *Service) VerifCluster() *cluster.Swarm  { return s.cluster }
func (s *Service) VerifStorage() storage.Storage { return s.storage }
func (s *Service) VerifKeygen() *keygen.Service  { return s.keygen }
func (s *Service) VerifPresenceQueued() int      { return s.presence.VerifQueued() }
func (s *Service) VerifPresenceBarrier()         { s.presence.VerifBarrier() }

// VerifBan adds or removes a ban the way keyban does after its checks.
func (s *Service) VerifBan(key string, on bool) {
	b := event.Ban(key)
	s.cluster.Notify(&b, on)
}

// VerifRelease is called by the harness after Close: the service's background goroutines (mesh actor
// loops, presence poller, repeat timers) never end and keep the closed service reachable; dropping its
// stores lets the Go runtime reclaim them (about 10 MB per service), so long harness runs stay small.
func (s *Service) VerifRelease() {
	if s.cluster != nil {
		s.cluster.VerifDropState()
	}
	s.storage = nil
	s.subscriptions = message.NewTrie()
}
