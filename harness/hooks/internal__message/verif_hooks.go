//go:build verif

package message

import (
	"strconv"
	"sync/atomic"
	"time"
)

// VerifConsts reports the constants the Lean model is parameterised by.
func VerifConsts() map[string]string {
	u32 := func(v uint32) string { return "U32:" + strconv.FormatUint(uint64(v), 10) }
	return map[string]string{
		"msgFixed":         "N:" + strconv.Itoa(fixed),
		"msgTimeOffset":    "I:" + strconv.FormatInt(offset, 10),
		"msgRetainedTTL":   "N:" + strconv.FormatUint(uint64(RetainedTTL), 10),
		"ssidSystem":       u32(system),
		"ssidPresence":     u32(presence),
		"ssidQuery":        u32(query),
		"ssidWildcard":     u32(wildcard),
		"ssidMultiWild":    u32(multiWildcard),
		"ssidShare":        u32(share),
	}
}

// VerifNewID creates an id and reports the clock second, sequence number and process nonce
// that went into it (retrying when the second ticks over during the call).
func VerifNewID(ssid Ssid) (id ID, unix int64, seq uint32, uniq uint32) {
	for {
		t0 := time.Now().Unix()
		id = NewID(ssid)
		seq = atomic.LoadUint32(&next)
		if time.Now().Unix() == t0 {
			return id, t0, seq, unique
		}
	}
}

// VerifSetNext positions the id sequence counter (to reach the wrap-around quickly).
func VerifSetNext(v uint32) { atomic.StoreUint32(&next, v) }

// VerifTrieDump reports the number of live trie nodes and every (ssid, subscriber id) pair.
func (t *Trie) VerifTrieDump() (nodes int, pairs [][2]string) {
	t.RLock()
	defer t.RUnlock()
	var walk func(n *node, path Ssid)
	walk = func(n *node, path Ssid) {
		nodes++
		for _, s := range n.subs {
			p := ""
			for i, w := range path {
				if i > 0 {
					p += "."
				}
				p += strconv.FormatUint(uint64(w), 10)
			}
			pairs = append(pairs, [2]string{p, s.ID()})
		}
		for w, c := range n.children {
			walk(c, append(append(Ssid{}, path...), w))
		}
	}
	walk(t.root, nil)
	return
}
