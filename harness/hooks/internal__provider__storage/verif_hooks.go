//go:build verif

package storage

import (
	"strconv"

	"github.com/dgraph-io/badger/v3"
)

// VerifConsts reports the constants the Lean model is parameterised by.
func VerifConsts() map[string]string {
	return map[string]string{
		"storeDefaultRetain": "N:" + strconv.Itoa(defaultRetain),
	}
}

// VerifEntry is one live key of the underlying store as a fresh read transaction shows it.
type VerifEntry struct {
	Key       []byte
	ExpiresAt uint64
}

// VerifRaw lists every live (not deleted, not expired) key of the store in key order together
// with the expiry recorded for it, without going through Query.
func (s *SSD) VerifRaw() (out []VerifEntry) {
	s.db.View(func(tx *badger.Txn) error {
		it := tx.NewIterator(badger.IteratorOptions{PrefetchValues: false})
		defer it.Close()
		for it.Rewind(); it.Valid(); it.Next() {
			out = append(out, VerifEntry{Key: it.Item().KeyCopy(nil), ExpiresAt: it.Item().ExpiresAt()})
		}
		return nil
	})
	return
}
