//go:build verif

package storage

import (
	"github.com/emitter-io/emitter/internal/message"
	"github.com/kelindar/binary"
)

// VerifC09Lookup runs the local lookup of a history query and reports the number of matches
// and the capacity of the result buffer (= what was allocated for it).
func (s *SSD) VerifC09Lookup(ssid message.Ssid, limit int) (n int, capacity int) {
	q := lookupQuery{Ssid: ssid, From: 0, Until: 3029529600, Limit: limit}
	f := s.lookup(q)
	return len(f), cap(f)
}

// VerifC09Query is the survey payload a peer sends for a history lookup.
func VerifC09Query(ssid message.Ssid, limit int) []byte {
	b, err := binary.Marshal(lookupQuery{Ssid: ssid, From: 0, Until: 3029529600, Limit: limit})
	if err != nil {
		panic(err)
	}
	return b
}
