//go:build verif

package websocket

import "net"

// VerifC10NewTransport builds the MQTT-over-WebSocket transport over a supplied frame
// source/sink instead of an upgraded HTTP connection.
func VerifC10NewTransport(ws websocketConn) net.Conn {
	return newConn(ws)
}
