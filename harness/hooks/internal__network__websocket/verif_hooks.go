//go:build verif

package websocket

import (
	"io"
	"net"
	"strconv"
	"time"

	"github.com/gorilla/websocket"
)

// VerifConsts reports the constants the Lean model is parameterised by.
func VerifConsts() map[string]string {
	return map[string]string{
		"wsTextMessage":   "N:" + strconv.Itoa(websocket.TextMessage),
		"wsBinaryMessage": "N:" + strconv.Itoa(websocket.BinaryMessage),
	}
}

// VerifFrameSource is the part of a websocket connection the transport reads from and
// writes to (gorilla's NextReader / NextWriter).
type VerifFrameSource interface {
	NextReader() (messageType int, r io.Reader, err error)
	NextWriter(messageType int) (io.WriteCloser, error)
}

type verifConn struct{ VerifFrameSource }

func (verifConn) Close() error                       { return nil }
func (verifConn) LocalAddr() net.Addr                { return &net.IPAddr{} }
func (verifConn) RemoteAddr() net.Addr               { return &net.IPAddr{} }
func (verifConn) SetReadDeadline(t time.Time) error  { return nil }
func (verifConn) SetWriteDeadline(t time.Time) error { return nil }

// VerifNewTransport builds the real transport (newConn) over a supplied frame source.
func VerifNewTransport(src VerifFrameSource) net.Conn {
	return newConn(verifConn{src})
}
