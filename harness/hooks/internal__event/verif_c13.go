//go:build verif

package event

import "github.com/emitter-io/emitter/internal/event/crdt"

// VerifC13Event is a replicated event with an explicit subset, key and value.
type VerifC13Event struct {
	Typ  uint8
	K    string
	V    []byte
}

func (e *VerifC13Event) unitType() uint8 { return e.Typ }

// Key returns the event key.
func (e *VerifC13Event) Key() string { return e.K }

// Val returns the event value.
func (e *VerifC13Event) Val() []byte { return e.V }

// VerifC13State builds a volatile state holding exactly the given entries per subset.
func VerifC13State(items map[uint8]map[string]crdt.Value) *State {
	st := NewState("")
	for typ, m := range items {
		st.subsets[typ] = crdt.VerifVolatile(m)
	}
	return st
}
