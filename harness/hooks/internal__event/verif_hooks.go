//go:build verif

package event

import "github.com/emitter-io/emitter/internal/event/crdt"

// VerifSetIDs are the subset type codes in the order sub, ban, conn.
func VerifSetIDs() [3]uint8 { return [3]uint8{typeSub, typeBan, typeConn} }

// VerifSubset gives the harness direct access to one replicated set.
func (st *State) VerifSubset(typ uint8) crdt.Map { return st.subsets[typ] }

// VerifStateWith builds a volatile state whose subset typ holds exactly the given entries.
func VerifStateWith(typ uint8, items map[string]crdt.Value) *State {
	st := NewState("")
	st.subsets[typ] = crdt.VerifVolatile(items)
	return st
}

// VerifDurable tells whether the state uses the durable backend.
func (st *State) VerifDurable() bool { return st.durable }
