//go:build verif

package mesh

// Hook for C13: a REAL gossipSender (the per-connection queue of weaveworks/mesh) whose
// background loop is not started, so that the harness decides when pick / deliver run.
// Send, Broadcast, pick and deliver below are the library's own methods; nothing of the
// queueing logic is re-implemented here.

// VerifMsg is one protocol message handed to the connection by deliver.
type VerifMsg struct {
	Broadcast bool
	Src       PeerName
	Payload   []byte
}

type verifRecorder struct{ msgs []VerifMsg }

func (r *verifRecorder) SendProtocolMsg(m protocolMsg) error {
	v := VerifMsg{Broadcast: m.tag == ProtocolGossipBroadcast, Payload: m.msg}
	if v.Broadcast {
		v.Src, v.Payload = verifSrc(m.msg), m.msg[8:]
	}
	r.msgs = append(r.msgs, v)
	return nil
}

func verifSrc(b []byte) (p PeerName) {
	for i := 0; i < 8; i++ {
		p = p<<8 | PeerName(b[i])
	}
	return
}

// VerifSender wraps one gossipSender.
type VerifSender struct {
	s   *gossipSender
	rec *verifRecorder
}

// NewVerifSender builds the sender exactly as newGossipSender does, minus `go s.run(...)`.
func NewVerifSender() *VerifSender {
	rec := &verifRecorder{}
	s := &gossipSender{
		makeMsg: func(msg []byte) protocolMsg { return protocolMsg{ProtocolGossip, msg} },
		makeBroadcastMsg: func(src PeerName, msg []byte) protocolMsg {
			b := make([]byte, 8, 8+len(msg))
			for i := 0; i < 8; i++ {
				b[i] = byte(src >> (56 - 8*uint(i)))
			}
			return protocolMsg{ProtocolGossipBroadcast, append(b, msg...)}
		},
		sender:     rec,
		broadcasts: make(map[PeerName]GossipData),
		more:       make(chan struct{}, 1),
	}
	return &VerifSender{s: s, rec: rec}
}

// Send is gossipSender.Send.
func (v *VerifSender) Send(data GossipData) { v.s.Send(data) }

// Broadcast is gossipSender.Broadcast.
func (v *VerifSender) Broadcast(src PeerName, data GossipData) { v.s.Broadcast(src, data) }

// Pick is gossipSender.pick: what would be sent next. found tells whether a bucket was
// taken at all (data may still be a nil interface: a bucket holding nil).
func (v *VerifSender) Pick() (data GossipData, broadcast bool, src PeerName, found bool) {
	data, mk := v.s.pick()
	if mk == nil {
		return nil, false, 0, false
	}
	m := mk(nil)
	if m.tag == ProtocolGossipBroadcast {
		return data, true, verifSrc(m.msg), true
	}
	return data, false, 0, true
}

// Deliver is gossipSender.deliver with a recording connection: every message it sends.
func (v *VerifSender) Deliver() []VerifMsg {
	v.rec.msgs = nil
	v.s.deliver(make(chan struct{}))
	return v.rec.msgs
}

// Empty is gossipSender.empty.
func (v *VerifSender) Empty() bool {
	v.s.Lock()
	defer v.s.Unlock()
	return v.s.empty()
}
