//go:build verif

package license

import "strconv"

// VerifConsts reports the constants the Lean model is parameterised by.
func VerifConsts() map[string]string {
	return map[string]string{
		"licenseTimeOffset": "I:" + strconv.FormatInt(timeOffset, 10),
	}
}
