//go:build verif

package security

import "sync/atomic"

// VerifSetNextID makes the next connection created in this process get the local id v
// (brokers are separate processes in production: their id sequences are independent and
// both start from the number of seconds since 2015).
func VerifSetNextID(v uint64) { atomic.StoreUint64(&next, v-1) }
