//go:build verif

package security

import "strconv"

// VerifConsts reports the constants the Lean model is parameterised by.
func VerifConsts() map[string]string {
	u8 := func(v uint8) string { return "U8:" + strconv.Itoa(int(v)) }
	return map[string]string{
		"secMinTime":       "I:" + strconv.FormatInt(MinTime, 10),
		"secMaxTime":       "I:" + strconv.FormatInt(MaxTime, 10),
		"secKeyTimeOffset": "I:" + strconv.FormatInt(timeOffset, 10),
		"secAllowMaster":   u8(AllowMaster),
		"secAllowRead":     u8(AllowRead),
		"secAllowWrite":    u8(AllowWrite),
		"secAllowStore":    u8(AllowStore),
		"secAllowLoad":     u8(AllowLoad),
		"secAllowPresence": u8(AllowPresence),
		"secAllowExtend":   u8(AllowExtend),
		"secAllowExecute":  u8(AllowExecute),
		"secAllowAll":      u8(AllowAll),
		"secChannelInvalid":  "N:" + strconv.Itoa(int(ChannelInvalid)),
		"secChannelStatic":   "N:" + strconv.Itoa(int(ChannelStatic)),
		"secChannelWildcard": "N:" + strconv.Itoa(int(ChannelWildcard)),
	}
}
