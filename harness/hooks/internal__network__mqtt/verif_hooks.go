//go:build verif

package mqtt

import "strconv"

// VerifConsts reports the constants the Lean model is parameterised by.
func VerifConsts() map[string]string {
	u8 := func(v uint8) string { return "U8:" + strconv.Itoa(int(v)) }
	return map[string]string{
		"mqttMaxHeaderSize":   "N:" + strconv.Itoa(maxHeaderSize),
		"mqttMaxMessageSize":  "N:" + strconv.Itoa(MaxMessageSize),
		"mqttTypeConnect":     u8(TypeOfConnect),
		"mqttTypeConnack":     u8(TypeOfConnack),
		"mqttTypePublish":     u8(TypeOfPublish),
		"mqttTypePuback":      u8(TypeOfPuback),
		"mqttTypePubrec":      u8(TypeOfPubrec),
		"mqttTypePubrel":      u8(TypeOfPubrel),
		"mqttTypePubcomp":     u8(TypeOfPubcomp),
		"mqttTypeSubscribe":   u8(TypeOfSubscribe),
		"mqttTypeSuback":      u8(TypeOfSuback),
		"mqttTypeUnsubscribe": u8(TypeOfUnsubscribe),
		"mqttTypeUnsuback":    u8(TypeOfUnsuback),
		"mqttTypePingreq":     u8(TypeOfPingreq),
		"mqttTypePingresp":    u8(TypeOfPingresp),
		"mqttTypeDisconnect":  u8(TypeOfDisconnect),
	}
}
