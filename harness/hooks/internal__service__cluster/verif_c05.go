//go:build verif

package cluster

import (
	"sort"
	"sync/atomic"

	"github.com/emitter-io/emitter/internal/event"
	"github.com/emitter-io/emitter/internal/message"
	"github.com/weaveworks/mesh"
)

// far in the future: a peer touched by the harness stays active until the harness expires it,
// however long the run takes (IsActive compares activity+30 with the wall clock)
const verifC05Active = int64(1) << 40

// VerifC05SetGossip replaces the gossip sender of the swarm (the mesh router is never started)
// and makes the memberlist create peers without the 5 ms flush timer, so that the harness
// decides when a peer's frame is handed to the sender.
func (s *Swarm) VerifC05SetGossip(g mesh.Gossip) {
	s.gossip = g
	s.members.ctor = func(name mesh.PeerName) *Peer {
		return &Peer{
			sender:   g,
			name:     name,
			frame:    message.NewFrame(defaultFrameSize),
			subs:     message.NewCounters(),
			activity: verifC05Active,
		}
	}
}

// VerifC05Name is the swarm's own peer name.
func (s *Swarm) VerifC05Name() mesh.PeerName { return s.name }

// VerifC05Touch is members.Touch (what update() does every 5 s for every peer of the topology).
func (s *Swarm) VerifC05Touch(name mesh.PeerName) {
	s.members.Touch(name)
	if p, ok := s.members.list.Load(name); ok {
		atomic.StoreInt64(&p.(*Peer).activity, verifC05Active)
	}
}

// VerifC05Expire makes a member look silent for more than 30 s.
func (s *Swarm) VerifC05Expire(name mesh.PeerName) {
	if p, ok := s.members.list.Load(name); ok {
		atomic.StoreInt64(&p.(*Peer).activity, 1)
	}
}

// VerifC05Offline is the callback mesh invokes when it garbage-collects a peer.
func (s *Swarm) VerifC05Offline(name mesh.PeerName) { s.onPeerOffline(name) }

// VerifC05Flush hands the queued frame of every member peer to the sender.
func (s *Swarm) VerifC05Flush() {
	var peers []*Peer
	s.members.list.Range(func(k, v interface{}) bool {
		peers = append(peers, v.(*Peer))
		return true
	})
	sort.Slice(peers, func(i, j int) bool { return peers[i].name < peers[j].name })
	for _, p := range peers {
		p.processSendQueue()
	}
}

// VerifC05Member describes one peer object of the memberlist.
type VerifC05Member struct {
	Name     uint64
	Active   bool
	Counters []message.Counter
}

// VerifC05Members lists the memberlist.
func (s *Swarm) VerifC05Members() (out []VerifC05Member) {
	s.members.list.Range(func(k, v interface{}) bool {
		p := v.(*Peer)
		out = append(out, VerifC05Member{Name: uint64(p.name), Active: p.IsActive(), Counters: p.subs.All()})
		return true
	})
	sort.Slice(out, func(i, j int) bool { return out[i].Name < out[j].Name })
	return
}

// VerifC05Sub is one entry of the subscription subset of the replicated state.
type VerifC05Sub struct {
	Peer, Conn uint64
	Ssid       message.Ssid
	Add, Del   int64
}

// VerifC05State lists every subscription entry (tombstones included) of the replicated state.
func (s *Swarm) VerifC05State() []VerifC05Sub { return VerifC05Subs(s.state) }

// VerifC05Subs lists the subscription entries of a state object.
func VerifC05Subs(st *event.State) (out []VerifC05Sub) {
	st.Subscriptions(func(ev *event.Subscription, v event.Value) {
		out = append(out, VerifC05Sub{Peer: ev.Peer, Conn: uint64(ev.Conn), Ssid: ev.Ssid, Add: v.AddTime(), Del: v.DelTime()})
	})
	return
}
