//go:build verif

package cluster

import (
	"github.com/emitter-io/emitter/internal/event"
	"strconv"
	"sync/atomic"
	"time"

	"github.com/emitter-io/emitter/internal/message"
	"github.com/weaveworks/mesh"
)

// VerifConsts reports the constants the Lean model is parameterised by.
func VerifConsts() map[string]string {
	return map[string]string{
		"peerMaxByteFrameSize": "N:" + strconv.Itoa(maxByteFrameSize),
		"peerDefaultFrameSize": "N:" + strconv.Itoa(defaultFrameSize),
	}
}

// VerifNewPeer builds a peer over the given sender without the background flush timer,
// so that the harness decides when processSendQueue runs.
func VerifNewPeer(sender mesh.Gossip, name mesh.PeerName) *Peer {
	return &Peer{
		sender:   sender,
		name:     name,
		frame:    message.NewFrame(defaultFrameSize),
		subs:     message.NewCounters(),
		activity: time.Now().Unix(),
	}
}

// VerifFlush runs one round of the send-queue processor.
func (p *Peer) VerifFlush() { p.processSendQueue() }

// VerifSetActive makes the peer look recently active or long silent.
func (p *Peer) VerifSetActive(active bool) {
	if active {
		atomic.StoreInt64(&p.activity, time.Now().Unix())
	} else {
		atomic.StoreInt64(&p.activity, time.Now().Unix()-3600)
	}
}

// VerifQueued is the number of messages waiting in the current frame.
func (p *Peer) VerifQueued() int {
	p.Lock()
	defer p.Unlock()
	return len(p.frame)
}

// VerifStateBytes is the encoded full replicated state (what periodic gossip sends).
func (s *Swarm) VerifStateBytes() []byte { return s.state.Encode()[0] }

// VerifDropState replaces the (closed) replicated state by an empty volatile one.
func (s *Swarm) VerifDropState() { s.state = event.NewState("") }
