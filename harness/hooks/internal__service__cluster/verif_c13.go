//go:build verif

package cluster

import (
	"github.com/emitter-io/emitter/internal/config"
	"github.com/emitter-io/emitter/internal/event"
	"github.com/emitter-io/emitter/internal/message"
	"github.com/weaveworks/mesh"
)

// VerifC13Swarm builds a real swarm (router created, never started) whose outgoing side is
// the given recording mesh.Gossip, with no-op delegates.
func VerifC13Swarm(node, dir string, g mesh.Gossip) *Swarm {
	s := NewSwarm(&config.ClusterConfig{NodeName: node, ListenAddr: ":4000", AdvertiseAddr: ":4001", Directory: dir})
	s.gossip = g
	s.OnSubscribe = func(message.Subscriber, *event.Subscription) bool { return true }
	s.OnUnsubscribe = func(message.Subscriber, *event.Subscription) bool { return true }
	s.OnDisconnect = func(message.Subscriber, *event.Connection) bool { return true }
	s.OnMessage = func(*message.Message) {}
	return s
}

// VerifC13Reset gives the swarm a fresh replicated state (durable in memory, or volatile)
// and forgets every peer object.
func (s *Swarm) VerifC13Reset(durable bool) {
	s.members.list.Range(func(k, v interface{}) bool {
		v.(*Peer).Close()
		s.members.list.Delete(k)
		return true
	})
	s.state.Close()
	if durable {
		s.state = event.NewState(":memory:")
	} else {
		s.state = event.NewState("")
	}
}

// VerifC13State is the live replicated state.
func (s *Swarm) VerifC13State() *event.State { return s.state }
