//go:build verif

package cluster

import "github.com/emitter-io/emitter/internal/event"

// VerifC09ResetState gives the swarm a fresh, empty, volatile replicated state.
func (s *Swarm) VerifC09ResetState() { s.state = event.NewState("") }

// VerifC09Peers is the number of peer objects the swarm holds.
func (s *Swarm) VerifC09Peers() (n int) {
	s.members.list.Range(func(k, v interface{}) bool { n++; return true })
	return
}
