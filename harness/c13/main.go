//go:build verif

// Correspondence harness for C13: (a) the delta returned by State.Merge / Swarm.OnGossip against
// constructed payloads, (b) the REAL per-connection queue of weaveworks/mesh (gossipSender, reached
// through a hook mounted into the mesh package) fed with the objects a REAL cluster.Swarm hands to
// the library (Notify, Gossip(), results of OnGossip / OnGossipBroadcast).
package main

import (
	"fmt"
	"os"
	"runtime"
	"sort"
	"strconv"
	"strings"
	"time"

	"github.com/emitter-io/emitter/internal/event"
	"github.com/emitter-io/emitter/internal/event/crdt"
	"github.com/emitter-io/emitter/internal/service/cluster"
	"github.com/emitter-io/emitter/internal/zverif/vlib"
	"github.com/weaveworks/mesh"
)

// recorder stands in for the mesh.Gossip of the router: it keeps what the swarm broadcasts.
type recorder struct {
	last mesh.GossipData
	n    int
}

func (r *recorder) GossipUnicast(dst mesh.PeerName, msg []byte) error { return nil }
func (r *recorder) GossipBroadcast(update mesh.GossipData)            { r.last = update; r.n++ }
func (r *recorder) GossipNeighbourSubset(update mesh.GossipData)      { r.last = update; r.n++ }

type object struct {
	raw *event.State    // constructed by `mk` (never handed to the library directly)
	gd  mesh.GossipData // produced by the swarm (nil interface = the swarm returned nil)
}

var (
	sw     *cluster.Swarm
	rec    = &recorder{}
	objs   map[string]*object
	links  map[string]*mesh.VerifSender
	cur    int64 // scripted clock: every reading returns cur and advances it by tick
	tick   int64
	wedged bool
	kind   string // "delta": the replicated state itself is handed to the library; "union": a wrapper is
	ids    = event.VerifSetIDs()
	names  = []string{"sub", "ban", "conn"}
)

func setID(s string) uint8 {
	for i, n := range names {
		if n == s {
			return ids[i]
		}
	}
	panic("harness: bad set " + s)
}

func entries(st *event.State, payload, zeros bool) []string {
	var parts []string
	for i, name := range names {
		st.VerifSubset(ids[i]).Range(nil, true, func(k string, v crdt.Value) bool {
			if !zeros && v.AddTime() == 0 && v.DelTime() == 0 {
				return true
			}
			e := fmt.Sprintf("%s:%s:(%d,%d)", name, vlib.Hex([]byte(k)), v.AddTime(), v.DelTime())
			if payload {
				e += ":" + vlib.Hex(v.Value())
			}
			parts = append(parts, e)
			return true
		})
	}
	sort.Strings(parts)
	return parts
}

func render(parts []string) string {
	if len(parts) == 0 {
		return "empty"
	}
	return strings.Join(parts, ",")
}

// dump: every entry with its payload; times: the (add, remove) times that are not (0,0)
func dump(st *event.State) string  { return render(entries(st, true, true)) }
func times(st *event.State) string { return render(entries(st, false, false)) }

// decodeGD is what the receiving broker sees of a payload: Encode, then DecodeState.
func decodeGD(gd mesh.GossipData) *event.State {
	bufs := gd.Encode()
	if len(bufs) != 1 {
		panic("harness: payload encodes to " + strconv.Itoa(len(bufs)) + " messages")
	}
	out, err := event.DecodeState(bufs[0])
	if err != nil {
		panic(err)
	}
	return out
}

func (o *object) view() *event.State {
	if o.raw != nil {
		return o.raw
	}
	if o.gd == nil {
		return nil
	}
	return decodeGD(o.gd)
}

func (o *object) bytes() []byte {
	if o.raw != nil {
		return o.raw.Encode()[0]
	}
	return o.gd.Encode()[0]
}

// guarded runs f; a Go panic is the observable "panic"; a worker that sits in a mutex acquisition for half a
// second without interruption (nothing else in this process holds locks for long) is the observable "hang": a
// deadlock of the code under test, the goroutine and whatever it locked stay behind. Being slow under load is
// not a hang: a starved goroutine is runnable, not waiting for a mutex.
func guarded(f func() string) string {
	done := make(chan string, 1)
	go c13worker(f, done)
	blocked := 0
	for i := 0; ; i++ {
		select {
		case out := <-done:
			return out
		case <-time.After(20 * time.Millisecond):
		}
		if workerWaitsForMutex() {
			blocked++
		} else {
			blocked = 0
		}
		if blocked >= 25 || i > 6000 {
			wedged = true
			return "hang"
		}
	}
}

func c13worker(f func() string, done chan<- string) { done <- vlib.Guard(f) }

var stackBuf = make([]byte, 4<<20)

func workerWaitsForMutex() bool {
	n := runtime.Stack(stackBuf, true)
	for _, g := range strings.Split(string(stackBuf[:n]), "\n\n") {
		if strings.Contains(g, "main.c13worker") {
			head := g[:strings.IndexByte(g+"\n", '\n')]
			return strings.Contains(head, "Mutex") || strings.Contains(head, "semacquire")
		}
	}
	return false
}

func parseEntry(w string, into map[uint8]map[string]crdt.Value) {
	f := strings.Split(w, ":")
	if len(f) != 5 {
		panic("harness: bad entry " + w)
	}
	a, _ := strconv.ParseInt(f[2], 10, 64)
	d, _ := strconv.ParseInt(f[3], 10, 64)
	id := setID(f[0])
	if into[id] == nil {
		into[id] = map[string]crdt.Value{}
	}
	into[id][string(vlib.UnHex(f[1]))] = crdt.VerifValue(a, d, vlib.UnHex(f[4]))
}

func pickOne(l *mesh.VerifSender) string {
	data, bc, src, found := l.Pick()
	if !found {
		return "none"
	}
	tag := "g"
	if bc {
		tag = "b" + strconv.FormatUint(uint64(src), 10)
	}
	if data == nil {
		return tag + " nil"
	}
	return tag + " " + times(decodeGD(data))
}

// least number of words per operation
var arity = map[string]int{"clock": 2, "mk": 2, "ladd": 4, "ldel": 3, "merge": 2, "state": 1, "peek": 2, "notify": 6, "gossip": 2,
	"ongossip": 3, "onbcast": 4, "send": 3, "bcast": 4, "pick": 2, "drain": 2}

func implKind() string {
	if _, ok := sw.Gossip().(*event.State); ok {
		return "delta" // the replicated state itself is handed to the library
	}
	return "union"
}

func step(w []string, _ string) string {
	// enrichment words of an earlier run are recomputed
	for len(w) > 0 && strings.HasPrefix(w[len(w)-1], "impl=") {
		w = w[:len(w)-1]
	}
	if w[0] == "reset" {
		if sw == nil {
			dir, err := os.MkdirTemp("", "c13-swarm")
			if err != nil {
				panic(err)
			}
			sw = cluster.VerifC13Swarm("00:00:00:00:00:01", dir, rec)
		}
		sw.VerifC13Reset(len(w) > 1 && w[1] == "d")
		objs, links = map[string]*object{}, map[string]*mesh.VerifSender{}
		cur, tick, wedged = 1, 0, false
		crdt.Now = func() int64 { t := cur; cur += tick; return t }
		kind = implKind()
		return strings.Join(w, " ") + " impl=" + kind + "\x00ok"
	}
	if sw == nil || len(w) < arity[w[0]] {
		return "bad-op"
	}
	if wedged {
		return "wedged"
	}
	return guarded(func() string {
		link := func(n string) *mesh.VerifSender {
			if links[n] == nil {
				links[n] = mesh.NewVerifSender()
			}
			return links[n]
		}
		live := sw.VerifC13State()
		switch w[0] {
		case "clock":
			cur, _ = strconv.ParseInt(w[1], 10, 64)
			tick = 0
			if len(w) > 2 {
				tick, _ = strconv.ParseInt(w[2], 10, 64)
			}
			return "ok"
		case "mk":
			items := map[uint8]map[string]crdt.Value{}
			for _, e := range w[2:] {
				parseEntry(e, items)
			}
			objs[w[1]] = &object{raw: event.VerifC13State(items)}
			return "ok"
		case "ladd":
			live.VerifSubset(setID(w[1])).Add(string(vlib.UnHex(w[2])), vlib.UnHex(w[3]))
			return "ok"
		case "ldel":
			live.VerifSubset(setID(w[1])).Del(string(vlib.UnHex(w[2])))
			return "ok"
		case "merge":
			o := objs[w[1]]
			if o == nil || o.raw == nil {
				return "no-object"
			}
			other := o.raw
			if len(w) > 2 && w[2] == "enc" {
				var err error
				if other, err = event.DecodeState(o.raw.Encode()[0]); err != nil {
					panic(err)
				}
			}
			d := live.Merge(other)
			if d == nil {
				return "d=nil s=" + times(live)
			}
			return "d=" + dump(d.(*event.State)) + " s=" + times(live)
		case "state":
			return dump(live)
		case "peek":
			o := objs[w[1]]
			if o == nil {
				return "no-object"
			}
			if v := o.view(); v != nil {
				return dump(v)
			}
			return "nil"
		case "notify":
			n0 := rec.n
			sw.Notify(&event.VerifC13Event{Typ: setID(w[2]), K: string(vlib.UnHex(w[3])), V: vlib.UnHex(w[4])}, w[5] == "on")
			if rec.n != n0+1 || rec.last == nil {
				return "no-broadcast"
			}
			objs[w[1]] = &object{gd: rec.last}
			return dump(objs[w[1]].view())
		case "gossip":
			g := sw.Gossip()
			objs[w[1]] = &object{gd: g}
			if g == nil {
				return "nil"
			}
			return dump(decodeGD(g))
		case "ongossip", "onbcast":
			src := objs[w[len(w)-1]]
			if src == nil || (src.raw == nil && src.gd == nil) {
				return "no-object"
			}
			var d mesh.GossipData
			var err error
			if w[0] == "ongossip" {
				d, err = sw.OnGossip(src.bytes())
			} else {
				p, _ := strconv.ParseUint(w[2], 10, 64)
				d, err = sw.OnGossipBroadcast(mesh.PeerName(p), src.bytes())
			}
			if err != nil {
				return "err"
			}
			objs[w[1]] = &object{gd: d}
			if d == nil { // exactly the test the library applies before relaying
				return "nil"
			}
			return dump(decodeGD(d))
		case "send", "bcast":
			o := objs[w[len(w)-1]]
			if o == nil {
				return "no-object"
			}
			if o.raw != nil {
				return "not-payload" // only what the swarm itself produced is ever handed to the library
			}
			if o.gd == nil {
				return "skip-nil" // the library never relays a nil payload
			}
			if w[0] == "send" {
				link(w[1]).Send(o.gd)
			} else {
				p, _ := strconv.ParseUint(w[2], 10, 64)
				link(w[1]).Broadcast(mesh.PeerName(p), o.gd)
			}
			return "ok"
		case "pick":
			return pickOne(link(w[1]))
		case "drain":
			l := link(w[1])
			var out []string
			if kind == "union" {
				// the library's own deliver loop: pick, Encode, hand every message to the connection
				for _, m := range l.Deliver() {
					tag := "g"
					if m.Broadcast {
						tag = "b" + strconv.FormatUint(uint64(m.Src), 10)
					}
					st, err := event.DecodeState(m.Payload)
					if err != nil {
						panic(err)
					}
					out = append(out, tag+" "+times(st))
				}
			}
			for i := 0; i < 64 && !l.Empty(); i++ {
				out = append(out, pickOne(l))
			}
			if len(out) == 0 {
				return "none"
			}
			sort.Strings(out)
			return strings.Join(out, " ; ")
		}
		return "bad-op"
	})
}

func main() { vlib.Run(step) }
