//go:build verif

// Correspondence harness for C03 / C11 / C12: channel parsing, key targets, Service.Authorize
// of a real broker service, key generation and extension.
package main

import (
	"fmt"
	"strconv"
	"strings"
	"time"

	"github.com/emitter-io/emitter/internal/security"
	"github.com/emitter-io/emitter/internal/zverif/vbroker"
	"github.com/emitter-io/emitter/internal/zverif/vlib"
)

var b *vbroker.Broker

func u(s string) uint64 {
	v, err := strconv.ParseUint(s, 10, 64)
	if err != nil {
		panic("harness: bad number " + s)
	}
	return v
}

func showQuery(q []uint32) string {
	if len(q) == 0 {
		return "none"
	}
	p := make([]string, len(q))
	for i, w := range q {
		p[i] = strconv.FormatUint(uint64(w), 10)
	}
	return strings.Join(p, ",")
}

func optInt(v int64, ok bool) string {
	if !ok {
		return "none"
	}
	return strconv.FormatInt(v, 10)
}

func unixOrZero(t time.Time) int64 {
	if t.Equal(time.Unix(0, 0)) {
		return 0
	}
	return t.Unix()
}

func showChannel(c *security.Channel) string {
	if c.ChannelType == security.ChannelInvalid {
		return "type=0"
	}
	opts := "none"
	if len(c.Options) > 0 {
		p := make([]string, len(c.Options))
		for i, o := range c.Options {
			p[i] = vlib.Hex([]byte(o.Key)) + "=" + vlib.Hex([]byte(o.Value))
		}
		opts = strings.Join(p, ",")
	}
	t0, t1 := c.Window()
	ttl, ok1 := c.TTL()
	last, ok2 := c.Last()
	return fmt.Sprintf("type=%d key=%s chan=%s query=%s opts=%s ttl=%s last=%s me=%v win=%d,%d", c.ChannelType, vlib.Hex(c.Key),
		vlib.Hex(c.Channel), showQuery(c.Query), opts, optInt(ttl, ok1), optInt(last, ok2), c.Exclude(), unixOrZero(t0), unixOrZero(t1))
}

// mkKey builds the raw key of an op line.
func mkKey(w []string) (security.Key, bool) {
	k := security.Key(make([]byte, 24))
	k.SetSalt(uint16(u(w[0])))
	k.SetMaster(uint16(u(w[1])))
	k.SetContract(uint32(u(w[2])))
	k.SetSignature(uint32(u(w[3])))
	k.SetPermissions(uint8(u(w[4])))
	exp, _ := strconv.ParseInt(w[6], 10, 64)
	k.SetExpires(time.Unix(exp, 0))
	if strings.HasPrefix(w[5], "raw:") {
		p := strings.Split(w[5], ":")
		path, hash := u(p[1]), u(p[2])
		k[12], k[13], k[14] = byte(path>>16), byte(path>>8), byte(path)
		k[16], k[17], k[18], k[19] = byte(hash>>24), byte(hash>>16), byte(hash>>8), byte(hash)
	} else if err := k.SetTarget(string(vlib.UnHex(w[5]))); err != nil {
		return nil, false
	}
	return k, true
}

func step(w []string, line string) string {
	return vlib.Guard(func() string {
		switch w[0] {
		case "reset":
			if b != nil {
				b.Close()
			}
			lic := vbroker.LicenseFor(w[1], uint32(u(w[2])), uint32(u(w[3])))
			b = vbroker.New(lic, "", "00:00:00:00:00:01", "")
			return "ok"
		case "parse":
			return showChannel(security.ParseChannel(vlib.UnHex(w[1])))
		case "target":
			k := security.Key(make([]byte, 24))
			if err := k.SetTarget(string(vlib.UnHex(w[1]))); err != nil {
				return "err"
			}
			path := uint32(k[12])<<16 | uint32(k[13])<<8 | uint32(k[14])
			hash := uint32(k[16])<<24 | uint32(k[17])<<16 | uint32(k[18])<<8 | uint32(k[19])
			return fmt.Sprintf("ok path=%d hash=%d", path, hash)
		case "authz":
			// authz salt master contract sign perms target expires banned channel perm
			k, ok := mkKey(w[1:8])
			now := time.Now().Unix()
			newLine := strings.Join(w[:11], " ") + fmt.Sprintf(" now=%d", now)
			if !ok {
				return newLine + "\x00bad-target"
			}
			keyStr, err := b.Cipher.EncryptKey(k)
			if err != nil {
				return newLine + "\x00encrypt-err"
			}
			if w[8] == "1" {
				b.Svc.VerifBan(keyStr, true)
			}
			presented := keyStr
			if len(w) > 11 && strings.HasPrefix(w[11], "mangle=") {
				// the client presents a string derived from the issued key: app:<hex> appends characters,
				// trunc:<n> drops the last n, pre:<hex> prepends
				m := strings.SplitN(strings.TrimPrefix(w[11], "mangle="), ":", 2)
				switch m[0] {
				case "app":
					presented = keyStr + string(vlib.UnHex(m[1]))
				case "pre":
					presented = string(vlib.UnHex(m[1])) + keyStr
				case "trunc":
					presented = keyStr[:len(keyStr)-int(u(m[1]))]
				}
				newLine = strings.Join(w[:12], " ") + fmt.Sprintf(" now=%d", now)
			}
			ch := security.ParseChannel(append([]byte(presented+"/"), vlib.UnHex(w[9])...))
			res := b.Svc.VerifAuthorize(ch, uint8(u(w[10])))
			if w[8] == "1" {
				b.Svc.VerifBan(keyStr, false)
			}
			return newLine + "\x00" + strconv.FormatBool(res)
		case "extend":
			// extend salt master contract sign perms target expires channel connid access : keygen.ExtendKey
			// with that key (private link); whatever it answers, the parent key string must keep authorizing
			// exactly what it did before (the following authz lines present the same string again)
			k, ok := mkKey(w[1:8])
			xl := strings.Join(w[:11], " ") + fmt.Sprintf(" now=%d", time.Now().Unix()) + "\x00"
			if !ok {
				return xl + "bad-target"
			}
			keyStr, err := b.Cipher.EncryptKey(k)
			if err != nil {
				return xl + "encrypt-err"
			}
			if _, kerr := b.Svc.VerifKeygen().ExtendKey(keyStr, string(vlib.UnHex(w[8])), string(vlib.UnHex(w[9])), uint8(u(w[10])), time.Unix(0, 0)); kerr != nil {
				return xl + "refused"
			}
			return xl + "extended"
		}
		return "bad-op"
	})
}

func main() { vlib.Run(step) }
