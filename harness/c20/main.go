//go:build verif

// Correspondence harness for C20 (licenses and key ciphers).
package main

import (
	"encoding/base64"
	"fmt"
	"runtime"
	"strconv"
	"strings"

	"github.com/emitter-io/emitter/internal/security"
	"github.com/emitter-io/emitter/internal/security/cipher"
	"github.com/emitter-io/emitter/internal/security/license"
	"github.com/emitter-io/emitter/internal/zverif/vlib"
)

func mkCipher(spec string) license.Cipher {
	p := strings.Split(spec, ":")
	switch p[0] {
	case "x":
		c, err := cipher.NewXtea(base64.RawURLEncoding.EncodeToString(vlib.UnHex(p[1])))
		if err != nil {
			panic(err)
		}
		return c
	case "s":
		c, err := cipher.NewSalsa(vlib.UnHex(p[1]), vlib.UnHex(p[2]))
		if err != nil {
			panic(err)
		}
		return c
	case "h":
		c, err := cipher.NewShuffle(vlib.UnHex(p[1]), vlib.UnHex(p[2]))
		if err != nil {
			panic(err)
		}
		return c
	}
	panic("harness: bad cipher spec")
}

func dec(c license.Cipher, s []byte) string {
	buf := append([]byte{}, s...)
	k, err := c.DecryptKey(buf)
	if err != nil {
		return "err"
	}
	return "ok " + vlib.Hex(k)
}

func showLicense(l license.License, err error) string {
	if err != nil {
		return "err"
	}
	switch v := l.(type) {
	case *license.V1:
		raw, _ := base64.RawURLEncoding.DecodeString(v.EncryptionKey)
		return fmt.Sprintf("ok v1 key=%s user=%d sign=%d master=%d type=%d expires=%d", vlib.Hex(raw), v.User, v.Sign, v.Master(), v.Type, v.Expires.Unix())
	case *license.V2:
		return fmt.Sprintf("ok v2 key=%s salt=%s user=%d sign=%d master=%d", vlib.Hex(v.EncryptionKey), vlib.Hex(v.EncryptionSalt), v.User, v.Sign, v.Index)
	case *license.V3:
		return fmt.Sprintf("ok v3 key=%s salt=%s user=%d sign=%d master=%d", vlib.Hex(v.EncryptionKey), vlib.Hex(v.EncryptionSalt), v.User, v.Sign, v.Index)
	}
	return "ok ?"
}

// licenseRoundTrip generates a license of the given version and checks the property directly.
func licenseRoundTrip(version string, user, sign, index uint32) string {
	var l license.License
	switch version {
	case "1":
		v := license.NewV1()
		v.User, v.Sign = user, sign
		l = v
	case "2":
		v := license.NewV2()
		v.User, v.Sign, v.Index = user, sign, index
		l = v
	default:
		v := license.NewV3()
		v.User, v.Sign, v.Index = user, sign, index
		l = v
	}
	back, err := license.Parse(l.String())
	if err != nil {
		return "parse-error"
	}
	if back.Contract() != l.Contract() || back.Signature() != l.Signature() || back.Master() != l.Master() {
		return "fields-differ"
	}
	if showLicense(back, nil) != showLicense(l, nil) {
		return "body-differs"
	}
	c1, err1 := l.Cipher()
	c2, err2 := back.Cipher()
	if err1 != nil || err2 != nil {
		return "cipher-error"
	}
	k, _ := l.NewMasterKey(7)
	e1, _ := c1.EncryptKey(k)
	e2, _ := c2.EncryptKey(k)
	if e1 != e2 || len(e1) != 32 {
		return "cipher-differs"
	}
	d, err := c2.DecryptKey([]byte(e1))
	if err != nil || string(d) != string(k) {
		return "cipher-roundtrip"
	}
	return "same"
}

func step(w []string, _ string) string {
	return vlib.Guard(func() string {
		switch w[0] {
		case "rt":
			c := mkCipher(w[1])
			k := vlib.UnHex(w[2])
			e, err := c.EncryptKey(security.Key(k))
			if err != nil {
				return "err"
			}
			return "enc=" + vlib.Hex([]byte(e)) + " dec=" + dec(c, []byte(e))
		case "dec":
			return dec(mkCipher(w[1]), vlib.UnHex(w[2]))
		case "b64":
			k := vlib.UnHex(w[1])
			e := base64.RawURLEncoding.EncodeToString(k)
			buf := []byte(e)
			n, err := cipher.VerifDecodeKey(buf, buf)
			if err != nil {
				return vlib.Hex([]byte(e)) + " err"
			}
			return vlib.Hex([]byte(e)) + " ok " + vlib.Hex(buf[:n])
		case "lic1":
			return showLicense(license.Parse(string(vlib.UnHex(w[1]))))
		case "licstr1":
			u, _ := strconv.ParseUint(w[2], 10, 32)
			s, _ := strconv.ParseUint(w[3], 10, 32)
			l := license.NewV1()
			l.EncryptionKey = base64.RawURLEncoding.EncodeToString(vlib.UnHex(w[1]))
			l.User, l.Sign = uint32(u), uint32(s)
			str := l.String()
			return vlib.Hex([]byte(str)) + " " + showLicense(license.Parse(str))
		case "licrt":
			u, _ := strconv.ParseUint(w[2], 10, 32)
			sg, _ := strconv.ParseUint(w[3], 10, 32)
			ix, _ := strconv.ParseUint(w[4], 10, 32)
			return licenseRoundTrip(w[1], uint32(u), uint32(sg), uint32(ix))
		case "licmut":
			// a license string is a few dozen bytes: parsing any string must yield a license or an error
			// without allocating out of proportion to it (a machine with less memory would not get an answer)
			var m0, m1 runtime.MemStats
			runtime.ReadMemStats(&m0)
			license.Parse(string(vlib.UnHex(w[1])))
			runtime.ReadMemStats(&m1)
			if d := (m1.TotalAlloc - m0.TotalAlloc) >> 20; d > 64 {
				return fmt.Sprintf("allocated-%dMB", d)
			}
			return "nopanic"
		}
		return "bad-op"
	})
}

func main() { vlib.Run(step) }
