//go:build verif

// Correspondence harness for C01 (subscription trie).
package main

import (
	"fmt"
	"sort"
	"strconv"
	"strings"
	"sync"

	"github.com/emitter-io/emitter/internal/message"
	"github.com/emitter-io/emitter/internal/zverif/vlib"
)

type sub struct{ id string }

func (s *sub) ID() string                        { return s.id }
func (s *sub) Type() message.SubscriberType      { return message.SubscriberDirect }
func (s *sub) Send(m *message.Message) error     { return nil }

var (
	trie *message.Trie
	mqtt bool
	subs = map[string]*sub{}
)

func newTrie() *message.Trie {
	if mqtt {
		return message.NewTrieMQTT()
	}
	return message.NewTrie()
}

func subOf(id string) *sub {
	if s, ok := subs[id]; ok {
		return s
	}
	s := &sub{id}
	subs[id] = s
	return s
}

func parsePath(s string) message.Ssid {
	if s == "none" {
		return message.Ssid{}
	}
	var out message.Ssid
	for _, w := range strings.Split(s, ".") {
		v, err := strconv.ParseUint(w, 10, 32)
		if err != nil {
			panic("harness: bad path " + s)
		}
		out = append(out, uint32(v))
	}
	return out
}

func showSet(ss message.Subscribers) string {
	ids := []string{}
	for _, s := range ss {
		ids = append(ids, s.ID())
	}
	sort.Strings(ids)
	return "{" + strings.Join(ids, ",") + "}"
}

func dump(t *message.Trie) string {
	nodes, pairs := t.VerifTrieDump()
	ps := make([]string, len(pairs))
	for i, p := range pairs {
		ps[i] = p[0] + "=" + p[1]
	}
	sort.Strings(ps)
	return fmt.Sprintf("nodes=%d pairs=%s", nodes, strings.Join(ps, ","))
}

type op struct {
	sub  bool
	path message.Ssid
	id   string
}

func step(w []string, _ string) string {
	return vlib.Guard(func() string {
		switch w[0] {
		case "reset":
			mqtt = w[1] == "mqtt"
			trie = newTrie()
			subs = map[string]*sub{}
			return "ok"
		case "sub":
			trie.Subscribe(parsePath(w[1]), subOf(w[2]))
			return fmt.Sprintf("count=%d", trie.Count())
		case "unsub":
			trie.Unsubscribe(parsePath(w[1]), subOf(w[2]))
			return fmt.Sprintf("count=%d", trie.Count())
		case "look":
			return showSet(trie.Lookup(parsePath(w[1]), nil))
		case "count":
			return strconv.Itoa(trie.Count())
		case "dump":
			return dump(trie)
		case "concshare":
			// concurrent lookups over share groups on a static trie: every single answer must be
			// "direct receivers plus exactly one member of every matching group" (the per-lookup
			// scratch state must not be shared between concurrent callers)
			per, _ := strconv.Atoi(w[1])
			t := newTrie()
			const share = 1480642916
			mk := func(id string) *sub { return subOf2(id) }
			t.Subscribe(message.Ssid{1, 11}, mk("d1"))
			t.Subscribe(message.Ssid{1, 12}, mk("d2"))
			for i := 0; i < 3; i++ {
				t.Subscribe(message.Ssid{1, share, 21, 11}, mk(fmt.Sprintf("a%d", i))) // group 21 on channel 11
				t.Subscribe(message.Ssid{1, share, 22, 12}, mk(fmt.Sprintf("b%d", i))) // group 22 on channel 12
			}
			t.Subscribe(message.Ssid{1, share, 23, 11}, mk("c0")) // group 23 on channel 11
			check := func(ch uint32, got message.Subscribers) string {
				a, b, c := 0, 0, 0
				direct := false
				for _, s := range got {
					id := s.ID()
					switch id[0] {
					case 'a':
						a++
					case 'b':
						b++
					case 'c':
						c++
					case 'd':
						if (ch == 11 && id == "d1") || (ch == 12 && id == "d2") {
							direct = true
						} else {
							return "foreign-direct:" + id
						}
					}
				}
				if !direct {
					return "direct-missing"
				}
				if ch == 11 && (a != 1 || c != 1 || b != 0) {
					return fmt.Sprintf("channel11:a=%d,b=%d,c=%d", a, b, c)
				}
				if ch == 12 && (b != 1 || a != 0 || c != 0) {
					return fmt.Sprintf("channel12:a=%d,b=%d,c=%d", a, b, c)
				}
				return ""
			}
			bad := make(chan string, 64)
			var wg sync.WaitGroup
			for g := 0; g < 8; g++ {
				wg.Add(1)
				go func(g int) {
					defer wg.Done()
					defer func() {
						if r := recover(); r != nil {
							select {
							case bad <- fmt.Sprint("panic:", r):
							default:
							}
						}
					}()
					for i := 0; i < per; i++ {
						ch := uint32(11 + (g+i)%2)
						if msg := check(ch, t.Lookup(message.Ssid{1, ch}, nil)); msg != "" {
							select {
							case bad <- msg:
							default:
							}
							return
						}
					}
				}(g)
			}
			wg.Wait()
			select {
			case m := <-bad:
				return "invalid:" + m
			default:
				return "valid"
			}
		case "nested":
			// nested <rounds>: one goroutine keeps subscribing / unsubscribing x on a filter, a second one keeps
			// subscribing y on a filter BELOW it (the branch exists only while x is there), looking itself up
			// and unsubscribing. y's pair is owned by one goroutine, so whatever the interleaving, y must be
			// found by the lookup that follows its subscribe, and in the end the index is empty.
			rounds, _ := strconv.Atoi(w[1])
			t := newTrie()
			upper, lower := message.Ssid{1, 11, 12}, message.Ssid{1, 11, 12, 13, 11}
			x, y := subOf2("x"), subOf2("y")
			var wg sync.WaitGroup
			stop := make(chan struct{})
			wg.Add(1)
			go func() {
				defer wg.Done()
				for {
					select {
					case <-stop:
						return
					default:
					}
					t.Subscribe(upper, x)
					t.Unsubscribe(upper, x)
				}
			}()
			res := "ok"
			for i := 0; i < rounds && res == "ok"; i++ {
				t.Subscribe(lower, y)
				if found := t.Lookup(lower, nil); !found.Contains(y) {
					res = fmt.Sprintf("lost round=%d", i)
				}
				t.Unsubscribe(lower, y)
			}
			close(stop)
			wg.Wait()
			if res == "ok" && (t.Count() != 0 || !strings.HasPrefix(dump(t), "nodes=1 ")) {
				res = fmt.Sprintf("not-empty count=%d %s", t.Count(), dump(t))
			}
			return res
		case "conc":
			// 8 goroutines; every (path, id) pair is owned by exactly one goroutine, so the final
			// state does not depend on the interleaving; lookups run concurrently
			seed, _ := strconv.Atoi(w[1])
			rnd := uint32(seed*2654435761 + 12345)
			next := func(n int) int {
				rnd ^= rnd << 13
				rnd ^= rnd >> 17
				rnd ^= rnd << 5
				return int(rnd % uint32(n))
			}
			words := []uint32{11, 12, 13, 1815237614}
			const G = 8
			plans := make([][]op, G)
			for g := 0; g < G; g++ {
				for i := 0; i < 200; i++ {
					depth := 1 + next(3)
					p := message.Ssid{1}
					for d := 0; d < depth; d++ {
						p = append(p, words[next(len(words))])
					}
					plans[g] = append(plans[g], op{sub: next(3) != 0, path: p, id: fmt.Sprintf("g%d-%d", g, next(4))})
				}
			}
			run := func(t *message.Trie, parallel bool) {
				var wg sync.WaitGroup
				for g := 0; g < G; g++ {
					f := func(g int) {
						for _, o := range plans[g] {
							if o.sub {
								t.Subscribe(o.path, subOf2(o.id))
							} else {
								t.Unsubscribe(o.path, subOf2(o.id))
							}
							if parallel {
								t.Lookup(message.Ssid{1, 11, 12}, nil)
							}
						}
					}
					if parallel {
						wg.Add(1)
						go func(g int) { defer wg.Done(); f(g) }(g)
					} else {
						f(g)
					}
				}
				wg.Wait()
			}
			a, b := newTrie(), newTrie()
			run(a, true)
			run(b, false)
			if dump(a) == dump(b) && a.Count() == b.Count() {
				return "same"
			}
			return "differ"
		}
		return "bad-op"
	})
}

var (
	subs2   = map[string]*sub{}
	subs2mu sync.Mutex
)

func subOf2(id string) *sub {
	subs2mu.Lock()
	defer subs2mu.Unlock()
	if s, ok := subs2[id]; ok {
		return s
	}
	s := &sub{id}
	subs2[id] = s
	return s
}

func main() { vlib.Run(step) }
