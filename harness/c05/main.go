//go:build verif

// Correspondence harness for C05 (cluster routing follows the replicated subscription state):
// 2-4 real broker.Service instances in one process. The mesh router of every swarm is never
// started; its gossip sender is replaced by a simulated transport that the op lines drive:
// per directed link the two buckets of mesh's gossipSender (transcribed: Send / Broadcast / pick,
// combining queued payloads with the payloads' own Merge), a FIFO of encoded protocol messages,
// relaying of the delta a receiver returns, periodic and on-connect complete-state gossip, links
// going down and up, peers being garbage-collected. Clients are real connections over net.Pipe.
package main

import (
	"fmt"
	"os"
	"os/exec"
	"sort"
	"strconv"
	"strings"
	"sync"
	"time"

	"github.com/emitter-io/emitter/internal/event"
	"github.com/emitter-io/emitter/internal/event/crdt"
	"github.com/emitter-io/emitter/internal/message"
	"github.com/emitter-io/emitter/internal/network/mqtt"
	"github.com/emitter-io/emitter/internal/security"
	"github.com/emitter-io/emitter/internal/service/cluster"
	"github.com/emitter-io/emitter/internal/zverif/vbroker"
	"github.com/emitter-io/emitter/internal/zverif/vlib"
	"github.com/weaveworks/mesh"
)

// ---------------------------------------------------------------- transport

type wireMsg struct {
	kind string // "gossip" | "bcast"
	src  mesh.PeerName
	buf  []byte
}

type bucket struct {
	src  mesh.PeerName
	data mesh.GossipData
}

// link is one direction of a mesh connection: the gossipSender of the "swarm" channel and the
// bytes in flight on the connection.
type link struct {
	up     bool
	gossip mesh.GossipData
	bcasts []bucket // mesh keeps a map; the order in which pick drains it is the schedule's choice
	wire   []wireMsg
}

// Send is gossipSender.Send.
func (l *link) Send(data mesh.GossipData) {
	if !l.up {
		return
	}
	if l.gossip == nil {
		l.gossip = data
	} else {
		l.gossip = l.gossip.Merge(data)
	}
}

// Broadcast is gossipSender.Broadcast.
func (l *link) Broadcast(src mesh.PeerName, data mesh.GossipData) {
	if !l.up {
		return
	}
	for i := range l.bcasts {
		if l.bcasts[i].src == src {
			l.bcasts[i].data = l.bcasts[i].data.Merge(data)
			return
		}
	}
	l.bcasts = append(l.bcasts, bucket{src, data})
}

// pick is gossipSender.pick followed by the Encode of deliver(): the gossip bucket first, then
// the broadcast bucket the schedule names.
func (l *link) pick(src mesh.PeerName) (string, mesh.PeerName, mesh.GossipData) {
	if l.gossip != nil {
		d := l.gossip
		l.gossip = nil
		return "gossip", 0, d
	}
	for i := range l.bcasts {
		if l.bcasts[i].src == src {
			d := l.bcasts[i].data
			l.bcasts = append(l.bcasts[:i:i], l.bcasts[i+1:]...)
			return "bcast", src, d
		}
	}
	return "", 0, nil
}

type node struct {
	b    *vbroker.Broker
	sw   *cluster.Swarm
	name mesh.PeerName
}

var (
	mu      sync.Mutex // the brokers' connection goroutines call into the transport (Notify)
	nodes   []*node    // index i = broker i+1
	links   map[[2]int]*link
	clients map[string]int // client name -> broker number
	order   []string
	luids   map[string]uint64
	key     string
	fwdLog  []int // brokers a frame with the wanted payload was handed to since the last reset of the log
	wanted  string
	pubNode int
	refwdLog []int
	nowVal  int64 = 1
)

// fake is the mesh.Gossip of broker `self`.
type fake struct{ self int }

func (f *fake) GossipNeighbourSubset(update mesh.GossipData) {}

// GossipBroadcast: mesh hands the SAME object to the sender of every connection.
func (f *fake) GossipBroadcast(update mesh.GossipData) {
	mu.Lock()
	defer mu.Unlock()
	for x := 1; x <= len(nodes); x++ {
		if l := links[[2]int{f.self, x}]; l != nil && l.up {
			l.Broadcast(nodes[f.self-1].name, update)
		}
	}
}

// GossipUnicast: message frames travel over the direct connection and are handled on arrival.
func (f *fake) GossipUnicast(dst mesh.PeerName, msg []byte) error {
	x := int(dst)
	mu.Lock()
	// the broker's self monitor publishes stats on its own timer: only frames that carry the
	// payload of the publish under observation count as forwarded
	if frame, err := message.DecodeFrame(append([]byte{}, msg...)); err == nil {
		for _, m := range frame {
			if string(m.Payload) == wanted {
				if f.self == pubNode {
					fwdLog = append(fwdLog, x)
				} else {
					refwdLog = append(refwdLog, x) // a broker that received the message forwards it again
				}
				break
			}
		}
	}
	l := links[[2]int{f.self, x}]
	ok := l != nil && l.up && x >= 1 && x <= len(nodes)
	mu.Unlock()
	if !ok {
		return fmt.Errorf("unknown relay destination")
	}
	return nodes[x-1].sw.OnGossipUnicast(nodes[f.self-1].name, append([]byte{}, msg...))
}

// ---------------------------------------------------------------- rendering

func ssidStr(s []uint32) string {
	p := make([]string, len(s))
	for i, w := range s {
		p[i] = strconv.FormatUint(uint64(w), 10)
	}
	return strings.Join(p, "/")
}

func subsStr(subs []cluster.VerifC05Sub) string {
	out := make([]string, len(subs))
	for i, e := range subs {
		out[i] = fmt.Sprintf("%d.%d.%s:%d:%d", e.Peer, e.Conn, ssidStr(e.Ssid), e.Add, e.Del)
	}
	sort.Strings(out)
	return "{" + strings.Join(out, ",") + "}"
}

func payloadStr(buf []byte) string {
	st, err := event.DecodeState(buf)
	if err != nil {
		return "undecodable"
	}
	return subsStr(cluster.VerifC05Subs(st))
}

// peerNum recognises the id of a remote subscriber (mesh.PeerName.String(): a MAC-like string;
// connection ids are base32 and never contain a colon).
func peerNum(id string) (int, bool) {
	if len(id) != 17 || strings.Count(id, ":") != 5 {
		return 0, false
	}
	n, err := mesh.PeerNameFromString(id)
	if err != nil {
		return 0, false
	}
	return int(n), true
}

func routesOf(i int) []string {
	_, pairs := nodes[i-1].b.Svc.VerifTrie().VerifTrieDump()
	var rs []string
	for _, p := range pairs {
		if x, ok := peerNum(p[1]); ok {
			rs = append(rs, strings.ReplaceAll(p[0], ".", "/")+">"+strconv.Itoa(x))
		}
	}
	sort.Strings(rs)
	return rs
}

func membersOf(i int) (cs, ms []string) {
	for _, m := range nodes[i-1].sw.VerifC05Members() {
		a := "0"
		if m.Active {
			a = "1"
		}
		ms = append(ms, fmt.Sprintf("%d:%s", m.Name, a))
		for _, c := range m.Counters {
			cs = append(cs, fmt.Sprintf("%d:%s=%d", m.Name, ssidStr(c.Ssid), c.Counter))
		}
	}
	sort.Strings(cs)
	return
}

func dump(i int) string {
	cs, ms := membersOf(i)
	return fmt.Sprintf("s=%s c={%s} r={%s} m={%s}", subsStr(nodes[i-1].sw.VerifC05State()),
		strings.Join(cs, ","), strings.Join(routesOf(i), ","), strings.Join(ms, ","))
}

// qdump: what routing is made of at quiescence — the ACTIVE entries, the counters, the routes.
func qdump(i int) string {
	var act []string
	for _, e := range nodes[i-1].sw.VerifC05State() {
		if e.Add != 0 && e.Add >= e.Del {
			act = append(act, fmt.Sprintf("%d.%d.%s", e.Peer, e.Conn, ssidStr(e.Ssid)))
		}
	}
	sort.Strings(act)
	cs, _ := membersOf(i)
	return fmt.Sprintf("a={%s} c={%s} r={%s}", strings.Join(act, ","), strings.Join(cs, ","), strings.Join(routesOf(i), ","))
}

// ---------------------------------------------------------------- clients

func num(s string) int {
	v, err := strconv.Atoi(s)
	if err != nil {
		panic("harness: bad number " + s)
	}
	return v
}

func topic(ch string) []byte { return append([]byte(key+"/"), vlib.UnHex(ch)...) }

// barrier: every packet written to any client before this call has been recorded when it
// returns (the pipe is synchronous, the reader handles packets in order, PINGRESP comes last).
func barrier() {
	for _, n := range order {
		for _, nd := range nodes {
			if c, ok := nd.b.Clients[n]; ok {
				c.Send(&mqtt.Pingreq{})
				c.Await("pingresp")
			}
		}
	}
}

func takeAll(payload string) []string {
	var got []string
	for _, n := range order {
		for _, nd := range nodes {
			if c, ok := nd.b.Clients[n]; ok {
				for _, p := range c.Take() {
					if strings.HasPrefix(p, "pub:") && strings.HasSuffix(p, ":"+payload) {
						got = append(got, n)
					}
				}
			}
		}
	}
	sort.Strings(got)
	return got
}

func client(name string) (*vbroker.Client, int) {
	i, ok := clients[name]
	if !ok {
		panic("harness: unknown client " + name)
	}
	return nodes[i-1].b.Clients[name], i
}

// ---------------------------------------------------------------- transport steps

func doPick(a, b, src int) string {
	mu.Lock()
	defer mu.Unlock()
	l := links[[2]int{a, b}]
	if l == nil || !l.up {
		return "none"
	}
	kind, s, data := l.pick(mesh.PeerName(src))
	if data == nil {
		return "none"
	}
	out := ""
	for _, buf := range data.Encode() {
		l.wire = append(l.wire, wireMsg{kind, s, append([]byte{}, buf...)})
		if kind == "gossip" {
			out += "gossip:" + payloadStr(buf)
		} else {
			out += fmt.Sprintf("bcast:%d:%s", s, payloadStr(buf))
		}
	}
	return out
}

func upNeighbours(b int, except ...int) []int {
	var out []int
outer:
	for x := 1; x <= len(nodes); x++ {
		for _, e := range except {
			if x == e {
				continue outer
			}
		}
		if l := links[[2]int{b, x}]; x != b && l != nil && l.up {
			out = append(out, x)
		}
	}
	return out
}

// doDeliver hands the head message of connection a->b to b (gossip_channel.go deliver /
// deliverBroadcast) and relays what b returns.
func doDeliver(a, b int, keep bool, relay []int) string {
	mu.Lock()
	l := links[[2]int{a, b}]
	if l == nil || len(l.wire) == 0 || b < 1 || b > len(nodes) {
		mu.Unlock()
		return "none"
	}
	w := l.wire[0]
	if !keep {
		l.wire = l.wire[1:]
	}
	mu.Unlock()
	sw := nodes[b-1].sw
	var delta mesh.GossipData
	var err error
	if w.kind == "gossip" {
		delta, err = sw.OnGossip(append([]byte{}, w.buf...))
	} else {
		delta, err = sw.OnGossipBroadcast(w.src, append([]byte{}, w.buf...))
	}
	ds := "nil"
	if err != nil {
		ds = "err"
	}
	if err == nil && delta != nil {
		ds = ""
		for _, buf := range delta.Encode() {
			ds += payloadStr(buf)
		}
		mu.Lock()
		for _, x := range relay {
			lx := links[[2]int{b, x}]
			if x == a || x == b || lx == nil || !lx.up {
				continue
			}
			if w.kind == "gossip" {
				lx.Send(delta)
			} else if x != int(w.src) {
				lx.Broadcast(w.src, delta)
			}
		}
		mu.Unlock()
	}
	return "delta=" + ds + " " + dump(b)
}

func pendingAnything() bool {
	for _, l := range links {
		if l.up && (l.gossip != nil || len(l.bcasts) > 0 || len(l.wire) > 0) {
			return true
		}
	}
	return false
}

// drain: deterministic sweep — every link in order picks everything it has queued and delivers
// it, every returned delta is relayed to all other neighbours — until nothing is pending.
// fnv is FNV-1a (32 bit) of a dump: the drain reports it per delivery, so that the model can follow
// the order in which the implementation walked each delta (Go map order) where it matters.
func fnv(s string) uint32 {
	h := uint32(2166136261)
	for i := 0; i < len(s); i++ {
		h ^= uint32(s[i])
		h *= 16777619
	}
	return h
}

func drain() string {
	n := 0
	var tags []string
	for round := 0; round < 200 && pendingAnything(); round++ {
		for a := 1; a <= len(nodes); a++ {
			for b := 1; b <= len(nodes); b++ {
				l := links[[2]int{a, b}]
				if a == b || l == nil || !l.up {
					continue
				}
				for {
					src := 0
					if l.gossip == nil && len(l.bcasts) > 0 {
						src = int(l.bcasts[0].src)
					}
					if doPick(a, b, src) == "none" {
						break
					}
				}
				for len(l.wire) > 0 {
					tags = append(tags, strconv.FormatUint(uint64(fnv(doDeliver(a, b, false, upNeighbours(b, a)))), 16))
					n++
				}
			}
		}
	}
	ds := make([]string, len(nodes))
	for i := range nodes {
		ds[i] = dump(i + 1)
	}
	return fmt.Sprintf("n=%d t=%s %s", n, strings.Join(tags, "."), strings.Join(ds, " | "))
}

func publish(name, ch, payload string) string {
	c, i := client(name)
	mu.Lock()
	fwdLog, refwdLog, wanted, pubNode = nil, nil, string(vlib.UnHex(payload)), i
	mu.Unlock()
	c.Send(&mqtt.Publish{Header: mqtt.Header{QOS: 1}, MessageID: 7, Topic: topic(ch), Payload: vlib.UnHex(payload)})
	c.Await("puback:")
	nodes[i-1].sw.VerifC05Flush()
	// whatever a receiving broker queued for other brokers (it must queue nothing) goes out too
	for round := 0; round < 2; round++ {
		for _, nd := range nodes {
			nd.sw.VerifC05Flush()
		}
	}
	barrier()
	got := takeAll(payload)
	mu.Lock()
	fw := append([]int{}, fwdLog...)
	mu.Unlock()
	sort.Ints(fw)
	fs := make([]string, len(fw))
	for k, x := range fw {
		fs[k] = strconv.Itoa(x)
	}
	out := "fwd=" + strings.Join(fs, ",") + " got=" + strings.Join(got, ",")
	mu.Lock()
	if len(refwdLog) > 0 {
		out += fmt.Sprintf(" forwarded-again=%v", refwdLog)
	}
	mu.Unlock()
	return out
}

func closeAll() {
	for _, n := range nodes {
		n.b.Close()
	}
	nodes, links, clients, order, luids = nil, map[[2]int]*link{}, map[string]int{}, nil, map[string]uint64{}
}

func step(w []string, line string) string {
	return vlib.Guard(func() string {
		switch w[0] {
		case "reset":
			// reset <n> <mode> <cipher spec> <contract> <sign>
			closeAll()
			nowVal = 1
			crdt.Now = func() int64 { return nowVal }
			matcher := ""
			if w[2] == "mqtt" {
				matcher = "mqtt"
			}
			lic := vbroker.LicenseFor(w[3], uint32(num(w[4])), uint32(num(w[5])))
			for i := 1; i <= num(w[1]); i++ {
				b := vbroker.New(lic, matcher, fmt.Sprintf("00:00:00:00:00:%02x", i), "")
				sw := b.Svc.VerifCluster()
				sw.VerifC05SetGossip(&fake{self: i})
				nodes = append(nodes, &node{b: b, sw: sw, name: sw.VerifC05Name()})
			}
			for a := 1; a <= len(nodes); a++ {
				for b := 1; b <= len(nodes); b++ {
					if a != b {
						links[[2]int{a, b}] = &link{up: true}
					}
				}
			}
			key = nodes[0].b.MintKey(1, 1, uint32(num(w[4])), uint32(num(w[5])), security.AllowReadWrite, "#/", time.Unix(0, 0))
			return "ok"
		case "clock":
			v, err := strconv.ParseInt(w[1], 10, 64)
			if err != nil {
				return "bad-op"
			}
			nowVal = v
			return "ok"
		case "conn":
			// conn <broker> <client> <local id>
			i := num(w[1])
			id, _ := strconv.ParseUint(w[3], 10, 64)
			security.VerifSetNextID(id)
			nodes[i-1].b.Attach(w[2])
			clients[w[2]] = i
			order = append(order, w[2])
			luids[w[2]] = id
			return "ok"
		case "sub":
			c, i := client(w[1])
			c.Send(&mqtt.Subscribe{Header: mqtt.Header{QOS: 1}, MessageID: 3,
				Subscriptions: []mqtt.TopicQOSTuple{{Topic: topic(w[2]), Qos: 0}}})
			c.Await("suback:")
			c.Take()
			return dump(i)
		case "unsub":
			c, i := client(w[1])
			c.Send(&mqtt.Unsubscribe{Header: mqtt.Header{QOS: 1}, MessageID: 4, Topics: []mqtt.TopicQOSTuple{{Topic: topic(w[2])}}})
			c.Await("unsuback:")
			c.Take()
			return dump(i)
		case "close":
			c, i := client(w[1])
			c.CloseSocket()
			delete(nodes[i-1].b.Clients, w[1])
			delete(clients, w[1])
			return dump(i)
		case "pick":
			return doPick(num(w[1]), num(w[2]), num(w[3]))
		case "deliver":
			// deliver <a> <b> <keep> <relay,relay|->
			var relay []int
			if w[4] != "-" {
				for _, x := range strings.Split(w[4], ",") {
					relay = append(relay, num(x))
				}
			}
			return doDeliver(num(w[1]), num(w[2]), w[3] == "1", relay)
		case "gossip":
			a, b := num(w[1]), num(w[2])
			mu.Lock()
			if l := links[[2]int{a, b}]; l != nil {
				if g := nodes[a-1].sw.Gossip(); g != nil {
					l.Send(g)
				}
			}
			mu.Unlock()
			return "ok"
		case "linkdown":
			a, b := num(w[1]), num(w[2])
			mu.Lock()
			for _, k := range [][2]int{{a, b}, {b, a}} {
				if links[k] != nil {
					links[k] = &link{up: false}
				}
			}
			mu.Unlock()
			return "ok"
		case "linkup":
			a, b := num(w[1]), num(w[2])
			mu.Lock()
			if l := links[[2]int{a, b}]; l != nil && !l.up {
				// a new connection: both ends send their complete state down it (sendAllGossipDown)
				for _, k := range [][2]int{{a, b}, {b, a}} {
					links[k] = &link{up: true}
					if g := nodes[k[0]-1].sw.Gossip(); g != nil {
						links[k].Send(g)
					}
				}
			}
			mu.Unlock()
			return "ok"
		case "touch":
			nodes[num(w[1])-1].sw.VerifC05Touch(mesh.PeerName(num(w[2])))
			return dump(num(w[1]))
		case "expire":
			nodes[num(w[1])-1].sw.VerifC05Expire(mesh.PeerName(num(w[2])))
			return dump(num(w[1]))
		case "offline":
			nodes[num(w[1])-1].sw.VerifC05Offline(mesh.PeerName(num(w[2])))
			return dump(num(w[1]))
		case "inject":
			// inject <b> <peer> <conn> <channel> <add> <del>: broker b is handed a one-entry payload with
			// explicit times (what any peer could send: Swarm.merge must cope with every payload)
			b := num(w[1])
			peer, _ := strconv.ParseUint(w[2], 10, 64)
			conn, _ := strconv.ParseUint(w[3], 10, 64)
			add, _ := strconv.ParseInt(w[5], 10, 64)
			del, _ := strconv.ParseInt(w[6], 10, 64)
			ch := security.ParseChannel(topic(w[4]))
			contract := nodes[0].b.Svc.License.Contract()
			ev := &event.Subscription{Peer: peer, Conn: security.ID(conn), Ssid: message.NewSsid(contract, ch.Query)}
			st := event.NewState("")
			saved := nowVal
			if add != 0 {
				nowVal = add
				st.Add(ev)
			}
			if del != 0 {
				nowVal = del
				st.Del(ev)
			}
			nowVal = saved
			delta, err := nodes[b-1].sw.OnGossip(st.Encode()[0])
			ds := "nil"
			if err != nil {
				ds = "err"
			} else if delta != nil {
				ds = ""
				for _, buf := range delta.Encode() {
					ds += payloadStr(buf)
				}
			}
			return "delta=" + ds + " " + dump(b)
		case "drain":
			return drain()
		case "quiesce":
			return "ok"
		case "dump":
			return dump(num(w[1]))
		case "qdump":
			return qdump(num(w[1]))
		case "pub", "qpub":
			return publish(w[1], w[2], w[3])
		}
		return "bad-op"
	})
}

// A broker.Service does not give back everything on Close (timers of its monitors keep the
// service reachable: about 10 MB and 5 goroutines per broker), so a long run is executed in
// child processes of a few sessions each; the parent only splits the op file at reset lines and
// appends the children's traces (a child that dies ends the run: the first op without an answer
// is the one it was executing).
const sessionsPerChild = 16

func parent() {
	raw, err := os.ReadFile(os.Args[1])
	if err != nil {
		fmt.Fprintln(os.Stderr, err)
		os.Exit(2)
	}
	out, err := os.Create(os.Args[2])
	if err != nil {
		fmt.Fprintln(os.Stderr, err)
		os.Exit(2)
	}
	defer out.Close()
	var chunks [][]string
	var cur []string
	n := 0
	for _, ln := range strings.Split(string(raw), "\n") {
		if strings.HasPrefix(strings.TrimSpace(ln), "reset ") {
			if n == sessionsPerChild {
				chunks = append(chunks, cur)
				cur, n = nil, 0
			}
			n++
		}
		cur = append(cur, ln)
	}
	chunks = append(chunks, cur)
	for i, ch := range chunks {
		opsf := fmt.Sprintf("%s.part%d", os.Args[1], i)
		trf := fmt.Sprintf("%s.part%d", os.Args[2], i)
		os.WriteFile(opsf, []byte(strings.Join(ch, "\n")+"\n"), 0o644)
		cmd := exec.Command(os.Args[0], opsf, trf)
		cmd.Env = append(os.Environ(), "VERIF_C05_CHILD=1")
		cmd.Stdout, cmd.Stderr = os.Stdout, os.Stderr
		runErr := cmd.Run()
		if tr, err := os.ReadFile(trf); err == nil {
			out.Write(tr)
			out.Sync()
		}
		os.Remove(opsf)
		os.Remove(trf)
		if runErr != nil {
			fmt.Fprintln(os.Stderr, "c05: child failed:", runErr)
			out.Close()
			if ee, ok := runErr.(*exec.ExitError); ok && ee.ExitCode() > 0 {
				os.Exit(ee.ExitCode())
			}
			os.Exit(3)
		}
	}
}

func main() {
	if len(os.Args) >= 3 && os.Getenv("VERIF_C05_CHILD") == "" {
		parent()
		return
	}
	links, clients, luids = map[[2]int]*link{}, map[string]int{}, map[string]uint64{}
	vlib.Run(step)
	closeAll()
}
