#!/bin/sh
# one-time build after a fresh restore (offline): Lean project + driver, Go build cache warm-up
set -e
cd "$(dirname "$0")"
(cd lean && lake build Emitter driver Audit 2>&1 | tail -5)
(cd /repo && GOFLAGS=-mod=mod GOPROXY=off go build ./... 2>&1 | tail -5) || true
python3 bin/warm.py || true
