#!/bin/sh
# one-time build after a fresh restore (offline): Lean project + driver, Go build cache warm-up
set -e
cd "$(dirname "$0")"
# regenerated definitions (tools/go2lean, DESIGN 12.7): the committed Generated/Go*.lean are refreshed from /repo's tree
python3 -c "import sys; sys.path.insert(0, 'bin'); import vcore; vcore.regen_go2lean()" || true
MODS=$(cd lean && ls Emitter/Props/*.lean | sed 's/\.lean$//; s#/#.#g')
(cd lean && lake build driver $MODS 2>&1 | tail -3)
(cd /repo && GOFLAGS=-mod=mod GOPROXY=off go build ./... 2>&1 | tail -5) || true
python3 bin/warm.py || true
