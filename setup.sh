#!/bin/sh
# one-time build after a fresh restore (offline): Lean project + driver, Go build cache warm-up
set -e
cd "$(dirname "$0")"
MODS=$(cd lean && ls Emitter/Props/*.lean | sed 's/\.lean$//; s#/#.#g')
(cd lean && lake build driver $MODS 2>&1 | tail -3)
(cd /repo && GOFLAGS=-mod=mod GOPROXY=off go build ./... 2>&1 | tail -5) || true
python3 bin/warm.py || true
