"""C08 — a connection that ends leaves nothing behind; its last will fires once."""
from .common import hx, rbytes, budget
from .brokergen import *

HARNESS = "broker"
CONST_GROUPS = ["security", "message", "cipher", "license", "mqtt"]
RULE = ("one case = one victim connection inside a broker session with persistent watcher clients (presence watchers, a "
        "subscriber of the will channel): the victim connects (with or without a last will whose key does / does not allow "
        "publishing), subscribes and unsubscribes several filters (incl. permuted / repeated levels), adds presence watches "
        "and link subscriptions, and then ends in one of four ways: socket dropped after the first k bytes of its next "
        "packet for every k in a range covering the whole packet (cut points), DISCONNECT, a malformed packet, plain close. "
        "After every ending: the packets of the watchers (will, presence 'unsubscribe' events) and a full trie dump plus the "
        "connection counter are compared. non-trivial = distinct (op, answer)")
TRUSTED = ["the broker's own publishes on stats/<node>/ (monitoring sink 'self', once a second, into the owner's contract) are not answers to a request and are dropped from the observables",
           "a truncated packet is modelled as 'no effect' (DecodePacket fails on it: C16 / C09 models); the byte offset k is applied to the real encoding by the harness and to the model encoding (Mqtt.encodeWire) by the driver",
           "quiescence polling as for C02"]
ASSUMPTIONS = ["internal failures while serving (Go panics) are covered by the regenerated facts 'Process defers Close' / 'Close recovers' of C09, not re-enacted here"]
CLAIM = {
    "text": "Lean 4 theorems over the broker model for every state reachable by any request history and every authorizer: when a connection ends, every subscription it held (ordinary, presence-change, link-created) is gone from the index, nothing is delivered to it any more, other connections' subscriptions are untouched, the connection counter drops by one (close_cleans); the last will is published iff one was supplied with a key allowing publication on its static channel (will_fires_iff) and never twice (will_once); one 'unsubscribe' event per subscription held (presence_leave). Tied to /repo by the differential broker run over cut points, DISCONNECT, malformed packets and plain closes. At history level (close_history_clean): after the end of an accepted connection, for the rest of ANY history, the specification set A of acknowledged subscriptions holds no pair of it, its record is empty and the index has no entry under its id.",
    "note": "Trusted: Lean kernel; harness; truncated packets have no effect (decoder model).",
    "technique": "Lean 4 proof (close_cleans / will lemmas from the sync invariant of the broker model) + differential correspondence check over every cut point of generated sessions",
}


def nontrivial(r):
    return r["I"] not in ("-", "ok", "")


def case_key(r):
    return r["op"].split(" ", 2)[0] + "|" + r["I"]


def session(rng, cuts):
    s = Session(rng, mode=rng.choice(["emitter", "emitter", "mqtt"]))
    s.key("KA", R | W | P | S | L)
    s.key("KR", R | P)              # cannot publish: a will with this key must not fire
    s.key("KX", R | W | E)
    s.conn("w1", user=b"watch")
    s.conn("w2")
    s.sub("w1", "KA", b"will/")
    s.presence("w1", "KA", b"a/", status=False, changes=True)
    s.presence("w2", "KA", b"b/", status=False, changes=True)
    s.sub("w2", "KA", b"a/b/")
    s.dump()
    for v in range(cuts):
        name = "v%d" % v
        wk = rng.choice(["KA", "KA", "KR", "KX", None])
        will = None
        if wk:
            will = (wk, rng.choice([b"will/", b"will/x/", b"will/+/", b"will"]), b"bye%d" % v, rng.randrange(3) == 0)
        odd = rng.randrange(6)
        if odd == 0:
            # a will addressed to the broker itself (its request channels carry no key): never published, and it must
            # not act as a request of the dying connection either
            will = ("emitter", rng.choice([b"presence/", b"link/"]),
                    rng.choice([b'{"key":"@KEY:KA@","channel":"a/","status":false,"changes":true}',
                                b'{"name":"zz","key":"@KEY:KA@","channel":"a/b/","subscribe":true}']), False)
        elif odd == 1:
            will = ("-", b"a", b"alias%d" % v, False)      # the will topic is the name of a shortcut, no key: never published
        noconnect = will is None and rng.randrange(4) == 0      # a session without a CONNECT packet still subscribes, links, watches
        s.conn(name, user=rng.choice([b"", b"vic"]), will=will, connect=not noconnect)
        held = []
        if odd == 1:
            s.link(name, b"a", "KA", b"a/b/", rng.randrange(2) == 1)
        if rng.randrange(5) == 0:
            # a chain of filters whose ssids fold to one XOR value (one bucket of the per-connection counters),
            # partly removed (middle, head or tail first) before the connection ends: nothing may stay behind
            fam = rng.choice([[w + b"/" + w + b"/" for w in WORDS], [b"a/b/x/", b"b/x/a/", b"x/a/b/", b"x/b/a/"], [b"a/", b"a/b/b/", b"a/x/x/", b"a/y/y/"]])
            fam = rng.sample(fam, rng.choice([3, 4]))
            for f in fam:
                s.sub(name, "KA", f)
                held.append(f)
            for f in rng.sample(fam, rng.choice([1, 1, 2])) if rng.randrange(4) else [fam[1], fam[0]]:
                s.unsub(name, "KA", f)
                held.remove(f)
        for _ in range(rng.choice([0, 1, 2, 4, 6])):
            r = rng.randrange(8)
            if r < 4:
                ch = chan(rng, wild=rng.randrange(5) == 0)
                if held and rng.randrange(3) == 0:
                    ch = permuted(rng, rng.choice(held))
                s.sub(name, "KA", ch)
                held.append(ch)
            elif r == 4 and held:
                s.unsub(name, "KA", permuted(rng, rng.choice(held)) if rng.randrange(2) else rng.choice(held))
            elif r == 5:
                s.presence(name, "KA", chan(rng, depth=1), status=False, changes=True)
            elif r == 6:
                s.link(name, rng.choice([b"a", b"l1"]), "KA", chan(rng), True)
            else:
                s.pub(name, "KA", chan(rng), b"x")
        # fault before the ending: the victim's socket starts failing while others publish to it; the
        # teardown must still happen exactly once, at the ending
        if held and rng.randrange(3) == 0:
            s.deafen(name)
            s.clients.append(name)
            for _ in range(rng.choice([1, 2, 4])):
                s.pub(rng.choice(["w1", "w2"]), "KA", rng.choice(held).replace(b"+", rng.choice(WORDS)), b"f")
        # the ending
        r = rng.randrange(10)
        if r < 6:
            inner = rng.choice(["sub", "unsub", "pub"])
            ch = rng.choice(held) if held and rng.randrange(2) else chan(rng)
            k = rng.choice(list(range(0, 12)) + list(range(12, 90, 3)) + [200])
            if inner == "sub":
                s.ops.append("cutsend %s %d sub %s %d KA %s 0" % (name, k, name, s.nextmid(), hx(b"/" + ch)))
            elif inner == "unsub":
                s.ops.append("cutsend %s %d unsub %s %d KA %s" % (name, k, name, s.nextmid(), hx(b"/" + ch)))
            else:
                s.ops.append("cutsend %s %d pub %s 1 0 %d KA %s %s" % (name, k, name, s.nextmid(), hx(b"/" + ch), hx(b"last")))
        elif r == 6:
            s.ops.append("disc " + name)
        elif r == 7:
            s.ops.append("rawclose %s %s" % (name, rng.choice(["0000", "f000", "0003616263", "f0020102"])))
        else:
            s.ops.append("close " + name)
        s.clients.remove(name)
        s.dump()
    return s.ops


def many_session(rng):
    """a connection holding more subscriptions than the presence queue has slots (100) ends while the watcher is not
    reading: every one of them must still be reported as gone, once"""
    s = Session(rng, mode="emitter")
    s.key("KA", R | W | P)
    s.conn("w1", user=b"watch")
    s.presence("w1", "KA", b"a/", status=False, changes=True)
    s.conn("v1", user=b"vic")
    n = rng.choice([115, 130])
    for i in range(n):
        s.sub("v1", "KA", b"a/x%d/" % i)
    s.ops.append("closeheld v1 w1")
    s.clients.remove("v1")
    s.dump()
    return s.ops


def gen(rng, tier):
    ops = []
    for _ in range(budget(tier, 1, 6)):
        ops += many_session(rng)
    for _ in range(budget(tier, 6, 120)):
        ops += session(rng, budget(tier, 14, 60))
    return ops
