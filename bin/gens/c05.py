"""C05 — cluster routing follows the replicated subscription state."""
import itertools
from .common import hx, rbytes, budget
from .brokergen import CONTRACT, SIGN

HARNESS = "c05"
CONST_GROUPS = ["message"]
TIMEOUT = 14400   # total run; generous: a loaded machine must not turn into a false "hang"
STALL = 600
BATCH_SESSIONS = 48   # sessions per harness process; VERIF_JOBS of them run in parallel (the harness itself starts a child per 16 sessions)      # the trace grows once per child process (16 sessions)
RULE = ("one case = one session: reset <2-4 brokers>, then a random interleaving of client activity (new connections with "
        "chosen local ids, sub / unsub / close on 3-4 channels incl. '+' filters, bursts sub;unsub;sub within one clock "
        "reading by one or several connections of one broker, occasionally a clock that does not advance) with transport "
        "events chosen by the schedule (pick on any link and bucket = coalescing of whatever was queued since the last "
        "pick, deliver with or without relaying the returned delta, duplicate delivery, periodic full-state gossip, link "
        "down / up, peer silent / touched, peer garbage-collected and rejoining) and publishes; every session ends with a "
        "quiescence phase (links up, peers touched, drain, two all-pairs full-state exchanges) followed by a dump of every "
        "broker and a publish from every broker on every channel used. After every event the affected broker's replicated "
        "state, peer counters, remote trie entries and memberlist are compared (impl / model / invariant-as-spec); at "
        "quiescence routes and deliveries are compared with what the CLIENT history alone demands. "
        "non-trivial = distinct (op, observable) with a non-empty observable")
TRUSTED = ["harness/c05: simulated mesh transport (transcribed gossipSender Send/Broadcast/pick, relay of returned deltas as in "
           "gossip_channel.go, sendAllGossipDown on a new connection); the mesh router itself (topology, TCP) is not run",
           "kelindar/binary + snappy state codec: identity on (key, add, del), exercised on every hop, not modelled",
           "buntdb (:memory:) / freecache under the durable state as a map; crdt.Now replaced by a scripted clock",
           "peer activity (30 s rule on the wall clock) replaced by explicit touch / expire events; the 5 ms peer flush timer by an explicit flush",
           "C01 (trie refines the set of (filter, subscriber) pairs) for the step from the remote-route set to trie.Lookup"]
ASSUMPTIONS = ["subscription keys in payloads are the canonical encoding of (peer, conn, ssid) (malformed keys: C09); only the "
               "subscription subset of the state is exercised (no bans, no MQTT CONNECT events)",
               "clock readings used for two operations on the same (connection, channel) are strictly increasing, otherwise the "
               "LWW add bias decides (flag C05.clock-not-advancing)",
               "message frames between brokers travel over the direct connection and arrive (C19 covers the frame queue)",
               "share-group subscriptions ($share) are not used"]
CLAIM = {
    "text": "Lean 4 theorems over the executable model (Model/Cluster.lean) of Swarm.Notify / merge (D5-repaired) / findPeer / "
            "onPeerOnline / onPeerOffline / Peer counters and activity / the trie's remote entries, and of the gossip transport "
            "(gossipSender buckets with union coalescing, per-link FIFO, relay of returned deltas, complete-state gossip, link down/up, "
            "peer garbage collection). routing_inv: after EVERY list of events (all client histories x all transport schedules, any "
            "number of brokers) on which no routing flag is raised, on every broker and for every remote peer and ssid the peer counter "
            "equals the number of active entries in the replicated state and the trie routes the ssid to the peer iff that number is "
            "positive; proved per step kind (routing_inv_step) and for a merge of any payload in any walk order of the delta "
            "(merge_keeps_routing); ties and non-advancing clocks do not matter for it (tie_add_bias, burst_tie). quiescent_routing_run: "
            "on flag-free schedules, once all brokers hold equal add/remove times (C04) and known peers are active, a publish on any "
            "broker is forwarded to exactly the other brokers with a live matching local subscription; delivered_once: each such "
            "subscriber is written to once, nothing is forwarded again. Every flagged branch has a refutation witness proved by decide "
            "and is a recorded finding replayed on the real brokers. Tied to /repo by a differential run of 2-4 real broker.Service "
            "instances over a simulated mesh transport against the compiled model, with the invariant and the client history as "
            "independent spec columns.",
    "note": "Trusted: Lean kernel; harness transport simulation (mesh itself is not run); state codec; scripted clock and peer "
            "activity; C01 for the step from the route set to trie.Lookup; equality of states at quiescence is C04's theorem, taken as "
            "hypothesis. Requires the D4 (payload union) and D5 (merge by state transition) repairs in /repo. Five recorded findings "
            "(peer garbage collection / re-creation, transitions while a peer is inactive, id collision, non-advancing clock).",
    "technique": "Lean 4 proof (invariant over all schedules of an explicit small-step system, refutation witnesses by decide) + "
                 "differential correspondence check model vs. real Go brokers over a simulated gossip transport",
}

CHANNELS = [b"a/", b"b/", b"a/b/", b"a/+/", b"+/", b"b/a/"]
SPEC = "x:000102030405060708090a0b0c0d0e0f"


def nontrivial(r):
    return r["I"] not in ("", "ok", "none")


def case_key(r):
    return r["op"].split(" ")[0] + "|" + r["I"]


class Sess:
    def __init__(self, rng, n, mode="emitter"):
        self.rng, self.n = rng, n
        self.ops = ["reset %d %s %s %d %d" % (n, mode, SPEC, CONTRACT, SIGN)]
        self.clock = rng.choice([1, 5, 100])
        self.ops.append("clock %d" % self.clock)
        self.clients = {}       # name -> broker
        self.subs = {}          # name -> set(channel)
        self.luids = {b: set() for b in range(1, n + 1)}
        self.down = set()
        self.cid = 0
        self.chans = rng.sample(CHANNELS, rng.choice([2, 3, 3, 4]))
        if rng.randrange(3) == 0:
            # channels whose ssids fold to one 32-bit XOR value: one bucket of a peer's subscription counters
            self.chans = rng.choice([[b"a/b/", b"b/a/", b"a/a/", b"b/b/"], [b"a/b/x/", b"b/x/a/", b"x/a/b/", b"x/b/a/"], [b"a/", b"a/b/b/", b"a/x/x/"]])
        self.used = set()
        # one publisher per broker that never subscribes
        for b in range(1, n + 1):
            self.conn(b, name="p%d" % b, luid=900 + b)

    def tick(self, d=None):
        self.clock += d if d is not None else self.rng.choice([1, 1, 1, 2, 3, 10])
        self.ops.append("clock %d" % self.clock)

    def conn(self, b, name=None, luid=None):
        if name is None:
            self.cid += 1
            name = "c%d" % self.cid
        if luid is None:
            free = [x for x in range(1, 8) if x not in self.luids[b]]
            if not free:
                return None
            luid = self.rng.choice(free)
        self.luids[b].add(luid)
        self.clients[name] = b
        self.subs[name] = set()
        self.ops.append("conn %d %s %d" % (b, name, luid))
        return name

    def subscribers(self):
        return [c for c in self.clients if not c.startswith("p")]

    def sub(self, c, ch):
        self.used.add(ch)
        self.subs[c].add(ch)
        self.ops.append("sub %s %s" % (c, hx(ch)))

    def unsub(self, c, ch):
        self.subs[c].discard(ch)
        self.ops.append("unsub %s %s" % (c, hx(ch)))

    def close(self, c):
        self.ops.append("close " + c)
        del self.clients[c]
        del self.subs[c]

    def others(self, a):
        return [x for x in range(1, self.n + 1) if x != a]

    def link(self):
        a = self.rng.randrange(1, self.n + 1)
        return a, self.rng.choice(self.others(a))

    def relay(self, a, b):
        cand = [x for x in range(1, self.n + 1) if x not in (a, b)]
        k = self.rng.choice([0, 0, len(cand), self.rng.randrange(len(cand) + 1)])
        r = self.rng.sample(cand, min(k, len(cand)))
        return ",".join(str(x) for x in sorted(r)) if r else "-"

    def client_event(self):
        rng = self.rng
        subs = self.subscribers()
        r = rng.randrange(20)
        if r < 2 or not subs:
            if self.conn(rng.randrange(1, self.n + 1)) is None and subs:
                self.close(rng.choice(subs))
            return
        c = rng.choice(subs)
        if r < 10:
            self.tick()
            self.sub(c, rng.choice(self.chans))
        elif r < 15:
            self.tick()
            ch = rng.choice(sorted(self.subs[c])) if self.subs[c] and rng.randrange(5) else rng.choice(self.chans)
            self.unsub(c, ch)
        elif r < 17:
            self.tick()
            self.close(c)
        elif r < 19 or rng.randrange(3):
            self.burst(c)
        else:
            # a clock that does not advance / steps back between two operations of one connection
            ch = rng.choice(self.chans)
            self.tick()
            self.sub(c, ch)
            self.tick(rng.choice([0, 0, -1]))
            self.unsub(c, ch)

    def burst(self, c):
        """sub; unsub; sub (; unsub; sub) on one channel within ONE clock reading, by one or two connections of one broker,
        interleaved; every connection ends subscribed (the add bias of the LWW entry then agrees with the client)"""
        rng = self.rng
        b = self.clients[c]
        ch = rng.choice(self.chans)
        mates = [x for x in self.subscribers() if self.clients[x] == b]
        who = [c] if rng.randrange(2) or len(mates) < 2 else rng.sample(mates, 2)
        self.tick()
        lanes = []
        for x in who:
            lane = [(x, "sub"), (x, "unsub"), (x, "sub")]
            if rng.randrange(3) == 0:
                lane += [(x, "unsub"), (x, "sub")]
            lanes.append(lane)
        while any(lanes):
            lane = rng.choice([l for l in lanes if l])
            x, what = lane.pop(0)
            (self.sub if what == "sub" else self.unsub)(x, ch)

    def transport_event(self):
        rng = self.rng
        r = rng.randrange(41)
        a, b = self.link()
        if r < 12:
            self.ops.append("pick %d %d %d" % (a, b, a if rng.randrange(4) else rng.randrange(1, self.n + 1)))
        elif r < 26:
            self.ops.append("deliver %d %d %d %s" % (a, b, 1 if rng.randrange(8) == 0 else 0, self.relay(a, b)))
        elif r < 30:
            self.ops.append("pick %d %d %d" % (a, b, a))
            self.ops.append("deliver %d %d 0 %s" % (a, b, self.relay(a, b)))
        elif r < 33:
            self.ops.append("gossip %d %d" % (a, b))
        elif r < 35:
            if (min(a, b), max(a, b)) in self.down:
                self.down.discard((min(a, b), max(a, b)))
                self.ops.append("linkup %d %d" % (a, b))
            else:
                self.down.add((min(a, b), max(a, b)))
                self.ops.append("linkdown %d %d" % (a, b))
        elif r < 36:
            self.ops.append("expire %d %d" % (a, b))
        elif r < 38:
            self.ops.append("touch %d %d" % (a, b))
        elif r < 39:
            # b is cut off from everybody, garbage-collected by a subset, and comes back
            for x in self.others(b):
                self.down.add((min(x, b), max(x, b)))
                self.ops.append("linkdown %d %d" % (x, b))
            self.tick()
            for x in self.others(b):
                if rng.randrange(3):
                    self.ops.append("offline %d %d" % (x, b))
            if rng.randrange(2):
                for x in self.others(b):
                    self.down.discard((min(x, b), max(x, b)))
                    self.ops.append("linkup %d %d" % (x, b))
                    if rng.randrange(2):
                        self.ops.append("touch %d %d" % (x, b))
        elif r < 40 and rng.randrange(3) == 0:
            # a payload nobody in the session produced: a tombstone that names the receiver itself or an unknown peer
            who = a if rng.randrange(2) else 9
            self.ops.append("inject %d %d %d %s 0 %d" % (a, who, 50 + rng.randrange(3), hx(rng.choice(self.chans)), self.clock))
        else:
            pubs = sorted(self.clients)
            self.ops.append("pub %s %s %s" % (rng.choice(pubs), hx(self.pubchan()), hx(rbytes(rng, 2))))

    def pubchan(self):
        ch = self.rng.choice(self.chans)
        return ch.replace(b"+", self.rng.choice([b"a", b"b", b"x"]))

    def quiesce(self):
        for (a, b) in sorted(self.down):
            self.ops.append("linkup %d %d" % (a, b))
        self.down = set()
        for a in range(1, self.n + 1):
            for b in self.others(a):
                self.ops.append("touch %d %d" % (a, b))
        self.ops.append("drain")
        for _ in range(2):
            for a in range(1, self.n + 1):
                for b in self.others(a):
                    self.ops.append("gossip %d %d" % (a, b))
            self.ops.append("drain")
        self.ops.append("quiesce")
        for a in range(1, self.n + 1):
            self.ops.append("qdump %d" % a)
        k = 0
        targets = set()
        for ch in sorted(self.used | set(self.chans[:1])):
            targets.add(ch.replace(b"+", b"a"))
            targets.add(ch.replace(b"+", b"x"))
        for ch in sorted(targets):
            for a in range(1, self.n + 1):
                k += 1
                self.ops.append("qpub p%d %s %s" % (a, hx(ch), hx(bytes([k // 256, k % 256]))))


def session(rng, tier, n=None, length=None, calm=False):
    n = n or rng.choice([2, 2, 3, 3, 3, 4])
    s = Sess(rng, n, mode="mqtt" if rng.randrange(6) == 0 else "emitter")
    for _ in range(rng.choice([1, 2, 3])):
        s.conn(rng.randrange(1, n + 1))
    length = length or rng.choice([10, 25, 40, 70])
    ratio = rng.choice([2, 3, 5])
    for _ in range(length):
        if rng.randrange(ratio) == 0:
            s.client_event()
        else:
            s.transport_event()
        if calm and s.ops[-1].split()[0] in ("offline", "expire"):
            s.ops.pop()
    s.quiesce()
    return s.ops


def exhaustive(rng):
    """small scope, exhaustively: 2 brokers, one connection, one channel; every schedule of exactly 6 events made of the
    client history sub@5, unsub@7, sub@10 (in this order) and 3 transport events out of {pick, deliver, deliver-and-keep,
    full-state gossip} on link 1->2, in every interleaving (20 x 4^3 = 1280 sessions), each followed by quiescence"""
    ops = []
    client = [["clock 5", "sub c1 612f"], ["clock 7", "unsub c1 612f"], ["clock 10", "sub c1 612f"]]
    transport = ["pick 1 2 1", "deliver 1 2 0 -", "deliver 1 2 1 -", "gossip 1 2"]
    for pos in itertools.combinations(range(6), 3):
        for combo in itertools.product(range(4), repeat=3):
            ops.append("reset 2 emitter %s %d %d" % (SPEC, CONTRACT, SIGN))
            ops += ["conn 1 p1 901", "conn 2 p2 902", "conn 1 c1 3"]
            ci, ti = 0, 0
            for slot in range(6):
                if slot in pos:
                    ops += client[ci]; ci += 1
                else:
                    ops.append(transport[combo[ti]]); ti += 1
            ops += ["drain", "gossip 1 2", "gossip 2 1", "drain", "quiesce", "qdump 2", "qpub p2 612f 0001"]
    return ops


def gen(rng, tier):
    ops = []
    for _ in range(budget(tier, 30, 250)):
        ops += session(rng, tier, calm=(rng.randrange(3) == 0))
    if tier == "thorough":
        ops += exhaustive(rng)
    return ops
