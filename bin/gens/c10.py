"""C10 — concurrent delivery keeps packet framing and per-publisher order."""
import os, subprocess
from .common import budget

HARNESS = "c10"
CONST_GROUPS = ["mqtt"]
TIMEOUT = 1800
RULE = ("two kinds of lines. (1) run <plain|ws> rate= pubs= per= procs= seed= big= flush=: a stress run of the real "
        "listener.Conn (real limiter and 1 s timer, plus a busy flusher when flush=1) or the real WebSocket transport with "
        "2-8 publisher goroutines writing PUBLISH packets through mqtt.Publish.EncodeTo, payloads carrying (publisher, seq), "
        "over a fake socket that serialises Write calls and delays them pseudo-randomly; rates 1/5/60/200/1000 force the "
        "queued, flush-on-write and direct paths; GOMAXPROCS 1-8; the received bytes are decoded by the Lean MQTT decoder and "
        "judged by the spec predicate (whole packets only; each publisher exactly 1..per in order; ws: one packet per frame, "
        "never two open writers). Schedules are SAMPLED, not enumerated. (2) scripted schedules reset/tokens/hold/open/w/"
        "flush/release: the fake socket parks every socket.Write at a gate and the script releases them one by one, the "
        "limiter is pinned, no timer; after every line the stream bytes, queue length, parked and lock-waiting calls are "
        "compared with the small-step model executing the same schedule through step?. "
        "non-trivial = distinct line whose answer carries a stream")
TRUSTED = ["net.Conn.Write is atomic with respect to concurrent Write calls on the same socket (fd write lock); the fake socket implements exactly that",
           "sync.RWMutex / sync.Mutex give mutual exclusion; bytes.Buffer is sequentially correct; kelindar/rate is an arbitrary Boolean per call (pinned through a verif hook in the scripted sessions)",
           "gorilla/websocket below NextWriter/Write/Close is replaced by a frame sink that records frames and overlapping writers",
           "tools/gofacts (go/ast) for the lock-shape facts; the Go memory model and scheduler are not modelled"]
ASSUMPTIONS = ["the Go side of the concurrent claim is a stress run over sampled schedules (seeded socket delays, GOMAXPROCS 1-8, flush rates), not an enumeration; the quantification over ALL schedules is carried by the Lean theorems about the small-step system whose atomic steps are the regenerated lock regions",
               "Conn.Send takes no lock: framing rests on one Write call per packet (regenerated fact shapeEncodeTo) and on the atomicity of socket.Write",
               "socket errors / short writes are out of scope (a failed socket.Write inside Flush drops the queue)"]
CLAIM = {
    "text": "Lean 4 theorems over a small-step model of listener.Conn.Write/enqueue/Len/Flush (any number of threads, arbitrary scheduler, arbitrary rate-limiter answers, unbounded steps): in every reachable state the socket stream is a concatenation of whole packets (and the MQTT decoder model splits it into exactly those packets); every thread's packets in stream++queue++in-flight++todo are exactly its program in order without duplicates; after all threads finished and one more flush the stream is an interleaving of all programs; the WebSocket transport (Write atomic under its mutex) emits one frame per packet in per-thread order. Tied to /repo by regenerated lock-shape facts (go/ast), scripted deterministic schedules executed on the real listener.Conn / websocket transport and on the model, and stress runs judged by the Lean decoder + spec predicate.",
    "note": "Partial: Go scheduler and memory model are not modelled; real-code schedules are sampled. Trusted: Lean kernel; harness; atomic socket.Write; mutex semantics.",
    "technique": "Lean 4 proof (inductive invariant over a labelled transition system) + regenerated lock facts + differential scripted-schedule check + stress run with independent decoder",
}

HERE = os.path.dirname(os.path.abspath(__file__))
VERIF = os.path.dirname(os.path.dirname(HERE))

FACT_QUERIES = [
    r"lockConnWrite=internal/network/listener/conn.go:Conn.Write:^(defer |go )?recv\.",
    r"lockConnFlush=internal/network/listener/conn.go:Conn.Flush:^(defer |go )?recv\.",
    r"lockConnLen=internal/network/listener/conn.go:Conn.Len:^(defer |go )?recv\.",
    r"lockConnEnqueue=internal/network/listener/conn.go:Conn.enqueue:^(defer |go )?recv\.",
    r"lockWsWrite=internal/network/websocket/websocket.go:websocketTransport.Write:^(defer |go )?(recv|w)\.",
    r"shapeBrokerSend=internal/broker/conn.go:Conn.Send:^go |EncodeTo|Lock",
    r"shapePublish=internal/service/pubsub/publish.go:Service.Publish:^go |\.Send$",
    r"shapeEncodeTo=internal/network/mqtt/mqtt.go:*.EncodeTo:^(go |defer )?w\.",
]


def regen_facts(state):
    """build tools/gofacts with the default go, run it on the repo's working tree and rewrite
    lean/Emitter/Generated/Locks.lean when the content changed (called by check.py before lake build)"""
    import vcore
    src = os.path.join(VERIF, "tools", "gofacts")
    out = os.path.join(vcore.WORK, "bin", "gofacts")
    os.makedirs(os.path.dirname(out), exist_ok=True)
    env = dict(os.environ)
    env.update({"GOFLAGS": "-mod=mod", "GOPROXY": "off"})
    newest = max(os.path.getmtime(os.path.join(src, f)) for f in os.listdir(src))
    if not os.path.exists(out) or os.path.getmtime(out) < newest:
        p = subprocess.run(["go", "build", "-o", out, "."], cwd=src, env=env, stdout=subprocess.PIPE, stderr=subprocess.STDOUT)
        if p.returncode != 0:
            raise vcore.BuildError("go build tools/gofacts failed", p.stdout.decode("utf-8", "replace"))
    p = subprocess.run([out, vcore.REPO] + FACT_QUERIES, stdout=subprocess.PIPE, stderr=subprocess.PIPE)
    if p.returncode != 0:
        raise vcore.BuildError("lock-fact extraction failed (a function the model mirrors was renamed or removed)",
                               p.stderr.decode("utf-8", "replace"))
    body = p.stdout.decode()
    path = os.path.join(vcore.LEAN, "Emitter", "Generated", "Locks.lean")
    if not os.path.exists(path) or open(path).read() != body:
        open(path, "w").write(body)
    for ln in body.splitlines():
        if ln.startswith("def "):
            name, val = ln[4:].split(" : List String := ", 1)
            state["facts"][name] = val


def nontrivial(r):
    return r["I"].startswith("stream=")


def case_key(r):
    # a stress run is a distinct case per configuration; a scripted line per (line, answer)
    return r["op"] if r["op"].startswith("run") else r["op"] + "|" + r["I"][-60:]


# ----------------------------------------------------------------------------- scripted sessions

class Sim:
    """mirror of the driver's session state, used only to choose meaningful next operations"""
    def __init__(self, ws):
        self.ws, self.q, self.hold, self.tokens = ws, 0, False, 1000
        self.holder, self.parked, self.blocked, self.pc = None, [], None, {}

    def busy(self, t):
        return t in self.parked or self.blocked == t or (self.holder is not None and self.blocked is not None)

    def advance(self, t):
        while True:
            pc = self.pc.get(t, "idle")
            if pc == "idle":
                return
            if pc == "ws":
                if self.holder is not None:
                    self.blocked = t
                elif self.hold:
                    self.parked.append(t); self.holder = t
                else:
                    self.pc[t] = "idle"
                return
            if pc in ("enq", "enqf", "chk", "fl"):
                if self.holder is not None:
                    self.blocked = t
                    return
                if pc == "enq":
                    self.q += 1; self.pc[t] = "idle"
                elif pc == "enqf":
                    self.q += 1; self.pc[t] = "fl"
                elif pc == "chk":
                    self.pc[t] = "direct" if self.q == 0 else "enqf"
                else:
                    self.pc[t] = "idle" if self.q == 0 else "flw"
            elif pc == "direct":
                if self.hold:
                    self.parked.append(t)
                    return
                self.pc[t] = "idle"
            elif pc == "flw":
                if self.holder is not None:
                    self.blocked = t
                    return
                if self.hold:
                    self.parked.append(t); self.holder = t
                    return
                self.q = 0; self.pc[t] = "idle"

    def write(self, t):
        if self.busy(t):
            return
        if self.ws:
            self.pc[t] = "ws"
        else:
            self.pc[t] = "enq" if self.tokens == 0 else "chk"
            self.tokens = max(0, self.tokens - 1)
        self.advance(t)

    def flush(self, t):
        if self.ws or self.busy(t):
            return
        self.pc[t] = "fl"
        self.advance(t)

    def release(self, t):
        if t not in self.parked:
            return
        self.parked.remove(t)
        was = self.holder == t
        if was:
            self.holder = None
        if self.ws or self.pc[t] == "direct":
            self.pc[t] = "idle"
        else:
            self.q = 0; self.pc[t] = "idle"
        self.advance(t)
        if was and self.blocked is not None:
            b, self.blocked = self.blocked, None
            self.advance(b)


def session(rng, ws, length):
    ops = ["reset ws" if ws else "reset plain"]
    sim = Sim(ws)
    seq = {}
    nthreads = rng.choice([2, 3, 4, 6])
    waits = 0
    for _ in range(length * 2):
        if len(ops) > length:
            break
        r = rng.randrange(100)
        idle = [t for t in range(1, nthreads + 1) if not sim.busy(t)]
        if sim.parked and (r < 30 or not idle):
            # release a parked call, in any order
            t = rng.choice(sim.parked)
            ops.append("release %d" % t); sim.release(t)
        elif 30 <= r < 33:
            t = rng.randrange(1, nthreads + 2)           # usually not parked: skip
            ops.append("release %d" % t); sim.release(t)
        elif 33 <= r < 45 and not ws:
            if sim.blocked is None:
                n = rng.choice([0, 0, 0, 1, 2, 5])
                sim.tokens = n
                ops.append("tokens %d" % n)
            else:
                ops.append("tokens 3")                   # skipped while a call waits for the lock
        elif (45 <= r < 55) or (r < 12 and not sim.hold):
            if sim.hold and r < 53:
                continue
            if sim.blocked is None:
                sim.hold = True
            ops.append("hold")
        elif 55 <= r < 60:
            if not sim.parked:
                sim.hold = False
            ops.append("open")
        elif 60 <= r < 72 and not ws and idle:
            if sim.holder is not None:
                if waits >= 2:
                    continue
                waits += 1
            t = rng.choice(idle + [7])                   # thread 7 is the "timer"
            if sim.busy(t):
                continue
            ops.append("flush %d" % t); sim.flush(t)
        elif idle:
            if sim.holder is not None:
                if waits >= 2:                          # each such line costs the harness a timed wait
                    continue
                waits += 1
            t = rng.choice(idle)
            seq[t] = seq.get(t, 0) + 1
            size = rng.choice([0, 0, 1, 5, 20, 120, 121, 130])
            ops.append("w %d %d %d" % (t, seq[t], size)); sim.write(t)
    # drain: release everything, open the gate, one more flush
    guard = 0
    while sim.parked and guard < 20:
        t = sim.parked[0]
        ops.append("release %d" % t); sim.release(t)
        guard += 1
    ops.append("open"); sim.hold = False if not sim.parked else sim.hold
    if not ws:
        ops.append("flush 7"); sim.flush(7)
    return ops


FIXED = [
    # the three paths of Write, then the timer flush
    ["reset plain", "w 1 1 3", "tokens 0", "w 1 2 0", "w 2 1 4", "tokens 1", "w 2 2 1", "flush 7"],
    # a direct write parked at the socket is overtaken by another thread's enqueue + flush
    ["reset plain", "hold", "w 1 1 2", "tokens 0", "w 2 1 2", "tokens 5", "w 2 2 2", "release 2", "release 1", "open", "flush 7"],
    # a flush parked inside its locked region: writers and Len() wait, nothing is lost
    ["reset plain", "tokens 0", "w 1 1 1", "w 1 2 1", "hold", "flush 7", "tokens 3", "w 2 1 1", "release 7", "release 2", "open", "w 1 3 0", "flush 7"],
    # two flushers: the second finds the queue empty after the first one ran
    ["reset plain", "tokens 0", "w 1 1 1", "hold", "flush 7", "flush 8", "release 7", "open", "flush 8"],
    # websocket: second writer waits for the transport mutex
    ["reset ws", "w 1 1 2", "hold", "w 1 2 0", "w 2 1 0", "release 1", "release 2", "open", "w 2 2 300"],
]


def runs(rng, tier):
    out = []
    n = budget(tier, 40, 600)
    for i in range(n):
        tr = "ws" if i % 5 == 4 else "plain"
        rate = [1000, 1, 200, 60, 5, 1000, 0, 1000][i % 8]
        pubs = rng.choice([2, 3, 4, 8])
        cap = budget(tier, 1800, 4000)
        per = rng.choice([20, 60, 150, 300, 600])
        if rate == 1000 and i % 3 == 0:
            per = max(per, 1500 // pubs)      # outrun the 1000-token burst: limited, then flush-on-write
        per = max(5, min(per, cap // pubs))
        procs = rng.choice([1, 2, 4, 8])
        big = rng.choice([0, 0, 7, 31])
        if big and pubs * per > 900:
            big = 97
        out.append("run %s rate=%d pubs=%d per=%d procs=%d seed=%d big=%d flush=%d" %
                   (tr, rate, pubs, per, procs, rng.getrandbits(30) + 1, big, 0 if i % 7 == 3 else 1))
    return out


def gen(rng, tier):
    ops = runs(rng, tier)
    for f in FIXED:
        ops += f
    for i in range(budget(tier, 60, 1500)):
        ops += session(rng, ws=(i % 6 == 5), length=rng.choice([6, 10, 16, 24]))
    return ops
