"""shared generator pieces for the broker-level properties (C02, C07, C08, C18)"""
import time
from .common import hx, rbytes

CONTRACT, SIGN = 2781309058, 791964088
R, W, S, L, P, E = 2, 4, 8, 16, 32, 64
WORDS = [b"a", b"b", b"x", b"y"]


def specs(rng):
    return ["x:" + hx(rbytes(rng, 16)), "s:%s:%s" % (hx(rbytes(rng, 32)), hx(rbytes(rng, 24))),
            "h:%s:%s" % (hx(rbytes(rng, 32)), hx(rbytes(rng, 16)))]


# level names that coincide with names the broker reserves for itself: ordinary levels on a client's channel
ODD_WORDS = [b"presence", b"a", b"history", b"link", b"stats2", b"keygen"]   # not "emitter": the harness reads topics under emitter/ as the broker's JSON replies


def chan(rng, depth=None, wild=False, words=None):
    n = depth or rng.choice([1, 2, 2, 3])
    parts = []
    for _ in range(n):
        if wild and rng.randrange(4) == 0:
            parts.append(b"+")
        else:
            parts.append(rng.choice(words or WORDS))
    return b"/".join(parts) + b"/"


def permuted(rng, c):
    """a channel whose levels are a permutation / repetition of c's (same XOR fold candidates)"""
    parts = c.rstrip(b"/").split(b"/")
    r = rng.randrange(3)
    if r == 0 and len(parts) > 1:
        parts = parts[::-1]
    elif r == 1:
        parts = [rng.choice(WORDS)] * 2 if len(parts) == 2 else parts + parts[-1:] * 2
    else:
        rng.shuffle(parts)
    return b"/".join(parts) + b"/"


class Session:
    """builds the op lines of one broker session"""

    def __init__(self, rng, mode=None, spec=None):
        self.rng = rng
        self.ops = []
        self.now = int(time.time())
        self.mid = 1
        spec = spec or rng.choice(specs(rng))
        self.ops.append("reset %s %s %d %d" % (mode or rng.choice(["emitter", "emitter", "mqtt"]), spec, CONTRACT, SIGN))
        self.keys = {}
        self.clients = []

    def key(self, name, perms, target=b"#/", expires=0, contract=CONTRACT, sign=SIGN, master=1):
        self.ops.append("key %s %d %d %d %d %d %s %d" % (name, self.rng.getrandbits(15), master, contract, sign, perms, hx(target), expires))
        self.keys[name] = (perms, target)
        return name

    def nextmid(self):
        self.mid = self.mid % 60000 + 1
        return self.mid

    def conn(self, name, user=b"", will=None, connect=True):
        self.clients.append(name)
        self.ops.append("conn " + name)
        if not connect:
            return                     # a client that never sends CONNECT (the broker does not insist on one)
        if will:
            k, t, m, retain = will
            self.ops.append("connect %s %s 1 %d %s %s %s" % (name, hx(user), 1 if retain else 0, k, hx((b"" if k == "-" else b"/") + t), hx(m)))
        else:
            self.ops.append("connect %s %s 0 0 - - -" % (name, hx(user)))

    def sub(self, c, k, channel, opts=b"", qos=0):
        self.ops.append("sub %s %d %s %s %d" % (c, self.nextmid(), k, hx(b"/" + channel + opts), qos))

    def unsub(self, c, k, channel):
        self.ops.append("unsub %s %d %s %s" % (c, self.nextmid(), k, hx(b"/" + channel)))

    def pub(self, c, k, channel, payload, opts=b"", retain=False, qos=1):
        self.ops.append("pub %s %d %d %d %s %s %s" % (c, qos, 1 if retain else 0, self.nextmid(), k, hx(b"/" + channel + opts), hx(payload)))

    def pubalias(self, c, alias, payload):
        self.ops.append("pub %s 1 0 %d - %s %s" % (c, self.nextmid(), hx(alias), hx(payload)))

    def link(self, c, name, k, channel, sub):
        self.ops.append("link %s %d %s %s %s %d" % (c, self.nextmid(), hx(name), k, hx(channel), 1 if sub else 0))

    def presence(self, c, k, channel, status=True, changes=None):
        self.ops.append("presence %s %d %s %s %d %s" % (c, self.nextmid(), k, hx(channel), 1 if status else 0, "-" if changes is None else ("1" if changes else "0")))

    def close(self, c):
        self.ops.append("close " + c)
        if c in self.clients:
            self.clients.remove(c)

    def deafen(self, c):
        """injected fault: every write of the broker to c fails from now on; c stays connected and subscribed
        and sends nothing more (the generator only closes it later)"""
        self.ops.append("deafen " + c)
        if c in self.clients:
            self.clients.remove(c)
        self.deaf = getattr(self, "deaf", []) + [c]

    def dump(self):
        self.ops.append("dump")
