"""C06 — history queries return exactly the stored, live, matching messages."""
import os
from .common import hx, budget

HARNESS = "c06"
CONST_GROUPS = ["message", "mqtt", "security"]
RULE = ("one case = one session on a fresh provider (reset ssd|mem <retain>): stores (NewID + SetTime; contracts and first "
        "levels chosen so that several (contract, channel) pairs share the 32-bit key prefix; many messages per second; past, "
        "present and future times; ttl 0, short (already expired / expiring during the run, with wait), long and the retained "
        "marker; payloads around the 64 KiB reply cap), overwrites of an existing id (again), and queries: filters shorter / "
        "equal / longer than stored channels with + and # levels, foreign contracts with the same prefix, windows (open, "
        "closed, empty, outside the id range), limits 0..1000 and very large, continuation from the oldest / any returned id "
        "/ any stored id (live, expired, other prefix) / literal ids, chained pages; malformed: ssid shorter than two words, "
        "negative limit, first-level wildcard, contract id equal to the wildcard hash; Frame.Limit on its own (flimit). "
        "non-trivial = distinct query line with a non-empty answer")
TRUSTED = ["badger v3 as an ordered key-value store: one visible version per key, entries with 0 < ExpiresAt <= now invisible to "
           "iterators, Seek(k) = first visible key >= k (exercised on every query for the disk and the in-memory mode, not modelled further)",
           "the stored value round-trips through Message.Encode / DecodeMessage (snappy + kelindar/binary; proved for the layout in C19, exercised here)",
           "sort.Slice returns a permutation sorted by the comparison (the order inside one second is left open and not compared)",
           "time.Now is read by the harness before and after every query (retried when the second ticks over) and passed to the model"]
ASSUMPTIONS = ["single broker: the cluster survey (SSD.Query merging remote frames) is not driven; its merge step Frame.Limit is checked on its own",
               "window end below 2^32 seconds after 2018-01-01 (security.MaxTime is far below); the 32-bit time word of ids wraps beyond",
               "the JSON mapping and authorization of emitter/history/ requests (history.go) are outside this check (authorization: C03)"]
CLAIM = {
    "text": "Lean 4 theorems over the executable model of the history store (ordered key list with expiry, Store, the seek/scan loop of SSD.lookup with ID.HasPrefix / ID.Match, Frame.Sort/Limit): for every sequence of stores and every query with a literal first level the answer is exactly filter(contract, level-wise wildcard prefix, window, unexpired) -> most recent `limit` -> cut at the reply-size cap, sorted by non-decreasing time; every returned message is a stored, live message of the querying contract (isolation, also for contracts and channels that collide in the 32-bit key prefix); continuation pages are strictly older than the continuation id, never repeat, and are exact when the continuation id is still live; limit 0 returns nothing. Tied to /repo by regenerated constants and a differential run of storage.SSD and storage.InMemory against the compiled model and the executable specification.",
    "note": "Trusted: Lean kernel; harness; badger as an ordered KV store with expiry (exercised); sort.Slice; message codec (C19). Two recorded findings (continuation from an expired id skips one message; contract id equal to the '+' hash with a first-level wildcard).",
    "technique": "Lean 4 proof (sorted-list refinement: byte order of ids = (prefix, time desc), seek/scan loop = filter/take/cut) + differential correspondence check model vs. real Go code",
}

WILD, MWILD = 1815237614, 4285801373
MIN_TIME, MAX_TIME = 1514764800, 3029529600
# the largest limit sent; SSD.lookup preallocates `limit` entries until defect D11 (property C09) is repaired,
# so 10^9 is only usable afterwards (VERIF_C06_HUGE=1000000000)
HUGE = int(os.environ.get("VERIF_C06_HUGE", "100000"))


def nontrivial(r):
    return r["op"].startswith("query") and r["I"] not in ("asc none", "panic", "err", "")


def case_key(r):
    # the enrichment (absolute times, ids) differs from run to run: key on the request + answer size
    return " ".join(r["op"].split(" ")[:6]) + "|" + str(r["I"].count(","))


def sstr(ssid):
    return ",".join(str(w) for w in ssid) if ssid else "none"


def mk_heads(rng):
    small = rng.randrange(3) == 0
    c1 = rng.choice([1, 2, 3]) if small else rng.getrandbits(32)
    l1 = rng.choice([4, 5, 6]) if small else rng.getrandbits(32)
    c2 = rng.choice([7, 8]) if small else rng.getrandbits(32)
    l2 = c1 ^ l1 ^ c2                     # (c2, l2) has the key prefix of (c1, l1)
    heads = [(c1, l1), (c2, l2), (l1, c1), (c1, rng.getrandbits(32)), (c2, l1)]
    return heads


def mk_channels(rng, heads, words):
    chans = []
    for h in heads:
        for _ in range(rng.choice([1, 2, 3])):
            tail = [rng.choice(words) for _ in range(rng.choice([0, 1, 1, 2, 3]))]
            chans.append(list(h) + tail)
    return chans


def mk_query_ssid(rng, chans, heads, words):
    s = list(rng.choice(chans))
    r = rng.randrange(10)
    if r < 3:
        s = s[:rng.randrange(2, len(s) + 1)]          # shorter filter
    elif r < 5:
        s = s + [rng.choice(words + [WILD, MWILD])]   # longer than the stored channel
    for i in range(2, len(s)):
        if rng.randrange(4) == 0:
            s[i] = rng.choice([WILD, MWILD, rng.choice(words)])
    if len(s) >= 4 and rng.randrange(3) == 0:
        # a wildcard level in the middle followed by literal levels: the levels after it still count
        i = rng.randrange(2, len(s) - 1)
        s[i] = rng.choice([WILD, MWILD, MWILD])
        if rng.randrange(3):
            # ... so a filter that differs from a stored channel only AFTER the wildcard must not return it
            others = [w for w in words if w != s[-1]] + [rng.getrandbits(32)]
            s[-1] = rng.choice(others)
    if rng.randrange(40) == 0:
        s[1] = rng.choice([WILD, MWILD])              # outside the property: first level must be literal
    if rng.randrange(25) == 0:
        s[0] = rng.getrandbits(32)                    # some other contract
    return s


FROMS = ["a0", "a0", "a0", "r-3", "r-2", "r-1", "r0", "r-60", "r5", "a%d" % (MIN_TIME - 1), "a%d" % MIN_TIME, "r-100000"]
UNTILS = ["a0", "a0", "a0", "a0", "r-3", "r-2", "r-1", "r0", "r100", "a%d" % MAX_TIME, "a%d" % MIN_TIME, "a5", "r-60"]
LIMITS = [0, 1, 1, 2, 3, 5, 10, 50, 1000]


def mk_query(rng, chans, heads, words, start="-", limit=None):
    lim = rng.choice(LIMITS + [HUGE]) if limit is None else limit
    f, u = rng.choice(FROMS), rng.choice(UNTILS)
    if rng.randrange(3) == 0:
        f, u = "a0", "a0"
    if rng.randrange(200) == 0:
        u = "a6000000000"                              # beyond the 32-bit id time range (outside the claim)
    return "query %s %s %s %d %s" % (sstr(mk_query_ssid(rng, chans, heads, words)), f, u, lim, start)


def session(rng, s, tier, kind):
    prov = "ssd" if s % 2 == 0 else "mem"
    ops = ["reset %s %d" % (prov, rng.choice([1, 30, 3600, 2592000]))]
    heads = mk_heads(rng)
    words = [rng.getrandbits(32) for _ in range(3)]
    chans = mk_channels(rng, heads, words)
    nstore = 0

    def store(dts, ttls, sizes):
        nonlocal nstore
        ch = rng.choice(chans)
        nstore += 1
        return "store %s r%d %d %s %d %d" % (sstr(ch), rng.choice(dts), rng.choice(ttls), hx(bytes([97 + len(ch)]) * rng.choice([1, 1, 3, 0])),
                                            rng.choice(sizes), nstore % 251)

    if kind == "general":
        dts = [-3, -3, -2, -2, -1, -1, 0, 0, -60, -600, 5, 100]
        ttls = [0, 1, 2, 100, 3600, 4294967295, 100000, 59]
        for _ in range(rng.choice([20, 60, 200]) if tier != "thorough" else rng.choice([20, 60, 200, 500])):
            ops.append(store(dts, ttls, [0, 1, 5, 5, 9, 300]))
            if rng.randrange(12) == 0:
                ops.append("again %d %d %d %d" % (rng.randrange(1000), rng.choice(ttls), rng.choice([0, 2, 7]), rng.randrange(256)))
            if rng.randrange(10) == 0:
                ops.append(mk_query(rng, chans, heads, words))
        for _ in range(20):
            ops.append(mk_query(rng, chans, heads, words))
            if rng.randrange(3) == 0:      # a few pages behind it
                q = ops[-1].split(" ")
                for _ in range(rng.choice([1, 2, 4])):
                    ops.append(" ".join(q[:5] + [rng.choice(["plast", "plast", "p%d" % rng.randrange(50)])]))
            if rng.randrange(6) == 0:
                ops.append(mk_query(rng, chans, heads, words, start="s%d" % rng.randrange(1000)))
    elif kind == "second":
        # everything inside one or two seconds, one channel family: limits cut inside a second
        ch = rng.choice(chans)
        chans = [ch, ch + [words[0]], ch[:2] + [words[1]]]
        for _ in range(rng.choice([30, 120])):
            ops.append(store([-1, -1, -1, -2], [100, 100, 3600, 1], [0, 3]))
        for lim in [0, 1, 2, 7, 50, 1000, HUGE]:
            ops.append("query %s a0 a0 %d -" % (sstr(ch[:2]), lim))
            for _ in range(3):
                ops.append("query %s a0 a0 %d plast" % (sstr(ch[:2]), lim))
        for _ in range(8):
            ops.append(mk_query(rng, chans, heads, words))
    elif kind == "cap":
        # id is 16+4*len(ssid) bytes, channel 0..3 bytes: sums around 65536
        sizes = [20000, 30000, 40000, 65000, 65400, 65536, 70000, 10, 0, 65507, 65508, 65503, 35478, 35479]
        for _ in range(rng.choice([6, 12, 20])):
            ops.append(store([-3, -2, -1, -1], [100, 3600], sizes))
        for _ in range(10):
            ops.append(mk_query(rng, chans, heads, words, limit=rng.choice([1, 2, 3, 5, 50])))
            if rng.randrange(2) == 0:
                q = ops[-1].split(" ")
                for _ in range(2):
                    ops.append(" ".join(q[:5] + ["plast"]))
    elif kind == "expiry":
        # entries that expire at base+1 / base+2 while the session runs
        # a page whose oldest message (store #1) expires before the next page is asked for
        dch = [heads[0][0], rng.getrandbits(32), words[0]]
        for dt, ttl in [(0, 100), (-1, 3), (-2, 100), (-3, 100)]:
            nstore += 1
            ops.append("store %s r%d %d 61 2 %d" % (sstr(dch), dt, ttl, nstore))
        ops.append("query %s a0 a0 2 -" % sstr(dch[:2]))
        ops.append("query %s a0 a0 2 plast" % sstr(dch[:2]))
        for _ in range(30):
            ops.append(store([-3, -2, -1, 0, 1, 2], [0, 1, 2, 3, 4, 5, 100], [0, 2]))
        qs = [mk_query(rng, chans, heads, words, limit=rng.choice([3, 50])) for _ in range(6)]
        qs = [" ".join(q.split(" ")[:2] + ["a0", "a0"] + q.split(" ")[4:]) for q in qs]
        for k in [0, 1, 2]:
            if k:
                ops.append("wait %d" % k)
            for q in qs:
                ops.append(q)
                ops.append(" ".join(q.split(" ")[:5] + ["plast"]))      # the page's oldest id may expire later
        ops.append("wait 3")
        ops.append("query %s a0 a0 50 s1" % sstr(dch[:2]))      # continue behind the (now expired) oldest id of page one
        ops.append("query %s a0 a0 50 s0" % sstr(dch[:2]))
    elif kind == "start":
        # continuation from ids that are expired, of another prefix, or literal bytes
        dch = [heads[0][0], rng.getrandbits(32), words[0]]
        for dt, ttl in [(-1, 100), (-2, 1), (-3, 100), (-4, 100)]:       # store #1 is expired from the start
            nstore += 1
            ops.append("store %s r%d %d 61 2 %d" % (sstr(dch), dt, ttl, nstore))
        for k in range(4):
            ops.append("query %s a0 a0 50 s%d" % (sstr(dch[:2]), k))
        for _ in range(40):
            ops.append(store([-5, -4, -3, -2, -1], [1, 2, 100, 100, 3600], [0, 2]))
        for _ in range(25):
            st = rng.choice(["s%d" % rng.randrange(1000)] * 4 + ["x00", "xffffffffffffffffffff", "x" + "00" * 8, "x" + hx(bytes(rng.getrandbits(8) for _ in range(rng.choice([1, 4, 8, 12, 28]))))])
            ops.append(mk_query(rng, chans, heads, words, start=st))
    elif kind == "wildcontract":
        # a contract whose id is the hash of "+" asking with a first-level wildcard: prefix 0 is shared by every
        # channel whose contract id equals its first level
        ops.append("store 7,7,%d r-1 100 61 1 1" % words[0])
        ops.append("store %d,%d,%d r-1 100 61 1 2" % (WILD, WILD, words[0]))
        ops.append("store %d,9 r-1 100 61 1 3" % WILD)
        ops.append("query %d,%d a0 a0 10 -" % (WILD, WILD))
        ops.append("query %d,%d,%d a0 a0 10 -" % (WILD, MWILD, words[0]))
        ops.append("query %d,9 a0 a0 10 -" % WILD)
        # first-level wildcard of an ordinary contract c1: (c2, c1^WILD^c2) has the key prefix c1^WILD; only the
        # contract word of ID.Match keeps contract c2's messages out of the answer
        c1, c2 = heads[0][0], heads[1][0]
        for w in (WILD, MWILD):
            ops.append("store %d,%d,%d r-2 100 62 1 4" % (c2, c1 ^ w ^ c2, words[0]))
            ops.append("store %d,%d,%d r-2 100 62 1 5" % (c1, w, words[0]))
            ops.append("query %d,%d a0 a0 10 -" % (c1, w))
            ops.append("query %d,%d,%d a0 a0 10 -" % (c1, w, words[0]))
    # malformed tail (each may leave the iterator in a panic: keep them last)
    r = rng.randrange(4)
    if r == 0:
        ops.append("query %s a0 a0 5 -" % rng.choice(["none", str(heads[0][0])]))
    elif r == 1:
        ops.append("query %s a0 a0 -1 -" % sstr(chans[0][:2]))
    elif r == 2:
        ops.append("query %s a0 a0 5 s0" % str(heads[0][0]))
    return ops


def gen(rng, tier):
    ops = []
    kinds = ["general", "second", "cap", "expiry", "general", "start", "general", "wildcontract"]
    n = budget(tier, 8, 160)
    for s in range(n):
        kind = kinds[s % len(kinds)]
        if tier == "thorough" and kind == "expiry" and s >= 24:
            kind = "general"                    # every expiry session waits 4 s of wall time
        ops += session(rng, s, tier, kind)
    # Frame.Limit on its own (ties at the cut, n = 0, n > len, negative n)
    ops.append("reset mem 1")
    for _ in range(budget(tier, 60, 3000)):
        k = rng.choice([0, 1, 2, 3, 5, 12, 13, 40])
        ts = [str(1600000000 + rng.choice([0, 0, 1, 2, 3, rng.randrange(100)])) for _ in range(k)]
        ops.append("flimit %d %s" % (rng.choice([0, 1, 2, 3, 5, 12, 100, -1]), ",".join(ts) if ts else "none"))
    return ops
