"""C16 — MQTT codec agrees with MQTT 3.1.1: generator of packet values and byte strings."""
from .common import hx, rbytes, budget

HARNESS = "c16"
CONST_GROUPS = ["mqtt"]
STATELESS = True
RULE = ("one case = one operation line: enc <packet> (EncodeTo), dec <max> <bytes> (DecodePacket on valid, truncated, "
        "inflated-length and random byte strings), refdec <packet> (broker encodes, paho.mqtt.golang decodes), refenc "
        "<packet> (paho encodes, broker decodes), conc <g> <rounds> <size> (g goroutines encode their own PUBLISH concurrently into writers that take the frame in two halves; every frame must be the sequential encoding). Packet values hit every type, flag combination, QoS 0-2 incl. will QoS, "
        "lengths around 0, 127/128, 16383/16384 and the 64 KiB buffer limit. non-trivial = distinct line whose "
        "implementation answer is not 'err'")
TRUSTED = ["lean/Emitter/Spec/Mqtt.lean as the transcription of the OASIS MQTT 3.1.1 standard (own packet type, encoder, strict parser; every rule cites its section) — the S column of enc / refdec / refenc / dec",
           "github.com/eclipse/paho.mqtt.golang/packets as the independent MQTT 3.1.1 implementation (reference side of refdec/refenc)",
           "sync.Pool buffer reuse in EncodeTo is modelled as a fresh 64 KiB buffer (aliasing between concurrent encoders is sampled by the conc lines and by C10)"]
ASSUMPTIONS = ["bufio.Reader / io.ReadFull deliver the stream bytes in order"]
CLAIM = {
    "text": "Lean 4 theorems over the executable model of EncodeTo/DecodePacket for all 14 packet types: remaining-length round trip for every n < 2^28 across the 1/2/3/4-byte boundaries, string/uint16 field round trips, decode∘encode = id on well-formed packets of the types the broker emits and receives, decoder totality (ok | err | panic classified); conformance to an independent Lean specification of the MQTT 3.1.1 wire format written from the OASIS standard (Spec/Mqtt.lean): for every packet value of all 14 types that denotes a valid standard packet EncodeTo writes exactly the prescribed bytes (encode_conforms), DecodePacket returns exactly the packet for every prescribed byte string and for every valid standard packet within the size limit (decode_conforms, decode_standard_packet), the specification's parser inverts its encoder (spec_roundtrip), the remaining-length table of the standard equals the digit loop below 2^28 and the two readers agree on every 1-4 byte field; the codec's deviations from the standard (it never validates) are exhibited as *_deviation theorems on literal bytes. Tied to /repo by regenerated constants (type codes, header and buffer sizes) and a differential run of the real codec against the compiled model, cross-checked in both directions with paho.mqtt.golang.",
    "note": "Trusted: Lean kernel; correspondence harness; paho as reference codec; the pooled buffer is modelled as fresh per call.",
    "technique": "Lean 4 proof (codec round-trip theorems by induction) + differential correspondence check model vs. real Go code vs. paho reference codec",
}


def nontrivial(r):
    return r["I"] not in ("err", "")


LENS = [0, 1, 2, 5, 60, 125, 126, 127, 128, 129, 200]
BIG = [16381, 16382, 16383, 16384, 16385, 65519, 65520, 65524, 65525, 65526, 65527, 65528, 65529, 65530, 65531, 65532, 65535, 65536, 65537]


def blen(rng, big_ok):
    if big_ok and rng.randrange(12) == 0:
        return rng.choice(BIG)
    return rng.choice(LENS)


def payload(rng, n):
    if n > 4096:
        # big payloads: cheap pattern, distinct head/tail
        return bytes([rng.getrandbits(8)]) + bytes(n - 2) + bytes([rng.getrandbits(8)]) if n >= 2 else rbytes(rng, n)
    return rbytes(rng, n)


def topic(rng, n=None):
    if n is None:
        n = rng.choice([0, 1, 3, 8, 20, 40])
    return bytes(rng.choice(b"abcxyz/+#$0123456789AZ") for _ in range(n))


def hdr(rng, wellformed, fixed=None):
    if fixed is not None and wellformed:
        return fixed
    q = rng.randrange(3) if wellformed else rng.choice([0, 1, 2, 3])
    return "%d %d %d" % (rng.randrange(2), q, rng.randrange(2))


def subs(rng, withq, wellformed):
    n = rng.choice([0, 1, 1, 2, 3, 7]) if not wellformed else rng.choice([1, 1, 2, 3, 7])
    if n == 0:
        return "none"
    out = []
    for _ in range(n):
        t = hx(topic(rng, rng.choice([1, 3, 8, 20, 40])) if wellformed else topic(rng))
        if withq:
            q = rng.randrange(3) if wellformed else rng.choice([0, 1, 2, 3, 128, 255])
            out.append("%s:%d" % (t, q))
        else:
            out.append(t)
    return ",".join(out)


def packet(rng, wellformed, big_ok=True):
    k = rng.randrange(16)
    mid = rng.choice([0, 1, 255, 256, 0x7fff, 0xffff, rng.getrandbits(16)])
    if k in (0, 1):
        uf, pf, wf = rng.randrange(2), rng.randrange(2), rng.randrange(2)
        wq = rng.randrange(3) if wellformed else rng.choice([0, 1, 2, 3, 4, 255])
        wr = rng.randrange(2)
        if wellformed and not wf:
            wq, wr = 0, 0
        wt = topic(rng) if (wf or (not wellformed and rng.randrange(3) == 0)) else b""
        wm = payload(rng, blen(rng, big_ok)) if (wf or (not wellformed and rng.randrange(3) == 0)) else b""
        un = topic(rng) if (uf or (not wellformed and rng.randrange(3) == 0)) else b""
        pw = rbytes(rng, rng.choice([0, 3, 16])) if (pf or (not wellformed and rng.randrange(3) == 0)) else b""
        return "connect %s %d %d %d %d %d %d %d %d %s %s %s %s %s" % (
            hx(rng.choice([b"MQTT", b"MQIsdp", b"", b"X"])), rng.choice([3, 4, 0, 255]), uf, pf, wr, wq, wf, rng.randrange(2),
            rng.choice([0, 30, 60, 65535]), hx(topic(rng)), hx(wt), hx(wm), hx(un), hx(pw))
    if k == 2:
        return "connack %d" % rng.choice([0, 1, 2, 3, 4, 5, 255])
    if k in (3, 4, 5, 6):
        h = hdr(rng, wellformed)
        q = int(h.split()[1])
        t = topic(rng)
        n = blen(rng, big_ok)
        if n > 60000:
            n = max(0, n - len(t) - (2 if q > 0 else 0) - 2 + rng.choice([0, 0, 1, -1, 2]))
        m = mid if q > 0 or not wellformed else 0
        return "publish %s %s %d %s" % (h, hx(t), m, hx(payload(rng, n)))
    if k == 7:
        return "puback %d" % mid
    if k == 8:
        return "pubrec %d" % mid
    if k == 9:
        return "pubrel %s %d" % (hdr(rng, wellformed, "0 1 0"), mid)
    if k == 10:
        return "pubcomp %d" % mid
    if k == 11:
        return "subscribe %s %d %s" % (hdr(rng, wellformed, "0 1 0"), mid, subs(rng, True, wellformed))
    if k == 12:
        n = rng.choice([0, 1, 2, 5, 130]) if not wellformed else rng.choice([1, 2, 5, 130])
        return "suback %d %s" % (mid, hx(bytes(rng.choice([0, 1, 2, 0x80]) for _ in range(n))))
    if k == 13:
        return "unsubscribe %s %d %s" % (hdr(rng, wellformed, "0 1 0"), mid, subs(rng, False, wellformed))
    if k == 14:
        return "unsuback %d" % mid
    return rng.choice(["pingreq", "pingresp", "disconnect"])


def rawpackets(rng):
    """byte strings for the decoder: built by hand from the MQTT grammar, then damaged"""
    def varlen(n):
        out = bytearray()
        while True:
            d = n % 128
            n //= 128
            if n > 0:
                out.append(d | 0x80)
            else:
                out.append(d)
                return bytes(out)
    ty = rng.randrange(16)
    flags = rng.randrange(16)
    body = rbytes(rng, rng.choice([0, 1, 2, 3, 4, 7, 12, 40]))
    if rng.randrange(2):
        # plausible body: strings with length prefixes
        t = topic(rng)
        body = len(t).to_bytes(2, "big") + t + rbytes(rng, rng.choice([0, 1, 2, 5]))
        if rng.randrange(4) == 0:
            body = rbytes(rng, 2) + body
    n = len(body)
    k = rng.randrange(8)
    if k == 0:
        n += rng.choice([1, 2, 100, 70000, 2 ** 21, 2 ** 28 - 1])   # inflated length
    if k == 1 and n:
        n -= 1
    hdrb = bytes([(ty << 4) | flags]) + varlen(n)
    if k == 2:
        hdrb = bytes([(ty << 4) | flags]) + bytes([0x80 | rng.getrandbits(7) for _ in range(rng.choice([1, 3, 4, 5, 6]))]) + bytes([rng.getrandbits(7)])
    s = hdrb + body + rbytes(rng, rng.choice([0, 0, 1, 3]))
    if k == 3:
        s = s[:rng.randrange(len(s) + 1)]
    return s


def gen(rng, tier):
    n = budget(tier, 1200, 60000)
    ops = []
    for i in range(n):
        p = packet(rng, wellformed=(i % 3 != 0))
        ops.append("enc " + p)
        w = packet(rng, wellformed=True, big_ok=(i % 4 == 0))
        ops.append("refdec " + w)
        ops.append("refenc " + w)
        ops.append("dec %d %s" % (rng.choice([65536, 65536, 1024, 64, 2, 0]), hx(rawpackets(rng))))
    for _ in range(budget(tier, 3, 40)):
        ops.append("conc %d %d %d" % (rng.choice([4, 8, 16]), rng.choice([50, 200]), rng.choice([10, 300, 5000])))
    return ops
