"""C02 — an acknowledged subscription gets every matching publish once, until removed."""
from .common import hx, rbytes, budget
from .brokergen import *

HARNESS = "broker"
CONST_GROUPS = ["security", "message", "cipher", "license"]
TIMEOUT = 3600
RULE = ("one case = one session against a real in-process broker (1-4 clients over net.Pipe; emitter or mqtt matcher; license "
        "v1/v2/v3): connect, subscribe / unsubscribe (several filters per connection whose levels are permutations or "
        "repetitions of each other, wildcard filters, repeated (un)subscribes), publish (incl. me=0, link aliases, bad keys, "
        "keys without the permission, invalid channels), link requests with and without auto-subscribe; after every request "
        "the packets every client received are compared; sessions end with a trie dump. non-trivial = distinct (op, answer)")
TRUSTED = ["the broker's own publishes on stats/<node>/ (monitoring sink 'self', once a second, into the owner's contract) are not answers to a request and are dropped from the observables",
           "net.Pipe and the reader goroutines of the harness; quiescence is detected by polling (presence queue empty, no new packet for ~1 ms)",
           "authorization is the C03 model (Security.authorize) instantiated with the session's license; the broker theorems hold for every authorizer"]
ASSUMPTIONS = ["requests are issued one at a time (histories, not schedules)"]
CLAIM = {
    "text": "Lean 4 theorems over the executable broker model (counters, trie, links, delivery) for every request history and every authorizer: the trie and the per-connection counters stay in sync (sync_inv), an accepted PUBLISH is delivered exactly to the connections holding an acknowledged, not yet removed matching subscription, once, minus the publisher under me=0, with channel and payload unchanged (publish_exact), a request that fails parsing or authorization changes nothing and is answered with an error (reject_noop); at history level the model refines the set A of acknowledged, not yet removed (connection, filter) pairs of an independent specification (Spec/Subscriptions.lean): after every well-formed history bookkeeping, index and A coincide (history_refines), the PUBLISH packets of an accepted publish are exactly one unchanged packet per open holder of a matching pair of A minus a self-excluded publisher (publish_history_exact / _iff), and a removed subscription receives nothing until re-added (removed_never_receives). Tied to /repo by a differential run of a real broker.Service with clients over net.Pipe against the compiled model, request by request.",
    "note": "Trusted: Lean kernel; harness (sequential clients, quiescence polling); C03 model as the authorizer instance.",
    "technique": "Lean 4 proof (invariant + refinement of the broker step function to the set of acknowledged subscriptions) + differential correspondence check model vs. real broker",
}


def nontrivial(r):
    return r["I"] not in ("-", "ok", "")


def case_key(r):
    return r["op"].split(" ", 2)[0] + "|" + r["I"]


def session(rng):
    s = Session(rng)
    s.key("KA", R | W)                                   # everything, read+write
    s.key("KR", R)
    s.key("KW", W)
    s.key("KT", R | W, b"a/#/")                          # only below a/
    s.key("KX", R | W | E)                               # extendable: not usable directly
    s.key("KF", R | W, contract=CONTRACT ^ 1)            # foreign contract
    s.key("KE", R | W, expires=s.now - 100000)           # expired
    n = rng.choice([1, 2, 3, 4])
    for i in range(n):
        s.conn("c%d" % (i + 1), user=rng.choice([b"", b"u%d" % i]), connect=rng.randrange(6) != 0)
    subs = []
    steps = rng.choice([8, 20, 40])
    deafen_at = rng.randrange(steps) if n >= 2 and rng.randrange(3) == 0 else -1
    for i in range(steps):
        if i == deafen_at and subs and len(s.clients) >= 2:
            # a subscriber whose socket starts failing: everybody else must still get every matching publish
            victim = rng.choice([x[0] for x in subs if x[0] in s.clients] or s.clients)
            s.deafen(victim)
            for _ in range(rng.choice([2, 4, 6])):
                ch = rng.choice(subs)[2].replace(b"+", rng.choice(WORDS))
                s.pub(rng.choice(s.clients), "KA", ch, rbytes(rng, 2))
        c = rng.choice(s.clients)
        r = rng.randrange(20)
        if r < 6:
            ch = chan(rng, wild=True)
            if subs and rng.randrange(3) == 0:
                ch = permuted(rng, rng.choice(subs)[2])
            k = rng.choice(["KA", "KA", "KA", "KR", "KT", "KW", "KX", "KF", "KE"])
            if rng.randrange(15) == 0:
                ch = ch.rstrip(b"/") + (b"/#/" if rng.randrange(2) else b"/#")
            s.sub(c, k, ch)
            subs.append((c, k, ch))
        elif r < 9:
            if subs and rng.randrange(4):
                c2, k, ch = rng.choice(subs)
                if c2 not in s.clients:
                    c2 = c
                if rng.randrange(3) == 0:
                    ch = permuted(rng, ch)
                s.unsub(c2 if rng.randrange(5) else c, k, ch)
            else:
                s.unsub(c, "KA", chan(rng))
        elif r < 16:
            ch = chan(rng)
            if subs and rng.randrange(2):
                ch = rng.choice(subs)[2].replace(b"+", rng.choice(WORDS))
                if rng.randrange(4) == 0:
                    ch = ch + rng.choice(WORDS) + b"/"
            k = rng.choice(["KA", "KA", "KA", "KW", "KT", "KR", "KX", "KF", "KE"])
            opts = b""
            if rng.randrange(5) == 0:
                opts = rng.choice([b"?me=0", b"?me=1", b"?me=0&ttl=0"])
            s.pub(c, k, ch, rbytes(rng, rng.choice([0, 1, 3])), opts=opts, qos=rng.choice([1, 1, 0]) if False else 1)
        elif r == 16:
            ch = chan(rng)
            nm = rng.choice([b"a", b"b1", b"zz", b"abc", b"", b"a!"])
            s.link(c, nm, rng.choice(["KA", "KW", "KR", "KF", "KX", "KX"]), ch, rng.randrange(2) == 1)
        elif r == 17:
            s.pubalias(c, rng.choice([b"a", b"b1", b"zz", b"q"]), rbytes(rng, 2))
        elif r == 18:
            # malformed / unauthorised requests must change nothing
            bad = rng.choice([b"a//b/", b"a/b", b"a b/", b"", b"+a/", b"a/+/"])
            if rng.randrange(2):
                s.ops.append("pub %s 1 0 %d KA %s %s" % (c, s.nextmid(), hx(b"/" + bad), hx(b"x")))
            else:
                s.ops.append("sub %s %d KA %s 0" % (c, s.nextmid(), hx(b"/" + bad)))
        else:
            s.dump()
    s.dump()
    return s.ops


def fanout_session(rng):
    """several clients hold matching subscriptions on one channel (exact and wildcard filters); one or two of
    them get a failing socket; every later publish must still reach all the others (the subscribers of one lookup
    come out of a map, so several publishes are issued to see both orders)"""
    s = Session(rng)
    s.key("KA", R | W)
    n = rng.choice([3, 4, 4, 5])
    for i in range(n):
        s.conn("c%d" % (i + 1))
    ch = chan(rng, depth=rng.choice([1, 2, 3]))
    parts = ch.rstrip(b"/").split(b"/")
    for c in list(s.clients):
        f = list(parts)
        r = rng.randrange(4)
        if r == 0:
            f[rng.randrange(len(f))] = b"+"
        elif r == 1 and len(f) > 1:
            f = f[:-1]                                   # parent filter (emitter matcher: prefix)
        s.sub(c, "KA", b"/".join(f) + b"/")
    pubr = s.clients[0]
    for _ in range(2):
        s.pub(rng.choice(s.clients), "KA", ch, rbytes(rng, 2))
    victims = rng.sample(s.clients[1:], rng.choice([1, 1, 2]))
    for v in victims:
        s.deafen(v)
    for _ in range(rng.choice([6, 8, 10])):
        s.pub(rng.choice(s.clients), "KA", ch, rbytes(rng, 2), opts=rng.choice([b"", b"", b"?me=0"]))
    if len(s.clients) > 1 and rng.randrange(2):
        s.unsub(s.clients[-1], "KA", ch)
        s.pub(pubr, "KA", ch, rbytes(rng, 2))
    s.dump()
    return s.ops


def chain_session(rng):
    """one connection holds three to five filters whose ssids fold to the same 32-bit XOR (w/w/ for every word w,
    rotations of one level list): the per-connection counters chain them in one bucket; they are removed in every
    order (middle first, head first, tail first) with publishes in between; a second connection holds the same
    filters throughout. Also: a shortcut linked, used, linked again to another channel and used again."""
    s = Session(rng)
    s.key("KA", R | W)
    s.conn("c1")
    s.conn("c2")
    fam = rng.choice([
        [w + b"/" + w + b"/" for w in WORDS],
        [b"a/b/x/", b"b/x/a/", b"x/a/b/", b"x/b/a/"],
        [b"a/", b"a/b/b/", b"a/x/x/", b"a/y/y/"],
    ])
    fam = rng.sample(fam, rng.choice([3, 3, 4])) if len(fam) > 3 else fam
    for f in fam:
        s.sub("c1", "KA", f)
        if rng.randrange(2):
            s.sub("c2", "KA", f)
    if rng.randrange(2):
        s.sub("c1", "KA", fam[0])                          # a second reference on the head of the chain
    order = list(fam)
    rng.shuffle(order)
    if rng.randrange(2):
        order = [fam[1]] + [f for f in order if f != fam[1]]    # the middle of the chain first
    for f in order:
        s.unsub("c1", "KA", f)
        for g in fam:
            s.pub("c2", "KA", g, rbytes(rng, 1))
        if rng.randrange(3) == 0:
            s.dump()
    if rng.randrange(2):
        s.unsub("c1", "KA", fam[0])
        s.pub("c2", "KA", fam[0], rbytes(rng, 1))
    # re-linked shortcut
    a, b = chan(rng), chan(rng)
    s.sub("c2", "KA", a)
    s.sub("c1", "KA", b)
    nm = rng.choice([b"x", b"q7"])
    s.link("c1", nm, "KA", a, False)
    s.pubalias("c1", nm, rbytes(rng, 2))
    s.link("c1", nm, "KA", b, rng.randrange(2) == 1)
    s.pubalias("c1", nm, rbytes(rng, 2))
    s.pubalias("c1", nm, rbytes(rng, 2))
    # a shortcut whose channel carries options: they apply to every publish through it (me=0: not back to the publisher)
    c3 = chan(rng)
    s.sub("c1", "KA", c3)
    s.sub("c2", "KA", c3)
    s.link("c1", b"m", "KA", c3 + rng.choice([b"?me=0", b"?ttl=30&me=0", b"?me=1", b"?me=0&last=2"]), rng.randrange(2) == 1)
    s.pubalias("c1", b"m", rbytes(rng, 2))
    s.pubalias("c1", b"m", rbytes(rng, 2))
    s.dump()
    s.close("c1")
    for g in fam[:2]:
        s.pub("c2", "KA", g, rbytes(rng, 1))
    s.dump()
    return s.ops


def gen(rng, tier):
    ops = []
    for _ in range(budget(tier, 8, 400)):
        ops += fanout_session(rng)
    for _ in range(budget(tier, 6, 300)):
        ops += chain_session(rng)
    for _ in range(budget(tier, 60, 1500)):
        ops += session(rng)
    return ops
