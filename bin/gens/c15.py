"""C15 — stored messages survive broker restarts and crashes."""
from .common import hx, rbytes, budget

HARNESS = "c15"
CONST_GROUPS = ["message", "storage"]
TIMEOUT = 3000
RULE = ("plant: a zero-length NNNNN.mem file appears in the directory (what a kill inside badger's memtable creation / deletion leaves), the store must open all the same; run lateclose <k>: the store is closed after k stores while further Store calls follow (clean stop overlapping publishers), only acknowledged stores must be present afterwards; incarnations <p> <n>: p successive processes create their first n message ids of one channel within one second, no id may repeat (ids are the store keys); "
        "sessions on one directory: reset <retain> / run <how> <k> <d> <workers> <fill> <messages…> / check <page limit> <how> / sleep. "
        "run re-executes the harness as a child process that opens storage.SSD on the directory, stores the messages (1 or 4 "
        "goroutines) and writes an acknowledgement to a pipe after every Store that returned; how = clean (Close, exit), kill (SIGKILL "
        "once k acknowledgements were read + d µs: lands inside later Store calls, or while idle), killopen (SIGKILL k µs after "
        "exec: inside badger.Open / log replay), killclose (SIGKILL inside Close); fill adds volume (already-expired filler "
        "messages) so that memtable flushes/compactions are interrupted too. check opens the directory in a FRESH process and "
        "pages through Storage.Query with continuation ids for every channel (page limits 1…1000, 64 KiB cap hit), joins the raw "
        "badger ExpiresAt, and is itself stopped cleanly or killed. Messages: ids as NewID makes them (colliding 32-bit prefixes, "
        "several per second, past/future seconds), empty/large payloads, ttl 0, short, long, RetainedTTL, already expired, "
        "expiring during the session. non-trivial = run with ≥1 acknowledged store or check returning ≥1 message")
TRUSTED = ["badger v3, the file system and the OS page cache are a parameter of the theorems (structure KV with its laws as hypotheses: "
           "Update returned ⇒ durable; a transaction is atomic under a kill; open/close/flush/compaction lose and invent nothing; "
           "an iterator shows exactly the unexpired durable entries in key order); the check samples them with real SIGKILLs",
           "snappy is a parameter (dec (enc b) = b); message codec as proved in C19",
           "Storage.Query's filtering/paging (C06) is exercised, not modelled: the observable is the union of all pages over all channels of the session"]
ASSUMPTIONS = ["'the store always reopens' is false of badger v3.2103.5 at one crash point (zero-length memtable file left by a kill inside its file delete/create; the next open fails once, nothing is lost): recorded finding C15.reopen-fails-once-after-kill, flagged by the model on exactly that branch, Lean: always_reopens_refuted / reopens_on_second_try",
               "process kills only: power loss with SyncWrites=false is outside the property",
               "kill instants are sampled by the scheduler/timer (after k acknowledgements + d µs), not enumerated",
               "message ids are pairwise distinct (as NewID guarantees, C19.id_injective); an overwritten id is only covered by the theorem's 'no later event for this id' hypothesis"]
CLAIM = {
    "text": "Lean 4 theorems over the store protocol of storage.SSD (Store = one update transaction of the entry key=id, value=compressed encoding, ExpiresAt=id time+ttl; history query = open, iterate, decode) on an abstract durable key-value store given by its laws: for every sequence of acknowledged stores, kills inside a Store call, restarts/clean stops/background work, every acknowledged message not overwritten later is returned after reopen with identical id, channel, payload, ttl and expiry while unexpired; an unacknowledged one is wholly present or absent; nothing else is returned; the query never fails. Laws instantiated by an executable list model (non-vacuity), which the driver runs. Tied to /repo by regenerated constants and by child processes of the real storage.SSD that are SIGKILLed at sampled instants and reopened in fresh processes on the same directory.",
    "note": "Partial by nature: badger + OS behaviour under process kill is the hypothesis KV.Laws (sampled, not proved); power loss excluded. Trusted: Lean kernel; harness.",
    "technique": "Lean 4 proof (refinement over event histories against an axiomatised durable KV, codec round trip from C19) + crash-injection differential check (child process kill / reopen) against the compiled model",
}


def nontrivial(r):
    op = r["op"].split(" ")[0]
    if op == "run":
        return "acked=none" not in r["I"]
    if op == "check":
        return "hist=none" not in r["I"] and "hist=" in r["I"]
    return False


def case_key(r):
    # the message lists are long: key a case by op, parameters and size
    w = r["op"].split(" ")
    return " ".join(w[:6]) + " #%d %s" % (len(w), r["I"][:80])


RET = 0xFFFFFFFF


class Sess:
    def __init__(self, rng):
        self.rng = rng
        a, b, c = (rng.getrandbits(32) for _ in range(3))
        c1 = rng.choice([1, 7, rng.getrandbits(32)])
        # [c1,a] and [a,c1] and [c1^a^b, b] share the 32-bit key prefix; deeper channels too
        self.ssids = [[c1, a], [a, c1], [c1 ^ a ^ b, b], [c1, a, b], [c1, a, b, c], [rng.getrandbits(32), c]]
        self.seq = rng.choice([0, 5, 0xFFFFFF00, rng.getrandbits(31)])
        self.short = False

    def msg(self, uniq, kind=None):
        rng = self.rng
        ssid = rng.choice(self.ssids)
        self.seq = (self.seq + 1) % (1 << 32)
        kind = kind or rng.choice(["n"] * 24 + ["ret", "ret", "dead", "dead", "zero", "zero", "future", "future", "big"])
        dt = rng.choice([0, 0, 0, 1, -1, -7, 60, -300, rng.randrange(-2000, 2000)])
        ttl = rng.choice([3600, 7200, 86400, 100000, 0x7FFFFFFF, 4294967294, rng.randrange(3000, 10 ** 6)])
        n = rng.choice([0, 1, 2, 5, 16, 40, 100, 127, 128, 300, 1000])
        if kind == "ret":
            ttl = RET
        elif kind == "dead":          # expired before it is stored
            dt, ttl = rng.choice([(-3000, 10), (-500, 1), (-100000, 3600), (-400, 100)])
        elif kind == "zero":          # ttl 0: expires at its own second
            ttl, dt = 0, rng.choice([-400, -1000, 1500])
        elif kind == "big":
            n = rng.choice([3000, 3000, 9000, 9000, 30000, 60000])
        elif kind == "future":
            dt = rng.choice([900, 5000, 100000])
        elif kind == "soon":          # expires two seconds after the session started
            dt, ttl = 0, 2
        ch = b"/".join(rbytes(rng, rng.choice([1, 2, 5])).hex().encode() for _ in range(len(ssid) - 1)) + b"/"
        pl = rbytes(rng, n) if n < 2000 else bytes([rng.getrandbits(8), rng.getrandbits(8)]) * (n // 2)
        return "%s:%d:%d:%d:%s:%s:%d" % (",".join(map(str, ssid)), dt, self.seq, uniq, hx(ch), hx(pl), ttl)


def session(rng, ops, cycles, size, fill=None, soon=False, retain=None):
    s = Sess(rng)
    ops.append("reset %d" % (retain if retain is not None else rng.choice([0, 0, 3600, 100000, 4000000000])))
    for c in range(cycles):
        uniq = rng.getrandbits(32)
        how = rng.choice(["kill"] * 6 + ["clean"] * 2 + ["killclose", "killopen"])
        if c == 0 and rng.randrange(2):
            how = "clean"
        n = rng.choice([1, 3, size // 4, size, size, 2 * size])
        if how in ("clean", "killclose"):
            n = min(n, size)
        workers = rng.choice([1, 1, 4])
        msgs = [s.msg(uniq) for _ in range(n)]
        if soon and c == 0:
            msgs += [s.msg(uniq, "soon") for _ in range(3)]
        if how == "clean" and rng.randrange(3) == 0:
            # Store panics on an id shorter than 8 bytes (ID.Time slices id[4:8])
            m = s.msg(uniq).split(":")
            m[0] += "/%d" % rng.choice([0, 4, 7])
            msgs.insert(rng.randrange(len(msgs) + 1), ":".join(m))
        if how == "clean" and c > 0 and rng.randrange(3) == 0:
            how = "lateclose"          # the store is closed after k stores, the rest must be refused
        if how == "lateclose":
            k = rng.choice([0, 1, n // 2, max(0, n - 1)])
        elif how == "kill":
            k = rng.choice([0, 1, n // 3, n // 2, rng.randrange(n + 1), n, n + 1])
        elif how == "killopen":
            k = rng.choice([0, 300, 2000, 10000, 30000, 80000])
        else:
            k = 0
        d = rng.choice([0, 0, 20, 50, 100, 300, 1000, rng.randrange(500)])
        f = "0x0"
        if fill and c in fill:
            f = fill[c]
            how, k, workers = "kill", rng.randrange(n // 4, n), 4
        ops.append("run %s %d %d %d %s %s" % (how, k, d, workers, f, " ".join(msgs)))
        if rng.randrange(4) == 0:
            ops.append("plant")        # leftover of a kill inside badger's memtable creation / deletion
        r = rng.randrange(10)
        if r < 7 or c == cycles - 1:
            ops.append("check %d %s" % (rng.choice([1, 2, 7, 50, 100, 1000]) if n < 60 else rng.choice([20, 50, 100, 1000]),
                                        rng.choice(["clean", "clean", "kill"])))
            if r < 2:
                ops.append("check %d %s" % (rng.choice([30, 100, 1000]), rng.choice(["clean", "kill"])))
        if soon and c == 0:
            ops.append("sleep 2600")
            ops.append("check 100 clean")
    ops.append("check %d clean" % rng.choice([64, 1000]))


def fault_session(rng, ops):
    """deterministic coverage of the two rare stop situations: a zero-length memtable file left by a kill inside
    badger's file creation / deletion, and a clean stop that overlaps Store calls"""
    s = Sess(rng)
    ops.append("reset 0")
    u = rng.getrandbits(32)
    ops.append("run clean 0 0 1 0x0 %s" % " ".join(s.msg(u, "n") for _ in range(3)))
    ops.append("plant")
    ops.append("check 100 clean")
    ops.append("run lateclose %d 0 1 0x0 %s" % (rng.choice([1, 2]), " ".join(s.msg(u, "n") for _ in range(4))))
    ops.append("check 100 clean")
    ops.append("plant")
    ops.append("run kill 2 0 1 0x0 %s" % " ".join(s.msg(u, "n") for _ in range(3)))
    ops.append("check 100 %s" % rng.choice(["clean", "kill"]))
    ops.append("run lateclose 0 0 1 0x0 %s" % " ".join(s.msg(u, "n") for _ in range(2)))
    ops.append("check 100 clean")
    # two kills in a row: acknowledged messages still in the memtable file when the process dies, then a process that
    # only opens the store and is killed right after the open returned (badger has replayed and cut the file, the
    # background flush has not committed yet), then the history is read
    for _ in range(2):
        ops.append("run kill 5 0 1 0x0 %s" % " ".join(s.msg(u, "n") for _ in range(5)))
        ops.append("run kill 0 %d 1 0x0" % rng.choice([0, 0, 200]))
        ops.append("check 100 %s" % rng.choice(["clean", "kill"]))


def gen(rng, tier):
    ops = ["reset 0", "incarnations 3 %d" % rng.choice([4, 8])]
    fault_session(rng, ops)
    if tier != "thorough":
        session(rng, ops, 4, 160)
        session(rng, ops, 3, 80, soon=True)
        session(rng, ops, 3, 300)
        session(rng, ops, 2, 40, fill={1: "12x30000"})
    else:
        # every check line carries the whole history of its session: keep sessions moderate, have many
        for i in range(40):
            session(rng, ops, rng.choice([3, 5, 8]), rng.choice([12, 60, 150, 300]), soon=(i % 8 == 1))
        for i in range(4):
            session(rng, ops, 3, 200, fill={1: "12x30000", 2: "10x30000"})
    return ops
