"""C03 — channel keys authorize exactly what they were issued for."""
import time
from .common import hx, rbytes, budget

HARNESS = "sec"
CONST_GROUPS = ["security", "message", "cipher", "license"]
RULE = ("cases: parse <topic bytes> (ParseChannel: keys, levels, wildcards, options incl. malformed ones), target <string> "
        "(Key.SetTarget), and authz tuples (key fields: salt, master id, contract, signature, permission mask, target, "
        "expiry; ban flag; requested channel; operation permission) executed through the real Service.Authorize of a broker "
        "configured with a license of each version. quick samples the tuple space over the grammar {3 literals, '+', '#'} "
        "depth <= 4; thorough enumerates every (target, request) pair of that grammar. non-trivial = distinct line")
TRUSTED = ["time.Now (reported by the harness per line, keys expire far in the past or future)",
           "32-bit murmur collisions between distinct normalised targets are an explicit hypothesis of the theorems"]
ASSUMPTIONS = ["single-contract provider (on-premise configuration); the HTTP contract provider is not exercised"]
CLAIM = {
    "text": "Lean 4 theorems over the executable model of ParseChannel, the key layout, SetTarget/ValidateChannel, contract validation and Service.Authorize: authorize = true iff the key decrypts, contract/signature/master match, not expired, not banned, the permission is included and the target covers the request (levels, '+', depth rule, trailing '#'), on the targets the key format can express; contract isolation on all three fields. Tied to /repo by regenerated permission/time constants and a differential run of the real Service.Authorize (all three license versions) against the compiled model and against the level-list specification.",
    "note": "Trusted: Lean kernel; harness; murmur collisions excluded by hypothesis; HTTP contract provider not covered.",
    "technique": "Lean 4 proof (decision logic stated outright: authorize_iff, covers refinement) + differential correspondence check model vs. real Go code vs. level-list spec",
}
LIT = [b"a", b"b", b"c"]


def nontrivial(r):
    return True


def level(rng, wild=True):
    r = rng.randrange(10)
    if wild and r < 3:
        return b"+"
    return rng.choice(LIT)


def target(rng):
    n = rng.choice([0, 1, 1, 2, 2, 3, 4])
    parts = [level(rng) for _ in range(n)]
    if rng.randrange(3) == 0 or n == 0:
        parts.append(b"#")
    if rng.randrange(40) == 0 and len(parts) > 1:
        parts.insert(rng.randrange(len(parts)), b"#")      # '#' in the middle: outside the grammar
    return b"/".join(parts) + b"/"


def request(rng, tgt=None):
    if tgt is not None and rng.randrange(2):
        # derive from the target: instantiate '+', extend, shorten, perturb
        parts = [p for p in tgt.rstrip(b"/").split(b"/")]
        if parts and parts[-1] == b"#":
            parts = parts[:-1] + [level(rng, False) for _ in range(rng.choice([0, 1, 2]))]
        parts = [(level(rng, rng.randrange(4) == 0) if p == b"+" else p) for p in parts]
        r = rng.randrange(8)
        if r == 0 and parts:
            parts.pop()
        elif r == 1:
            parts.append(level(rng))
        elif r == 2 and parts:
            parts[rng.randrange(len(parts))] = level(rng)
        elif r == 3:
            parts.append(b"#")
        if not parts:
            parts = [level(rng, False)]
    else:
        parts = [level(rng) for _ in range(rng.choice([1, 1, 2, 3, 4, 5]))]
        if rng.randrange(6) == 0:
            parts.append(b"#")
    s = b"/".join(parts) + b"/"
    if rng.randrange(10) == 0:
        s += rng.choice([b"?ttl=5", b"?last=2&me=0", b"?x", b"?=1", b"?a=1&", b"?ttl=1&b"])
    return s


def topic(rng):
    key = rng.choice([b"k", b"emitter", rbytes(rng, 4).hex().encode(), b"", b"A" * 32])
    r = rng.randrange(12)
    body = request(rng)
    if r == 0:
        body = body.rstrip(b"/")
    elif r == 1:
        body = body.replace(b"/", b"//", 1)
    elif r == 2:
        body = body + rng.choice([b"?ttl=99999999999999999999", b"?from=1600000000&until=1600000100", b"?last=007", b"?me=0", b"?me=1", b"?ttl=-1", b"?ttl=5&ttl=9"])
    elif r == 3:
        body = bytes([rng.choice(b"!\" %&'(),;<=>@[]^`{|}~\x00\xff")]) + body
    elif r == 4:
        body = b"a+/"
    elif r == 5:
        body = b"+a/b/"
    elif r == 6:
        body = rng.choice([b"*/", b"a/*/b/", b"$share/g/a/", b"a:b-c.d_e/0123456789/"])
    return key + b"/" + body


PERMS = [0, 1, 2, 4, 6, 8, 16, 32, 64, 66, 128, 254, 255]
OPS = [2, 4, 8, 16, 32, 64]


def gen(rng, tier):
    now = int(time.time())
    ops = []
    n = budget(tier, 500, 30000)
    for i in range(n // 2):
        ops.append("parse " + hx(topic(rng)))
        ops.append("target " + hx(rng.choice([target(rng), target(rng).rstrip(b"/"), b"/", b"#/", b"", b"/".join([b"x"] * rng.choice([22, 23, 24])) + b"/",
                                              b"a/b#/", b"x#/", b"a/#b/", b"a/b+/", b"+b/", b"a/##/", b"a/b#/#/", b"#b/#/"])))
    contract, sign = rng.getrandbits(32), rng.getrandbits(32)
    specs = ["x:" + hx(rbytes(rng, 16)), "s:%s:%s" % (hx(rbytes(rng, 32)), hx(rbytes(rng, 24))), "h:%s:%s" % (hx(rbytes(rng, 32)), hx(rbytes(rng, 16)))]
    # small scope, exhaustive in every run: every (target, request) pair over {a, b, +, #} up to depth 2
    small = [b"a/", b"b/", b"+/", b"#/", b"a/b/", b"a/+/", b"+/b/", b"+/+/", b"a/#/", b"+/#/", b"a/a/"]
    smallreq = small + [b"a/b/#/", b"a/+/#/", b"b/a/", b"a/b/a/"]
    for spec in specs:
        ops.append("reset %s %d %d" % (spec, contract, sign))
        for t in small:
            for rq in smallreq:
                ops.append("authz %d 1 %d %d %d %s 0 0 %s %d" % (rng.getrandbits(15), contract, sign, 254, hx(t), hx(rq), rng.choice(OPS)))
        for i in range(n):
            t = target(rng)
            perms = rng.choice(PERMS) if rng.randrange(3) else rng.getrandbits(8)
            perm = rng.choice(OPS)
            if rng.randrange(3):
                perms |= perm                                  # mostly-valid
            c2, s2, m2 = contract, sign, 1
            r = rng.randrange(30)
            if r == 0:
                c2 = contract ^ (1 << rng.randrange(32))
            elif r == 1:
                s2 = sign ^ (1 << rng.randrange(32))
            elif r == 2:
                m2 = rng.choice([0, 2, 256])
            exp = 0 if rng.randrange(3) else rng.choice([now - 1000000, now + 10000000, now - 100])
            banned = 1 if rng.randrange(25) == 0 else 0
            tfield = hx(t)
            if rng.randrange(25) == 0:
                tfield = "raw:0:%d" % rng.choice([1325880984, 3771378513, rng.getrandbits(32)])     # retro-format keys
            salt = rng.getrandbits(15)
            req = request(rng, t)
            line = "authz %d %d %d %d %d %s %d %d %s %d" % (salt, m2, c2, s2, perms, tfield, exp, banned, hx(req), perm)
            ops.append(line)
            q = rng.randrange(12)
            if q == 0:
                # the same issued key presented with characters appended / prepended / dropped: never a key
                m = rng.choice(["app:" + hx(rng.choice([b"A", b"AA", b"AAA", b"AAAA", b"BBBBBBBB", b"=", b"=="])),
                                "pre:" + hx(rng.choice([b"A", b"AAAA"])), "trunc:%d" % rng.choice([1, 2, 4])])
                ops.append(line + " mangle=" + m)
            elif q == 1 and not tfield.startswith("raw:"):
                # a private-link extension made with the key in between: the key string itself keeps
                # authorizing exactly what it did (no shared state between requests)
                xperms = perms | 64
                base = "%d %d %d %d %d %s %d" % (salt, m2, c2, s2, xperms, tfield, exp)
                probe = [request(rng, t), req, request(rng, t)]
                for pr in probe:
                    ops.append("authz %s 0 %s %d" % (base, hx(pr), rng.choice([perm, 64, 2, 4])))
                ops.append("extend %s %s %s %d" % (base, hx(req.split(b"?")[0]), hx(rng.choice([b"7", b"c1", b"ABCDEFGHJK"])), rng.choice([255, 6, 2])))
                for pr in probe:
                    ops.append("authz %s 0 %s %d" % (base, hx(pr), rng.choice([perm, 64, 2, 4])))
                    ops.append("authz %s 0 %s %d" % (base, hx(pr.split(b"?")[0] + b"7/"), rng.choice([2, 4])))
    return ops
