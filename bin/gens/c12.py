"""C12 — a key cannot be altered into a more powerful one: generator of operation lines.

tamper <lic> <salt> <target|access|expires>[;<target|access|expires>] <modification> <probe,probe,...>
    the harness issues the key(s) with the broker's own keygen, applies the modification to the key
    STRING and appends  now=<unix> key=<hex>[,<hex>] mod=<hex>  to the line; the observable is the mask of
    single permissions Service.Authorize grants per probe channel, for the issued key(s) and for the
    modified string.
shape <lic> <p> <q>
    cipher bytes of EncryptKey(p) XOR cipher bytes of EncryptKey(q)  (the "is an XOR stream" shape)
"""
from .common import hx, rbytes, boundary_bytes, budget
from .murmur import hash_of

HARNESS = "c12"
CONST_GROUPS = ["cipher", "license"]
STATELESS = True
TIMEOUT = 3600
RULE = ("one case = one operation line: (license version + secret, salt, issued key(s) = target shape x permission mask x "
        "expiry, modification of the key string, probe set of channels x 8 single permissions). Modifications: every single "
        "bit flip of the 24 cipher bytes, XOR masks (permission byte, target hash -> hash of another channel, bit-path, "
        "expiry, signature/contract/master/salt bytes, dense and sparse random), substitution of every character position "
        "by alphabet / non-alphabet bytes, character swaps, 8-byte block swaps / copies, cut-and-paste of blocks of two "
        "issued keys, truncation / extension / unrelated strings; salts: twelve keys issued by the broker's own keygen do not share one salt. non-trivial = the issued key or the modified string is "
        "granted something on the probe set and the line is distinct")
TRUSTED = ["x/crypto/salsa20/salsa transcribed as Emitter.Cipher.hsalsa20/salsaBlock (the malleability theorems quantify over every keystream)",
           "encoding/base64 RawURLEncoding transcribed as b64Encode",
           "probe channels are well formed and parsed by the real security.ParseChannel; the model takes Channel and Query[0] = hash of the first part from the channel string (parseChannel itself is C03's subject)",
           "wall clock: the harness reports the second at which it ran the probes; expiries within that second are not generated",
           "snappy + kelindar/binary license body codec: exercised by the broker (NewService parses the license string), not modelled"]
ASSUMPTIONS = ["'without knowledge of the license secret' is a computational notion: under license v1 the claim rests on XTEA being a "
               "pseudo-random permutation, which is NOT proved (structural theorems + search only)",
               "single-node broker (no cluster): the ban list is not part of this property",
               "the harness replaces the random salt CreateKey picked by a generated one (or keeps it: salt 'r') for reproducibility"]
CLAIM = {
    "text": "Lean 4 theorems over the executable model of the three key ciphers and of what a decrypted key grants (expiry, contract id / master id / signature, permission byte, target bit-path and hash): (v2, v3) the ciphers are XOR streams, so for EVERY secret and every keystream a secret-independent mask rewrites bytes 12..23 of any issued key at will (stream_malleable_v2/v3, stream_rewrite_tail) and one fixed mask turns every key that grants anything but Write into one that grants Write as well (escalation_v2/v3) - the property is FALSE under license v2/v3 (recorded findings); (v1) XTEA blocks are bijections, base64 is injective, decryption is block-local given block 0 (xtea_blocks), a change confined to block 2 leaves permissions and bit-path alone (xtea_block2_perms), acceptance of any string requires the 10 check bytes (accept_requires_check_bytes), and two issued keys with equal salt can be cut-and-pasted into a key with the permissions of one on the target of the other (xtea_splice, recorded finding). Tied to /repo by a tamper search against the real broker.Service.Authorize.",
    "note": "Partial by nature: resistance of v1 against secret-independent modifications other than block cut-and-paste is the PRP assumption on XTEA and is not provable in this setting; for v1 the check is structural theorems + a search that must find nothing. Trusted: Lean kernel; harness and generator; salsa20 and base64 as transcribed; probe channels parsed by the real ParseChannel.",
    "technique": "Lean 4 proof (malleability / block structure / refutation theorems) + differential tamper search: real Service.Authorize vs. compiled Lean model with a three-way verdict",
}

TIME_OFFSET = 1262304000
ALPHABET = b"ABCDEFGHIJKLMNOPQRSTUVWXYZabcdefghijklmnopqrstuvwxyz0123456789-_"
DEEP = "/".join("p%d" % i for i in range(23)) + "/"
DEEPER = "/".join("p%d" % i for i in range(25)) + "/"

# target shapes a key is issued for
TARGETS = ["a/", "b/", "a/b/", "a/c/", "a/b/c/", "#/", "a/#/", "a/b/#/", "+/", "a/+/", "+/b/", "a/+/c/", "+/+/", "a/+/#/",
           "x/y/z/", "$share/", "a.b/c-d/", "A/B/", DEEP]
# channels probed (publish-style, subscribe-style with wildcards)
PROBES = ["a/", "b/", "c/", "a/b/", "a/c/", "b/b/", "a/b/c/", "a/b/d/", "a/x/c/", "x/y/z/", "a/+/", "+/b/", "a/#/", "#/", "+/",
          "a/b/c/d/", "A/B/", "a.b/c-d/", "$share/", DEEP, DEEPER]
EXPIRES = [0, 0, 0, 0, 0, 2000000000, 2000000000, 4000000000, 1500000000, 1700000000, TIME_OFFSET + 1, TIME_OFFSET + 0xFFFFFFFF]
SALTS = ["0", "1", "255", "256", "32766", "32767", "32768", "65535", "r"]


def target_fields(channel):
    """(bit-path, hash) as Key.SetTarget computes them"""
    parts = channel.rstrip("/").split("/")
    path = 1 << 23
    if parts[-1] == "#":
        parts = parts[:-1]
        path = 0
    for i, p in enumerate(parts):
        if p not in ("+", "#"):
            path |= 1 << (22 - i)
    return path, hash_of("/".join(parts).encode())


def tail_of(target, access, expires):
    """bytes 12..23 of the issued key: known to whoever was handed the key"""
    path, h = target_fields(target)
    e = expires - TIME_OFFSET if expires > 0 else expires
    return path.to_bytes(3, "big") + bytes([access & 0xFE]) + h.to_bytes(4, "big") + (e & 0xFFFFFFFF).to_bytes(4, "big")


def lic_spec(rng, ver):
    user, sign = rng.getrandbits(32), rng.getrandbits(32)
    if rng.randrange(5) == 0:
        user = rng.choice([0, 1, 0xFFFFFFFF, 0x80000000])
    if rng.randrange(5) == 0:
        sign = rng.choice([0, 1, 0xFFFFFFFF])
    if ver == 1:
        return "1:%s:%d:%d" % (hx(boundary_bytes(rng, 16)), user, sign)
    if ver == 2:
        return "2:%s:%s:%d:%d" % (hx(boundary_bytes(rng, 32)), hx(boundary_bytes(rng, 24)), user, sign)
    return "3:%s:%s:%d:%d" % (hx(boundary_bytes(rng, 32)), hx(boundary_bytes(rng, 16)), user, sign)


def probes_for(rng, targets):
    """the channels the targets cover, their neighbours, and a few unrelated ones"""
    ps = []
    for t in targets:
        c = t.replace("#/", "").replace("+", "q")
        if c:
            ps.append(c)
        ps.append((c or "") + "z/")
    ps += rng.sample(PROBES, 5)
    out = []
    for p in ps:
        if p not in out and p.count("/") <= 26:
            out.append(p)
    return out[:9]


def mask24(pairs):
    b = bytearray(24)
    for off, val in pairs:
        for i, v in enumerate(val):
            b[off + i] ^= v
    return bytes(b)


def modification(rng, i, target, access, expires):
    """one modification descriptor; i drives the systematic part"""
    old = tail_of(target, access, expires)
    k = i % 24
    if k == 0:
        return "bit:%d" % ((i // 24) % 192)
    if k == 1:    # permission byte: set / clear / replace
        return "xor:" + hx(mask24([(15, bytes([rng.choice([1, 2, 4, 8, 16, 32, 64, 128, 0xFF, 0xFE, (access & 0xFE) ^ 0xFE, (access & 0xFE) ^ 1,
                                                           rng.randrange(1, 256)])]))]))
    if k == 2:    # one character: the low bit of character 20 is the Write bit
        return "cxor:%d:%d" % (rng.choice([20, 20, 21, rng.randrange(32)]), rng.choice([1, 2, 4, 8, 16, 32, rng.randrange(1, 64)]))
    if k == 3:    # retarget: rewrite bit-path and hash to those of another channel
        other = rng.choice(TARGETS)
        return "xor:" + hx(mask24([(12, bytes(a ^ b for a, b in zip(old[:3], tail_of(other, access, expires)[:3]))),
                                   (16, bytes(a ^ b for a, b in zip(old[4:8], tail_of(other, access, expires)[4:8])))]))
    if k == 4:    # un-expire / move the expiry
        new = rng.choice([0, 2000000000 - TIME_OFFSET, 0xFFFFFFFF, 1])
        return "xor:" + hx(mask24([(20, bytes(a ^ b for a, b in zip(old[8:12], new.to_bytes(4, "big"))))]))
    if k == 5:    # rewrite the whole public tail: all permissions, everything, never expires
        new = bytes([0, 0, 0, rng.choice([0xFE, 0xFF, 0x01, 0x06]), 0x4F, 0x07, 0x56, 0x98, 0, 0, 0, 0])   # hash("") = 1325880984 = 0x4F075698
        return "xor:" + hx(mask24([(12, bytes(a ^ b for a, b in zip(old, new)))]))
    if k == 6:    # check bytes (master, contract, signature), alone and together with permissions
        off = rng.randrange(2, 12)
        m = [(off, bytes([rng.randrange(1, 256)]))]
        if rng.randrange(2):
            m.append((15, bytes([rng.choice([4, 0xFF, 1])])))
        return "xor:" + hx(mask24(m))
    if k == 7:    # salt bytes (v3: changes the keystream; v1: changes the whitening)
        m = [(rng.randrange(2), bytes([rng.randrange(1, 256)]))]
        if rng.randrange(2):
            m.append((15, bytes([4])))
        return "xor:" + hx(mask24(m))
    if k == 8:
        return "xor:" + hx(rbytes(rng, 24))
    if k == 9:    # sparse random mask
        return "xor:" + hx(mask24([(rng.randrange(24), bytes([1 << rng.randrange(8)])) for _ in range(rng.randrange(1, 4))]))
    if k == 10:   # block-confined random masks
        b = rng.randrange(3)
        return "xor:" + hx(mask24([(8 * b, rbytes(rng, 8))]))
    if k == 11:
        return "chr:%d:%02x" % ((i // 24) % 32, rng.choice(ALPHABET))
    if k == 12:
        return "chr:%d:%02x" % (rng.randrange(32), rng.choice(b"+/=. \n\r\x00\xff~@[`{,:?#*"))
    if k == 13:
        a, b = rng.sample(range(32), 2)
        return "cswap:%d:%d" % (a, b)
    if k == 14:
        a, b = rng.sample(range(3), 2)
        return "bswap:%d:%d" % (a, b)
    if k == 15:
        a, b = rng.sample(range(3), 2)
        return "bcopy:%d:%d" % (a, b)
    if k == 16:
        return rng.choice(["trunc:0", "trunc:1", "trunc:16", "trunc:31", "ext:41", "ext:41414141", "ext:2f", "ext:" + hx(rbytes(rng, 12))])
    if k == 17:
        return "set:" + hx(rng.choice([b"", b"emitter", bytes(rng.choice(ALPHABET) for _ in range(32)),
                                       bytes(rng.choice(ALPHABET) for _ in range(44)), rbytes(rng, 32), b"A" * 32, b"_" * 32]))
    if k == 18:
        return "id"
    if k == 19:   # permission byte together with a retarget
        other = rng.choice(TARGETS)
        new = tail_of(other, 0xFE, 0)
        return "xor:" + hx(mask24([(12, bytes(a ^ b for a, b in zip(old, new)))]))
    if k == 20:
        return "bit:%d" % rng.choice([120, 121, 122, 123, 124, 125, 126, 127])   # the permission byte
    if k == 21:
        return "xor:" + hx(mask24([(12, rbytes(rng, 3))]))    # bit-path only
    if k == 22:
        return "xor:" + hx(mask24([(16, rbytes(rng, 4))]))    # hash only
    return "xor:" + hx(mask24([(15, bytes([4]))]))            # the canonical finding: add Write


def gen(rng, tier):
    n = budget(tier, 2600, 120000)
    nl = budget(tier, 2, 8)
    lics = [lic_spec(rng, v) for v in (1, 2, 3) for _ in range(nl)]
    ops = []
    for i in range(n):
        lic = lics[i % len(lics)]
        j = i // len(lics)
        target = TARGETS[j % len(TARGETS)] if rng.randrange(3) else rng.choice(TARGETS)
        access = (j * 7 + i) % 256 if rng.randrange(2) else rng.choice([0, 2, 4, 6, 2, 6, 8, 16, 24, 32, 64, 66, 126, 254, 255, 1])
        expires = rng.choice(EXPIRES)
        salt = rng.choice(SALTS) if rng.randrange(3) else str(rng.getrandbits(16))
        ops.append("tamper %s %s %s|%d|%d %s %s" % (lic, salt, target, access, expires, modification(rng, j, target, access, expires),
                                                    ",".join(probes_for(rng, [target]))))
        if i % 6 == 0:
            # cut-and-paste of two issued keys (equal salt unless 'r'): weak key on one target, strong key on another
            t2 = rng.choice(TARGETS)
            a1 = rng.choice([2, 2, 0, 32, 6, access])
            a2 = rng.choice([6, 254, 4, 126, 255, access])
            e2 = rng.choice(EXPIRES)
            pat = rng.choice(["121", "112", "211", "122", "212", "221", "121", "121"])
            ops.append("tamper %s %s %s|%d|%d;%s|%d|%d splice:%s %s" % (lic, salt, target, a1, expires, t2, a2, e2, pat,
                                                                       ",".join(probes_for(rng, [target, t2]))))
        if i % 10 == 0:
            p = bytearray(boundary_bytes(rng, 24))
            q = bytearray(boundary_bytes(rng, 24))
            if rng.randrange(4):
                q[0:2] = p[0:2]          # same salt: v3 then shows q XOR p as well
            ops.append("shape %s %s %s" % (lic, hx(bytes(p)), hx(bytes(q))))
    for lic in lics:
        ops.append("salts %s 12" % lic)
    # malformed stream    # malformed stream
    for i in range(budget(tier, 40, 1000)):
        lic = rng.choice(lics)
        ops.append("tamper %s %s %s|%d|0 set:%s %s" % (lic, rng.choice(SALTS), rng.choice(TARGETS), rng.getrandbits(8),
                                                      hx(rbytes(rng, rng.choice([0, 1, 24, 31, 32, 32, 32, 33, 64]))),
                                                      ",".join(rng.sample(PROBES, 4))))
    return ops


def nontrivial(r):
    i = r["I"]
    if i.startswith("orig="):
        body = i.replace("orig=", "").replace("mod=", "").replace(" ", "")
        return any(c not in "0-" for c in body)
    return i not in ("err", "panic", "bad-op", "")


def case_key(r):
    # the enrichment (now=, key=, mod=) is not part of the case
    return " ".join(w for w in r["op"].split(" ") if not w.startswith(("now=", "key=", "mod=")))
