"""C13 — gossip payloads carry exactly what is new and lose nothing queued."""
from .common import hx, rbytes, budget

HARNESS = "c13"
CONST_GROUPS = []
RULE = ("one case = one session on a real cluster.Swarm (router never started, outgoing side replaced by a recorder) with a scripted, "
        "optionally ticking clock. Sessions of kind A: reset <volatile|durable>, local add/del, then constructed payloads (mk: 1-5 entries "
        "over the three sets, add/remove times drawn around the local ones: older, equal, newer, zero, negative, key missing locally) "
        "merged into the live state directly (same object or through Encode/DecodeState) or through OnGossip/OnGossipBroadcast; observable: "
        "the returned delta (entries with times and payload, or nil), the times of the state after, the object handed in afterwards, and the "
        "same payload merged again. Sessions of kind B: objects produced by the swarm (Notify operations, Gossip() = the live state, deltas "
        "returned by OnGossip/OnGossipBroadcast, nil results) queued with the REAL mesh gossipSender.Send / Broadcast on 1-3 links (the same "
        "object on several links, duplicates, the live state, state changes while queued), then gossipSender.pick; observable: the decoded "
        "times of every payload emitted per bucket, compared with the join of what was queued on that bucket since its last pick, and the "
        "content of every queued object afterwards. non-trivial = distinct (operation kind, observable) with a non-empty payload or delta")
TRUSTED = ["kelindar/binary + snappy state codec: identity on (key, add, del, payload), exercised on every encode hop, not modelled",
           "buntdb (:memory:) as a key-value store; freecache as a map (entries never expire within a session); fewer than 50000 entries (durable Encode samples beyond)",
           "crdt.Now replaced by a scripted clock (Volatile.Add reads it once, Durable.Add twice: modelled)",
           "weaveworks/mesh outside gossipSender.Send/Broadcast/pick (routing, connections, the run/deliver loop that calls pick and Encode); "
           "the hook file mounted into the mesh package only constructs a gossipSender without starting its goroutine and calls its own methods",
           "go build -overlay into the module cache needs GODEBUG=goindex=0 (set by bin/vcore.py)"]
ASSUMPTIONS = ["a payload handed to the library is only read by it through Merge and Encode (mesh/gossip.go, gossip_channel.go)",
               "payload bytes (the value next to the times) are compared between model and code in deltas and objects, not in emitted payloads; the property speaks of updates = times",
               "goroutine interleavings inside one Send/Broadcast/pick are excluded by the sender's mutex (mesh holds it for the whole call)"]
CLAIM = {
    "text": "Lean 4 theorems over the executable model of crdt.Volatile/Durable.Merge, event.State.Merge and a transcription of mesh's gossipSender over a heap of shared payload objects: the delta holds per key exactly the incoming add / remove times that are newer than the local ones (else 0), a key is in the delta iff its times changed, the delta is empty (State.Merge returns nil) iff nothing changed iff the payload was already absorbed, relaying the delta is as good as relaying the payload for every downstream replica; for the payload wrapper of the repaired swarm.go, for every sequence of Send / Broadcast / pick calls on any number of links with shared objects and a changing live state, every emitted payload lies between the join of what was queued on its bucket and the join of those objects' current values (equal when they did not change), no call panics or deadlocks, nothing queued is ever dropped and no object handed in is modified; the same statement is refuted for the unrepaired State.Merge by literal witnesses. Tied to /repo by a differential run of the real Swarm, event.State and the real mesh gossipSender (hook mounted into the mesh package) against the compiled model, with a spec column computed pointwise, independently of the model's merge.",
    "note": "Trusted: Lean kernel; harness and hooks; state byte codec (exercised, assumed identity); mesh above the gossipSender methods. Defect D4 (State.Merge handed to mesh returns the delta, aliases objects) found by this check and repaired by notes/patches/D4-gossip-payload-union.final.patch.",
    "technique": "Lean 4 proof (pointwise delta characterisation; invariant over all call sequences of the transcribed sender with ghost queue records) + differential correspondence check model vs. real Go code (real mesh gossipSender, real Swarm)",
}
READY = True


def nontrivial(r):
    i = r["I"]
    return not (i in ("ok", "nil", "none", "empty", "skip-nil", "no-object") or i.startswith("d=nil"))


def case_key(r):
    return r["op"].split(" ")[0] + "|" + r["I"]


PEER1 = (1).to_bytes(8, "big")
PEER2 = (2).to_bytes(8, "big")
SUBKEYS = [PEER1 + (7).to_bytes(8, "big") + b"\x00\x00\x00\x01\x00\x00\x00\x02",
           PEER2 + (9).to_bytes(8, "big") + b"\x00\x00\x00\x01\x00\x00\x00\x05",
           PEER2 + (9).to_bytes(8, "big") + b"\x00\x00\x00\x01", b"k1"]
BANKEYS = [b"k1", b"k2", b"", b"key-three"]
CONNKEYS = [PEER1 + (7).to_bytes(8, "big"), PEER2 + (9).to_bytes(8, "big"), b"k1"]
KEYS = {"sub": SUBKEYS, "ban": BANKEYS, "conn": CONNKEYS}
SETS = ["sub", "ban", "ban", "conn"]


def pick_key(rng, narrow):
    s = "ban" if narrow and rng.randrange(3) else rng.choice(SETS)
    ks = KEYS[s][:2] if narrow else KEYS[s]
    return s, rng.choice(ks)


def a_time(rng, clock):
    return rng.choice([0, 0, 1, 2, 3, clock - 1, clock, clock, clock + 1, clock + 2, -1, -3])


def entry(rng, clock, narrow):
    s, k = pick_key(rng, narrow)
    return s, k, "%s:%s:%d:%d:%s" % (s, hx(k), a_time(rng, clock), a_time(rng, clock), hx(rbytes(rng, rng.choice([0, 0, 1, 3]))))


def set_clock(rng, ops, clock):
    clock = max(0, clock + rng.choice([1, 1, 2, 3, 0, -1]))
    if rng.randrange(5) == 0:
        ops.append("clock %d %d" % (clock, rng.choice([1, 1, 2])))
    else:
        ops.append("clock %d" % clock)
    return clock


def mk(rng, ops, name, clock, narrow):
    seen, es = set(), []
    for _ in range(rng.choice([1, 1, 2, 3, 5])):
        s, k, e = entry(rng, clock, narrow)
        if (s, k) not in seen:
            seen.add((s, k))
            es.append(e)
    ops.append("mk %s %s" % (name, " ".join(es)))


def local(rng, ops, narrow):
    s, k = pick_key(rng, narrow)
    if rng.randrange(3):
        ops.append("ladd %s %s %s" % (s, hx(k), hx(rbytes(rng, rng.choice([0, 1])))))
    else:
        ops.append("ldel %s %s" % (s, hx(k)))


def session_a(rng, ops):
    """delta exactness"""
    ops.append("reset %s" % rng.choice(["v", "d"]))
    narrow = rng.randrange(3) > 0
    clock = rng.choice([1, 2, 4])
    ops.append("clock %d" % clock)
    n = 0
    for _ in range(rng.choice([2, 4, 8, 14])):
        r = rng.randrange(10)
        if r < 2:
            clock = set_clock(rng, ops, clock)
        elif r < 4:
            local(rng, ops, narrow)
        else:
            n += 1
            m, d = "m%d" % n, "d%d" % n
            mk(rng, ops, m, clock, narrow)
            how = rng.randrange(6)
            if how == 0:
                ops.append("merge %s obj" % m)
                ops.append("peek %s" % m)               # the object itself is now the delta
            elif how == 1:
                ops.append("merge %s enc" % m)
            elif how in (2, 3):
                ops.append("ongossip %s %s" % (d, m))
                ops.append("peek %s" % d)
            else:
                ops.append("onbcast %s %d %s" % (d, rng.choice([2, 2, 3, 1]), m))
                ops.append("peek %s" % d)
            k = rng.randrange(4)
            if k == 0:                                   # the same payload again: nothing is new any more
                ops.append("merge %s enc" % m)
            elif k == 1 and how in (2, 3, 4, 5):         # the delta that was relayed comes back
                ops.append("ongossip e%d %s" % (n, d))
            if rng.randrange(3) == 0:
                ops.append("state")
    ops.append("state")


def session_b(rng, ops):
    """queued payloads"""
    ops.append("reset %s" % rng.choice(["v", "d", "d"]))
    narrow = rng.randrange(4) > 0
    clock = rng.choice([1, 3, 5])
    ops.append("clock %d" % clock)
    links = ["L1", "L2", "L3"][:rng.choice([1, 2, 2, 3])]
    srcs = [1, 2, 3][:rng.choice([1, 2, 3])]
    objs = []
    n = [0]

    def produce():
        n[0] += 1
        r = rng.randrange(10)
        o = "o%d" % n[0]
        if r < 5:
            s, k = pick_key(rng, narrow)
            ops.append("notify %s %s %s %s %s" % (o, s, hx(k), hx(rbytes(rng, rng.choice([0, 1]))), rng.choice(["on", "on", "off"])))
        elif r < 8:
            mk(rng, ops, "m%d" % n[0], clock, narrow)
            if rng.randrange(2):
                ops.append("ongossip %s m%d" % (o, n[0]))
            else:
                ops.append("onbcast %s %d m%d" % (o, rng.choice([2, 3, 1]), n[0]))
        else:
            ops.append("gossip %s" % o)
        objs.append(o)

    for _ in range(rng.choice([1, 2, 3])):
        produce()
    for _ in range(rng.choice([3, 6, 10, 16])):
        r = rng.randrange(20)
        if r < 3:
            produce()
        elif r < 4:
            clock = set_clock(rng, ops, clock)
        elif r < 8:
            ops.append("send %s %s" % (rng.choice(links), rng.choice(objs)))
        elif r < 13:
            o = rng.choice(objs)
            src = rng.choice(srcs)
            for l in (links if rng.randrange(2) else [rng.choice(links)]):   # relayBroadcast: the same object to every link
                ops.append("bcast %s %d %s" % (l, src, o))
        elif r < 15:
            ops.append("pick %s" % rng.choice(links))
        elif r < 16:
            ops.append("drain %s" % rng.choice(links))
        elif r < 18:
            ops.append("peek %s" % rng.choice(objs))
        elif r < 19:
            local(rng, ops, narrow)                       # the live state changes while it may be queued
        else:
            o = rng.choice(objs)                          # the same payload twice in a row
            l = rng.choice(links)
            ops.append("send %s %s" % (l, o))
            ops.append("send %s %s" % (l, o))
    for l in links:
        ops.append("drain %s" % l)
    for o in objs:
        ops.append("peek %s" % o)
    ops.append("state")


def session_odd(rng, ops):
    """the malformed stream: undefined names, nil results queued, empty payloads, picks on idle links, own broadcasts"""
    ops.append("reset %s" % rng.choice(["v", "d"]))
    ops.append("clock %d" % rng.choice([0, 1, 2]))
    ops.append("mk m0")
    ops.append("ongossip n0 m0")          # nothing new: nil
    ops.append("send L1 n0")
    ops.append("bcast L1 2 n0")
    ops.append("pick L1")
    ops.append("peek zz")
    ops.append("send L1 zz")
    ops.append("merge zz enc")
    ops.append("ongossip q zz")
    ops.append("send L1 m0")
    ops.append("notify o1 ban %s - %s" % (hx(rng.choice(BANKEYS)), rng.choice(["on", "off"])))
    ops.append("onbcast n1 1 o1")         # our own broadcast comes back
    ops.append("peek n1")
    ops.append("merge o1 obj")
    ops.append("bcast L2 3 o1")
    ops.append("drain L2")
    ops.append("drain L2")
    ops.append("peek o1")
    ops.append("state")


def gen(rng, tier):
    ops = []
    for s in range(budget(tier, 1500, 30000)):
        r = rng.randrange(20)
        if r < 8:
            session_a(rng, ops)
        elif r < 19:
            session_b(rng, ops)
        else:
            session_odd(rng, ops)
    return ops
