import random

def hx(b):
    return b.hex() if len(b) else "-"

def rbytes(rng, n):
    return bytes(rng.getrandbits(8) for _ in range(n))

def boundary_bytes(rng, n):
    """random bytes biased to boundary patterns"""
    k = rng.randrange(8)
    if k == 0:
        return bytes(n)
    if k == 1:
        return b"\xff" * n
    if k == 2:
        b = bytearray(n); b[rng.randrange(n)] = 1 << rng.randrange(8); return bytes(b)
    if k == 3:
        b = bytearray(b"\xff" * n); b[rng.randrange(n)] ^= 1 << rng.randrange(8); return bytes(b)
    return rbytes(rng, n)

def budget(tier, quick, thorough):
    """number of cases for a tier; "deep" = a quick run on a tree whose source differs from the pinned one"""
    if tier == "deep":
        return max(quick, min(thorough, quick * 3))
    return thorough if tier == "thorough" else quick
