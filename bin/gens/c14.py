"""C14 — banning a key takes effect immediately and survives restarts."""
from .common import hx, rbytes, budget
from .brokergen import *

HARNESS = "broker"
CONST_GROUPS = ["security", "message", "cipher", "license"]
RULE = ("one case = one broker session: keyban requests (ban / unban, by a master key, by a non-master key, for a key of a foreign "
        "contract) with a use of the key (subscribe / publish) between every pair of toggles, rapid toggling, restarts of the "
        "broker service on the same state directory after any prefix, and a second broker that merges the first one's "
        "replicated state after having / not having looked the key up before. non-trivial = distinct (op, answer)")
TRUSTED = ["buntdb file persistence across Service.Close / NewService in one process (a SIGKILL of the whole process is C15-style and not re-enacted here)",
           "the durable set's read cache and LWW times are proved coherent in C04 (durable_has); here the ban set is the set of currently active entries"]
ASSUMPTIONS = ["the wall clock (nanoseconds) increases between consecutive ban operations of one broker"]
CLAIM = {
    "text": "Lean 4 theorems: with the cache eviction of the D6 repair the durable set answers Has from the stored value after every sequence of add / del / merge / has (cache_coherent, C04), so on the broker model every use after an acknowledged ban is refused and every use after an acknowledged unban is decided by the key alone, for any toggle sequence (ban_immediate); the ban set survives a restart of the service (ban_restart) and a merge into another broker whether or not it looked the key up (ban_remote). Tied to /repo by the differential broker run with restarts and a second broker.",
    "note": "Trusted: Lean kernel; harness; buntdb persistence within one process; increasing clock.",
    "technique": "Lean 4 proof (cache coherence invariant + ban-set refinement) + differential correspondence check with restarts and a second broker",
}


def nontrivial(r):
    return r["I"] not in ("-", "ok", "")


def case_key(r):
    return r["op"].split(" ", 2)[0] + "|" + r["I"]


def session(rng):
    s = Session(rng, mode="emitter")
    spec = s.ops[0].split(" ")[2]
    s.key("KM", 1)                                  # master key
    s.key("KA", R | W)
    s.key("KB", R | W, b"a/#/")
    s.key("KF", R | W, contract=CONTRACT ^ 5)       # foreign contract: cannot be banned by KM
    s.key("KMF", 1, contract=CONTRACT ^ 5)          # foreign master
    s.conn("c1")
    s.conn("c2")
    remote = False
    use_n = 0

    def use():
        nonlocal use_n
        use_n += 1
        k = rng.choice(["KA", "KA", "KB"])
        c = rng.choice(s.clients)
        if rng.randrange(2):
            s.pub(c, k, b"a/b/", b"u%d" % use_n)
        else:
            s.sub(c, k, b"a/" + rng.choice(WORDS) + b"/")
        if remote and rng.randrange(2):
            s.ops.append("remote-use %s %s %d" % (k, hx(b"/a/b/"), rng.choice([R, W])))

    for _ in range(rng.choice([6, 12, 25])):
        r = rng.randrange(12)
        c = rng.choice(s.clients)
        if r < 5:
            secret = rng.choice(["KM", "KM", "KM", "KA", "KMF"])
            target = rng.choice(["KA", "KA", "KB", "KF"])
            s.ops.append("keyban %s %d %s %s %d" % (c, s.nextmid(), secret, target, rng.randrange(2)))
            use()
        elif r < 8:
            use()
        elif r == 8:
            s.ops.append("restart")
            s.clients = []
            s.conn("c1")
            s.conn("c2")
            use()
        elif r == 9:
            if not remote:
                s.ops.append("remote-new %s %d %d" % (spec, CONTRACT, SIGN))
                remote = True
            if rng.randrange(3) == 0:
                # a ban merged at the second broker and NOT looked up there, then further gossip of about the same
                # size (another key toggled) merged, only then the banned key is used there
                s.ops.append("keyban %s %d KM KA 1" % (c, s.nextmid()))
                s.ops.append("keyban %s %d KM KB 1" % (c, s.nextmid()))
                s.ops.append("remote-merge")
                for _ in range(rng.choice([1, 2])):
                    s.ops.append("keyban %s %d KM KB %d" % (c, s.nextmid(), rng.randrange(2)))
                    s.ops.append("remote-merge")
            elif rng.randrange(2):
                s.ops.append("remote-use KA %s %d" % (hx(b"/a/b/"), W))      # look the key up before the merge
            s.ops.append("remote-merge")
            s.ops.append("remote-use KA %s %d" % (hx(b"/a/b/"), W))
            s.ops.append("remote-use KB %s %d" % (hx(b"/a/b/"), R))
        elif r == 10:
            # rapid toggling without uses in between
            for _ in range(rng.choice([2, 3, 5])):
                s.ops.append("keyban %s %d KM KA %d" % (c, s.nextmid(), rng.randrange(2)))
            use()
        else:
            s.dump()
    use()
    return s.ops


def gen(rng, tier):
    ops = []
    for _ in range(budget(tier, 30, 800)):
        ops += session(rng)
    return ops
