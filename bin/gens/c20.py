"""C20 — licenses and key ciphers round-trip: generator of operation lines."""
import base64
from .common import hx, rbytes, boundary_bytes, budget

HARNESS = "c20"
CONST_GROUPS = ["cipher", "license"]
RULE = ("one case = one operation line (cipher spec, key bytes / candidate string / license string); keys are random "
        "and boundary 24-byte values under fresh random cipher keys of all three kinds; candidate strings are valid "
        "ciphertexts mutated in length and alphabet; license strings are generated, truncated and bit-flipped. "
        "non-trivial = the implementation's answer is not a plain 'err' / 'nopanic' and the line is distinct")
TRUSTED = ["x/crypto/salsa20/salsa transcribed as Emitter.Cipher.hsalsa20/salsaBlock (theorems quantify over every keystream)",
           "encoding/base64 RawURLEncoding transcribed as b64Encode/stdDecode",
           "snappy + kelindar/binary body codec of v2/v3 licenses: not modelled; exercised by licrt/licmut on the implementation only"]
ASSUMPTIONS = ["v2/v3 license bodies go through snappy + kelindar/binary, which the model treats as an external codec"]
URLSAFE = b"ABCDEFGHIJKLMNOPQRSTUVWXYZabcdefghijklmnopqrstuvwxyz0123456789-_"


def nontrivial(r):
    return r["I"] not in ("err", "nopanic", "same", "")


def cipher_spec(rng):
    k = rng.randrange(3)
    if k == 0:
        return "x:" + hx(boundary_bytes(rng, 16))
    if k == 1:
        return "s:%s:%s" % (hx(boundary_bytes(rng, 32)), hx(boundary_bytes(rng, 24)))
    return "h:%s:%s" % (hx(boundary_bytes(rng, 32)), hx(boundary_bytes(rng, 16)))


def cand_string(rng):
    """candidate key string: mostly 32 url-safe chars, sometimes wrong length / alphabet"""
    n = 32
    r = rng.randrange(10)
    if r == 0:
        n = rng.choice([0, 1, 2, 3, 30, 31, 33, 34, 43, 44, 64])
    s = bytearray(rng.choice(URLSAFE) for _ in range(n))
    if r in (1, 2) and n:
        s[rng.randrange(n)] = rng.choice(b"+/=. \n\r\x00\xff~@[`{")
    if r == 3 and n:
        s[rng.randrange(n)] = rng.randrange(256)
    if r == 4 and n:
        s[rng.randrange(n)] = rng.choice([0x00, 0xFF, 0x7F, 0x80, 0x40, 0x5B, 0x60, 0x7B, 0x2F, 0x3A, 0x2C, 0x2E])
    return bytes(s)


def gen(rng, tier):
    n = budget(tier, 1500, 120000)
    ops = []
    specs = [cipher_spec(rng) for _ in range(max(6, n // 100))]
    for i in range(n):
        c = rng.choice(specs)
        ops.append("rt %s %s" % (c, hx(boundary_bytes(rng, 24))))
        ops.append("dec %s %s" % (c, hx(cand_string(rng))))
        if i % 3 == 0:
            ops.append("b64 %s" % hx(boundary_bytes(rng, 24)))
    # licenses
    m = budget(tier, 300, 20000)
    for i in range(m):
        key = boundary_bytes(rng, 16)
        user, sign = rng.getrandbits(32), rng.getrandbits(32)
        if rng.randrange(4) == 0:
            user = rng.choice([0, 1, 0xFFFFFFFF, 0x80000000])
        ops.append("licstr1 %s %d %d" % (hx(key), user, sign))
        idx = rng.choice([1, 1, 0, 2, 54, 55, 118, 119, 127, 128, 300, 16383, 16384, rng.getrandbits(14), rng.getrandbits(32)])
        ops.append("licrt %d %d %d %d" % (1 + i % 3, rng.choice([user, rng.getrandbits(7), rng.getrandbits(14), rng.getrandbits(21)]),
                                          rng.choice([sign, rng.getrandbits(7), rng.getrandbits(14), rng.getrandbits(21)]), idx))
        # v1-style strings of every length (D13: short bodies), with and without the ":1" suffix
        ln = rng.choice([0, 1, 3, 4, 5, 8, 16, 23, 24, 27, 28, 31, 32, 33, 40])
        body = base64.urlsafe_b64encode(rbytes(rng, ln)).rstrip(b"=")
        if rng.randrange(5) == 0 and body:
            b = bytearray(body); b[rng.randrange(len(b))] = rng.choice(b"+/=!\n\r "); body = bytes(b)
        suf = rng.choice([b":1", b"", b":1", b":9", b":"])
        ops.append("lic1 %s" % hx(body + suf))
        # v2/v3: arbitrary bodies behind a valid suffix must not panic
        raw = rbytes(rng, rng.choice([0, 1, 2, 5, 9, 12, 40, 70]))
        if rng.randrange(3) == 0:
            raw = bytes([len(raw) & 0x7f]) + raw     # plausible snappy length prefix
        if rng.randrange(4) == 0:
            # snappy literal holding a kelindar/binary body that announces a huge slice
            inner = bytes([0x80] * 8 + [0x40])
            raw = bytes([len(inner), (len(inner) - 1) << 2]) + inner
        ops.append("licmut %s" % hx(base64.urlsafe_b64encode(raw).rstrip(b"=") + rng.choice([b":2", b":3"])))
    return ops
STATELESS = True
CLAIM = {
    "text": "Lean 4 theorems over the executable model of the three key ciphers, the in-place base64 decoder and the v1 license layout: decrypt∘encrypt = id for every 24-byte key and every XTEA key / every keystream, injectivity, rejection of every string that is not 32 alphabet characters, v1 String/Parse round-trip, Parse total. Tied to /repo by regenerated constants (alphabet, XTEA rounds/delta/sum, time offset) and a differential run of cipher.* / license.* against the compiled model.",
    "note": "Trusted: Lean kernel; correspondence harness and generators; x/crypto salsa20 and encoding/base64 as transcribed; snappy + kelindar/binary (v2/v3 license body) not modelled, exercised on the implementation only.",
    "technique": "Lean 4 proof (round-trip/injectivity theorems by induction and bit-vector reasoning) + differential correspondence check model vs. real Go code",
}
