"""C09 — hostile or malformed input cannot take the broker down: generator of byte strings for the
client port, the gossip / frame decoders and the swarm callbacks, and of attack scripts for the
child broker."""
import json
import struct
from .common import hx, rbytes, budget

HARNESS = "c09"
CONST_GROUPS = ["mqtt", "facts"]
STATELESS = True
TIMEOUT = 3000
RULE = ("one case = one operation line. pubenc <topic> <payload> <qos>: Publish.EncodeTo on every body size around the 64 KiB pooled buffer and its header room (never a panic). In-process (real code under recover, a watchdog kills an operation that does not "
        "answer or allocates without bound): chan <topic> (ParseChannel over an option-token grammar: well-formed, dangling, "
        "empty, illegal tokens in every sequence up to three), mqtt <max> <bytes> (DecodePacket), frame / "
        "state <inner> (DecodeFrame / DecodeState below snappy), gossip / bcast / unicast <inner> and rawgossip / rawunicast "
        "<bytes> (the three swarm callbacks of a complete in-process broker, fresh replicated state), survey <limit> (history "
        "survey from a peer), lookup <limit> (SSD.lookup, capacity of the result buffer). Byte strings: valid sessions / states "
        "/ frames, each truncated (quick: sampled offsets, thorough: every offset), with inflated length and count fields "
        "(127/128, buffer/3 boundary, 1e5, 1e6, 2^50, 2^63-1, 2^63, 2^64-1), single-byte mutations, random bytes; values and "
        "keys shorter than their fixed part; short message ids; survey channels without '/'. attack <kind> …: the same "
        "families, plus huge option values (?last=, ttl, from/until), hostile JSON requests and sizes that must never be tried "
        "in-process (frame count 1e9, snappy preamble 4 GiB, ?last=1e8, survey limit 1e8), against a child broker with "
        "GOMEMLIMIT and RLIMIT_AS, a canary client's publish/receive round trip after every attack. "
        "non-trivial = distinct line whose implementation answer is not 'err'")
TRUSTED = ["snappy block decoding (golang/snappy) is a parameter of the model: only its preamble (announced length) is transcribed",
           "kelindar/binary's reflection plumbing (struct/map/slice dispatch) is exercised; its sliceReader, uvarint, Slice and the "
           "codecs of map[uint8]Volatile, Frame and Message are transcribed",
           "the storage handler's decoding of a survey query (binary.Unmarshal into lookupQuery) and encoding/json are not modelled; "
           "they run under the recovers whose presence is a regenerated fact",
           "shape facts (Process defers Close, Close calls recover, the three swarm callbacks defer a recovering function) are "
           "extracted syntactically by harness/gofacts (go/ast)"]
ASSUMPTIONS = ["Go's recover semantics: a deferred function that calls recover() directly stops the panic of its goroutine",
               "real heap exhaustion, goroutine starvation and kernel buffers are observed by the canary run only (child process with "
               "GOMEMLIMIT=1GiB and RLIMIT_AS=3GiB), not proved",
               "peer objects created for unknown peer names in gossip (one 5 ms timer goroutine each) are outside the model"]
CLAIM = {
    "text": "Lean 4 theorems over the executable model of everything that parses attacker-controlled bytes: DecodePacket allocates at "
            "most the configured limit and refuses larger packets; every panic under Conn.Process ends only that connection and leaves "
            "all others untouched (for every history of outcomes); no payload makes OnGossip / OnGossipBroadcast / OnGossipUnicast "
            "fatal, their input-sized allocations are linear in the payload, and after value-length validation the merge cannot panic "
            "at all; the history lookup's buffer is bounded by 64 entries and its reply by the message size whatever the limit. Tied to "
            "/repo by regenerated constants and shape facts (go/ast) and by a differential run of the real decoders, swarm callbacks "
            "and lookup against the compiled model, plus attacks on a memory-capped child broker with a canary client.",
    "note": "Trusted: Lean kernel; harness; snappy block decoder; Go recover semantics; resource exhaustion beyond the modelled allocations is observed, not proved.",
    "technique": "Lean 4 proof (totality, containment and allocation bounds by induction) + differential correspondence check model vs. real Go code + child-process attack run with canary",
}


def nontrivial(r):
    return r["I"] not in ("err", "")


# ----------------------------------------------------------------------------- encoders

def uv(n):
    out = bytearray()
    while True:
        if n < 128:
            out.append(n)
            return bytes(out)
        out.append(n % 128 + 128)
        n //= 128
        if len(out) >= 12:
            return bytes(out)


HUGE = [127, 128, 100000, 1000000, 2 ** 50, 2 ** 63 - 1, 2 ** 63 - 9, 2 ** 63, 2 ** 64 - 1]


def mstr(b):
    return struct.pack(">H", len(b) & 0xFFFF) + b


def mlen(n):
    out = bytearray()
    while True:
        d = n % 128
        n //= 128
        if n > 0:
            out.append(d | 0x80)
        else:
            out.append(d)
            return bytes(out)


def mpkt(first, body, length=None):
    return bytes([first]) + mlen(len(body) if length is None else length) + body


def m_connect(cid=b"c1", will=None, user=None):
    flags = 0x02
    body = mstr(b"MQTT") + bytes([4])
    tail = mstr(cid)
    if will:
        flags |= 0x04 | (1 << 3)
        tail += mstr(will[0]) + mstr(will[1])
    if user:
        flags |= 0x80
        tail += mstr(user)
    return mpkt(0x10, body + bytes([flags]) + struct.pack(">H", 30) + tail)


def m_publish(topic, payload, qos=0, mid=1):
    body = mstr(topic) + (struct.pack(">H", mid) if qos else b"") + payload
    return mpkt(0x30 | (qos << 1), body)


def m_subscribe(mid, topics):
    body = struct.pack(">H", mid) + b"".join(mstr(t) + b"\x00" for t in topics)
    return mpkt(0x82, body)


def m_unsubscribe(mid, topics):
    return mpkt(0xA2, struct.pack(">H", mid) + b"".join(mstr(t) for t in topics))


KEY = b"xm54Sj0srWlSEctra-yU6ZA6Z2e6pp7c"


def sessions(rng):
    k = KEY
    return [
        m_connect() + m_subscribe(1, [k + b"/a/b/"]) + m_publish(k + b"/a/b/", b"hello") + b"\xc0\x00" + b"\xe0\x00",
        m_connect(b"c2", will=(k + b"/w/", b"bye"), user=b"u") + m_publish(k + b"/a/", b"x" * 200, qos=1, mid=7) + m_unsubscribe(2, [k + b"/a/b/"]),
        m_connect(b"") + m_subscribe(3, [k + b"/a/?last=5", k + b"/+/b/", b"emitter/keygen/"]) + m_publish(b"emitter/me/", b"{}", qos=1, mid=9),
        m_publish(b"emitter/link/", json.dumps({"name": "ab", "key": k.decode(), "channel": "a/", "subscribe": True}).encode(), qos=1, mid=2),
        b"\x20\x02\x00\x00" + b"\x40\x02\x00\x01" + b"\x50\x02\x00\x01" + b"\x62\x02\x00\x01" + b"\x70\x02\x00\x01" + b"\x90\x03\x00\x01\x00" + b"\xb0\x02\x00\x01" + b"\xd0\x00",
    ]


def mutate(rng, b):
    b = bytearray(b)
    if not b:
        return bytes(b)
    for _ in range(rng.choice([1, 1, 2, 4])):
        i = rng.randrange(len(b))
        k = rng.randrange(5)
        if k == 0:
            b[i] ^= 1 << rng.randrange(8)
        elif k == 1:
            b[i] = rng.choice([0, 1, 0x7f, 0x80, 0xff])
        elif k == 2:
            del b[i]
        elif k == 3:
            b.insert(i, rng.choice([0, 0x80, 0xff, rng.getrandbits(8)]))
        else:
            b[i] = rng.getrandbits(8)
        if not b:
            break
    return bytes(b)


def cuts(rng, b, tier, quick_n):
    if tier == "thorough" or len(b) <= quick_n:
        return list(range(len(b) + 1))
    return sorted(set([0, 1, 2, len(b) - 1, len(b)] + [rng.randrange(len(b)) for _ in range(quick_n)]))


# ----------------------------------------------------------------------------- replicated state

def subkey(peer, conn, ssid):
    return struct.pack(">QQ", peer, conn) + b"".join(struct.pack(">I", w) for w in ssid)


def value(add, dele, payload=b""):
    return struct.pack(">qq", add, dele) + payload


def subpayload(user=b"", channel=b"a/"):
    return uv(len(user)) + user + uv(len(channel)) + channel


def entry(k, v, klen=None, vlen=None):
    return uv(len(k) if klen is None else klen) + k + uv(len(v) if vlen is None else vlen) + v


def vset(entries, count=None):
    return uv(len(entries) if count is None else count) + b"".join(entries)


def state(sets, count=None):
    return uv(len(sets) if count is None else count) + b"".join(uv(t) + s for t, s in sets)


TIMES = [0, 1, 5, -1, -5, 2 ** 62, -2 ** 63, 2 ** 63 - 1]


def rand_entry(rng, typ):
    a, d = rng.choice(TIMES), rng.choice(TIMES)
    r = rng.randrange(12)
    if typ == 0:
        k = subkey(rng.choice([1, 2, 3]), rng.randrange(4), [rng.choice([7, 9]), rng.getrandbits(32)][:rng.choice([0, 1, 2, 2])])
        if r == 0:
            k = k[:rng.choice([0, 1, 7, 8, 12, 15])]           # key shorter than peer + connection
        pl = subpayload(b"u" * rng.choice([0, 3]), b"a/b/")
        if r == 1:
            pl = rng.choice([b"", b"\x05ab", uv(2 ** 63) + b"x", uv(2 ** 63 - 3) + b"x", b"\xff", b"\x00" + uv(2 ** 64 - 1)])
    elif typ == 1:
        k = rbytes(rng, rng.choice([0, 1, 32]))
        pl = b""
    else:
        k = struct.pack(">QQ", rng.choice([1, 2, 3]), rng.randrange(4))[:16 if r else rng.choice([0, 8, 15])]
        pl = rng.choice([b"", b"\x00\x00\x00\x00\x00\x00\x00", b"\x01", rbytes(rng, 5)])
    v = value(a, d, pl)
    if r == 2:
        v = v[:rng.choice([0, 1, 8, 15])]                       # value shorter than the two times
    return k, v


def rand_state(rng):
    sets = []
    for _ in range(rng.choice([0, 1, 1, 2, 3, 4])):
        typ = rng.choice([0, 0, 0, 1, 2, 2, 3, 255, 256, 258])
        es = []
        last = None
        for _ in range(rng.choice([0, 1, 1, 2, 3, 6])):
            k, v = rand_entry(rng, typ % 256 if typ % 256 < 3 else 0)
            if last and rng.randrange(6) == 0:
                k = last                                         # duplicate key inside one set
            last = k
            es.append(entry(k, v))
        sets.append((typ, vset(es)))
    return state(sets)


def inflated_states(rng):
    k, v = subkey(2, 1, [7, 9]), value(5, 0, subpayload())
    out = []
    for h in HUGE:
        out.append(state([(0, vset([entry(k, v)]))], count=h))                 # announced number of sets
        out.append(state([(0, vset([entry(k, v)], count=h))]))                 # announced number of entries
        out.append(state([(0, vset([entry(k, v, klen=h)]))]))                  # key length
        out.append(state([(0, vset([entry(k, v, vlen=h)]))]))                  # value length
        out.append(state([(h, vset([entry(k, v)]))]))                          # type code
    out.append(b"\x80" * 11)
    out.append(b"\xff" * 9 + b"\x02")
    out.append(b"")
    return out


# ----------------------------------------------------------------------------- frames

QUERY = 3939663052


def mid(ssid, t=1600000000):
    return struct.pack(">IIII", ssid[0] ^ ssid[1] if len(ssid) > 1 else 0, 0xFFFFFFFF - (t - 1514764800), 0xFFFFFFF0, 77) + b"".join(struct.pack(">I", w) for w in ssid)


def fmsg(i, ch, pl, ttl=0, ilen=None, clen=None, plen=None, nottl=False):
    return (uv(len(i) if ilen is None else ilen) + i + uv(len(ch) if clen is None else clen) + ch +
            uv(len(pl) if plen is None else plen) + pl + (b"" if nottl else uv(ttl)))


def frame(msgs, count=None):
    return uv(len(msgs) if count is None else count) + b"".join(msgs)


SAFE_CHANNELS = [b"response", b"noslash", b"x/abc", b"a/1", b"a/2", b"", b"/", b"q/", b"ssdstor/2", b"a/b/"]


def rand_msg(rng):
    r = rng.randrange(10)
    if r < 4:
        i = mid([rng.choice([7, 9]), rng.getrandbits(32)] + [rng.getrandbits(32)] * rng.choice([0, 1, 2]))
    elif r < 7:
        i = mid([0, QUERY] + [rng.getrandbits(32)] * rng.choice([0, 1, 1, 1, 2]))
    else:
        i = rbytes(rng, rng.choice([0, 1, 3, 11, 12, 13, 15, 16, 17, 19, 20, 23, 28]))
    ch = rng.choice(SAFE_CHANNELS)
    pl = rbytes(rng, rng.choice([0, 0, 1, 3, 8]))
    return fmsg(i, ch, pl, rng.choice([0, 1, 300, 2 ** 32 - 1, 2 ** 40]), nottl=rng.randrange(12) == 0)


def rand_frame(rng):
    return frame([rand_msg(rng) for _ in range(rng.choice([0, 1, 1, 2, 3, 5]))])


def inflated_frames(rng):
    i, ch, pl = mid([7, 9]), b"a/", b"xyz"
    one = fmsg(i, ch, pl)
    out = []
    for h in HUGE:
        out.append(frame([one], count=h))
        out.append(frame([fmsg(i, ch, pl, ilen=h)]))
        out.append(frame([fmsg(i, ch, pl, clen=h)]))
        out.append(frame([fmsg(i, ch, pl, plen=h)]))
        out.append(frame([fmsg(i, ch, pl, ttl=h)]))
    n = len(one) + 1
    for c in [n // 3 - 1, n // 3, n // 3 + 1, n, n + 1]:          # the buffer/3 boundary of the count check
        out.append(frame([one], count=max(c, 0)))
    out.append(frame([fmsg(i, ch, pl, nottl=True)]))                  # zero message, id of length 0
    out.append(frame([one, fmsg(i, ch, pl, nottl=True)], count=2))
    out.append(uv(1) + fmsg(mid([0, QUERY, 5]), b"noslash", b""))
    out.append(uv(1) + fmsg(mid([0, QUERY, 5])[:20], b"response", b""))
    out.append(uv(2) + fmsg(mid([7, 9]), b"a/", b"") + b"\x13" + mid([7, 9])[:19])   # id capacity 19: Contract() slices past it
    return out


def raws(rng):
    """raw payloads (the snappy stage is part of the input)"""
    out = [b"", b"\x00", b"\x01", b"\x00\x00", b"\xff", b"\x80" * 11, rbytes(rng, 3), rbytes(rng, 40)]
    # preambles announcing much more than the block can hold (in-process: at most 48 MiB)
    for n in [33 * 6, 1 << 20, 48 << 20]:
        out.append(uv(n) + b"\x00\x00\x00\x00")
    # literal-only snappy blocks built by hand: preamble, tag, bytes
    for inner in [b"\x00", state([(0, vset([entry(subkey(2, 1, [7, 9]), value(5, 0))]))]), frame([fmsg(mid([7, 9]), b"a/", b"x")])]:
        if len(inner) <= 60:
            out.append(uv(len(inner)) + bytes([(len(inner) - 1) << 2]) + inner)
            out.append(uv(len(inner) + 1) + bytes([(len(inner) - 1) << 2]) + inner)     # announced length is wrong
    return out


# ----------------------------------------------------------------------------- the op list

def announced(b):
    """kelindar uvarint at the head of b (None when malformed)"""
    x, s = 0, 0
    for i, c in enumerate(b[:10]):
        if c < 0x80:
            if i == 9 and c > 1:
                return None
            return x | (c << s)
        x |= (c & 0x7f) << s
        s += 7
    return None


def unsafe_frame(f):
    """a count that would make an unrepaired DecodeFrame try to allocate 80 MB … 80 PB: never run in-process"""
    n = announced(f)
    return n is not None and 1000000 < n < 2 ** 50


OPT_TOKENS = [b"ttl=1", b"last=5", b"me=0", b"from=1600000000", b"until=1600000100", b"x=y", b"a", b"until", b"=v", b"k=", b"",
              b"=", b"k==v", b"k=v=w", b"k=v!", b"k!=v", b"ttl=" + b"9" * 40, b"Z" * 70 + b"=1", b"k=%26", b"k= "]


def channel_strings(rng, tier):
    """topics as ParseChannel sees them: key '/' levels '/' ['?' options]; the option list runs over every sequence of
    1..3 tokens (thorough) / a sample (quick) of well-formed, dangling, empty and illegal tokens, with and without a
    trailing '&', behind exact and wildcard channels"""
    import itertools
    heads = [b"k/a/", b"k/a/b/", b"k/+/b/", b"k/a/#/", b"emitter/a/", b"k/", b"/a/", b"k//", b"k/a", b"k/a/b", b"", b"/", b"k/a+/", b"k/" + b"a/" * 30]
    out = []
    seqs = [seq for n in (1, 2, 3) for seq in itertools.product(range(len(OPT_TOKENS)), repeat=n)]
    if tier != "thorough":
        seqs = [seq for seq in seqs if len(seq) == 1] + rng.sample([q for q in seqs if len(q) == 2], 160) + rng.sample([q for q in seqs if len(q) == 3], 240)
    for seq in seqs:
        opts = b"&".join(OPT_TOKENS[i] for i in seq)
        h = heads[0] if rng.randrange(3) else rng.choice(heads)
        out.append(h + b"?" + opts + (b"&" if rng.randrange(6) == 0 else b""))
    for h in heads:
        out += [h, h + b"?", h + b"?&", h + b"??", h + b"?a=b?c=d"]
    for _ in range(budget(tier, 150, 3000)):
        out.append(mutate(rng, rng.choice(out)))
    return out


def gen(rng, tier):
    ops = []
    add = ops.append
    # ---- channel strings (parsed before any key is looked at)
    for c in channel_strings(rng, tier):
        add("chan " + hx(c))
    # ---- PUBLISH encoder on sizes clients / peers choose: every total around the 64 KiB buffer and its header room
    for q in (0, 1):
        for tl in (0, 1, 7, 17, 300):
            for body in list(range(65520, 65545)) + [0, 1, 127, 128, 16383, 16384, 70000, 200000]:
                pl = body - 2 - tl - (2 if q else 0)
                if pl >= 0 and (tier == "thorough" or rng.randrange(3) == 0 or 65529 <= body <= 65538):
                    add("pubenc %d %d %d" % (tl, pl, q))
    # ---- MQTT decoder
    sess = sessions(rng)
    limits = [65536, 65536, 65536, 0, 1, 10, 100]
    for s in sess:
        add("mqtt 65536 " + hx(s))
        for c in cuts(rng, s, tier, 25):
            add("mqtt %d %s" % (rng.choice(limits), hx(s[:c])))
            if c < len(s):
                add("mqtt 65536 " + hx(s[c:]))                     # resynchronise in the middle of a packet
    for _ in range(budget(tier, 2500, 60000)):
        s = rng.choice(sess)
        k = rng.randrange(4)
        if k == 0:
            b = mutate(rng, s[: rng.randrange(len(s) + 1)])
        elif k == 1:                                               # one packet with a wrong remaining length
            body = rbytes(rng, rng.choice([0, 1, 2, 3, 5, 9, 40]))
            b = mpkt(rng.choice([0x10, 0x20, 0x30, 0x32, 0x3f, 0x40, 0x62, 0x82, 0x90, 0xa2, 0xb0, 0xc0, 0xe0, 0x00, 0xf0]), body,
                     length=rng.choice([None, 0, 1, len(body) + 1, 127, 128, 16384, 65536, 65537, 2 ** 28 - 1, 2 ** 32 + 5]))
        elif k == 2:                                               # inflated string length inside a valid frame
            t = rbytes(rng, rng.choice([0, 1, 4]))
            body = struct.pack(">H", rng.choice([0, 1, len(t), len(t) + 1, 65535])) + t + rbytes(rng, rng.choice([0, 1, 2]))
            b = mpkt(rng.choice([0x10, 0x30, 0x32, 0x82, 0xa2]), body)
        else:
            b = rbytes(rng, rng.choice([1, 2, 3, 5, 8, 20]))
        add("mqtt %d %s" % (rng.choice(limits), hx(b)))
    add("mqtt 65536 " + hx(b"\x30" + b"\x80" * 40 + b"\x00"))     # unbounded run of length digits
    add("mqtt 65536 " + hx(b"\x30\xff\xff\x03"))                   # announces 65535 bytes, sends none
    add("mqtt 65535 " + hx(b"\x30\x80\x80\x04"))                   # announces 65536 > limit
    # ---- state / gossip
    corpus = [rand_state(rng) for _ in range(budget(tier, 60, 1500))] + inflated_states(rng)
    for s in corpus:
        add("state " + hx(s))
        add("%s %s" % (rng.choice(["gossip", "bcast"]), hx(s)))
    for s in corpus[: budget(tier, 12, 100)]:
        for c in cuts(rng, s, tier, 12):
            add("state " + hx(s[:c]))
            add("%s %s" % (rng.choice(["gossip", "bcast"]), hx(s[:c])))
    for _ in range(budget(tier, 600, 15000)):
        s = mutate(rng, rng.choice(corpus))
        add("state " + hx(s))
        add("%s %s" % (rng.choice(["gossip", "bcast"]), hx(s)))
    # ---- frames / unicast
    fcorpus = [rand_frame(rng) for _ in range(budget(tier, 60, 1500))] + inflated_frames(rng)
    rerouted = []

    def addframe(f):
        if b"ssdstore" in f:
            return
        if unsafe_frame(f):
            if len(rerouted) < budget(tier, 4, 40):
                rerouted.append("attack unicast " + hx(f))      # only the child process may try these
            return
        add("frame " + hx(f))
        add("unicast " + hx(f))

    for f in fcorpus:
        addframe(f)
    for f in fcorpus[: budget(tier, 12, 100)]:
        for c in cuts(rng, f, tier, 12):
            addframe(f[:c])
    for _ in range(budget(tier, 600, 15000)):
        addframe(mutate(rng, rng.choice(fcorpus)))
    for r in raws(rng):
        add("rawgossip " + hx(r))
        add("rawunicast " + hx(r))
    # ---- history lookup, locally and on behalf of a peer
    for lim in [0, 1, 5, 9, 10, 11, 63, 64, 65, 100, 1000, 200000, -1, -5, -2 ** 31]:
        add("lookup %d" % lim)
    for lim in [5, 0, 64, 65, 200000, -1]:
        add("survey %d" % lim)
    # ---- attacks on the child broker
    ops += attacks(rng, tier, sess, corpus, fcorpus)
    ops += rerouted
    return ops


def attacks(rng, tier, sess, corpus, fcorpus):
    ops = []
    add = ops.append
    n = budget(tier, 1, 6)
    k = KEY
    for _ in range(n):
        # client port: garbage, truncated sessions, packets that make the decoder panic, oversize
        add("attack client " + hx(rbytes(rng, 64)))
        add("attack client " + hx(b"\x30\x01\x00"))                                    # PUBLISH body too short: decoder panics
        add("attack client " + hx(b"\x82\x00"))                                        # SUBSCRIBE without message id
        add("attack client " + hx(b"\x10\x04\x00\x04MQ"))                              # truncated CONNECT
        add("attack client " + hx(b"\x30\xff\xff\x03" + b"a" * 100))                   # announces 64 KiB, stalls
        add("attack client " + hx(b"\x30\xff\xff\xff\x7f"))                            # announces 256 MiB
        add("attack client " + hx(b"\x30" + b"\xff" * 300))                            # endless length digits
        s = rng.choice(sess)
        add("attack client " + hx(s[: rng.randrange(1, len(s))]))
        add("attack client " + hx(mutate(rng, s)))
        add("attack session " + hx(m_subscribe(1, [b"x" * 70, b"", b"/", k + b"/", k + b"//", k + b"/a/?", k + b"/a/?a", k + b"/a/?=&="])))
        add("attack session " + hx(m_publish(b"", b"x") + m_publish(b"emitter/", b"x") + m_publish(b"emitter/nosuch/", b"{}")))
        add("attack session " + hx(m_publish(k + b"/a/", b"p" * 65000)))
        # option values
        for opt in ["a/?last=100000000", "a/?last=9223372036854775807", "a/?last=99999999999999999999", "a/?last=0",
                    "a/?ttl=4294967296&last=2", "a/?from=1&until=99999999999&last=3", "a/?from=9223372036854775807&until=0",
                    "+/#/?last=1000000", "a/?ttl=1&x", "a/?last=5&until", "a/?a=b&c=&d"]:
            add("attack sub " + opt)
        # JSON requests
        reqs = [
            ("keygen", b'{"key":"$KEY","channel":"a/","type":"rwlsp","ttl":9223372036854775807}'),
            ("keygen", b'{"key":"' + b"A" * 5000 + b'","channel":"' + b"/" * 5000 + b'"}'),
            ("keygen", b"[" * 20000),
            ("keygen", b'{"ttl":1e400}'),
            ("link", b'{"name":"' + b"n" * 3000 + b'","key":"$KEY","channel":"a/","subscribe":true}'),
            ("link", b'{"name":"ab","key":"$KEY","channel":"a/?last=100000000","subscribe":true}'),
            ("presence", b'{"key":"$KEY","channel":"a/","status":true,"changes":true}'),
            ("presence", b'{"key":"$KEY","channel":"#/","status":true}'),
            ("history", b'{"key":"$KEY","channel":"$KEY/a/?last=100000000"}'),
            ("history", b'{"channel":"$KEY/a/?last=5","from":"' + b"9" * 400 + b'"}'),
            ("me", b"\xff\xfe\x00"),
            ("keyban", b'{"secret":"$KEY","target":"$KEY","banned":true}'),
        ]
        for name, body in reqs:
            add("attack request %s %s" % (name, hx(body)))
        # cluster port
        kk, vv = subkey(2, 1, [7, 9]), value(5, 0, subpayload())
        hostile_states = [
            state([(0, vset([entry(kk, vv[:7])]))]),                       # value shorter than the times
            state([(0, vset([entry(kk, vv)], count=2))]),                  # truncated entry list
            state([(0, vset([entry(kk[:5], vv)]))]),                       # short subscription key
            state([(2, vset([entry(kk[:9], value(5, 0, b"\x01"))]))]),     # short connection key
            state([(0, vset([entry(kk, value(5, 0, uv(2 ** 63) + b"x"))]))]),   # subscription payload with a negative length
            state([(0, vset([entry(kk, vv, klen=2 ** 63)]))]),
            state([(1, vset([entry(b"k", b"")]))]),
            rng.choice(corpus), mutate(rng, rng.choice(corpus)),
        ]
        for s in hostile_states:
            add("attack %s %s" % (rng.choice(["gossip", "bcast"]), hx(s)))
        hostile_frames = [
            frame([fmsg(b"\x01\x02\x03", b"x", b"y")]),                    # short message id
            frame([fmsg(mid([0, QUERY, 7]), b"noslash", b"y")]),           # survey channel without '/'
            frame([fmsg(mid([7, 9]), b"a/", b"x", nottl=True)]),           # truncated at the TTL: zero message
            frame([fmsg(mid([7, 9]), b"a/", b"x", plen=2 ** 63)]),
            frame([], count=10 ** 9),                                      # 80 GB of message structs announced by 5 bytes
            frame([], count=2 ** 40),
            frame([fmsg(mid([0, QUERY, 7]), b"x/9", b"y")]),
            rng.choice(fcorpus), mutate(rng, rng.choice(fcorpus)),
        ]
        for f in hostile_frames:
            if b"ssdstore" in f:
                continue
            add("attack unicast " + hx(f))
        add("attack rawgossip " + hx(b"\xff\xff\xff\xff\x0f" + b"\x00" * 8))   # snappy preamble: 4 GiB
        add("attack rawunicast " + hx(b"\xff\xff\xff\xff\x0f" + b"\x00" * 8))
        add("attack rawunicast " + hx(rbytes(rng, 30)))
        for lim in [5, -1, 100000000]:
            add("attack survey %d" % lim)
        # history survey whose query announces 10^9 / 2^40 ssid elements in a 40-byte message (D19)
        for cnt in [10 ** 9, 2 ** 40]:
            add("attack unicast " + hx(frame([fmsg(mid([0, QUERY, 7]), b"ssdstore/2", uv(cnt) + b"\x00" * 8)])))
    return ops
