"""C01 — published messages reach exactly the matching subscribers (subscription trie)."""
from .common import budget

HARNESS = "c01"
CONST_GROUPS = ["message"]
RULE = ("one case = one session on a fresh trie (emitter or mqtt matcher): sub / unsub / look / count / dump over ssids built "
        "from 2 contracts and a 4-word alphabet plus '+', '#' and $share groups, depth <= 5, 1-6 subscribers each owning "
        "several filters, duplicate subscribes, unsubscribes of absent pairs, permuted and repeated levels; every session "
        "ends by removing every subscription and dumping (node count must be 1 again). conc = 8 goroutines on disjoint "
        "pairs with concurrent lookups, compared with the sequential result; nested = a subscriber below a branch that another goroutine keeps creating and pruning must always find itself.  non-trivial = distinct (op, answer) pair")
TRUSTED = ["sync.RWMutex (all trie methods run under the one lock; the theorems are about sequential histories)",
           "the share-group pick (xorshift + map iteration) is a parameter: lookups with share groups are judged by the predicate 'direct receivers plus exactly one member of every matching group'"]
ASSUMPTIONS = ["subscriber identity is the 32-bit murmur of its id (as in the code); two ids with equal hash are a recorded finding"]
CLAIM = {
    "text": "Lean 4 theorems over the executable model of the subscription trie: subscribe/unsubscribe refine insertion/removal on the set of (filter, subscriber) pairs, the counter equals the size of that set, both lookup strategies return exactly the subscribers holding a matching filter (emitter: level-wise prefix with '+'; mqtt: same depth, '+', trailing '#'), share lookups add exactly one member per matching group for every pick function, pruning leaves no empty branch so an empty subscription set means a one-node trie; for every finite history. Tied to /repo by regenerated ssid constants and a differential run of message.Trie (both constructors, dump hook) against the compiled model.",
    "note": "Trusted: Lean kernel; harness; RWMutex; random share pick treated as an arbitrary choice function.",
    "technique": "Lean 4 proof (refinement of the trie to a set of pairs by mutual structural induction) + differential correspondence check model vs. real Go code",
}
WILD, MULTI, SHARE = 1815237614, 4285801373, 1480642916
WORDS = [11, 12, 13, 14]


def nontrivial(r):
    return True


def case_key(r):
    return r["op"] + "|" + r["I"]


def filt(rng, mqtt):
    c = rng.choice([1, 1, 2])
    depth = rng.choice([0, 1, 1, 2, 2, 3, 4])
    p = []
    for _ in range(depth):
        r = rng.randrange(10)
        p.append(WILD if r < 2 else rng.choice(WORDS[:3] if rng.randrange(3) else WORDS))
    if rng.randrange(5) == 0:
        p.append(MULTI)
        if rng.randrange(6) == 0:
            p.append(rng.choice(WORDS))          # '#' in the middle
    if rng.randrange(4) == 0:
        return [c, SHARE, rng.choice([21, 22])] + p
    return [c] + p


def chan(rng):
    c = rng.choice([1, 1, 2])
    p = [rng.choice(WORDS[:3] if rng.randrange(3) else WORDS) for _ in range(rng.choice([0, 1, 2, 2, 3, 4]))]
    if rng.randrange(25) == 0:
        p.append(rng.choice([WILD, MULTI]))
    return [c] + p


def pstr(p):
    return ".".join(map(str, p)) if p else "none"


def gen(rng, tier):
    from .murmur import collision
    ca, cb = collision()
    ops = []
    for s in range(budget(tier, 400, 20000)):
        mqtt = rng.randrange(2) == 1
        ops.append("reset " + ("mqtt" if mqtt else "emitter"))
        nsub = rng.choice([1, 2, 3, 6])
        ids = ["c%d" % i for i in range(nsub)]
        live = []
        for _ in range(rng.choice([4, 10, 25, 60])):
            r = rng.randrange(10)
            if r < 4:
                f = filt(rng, mqtt)
                if live and rng.randrange(4) == 0:
                    f = list(rng.choice(live)[0])          # duplicate / overlapping
                    if rng.randrange(2) and len(f) > 2:
                        rng.shuffle(f[1:])
                i = rng.choice(ids)
                ops.append("sub %s %s" % (pstr(f), i))
                live.append((tuple(f), i))
            elif r < 6:
                if live and rng.randrange(5):
                    f, i = rng.choice(live)
                else:
                    f, i = tuple(filt(rng, mqtt)), rng.choice(ids)   # absent pair
                ops.append("unsub %s %s" % (pstr(f), i))
            elif r < 9:
                ops.append("look " + pstr(chan(rng)))
            else:
                ops.append(rng.choice(["count", "dump"]))
        for f, i in live:
            ops.append("unsub %s %s" % (pstr(f), i))
        ops.append("count")
        ops.append("dump")
    # two subscriber ids with equal murmur hash (recorded finding C01.subid-hash-collision)
    ops += ["reset emitter", "sub 1.11 %s" % ca, "sub 1.11 %s" % cb, "look 1.11", "unsub 1.11 %s" % ca, "look 1.11", "unsub 1.11 %s" % cb, "dump"]
    for i in range(budget(tier, 3, 40)):
        ops.append("reset " + rng.choice(["mqtt", "emitter"]))
        ops.append("conc %d" % rng.getrandbits(20))
        ops.append("concshare %d" % budget(tier, 4000, 100000))
        ops.append("nested %d" % budget(tier, 20000, 300000))
    return ops
