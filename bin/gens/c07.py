"""C07 — messages are retained and replayed exactly as requested."""
from .common import hx, rbytes, budget
from .brokergen import *

HARNESS = "broker"
CONST_GROUPS = ["security", "message", "cipher", "license"]
RULE = ("one case = one broker session: publishes with and without retain flag / ttl option / store permission on nested "
        "channels (ttl values 0, small, 2^32 and 2^32+5), last wills with retain, interleaved with later subscriptions with "
        "and without load permission, every `last` value (0, 1, default, several, huge) and from/until windows before, around and after the session's second; the packets between SUBSCRIBE and "
        "SUBACK are compared (as a multiset: all messages of a session fall into one or two seconds). non-trivial = distinct (op, answer)")
TRUSTED = ["the broker's own publishes on stats/<node>/ (monitoring sink 'self', once a second, into the owner's contract) are not answers to a request and are dropped from the observables",
           "history lookup inside one session: 'the N most recently stored matching messages' (time windows, expiry and paging are C06's subject)",
           "in-memory badger as the store"]
ASSUMPTIONS = ["requests are issued one at a time; messages never expire within a session (ttl >= 100 s or 0)"]
CLAIM = {
    "text": "Lean 4 theorems over the broker model for every request history and authorizer: a publish or last will adds exactly one stored entry iff (ttl > 0 or retain) and the key has the store permission, with the requested ttl (retain = configured retention), under the publisher's contract and channel (stored_iff); an accepted subscription with load permission is sent exactly the last N stored matching messages (N from `last`, default 1, 0 none) before its SUBACK, and none without load permission (replay_exact). Tied to /repo by the differential broker run. At history level (Spec/Retained.lean, Lemmas/StoreHistory.lean): after every well-formed history the model's store is exactly the log of accepted, storable publishes and fired wills of the specification (store_history_refines / _exact), the packets before the SUBACK of an accepted subscribe are exactly Spec.replay of that log (replay_history_exact), and an unstorable publish leaves no trace (unstored_never_replayed).",
    "note": "Trusted: Lean kernel; harness; single-second sessions for the store order.",
    "technique": "Lean 4 proof (store/replay characterisation on the broker step function) + differential correspondence check model vs. real broker",
}


def nontrivial(r):
    return r["I"] not in ("-", "ok", "")


def case_key(r):
    return r["op"].split(" ", 2)[0] + "|" + r["I"]


def session(rng):
    s = Session(rng, mode=rng.choice(["emitter", "mqtt"]))
    s.key("KA", R | W | S | L)
    s.key("KN", R | W)                 # neither store nor load
    s.key("KS", R | W | S)             # store only
    s.key("KL", R | W | L)             # load only
    will = None
    for i in range(rng.choice([2, 3])):
        w = None
        if rng.randrange(3) == 0:
            w = (rng.choice(["KA", "KN", "KS"]), chan(rng) + rng.choice([b"", b"", b"?ttl=300", b"?ttl=0"]), b"will%d" % i, rng.randrange(2) == 1)
        s.conn("c%d" % (i + 1), will=w)
    n = 0
    for _ in range(rng.choice([10, 25, 40])):
        c = rng.choice(s.clients)
        r = rng.randrange(10)
        if r < 5:
            n += 1
            opts = rng.choice([b"", b"", b"?ttl=100", b"?ttl=0", b"?ttl=3600", b"?ttl=4294967296", b"?ttl=4294967396", b"?ttl=abc", b"?ttl=500&me=0"])
            s.pub(c, rng.choice(["KA", "KA", "KS", "KN", "KL"]), chan(rng), b"m%d" % n, opts=opts, retain=rng.randrange(3) == 0)
        elif r < 8:
            opts = rng.choice([b"", b"", b"?last=0", b"?last=1", b"?last=2", b"?last=5", b"?last=100000", b"?last=x", b"?last=3&ttl=5"])
            if rng.randrange(4) == 0:
                # from/until window around, before or after the session's second
                lo, hi = rng.choice([(-100000, 100000), (-200000, -100000), (100000, 200000), (-100000, None), (None, -100000), (None, 100000), (100000, None)])
                w = []
                if lo is not None:
                    w.append(b"from=%d" % (s.now + lo))
                if hi is not None:
                    w.append(b"until=%d" % (s.now + hi))
                opts = (opts + b"&" if opts else b"?") + b"&".join(w)
            ch = chan(rng, wild=rng.randrange(4) == 0)
            if rng.randrange(3) == 0:
                ch = ch.split(b"/")[0] + b"/"            # parent channel: nested messages replayed
            s.sub(c, rng.choice(["KA", "KA", "KL", "KN", "KS"]), ch, opts=opts)
        elif r == 8:
            s.unsub(c, "KA", chan(rng))
        elif len(s.clients) > 1:
            s.close(c)
    s.dump()
    return s.ops


def gen(rng, tier):
    ops = []
    for _ in range(budget(tier, 40, 1200)):
        ops += session(rng)
    return ops
